(** C03, part C4: the reverse iterator. *)
From Coq Require Import NArith List Bool Lia Arith.
From SV Require Import Model.StoreIter Proofs.ScanRecs Proofs.ScanSeg Proofs.ScanPos Proofs.ScanStore Proofs.ScanIter.
Import ListNotations.
Open Scope N_scope.

(** ** expected results, reverse: one group per key event at or before [p], newest first; the group
    of a key event is that event followed by the key's later events of the same transaction *)
Section RevExpect.
Variable k : skey.
Definition hle (p : N) (x : event * list event) : bool := key_pos k (fst x) <=? p.
Definition Erev (p : N) (log : alog) : list (list event) :=
  rev (map ucons (filter (hle p) (concat (map (ksufp k) log)))).
Definition ErevSeg (p : N) (X : list lgrp) : list (list event) :=
  rev (map ucons (filter (hle p) (KSP k X))).
Definition ErevAll (X : list lgrp) : list (list event) := rev (map ucons (KSP k X)).

Lemma Erev_app p a b : Erev p (a ++ b) = Erev p b ++ Erev p a.
Proof. unfold Erev. rewrite map_app, concat_app, filter_app, map_app, rev_app_distr. reflexivity. Qed.

Lemma Erev_concat p (ll : list alog) : Erev p (concat ll) = concat (map (Erev p) (rev ll)).
Proof.
  induction ll as [|a ll IH]; [reflexivity|]. cbn [concat rev]. rewrite Erev_app, IH, map_app, concat_app.
  cbn. rewrite app_nil_r. reflexivity.
Qed.

Lemma Erev_gevs p X : Erev p (map gevs X) = ErevSeg p X.
Proof. unfold Erev, ErevSeg, KSP, gevs. rewrite map_map. reflexivity. Qed.
End RevExpect.

Lemma firstn_S_nth {A} (d : A) : forall j l, (j < length l)%nat -> firstn (S j) l = firstn j l ++ [nth j l d].
Proof.
  induction j as [|j IH]; intros [|x l] H; cbn in H; try lia; [reflexivity|].
  cbn [firstn nth app]. f_equal. apply IH. lia.
Qed.

Lemma In_firstn {A} n (l : list A) x : In x (firstn n l) -> In x l.
Proof. intros H. rewrite <- (firstn_skipn n l). apply in_or_app. left. assumption. Qed.
Lemma In_skipn {A} n (l : list A) x : In x (skipn n l) -> In x l.
Proof. intros H. rewrite <- (firstn_skipn n l). apply in_or_app. right. assumption. Qed.

Lemma Forall_rev' {A} (P : A -> Prop) l : Forall P l -> Forall P (rev l).
Proof. intros H. apply Forall_forall. intros x Hx. apply in_rev in Hx. eapply Forall_forall in H; eauto. Qed.

Section RevIter.
Variables (s : store) (k : skey).
Hypothesis HS : Scannable s k.
Hypothesis HU : U64ok s k.
Notation lid := (live_id s).
Notation L := (Lat s).
Notation c := (cpos s k).
Notation cnt := (cnt s k).

Definition Erev_upto (hi : nat) (p : N) : list (list event) :=
  concat (map (ErevSeg k p) (rev (firstn hi (Ls s)))).
Definition Eearlier (j : nat) : list (list event) :=
  concat (map (ErevAll k) (rev (firstn j (Ls s)))).

Lemma firstn_S_Ls j : (j <= lid)%nat -> firstn (S j) (Ls s) = firstn j (Ls s) ++ [L j].
Proof. intros H. apply firstn_S_nth. rewrite Ls_length. unfold nsegs, live_id in *. lia. Qed.

Lemma Erev_upto_S j p : (j <= lid)%nat -> Erev_upto (S j) p = ErevSeg k p (L j) ++ Erev_upto j p.
Proof. intros H. unfold Erev_upto. rewrite (firstn_S_Ls j H), rev_app_distr. reflexivity. Qed.

Lemma Eearlier_S j : (j <= lid)%nat -> Eearlier (S j) = ErevAll k (L j) ++ Eearlier j.
Proof. intros H. unfold Eearlier. rewrite (firstn_S_Ls j H), rev_app_distr. reflexivity. Qed.

Lemma Erev_visible p : Erev k p (abs_visible s) = Erev_upto (S lid) p.
Proof.
  rewrite (abs_visible_Ls s), Erev_concat. unfold Erev_upto.
  rewrite firstn_all2 by (rewrite Ls_length; unfold nsegs, live_id; lia).
  rewrite <- map_rev, map_map. f_equal. apply map_ext. intros X. apply Erev_gevs.
Qed.

(** *** per segment *)
Lemma KSP_facts i : (i <= lid)%nat ->
  posincr k fst (c i) (KSP k (L i)) /\ kcount k fst (KSP k (L i)) = cnt i /\ length (KSP k (L i)) = cnt i.
Proof.
  intros Hi. destruct (KSP_posincr k _ _ (seg_pos_fact s k HS i Hi)) as [H1 H2].
  split; [assumption|]. split; [exact H2|]. unfold ScanStore.cnt. rewrite <- H2. unfold kcount.
  rewrite (filter_all _ _ (KSP_all k (L i))). reflexivity.
Qed.

Lemma KSP_bounds i x e : (i <= lid)%nat -> In x (KSP k (L i)) -> In e (ucons x) ->
  c i <= key_pos k e /\ key_pos k e < c (S i).
Proof.
  intros Hi Hx He. destruct (KSP_in k _ _ Hx e He) as (oe & Hoe & <- & Hm).
  apply (seg_bounds s k HS i oe Hi Hoe Hm).
Qed.

Lemma ErevSeg_cut i p : (i <= lid)%nat ->
  ErevSeg k p (L i) = rev (map ucons (firstn (count_le p (c i) (cnt i)) (KSP k (L i)))).
Proof.
  intros Hi. destruct (KSP_facts i Hi) as (Hp & Hc & _). unfold ErevSeg. do 2 f_equal.
  transitivity (filter (qle k fst p) (KSP k (L i))).
  - apply filter_ext_in. intros x Hx. unfold qle, hle.
    pose proof (KSP_all k (L i)) as Hall. eapply Forall_forall in Hall; [|exact Hx]. rewrite Hall. reflexivity.
  - rewrite (posincr_filter_le k fst _ _ p Hp), Hc. rewrite (filter_all _ _ (KSP_all k (L i))). reflexivity.
Qed.

Lemma ErevSeg_all i p : (i <= lid)%nat -> c (S i) <= p + 1 -> ErevSeg k p (L i) = ErevAll k (L i).
Proof.
  intros Hi Hp. rewrite ErevSeg_cut by assumption. unfold ErevAll. do 2 f_equal.
  apply firstn_all2. destruct (KSP_facts i Hi) as (_ & _ & ->). rewrite cpos_S in Hp by assumption.
  unfold count_le. destruct (N.ltb_spec p (c i)); [lia|].
  destruct (N.leb_spec (N.of_nat (cnt i)) (p - c i)); lia.
Qed.

Lemma ErevSeg_none i p : (i <= lid)%nat -> cnt i = 0%nat \/ p < c i -> ErevSeg k p (L i) = [].
Proof.
  intros Hi H. rewrite ErevSeg_cut by assumption. destruct H as [Hz|Hlt].
  - destruct (KSP_facts i Hi) as (_ & _ & Hl). rewrite Hz in Hl.
    destruct (KSP k (L i)); [|discriminate]. rewrite firstn_nil. reflexivity.
  - unfold count_le. destruct (N.ltb_spec p (c i)); [reflexivity|lia].
Qed.

Lemma Erev_upto_all j p : (j <= S lid)%nat -> c j <= p + 1 -> Erev_upto j p = Eearlier j.
Proof.
  induction j as [|j IH]; intros Hj Hp; [reflexivity|].
  rewrite Erev_upto_S, Eearlier_S by lia. rewrite ErevSeg_all by (auto; lia). f_equal. apply IH; [lia|].
  pose proof (cpos_mono s k j (S j) ltac:(lia) ltac:(lia)). lia.
Qed.

(* segments above j (below hi) contribute nothing *)
Lemma Erev_upto_skip p j : forall hi, (j <= hi <= S lid)%nat ->
  (forall i, (j <= i < hi)%nat -> cnt i = 0%nat \/ p < c i) -> Erev_upto hi p = Erev_upto j p.
Proof.
  induction hi as [|hi IH]; intros Hh H.
  - replace j with 0%nat by lia. reflexivity.
  - destruct (Nat.eq_dec j (S hi)) as [->|Hne]; [reflexivity|].
    rewrite Erev_upto_S by lia. rewrite ErevSeg_none by (try lia; apply H; lia). cbn [app].
    apply IH; [lia|]. intros i Hi. apply H. lia.
Qed.

(** *** the iterator state *)
Record RevState (it : biter) (i idx : nat) : Prop := {
  rs_seg : b_seg it = Some (mkSI i (rev (koffs k (L i))) idx);
  rs_idx : (idx <= cnt i)%nat;
  rs_i : (i <= lid)%nat;
  rs_live : b_live it = Nat.eqb i lid;
  rs_next : b_next it = Nat.ltb 0 i;
  rs_done : idx = cnt i -> c i <= b_last it + 1
}.
Definition Erest (i idx : nat) : list (list event) :=
  skipn idx (rev (map ucons (KSP k (L i)))) ++ Eearlier i.

Lemma lastp_rev i (evss : list (list event)) d : (i <= lid)%nat -> evss <> [] ->
  (forall l, In l evss -> exists x, In x (KSP k (L i)) /\ l = ucons x) ->
  c i <= lastp_of k Rev evss d + 1.
Proof.
  intros Hi Hne Hall. unfold lastp_of. destruct (rev evss) as [|l rr] eqn:Hr.
  - apply (f_equal (@rev _)) in Hr. rewrite rev_involutive in Hr. cbn in Hr. congruence.
  - assert (Hl : In l evss) by (apply in_rev; rewrite Hr; left; reflexivity).
    destruct (Hall l Hl) as (x & Hx & ->). destruct (rev (ucons x)) as [|e r'] eqn:Hre.
    + apply (f_equal (@rev _)) in Hre. rewrite rev_involutive in Hre. discriminate.
    + assert (He : In e (ucons x)) by (apply in_rev; rewrite Hre; left; reflexivity).
      destruct (KSP_bounds i x e Hi Hx He) as [Hb _]. lia.
Qed.

Lemma rev_step it i idx limit f : RevState it i idx -> (idx < cnt i)%nat -> (1 <= limit)%nat ->
  exists cs it' n, next_batch s k Rev limit it (S f) = BBatch cs it' /\ (1 <= n <= limit)%nat /\
    length cs = n /\ map committed_events cs = firstn n (Erest i idx) /\
    RevState it' i (idx + n) /\ Erest i (idx + n) = skipn n (Erest i idx).
Proof.
  intros [Hseg Hidx Hi Hlive Hnext Hdone] Hlt Hlim.
  pose proof (seg_layout_fact s k HS i Hi) as Hok.
  destruct (kreads_ok k (seg_recs s i) (L i) 0%nat Hok) as (Hpo & Hkeep & Hcev).
  destruct (KSP_facts i Hi) as (_ & _ & HlenK).
  set (KR := kreads k (L i)) in *.
  assert (HlenKR : length KR = cnt i).
  { rewrite <- (map_length fst). unfold KR. rewrite kreads_fst. apply koffs_length. }
  set (P := skipn idx (rev KR)).
  assert (HfstP : map fst P = skipn idx (rev (koffs k (L i)))).
  { unfold P. rewrite <- skipn_map, map_rev. unfold KR. rewrite kreads_fst. reflexivity. }
  assert (HlenP : length P = (cnt i - idx)%nat) by (unfold P; rewrite skipn_length, rev_length; lia).
  assert (HPok : Forall (pair_ok (seg_recs s i)) P) by (apply Forall_skipn', Forall_rev'; assumption).
  assert (HPkeep : Forall (fun oc => keeps k (snd oc)) P) by (apply Forall_skipn', Forall_rev'; assumption).
  assert (Hdesc : desc (map fst P)).
  { rewrite HfstP. apply desc_skipn. apply (incr_desc_rev _ 0%nat). unfold koffs.
    apply incr_filter. apply Hok. }
  pose proof (seg_next_rev (seg_recs s i) P limit (length (map fst P)) HPok Hdesc Hlim
                ltac:(rewrite map_length; lia)) as Hsn.
  set (n := length (firstn limit P)) in *.
  assert (Hn : (1 <= n <= limit)%nat) by (unfold n; rewrite firstn_length; lia).
  assert (Hn2 : (n <= cnt i - idx)%nat) by (unfold n; rewrite firstn_length; lia).
  set (cs := map snd (firstn limit P)) in *.
  assert (Hcs : map committed_events (filter_map (filter_commit k) cs)
                = firstn limit (skipn idx (rev (map ucons (KSP k (L i)))))).
  { rewrite filter_map_keeps.
    - unfold cs. rewrite map_map. rewrite <- firstn_map. unfold P. rewrite <- skipn_map, map_rev.
      rewrite Hcev. reflexivity.
    - unfold cs. apply Forall_forall. intros x Hx. apply in_map_iff in Hx. destruct Hx as (oc & <- & Hoc).
      eapply Forall_forall in HPkeep; [exact HPkeep|]. eapply In_firstn; eauto. }
  set (Y := skipn idx (rev (map ucons (KSP k (L i))))) in *.
  assert (HlenY : length Y = (cnt i - idx)%nat) by (unfold Y; rewrite skipn_length, rev_length, map_length; lia).
  assert (HnY : n = length (firstn limit Y)) by (unfold n; rewrite !firstn_length; lia).
  assert (Hcs_ne : filter_map (filter_commit k) cs <> []).
  { intros Heq. rewrite Heq in Hcs. cbn in Hcs. apply (f_equal (@length _)) in Hcs. cbn in Hcs. lia. }
  pose (si := mkSI i (rev (koffs k (L i))) idx).
  pose proof (next_batch_some s k Rev limit it f si cs n Hseg) as Hnb.
  cbn [si si_idx si_offs si_seg] in Hnb. rewrite <- HfstP in Hnb.
  specialize (Hnb ltac:(intros Heq; apply (f_equal (@length _)) in Heq; rewrite map_length in Heq; cbn in Heq; lia) Hsn Hcs_ne).
  eexists; eexists; exists n. split; [exact Hnb|]. split; [exact Hn|].
  assert (Hfirst : firstn n (Erest i idx) = firstn limit Y).
  { unfold Erest. fold Y. rewrite <- (firstn_skipn limit Y) at 1. rewrite <- app_assoc.
    apply firstn_app_exact. symmetry. exact HnY. }
  split.
  { apply (f_equal (@length _)) in Hcs. rewrite map_length in Hcs. rewrite Hcs. symmetry. exact HnY. }
  split; [rewrite Hfirst; exact Hcs|]. split.
  - constructor; cbn [b_seg b_last b_live b_next]; auto; [lia|].
    intros _. rewrite Hcs. apply lastp_rev; auto.
    + intros Heq. apply (f_equal (@length _)) in Heq. cbn in Heq. lia.
    + intros l Hl. apply In_firstn in Hl. unfold Y in Hl. apply In_skipn in Hl. apply in_rev in Hl.
      apply in_map_iff in Hl. destruct Hl as (x & <- & Hx). exists x. auto.
  - unfold Erest. fold Y. rewrite <- skipn_skipn'. fold Y. rewrite skipn_app.
    replace (n - length Y)%nat with 0%nat by lia. reflexivity.
Qed.

(** *** entering a segment at position [p], reverse *)
Lemma rev_idx p c0 n : c0 <= p -> (1 <= n)%nat -> c0 + N.of_nat n <= U64MAX + 1 ->
  let oi := offsets_index Rev p c0 n in
  (if Nat.ltb oi n then (n - 1 - oi)%nat else 0%nat) = (n - count_le p c0 n)%nat /\ (1 <= count_le p c0 n <= n)%nat.
Proof.
  intros Hc Hn Hu. unfold offsets_index, count_le, clamp_sub.
  destruct (N.ltb_spec p c0); [lia|].
  destruct (N.eqb_spec p U64MAX) as [->|Hne].
  - rewrite Nat.ltb_irrefl. destruct (N.leb_spec (N.of_nat n) (U64MAX - c0)); lia.
  - destruct (N.leb_spec (N.of_nat n) (p - c0)).
    + rewrite Nat.ltb_irrefl. lia.
    + destruct (Nat.ltb_spec (N.to_nat (p - c0)) n); lia.
Qed.

Lemma seg_u64_bound j : (j <= lid)%nat -> cnt j <> 0%nat -> c j + N.of_nat (cnt j) <= U64MAX + 1.
Proof.
  intros Hj Hnz. pose proof (seg_pos_fact s k HS j Hj) as Hp.
  destruct (rev (filter (mt k snd) (lay_events (L j)))) as [|x r] eqn:Hr.
  - apply (f_equal (@rev _)) in Hr. rewrite rev_involutive in Hr. cbn in Hr.
    unfold ScanStore.cnt, kcount in Hnz. rewrite Hr in Hnz. cbn in Hnz. congruence.
  - pose proof (posincr_last k snd _ _ _ _ Hp Hr) as Hl. fold (cnt j) in Hl.
    assert (Hin : In x (filter (mt k snd) (lay_events (L j)))) by (apply in_rev; rewrite Hr; left; reflexivity).
    apply filter_In in Hin. destruct Hin as [Hin Hm].
    pose proof (seg_u64_fact s k j x HU Hj Hin Hm). lia.
Qed.

Lemma rev_firstn_skipn {A} (l : list A) m : (m <= length l)%nat -> rev (firstn m l) = skipn (length l - m) (rev l).
Proof.
  intros Hm. rewrite <- (firstn_skipn m l) at 3. rewrite rev_app_distr.
  rewrite skipn_app_exact; [reflexivity|]. rewrite rev_length, skipn_length. reflexivity.
Qed.

Lemma rev_enter j p : (j <= lid)%nat -> cnt j <> 0%nat -> c j <= p ->
  exists idx, segiter_new j (koffs k (L j)) (offsets_index Rev p (c j) (cnt j)) Rev
              = mkSI j (rev (koffs k (L j))) idx /\
    (idx < cnt j)%nat /\ skipn idx (rev (map ucons (KSP k (L j)))) = ErevSeg k p (L j).
Proof.
  intros Hj Hnz Hp. unfold segiter_new. rewrite koffs_length.
  destruct (rev_idx p (c j) (cnt j) Hp ltac:(lia) (seg_u64_bound j Hj Hnz)) as [Hidx Hm].
  eexists. split; [reflexivity|]. rewrite Hidx. split; [lia|].
  rewrite ErevSeg_cut by assumption. rewrite <- firstn_map, rev_firstn_skipn.
  - rewrite map_length. destruct (KSP_facts j Hj) as (_ & _ & ->). reflexivity.
  - rewrite map_length. destruct (KSP_facts j Hj) as (_ & _ & ->). lia.
Qed.

Definition rev_hi (n0 : nat) : nat := Nat.min (S n0) (S lid).

Lemma rev_closed n0 p : ((lid <= n0)%nat -> cnt lid = 0%nat \/ p < c lid) ->
  match closed_search s k p Rev n0 (nsegs s) with
  | Some (i, offs, oi) =>
      exists idx, segiter_new i offs oi Rev = mkSI i (rev (koffs k (L i))) idx /\
        (i < lid)%nat /\ (i < rev_hi n0)%nat /\ (idx < cnt i)%nat /\ Erest i idx = Erev_upto (rev_hi n0) p
  | None => Erev_upto (rev_hi n0) p = []
  end.
Proof.
  intros Hlive. pose proof (closed_search_spec s k p Rev n0 (nsegs s)) as Hcs.
  assert (Hsealed : forall j, (j < lid)%nat -> try_closed s k p Rev j = None -> cnt j = 0%nat \/ p < c j).
  { intros j Hj H. rewrite try_closed_spec in H by (auto; lia).
    destruct (Nat.eqb (cnt j) 0 || negb (c j <=? p)) eqn:Hcj; [|discriminate].
    apply orb_prop in Hcj. destruct Hcj as [Hz|Hz]; [left; apply Nat.eqb_eq; assumption|].
    right. apply negb_true_iff, N.leb_gt in Hz. assumption. }
  destruct (closed_search s k p Rev n0 (nsegs s)) as [[[i offs] oi]|].
  - destruct Hcs as (Hi & Hsk & Htc & Hafter).
    destruct (Nat.lt_ge_cases i lid) as [Hlt|Hge]; [|rewrite try_closed_none in Htc by assumption; discriminate].
    rewrite try_closed_spec in Htc by (auto; lia).
    destruct (Nat.eqb (cnt i) 0 || negb (c i <=? p)) eqn:Hcond; [discriminate|].
    inversion Htc; subst offs oi. clear Htc.
    apply orb_false_elim in Hcond. destruct Hcond as [Hcnt Hci].
    apply Nat.eqb_neq in Hcnt. apply negb_false_iff, N.leb_le in Hci.
    cbn [skipf] in Hsk. apply Nat.ltb_ge in Hsk.
    destruct (rev_enter i p ltac:(lia) Hcnt Hci) as (idx & Hsi & Hidx & HE).
    exists idx. split; [exact Hsi|]. split; [assumption|]. unfold rev_hi. split; [lia|]. split; [assumption|].
    unfold Erest. rewrite HE.
    rewrite (Erev_upto_skip p (S i) (Nat.min (S n0) (S lid))); [| lia |].
    + rewrite Erev_upto_S by lia. f_equal. symmetry. apply Erev_upto_all; lia.
    + intros j Hj. destruct (Nat.eq_dec j lid) as [->|Hne]; [apply Hlive; lia|].
      destruct (Hafter j) as [H|H]; [unfold nsegs; fold lid; lia| |].
      * cbn [skipf] in H. apply Nat.ltb_lt in H. lia.
      * apply Hsealed; [lia|assumption].
  - unfold rev_hi. rewrite (Erev_upto_skip p 0%nat (Nat.min (S n0) (S lid))); [reflexivity|lia|].
    intros j Hj. destruct (Nat.eq_dec j lid) as [->|Hne]; [apply Hlive; lia|].
    destruct (Hcs j) as [H|H]; [unfold nsegs; fold lid; lia| |].
    + cbn [skipf] in H. apply Nat.ltb_lt in H. lia.
    + apply Hsealed; [lia|assumption].
Qed.

Lemma new_inner_rev n0 p :
  let it := new_inner s k p Rev n0 true in
  (b_seg it = None /\ Erev_upto (rev_hi n0) p = []) \/
  (exists j idx, (j < rev_hi n0)%nat /\ RevState it j idx /\ (idx < cnt j)%nat /\
                 Erest j idx = Erev_upto (rev_hi n0) p).
Proof.
  cbv zeta. unfold new_inner. cbn [negb].
  assert (Hclosed : forall (Hlive : (lid <= n0)%nat -> cnt lid = 0%nat \/ p < c lid) bl0,
    let it := match closed_search s k p Rev n0 (nsegs s) with
              | Some (i, offs, oi) => mkBI (Some (segiter_new i offs oi Rev)) p false (Nat.ltb 0 i)
              | None => bl0 end in
    b_seg bl0 = None ->
    (b_seg it = None /\ Erev_upto (rev_hi n0) p = []) \/
    (exists j idx, (j < rev_hi n0)%nat /\ RevState it j idx /\ (idx < cnt j)%nat /\
                   Erest j idx = Erev_upto (rev_hi n0) p)).
  { intros Hlive bl0 it Hbl0. subst it. pose proof (rev_closed n0 p Hlive) as Hrc.
    destruct (closed_search s k p Rev n0 (nsegs s)) as [[[i offs] oi]|].
    - destruct Hrc as (idx & Hsi & Hlt & Hhi & Hidx & HE). right. exists i, idx.
      split; [assumption|]. split; [|split; assumption].
      constructor; cbn [b_seg b_last b_live b_next]; auto; try lia.
      + rewrite Hsi. reflexivity.
      + symmetry. apply Nat.eqb_neq. lia.
    - left. split; assumption. }
  destruct (Nat.leb_spec lid n0) as [Hle|Hgt].
  - rewrite (try_live_spec s k HS). destruct (Nat.eqb (cnt lid) 0 || (p <? c lid)) eqn:Htl.
    + apply Hclosed; [|reflexivity]. intros _.
      apply orb_prop in Htl. destruct Htl as [H|H]; [left; apply Nat.eqb_eq; assumption|right; apply N.ltb_lt; assumption].
    + apply orb_false_elim in Htl. destruct Htl as [Hcnt Hcl]. apply Nat.eqb_neq in Hcnt. apply N.ltb_ge in Hcl.
      destruct (rev_enter lid p (le_n _) Hcnt Hcl) as (idx & Hsi & Hidx & HE).
      right. exists lid, idx. unfold rev_hi. split; [lia|]. split; [|split; [assumption|]].
      * constructor; cbn [b_seg b_last b_live b_next]; auto; try lia.
        -- rewrite Hsi. reflexivity.
        -- symmetry. apply Nat.eqb_refl.
      * unfold Erest. rewrite HE. replace (Nat.min (S n0) (S lid)) with (S lid) by lia.
        rewrite Erev_upto_S by lia. f_equal. symmetry. apply Erev_upto_all; lia.
  - apply Hclosed; [lia|reflexivity].
Qed.

(** *** one call of [next_batch], reverse *)
Definition rev_result (limit : nat) (E : list (list event)) (r : batch_result) : Prop :=
  (E = [] /\ r = BDone) \/
  (exists cs it' j idx' n, r = BBatch cs it' /\ (1 <= n <= limit)%nat /\ length cs = n /\
     map committed_events cs = firstn n E /\ RevState it' j idx' /\ Erest j idx' = skipn n E).

Lemma Erest_done i : (i <= lid)%nat -> Erest i (cnt i) = Eearlier i.
Proof.
  intros Hi. unfold Erest. rewrite skipn_all2; [reflexivity|].
  rewrite rev_length, map_length. destruct (KSP_facts i Hi) as (_ & _ & ->). lia.
Qed.

Lemma rev_batch limit : (1 <= limit)%nat -> forall m it i idx fuel,
  (i <= m)%nat -> (m + 2 <= fuel)%nat -> RevState it i idx ->
  rev_result limit (Erest i idx) (next_batch s k Rev limit it fuel).
Proof.
  intros Hlim. induction m as [|m IH]; intros it i idx fuel Hm Hfuel Hst;
    (destruct fuel as [|f]; [lia|]);
    (destruct (Nat.lt_ge_cases idx (cnt i)) as [Hlt|Hge];
     [destruct (rev_step it i idx limit f Hst Hlt Hlim) as (cs & it' & n & Hnb & Hn & Hlen & Hcs & Hst' & HE);
      right; exists cs, it', i, (idx + n)%nat, n; auto 10|]);
    pose proof Hst as [Hseg Hidx Hi Hlive Hnext Hdone];
    (assert (idx = cnt i) by lia; subst idx);
    rewrite (Erest_done i Hi);
    (assert (Hrem : skipn (cnt i) (rev (koffs k (L i))) = [])
       by (apply skipn_all2; rewrite rev_length, koffs_length; auto));
    rewrite (next_batch_empty s k Rev limit it f (mkSI i (rev (koffs k (L i))) (cnt i)) Hseg Hrem);
    cbn [si_seg].
  - assert (i = 0%nat) by lia. subst i. left. split; [reflexivity|].
    destruct (b_live it && negb (b_next it)); reflexivity.
  - destruct i as [|i'].
    + left. split; [reflexivity|]. destruct (b_live it && negb (b_next it)); reflexivity.
    + rewrite Hlive, Hnext. replace (Nat.ltb 0 (S i')) with true by reflexivity.
      rewrite andb_false_r. replace (S i' - 1)%nat with i' by lia.
      assert (Hhi : rev_hi i' = S i') by (unfold rev_hi; lia).
      assert (HE : Erev_upto (S i') (b_last it) = Eearlier (S i')) by (apply Erev_upto_all; [lia|auto]).
      destruct (new_inner_rev i' (b_last it)) as [[Hnone HE0]|(j & idx2 & Hj & Hst2 & Hidx2 & HE2)].
      * destruct f as [|f']; [lia|]. rewrite next_batch_none by assumption. left.
        rewrite <- HE, <- Hhi. split; [assumption|reflexivity].
      * rewrite Hhi in *. rewrite <- HE, <- HE2. apply IH; [lia|lia|assumption].
Qed.

(** *** the whole reverse scan *)
Lemma rev_scan_loop limit : (1 <= limit)%nat -> forall fuel it i idx, RevState it i idx ->
  (length (Erest i idx) < fuel)%nat ->
  exists batches, scan_loop s k Rev limit it fuel = Some batches /\
    map committed_events (concat batches) = Erest i idx /\
    Forall (fun b => 1 <= length b <= limit)%nat batches.
Proof.
  intros Hlim. induction fuel as [|f IH]; intros it i idx Hst Hlen; [lia|].
  cbn [scan_loop].
  pose proof (rev_batch limit Hlim lid it i idx
     (S (S (nsegs s + length (concat (map (fun g => s_recs g) (sealed s))) + length (s_recs (live s)))))
     (rs_i _ _ _ Hst) ltac:(unfold nsegs; fold lid; lia) Hst) as Hr.
  destruct Hr as [[HE ->]|(cs & it' & j & idx' & n & -> & Hn & Hcsn & Hcs & Hst' & HE')].
  - exists []. rewrite HE. repeat split; constructor.
  - destruct (IH it' j idx' Hst') as (r & Hr & Hev & Hall).
    { rewrite HE', skipn_length. pose proof (f_equal (@length _) Hcs) as Hl.
      rewrite map_length, firstn_length in Hl. lia. }
    rewrite Hr. exists (cs :: r). split; [reflexivity|]. split.
    + cbn [concat]. rewrite map_app, Hcs, Hev, HE'. apply firstn_skipn.
    + constructor; [lia|assumption].
Qed.

Lemma wf_events_length recs gs : wf_recs recs gs -> (length (concat gs) <= length recs)%nat.
Proof.
  induction 1 as [|g es r gs Hg Hr IH]; [cbn; lia|]. cbn [concat]. rewrite !app_length.
  destruct (wf_group_size _ _ Hg) as [Hl _]. pose proof (gsize_ge es). lia.
Qed.

Lemma visible_events_length : (length (all_events (abs_visible s)) <= total_recs s)%nat.
Proof.
  unfold all_events, abs_visible, total_recs. rewrite concat_app, app_length. apply Nat.add_le_mono.
  - pose proof (sc_sealed _ _ HS) as HF. induction HF as [|g l [[gs Hwf] _] _ IH]; [cbn; lia|].
    cbn [map concat]. rewrite concat_app, !app_length. rewrite (wf_groups _ _ Hwf).
    pose proof (wf_events_length _ _ Hwf). lia.
  - destruct (sc_live _ _ HS) as [[gs Hwf] _]. fold (pubrecs s). rewrite (wf_groups _ _ Hwf).
    pose proof (wf_events_length _ _ Hwf). unfold pubrecs in *. rewrite firstn_length in *. lia.
Qed.

Lemma ksufp_length es : (length (ksufp k es) <= length es)%nat.
Proof. induction es as [|e es IH]; [cbn; lia|]. cbn. destruct (matches k e); cbn; lia. Qed.

Lemma Erev_length p log : (length (Erev k p log) <= length (all_events log))%nat.
Proof.
  unfold Erev, all_events. rewrite rev_length, map_length.
  etransitivity; [|instantiate (1 := length (concat (map (ksufp k) log)))].
  - clear. induction (concat (map (ksufp k) log)) as [|x l IH]; [cbn; lia|]. cbn. destruct (hle k p x); cbn; lia.
  - induction log as [|g log IH]; [cbn; lia|]. cbn. rewrite !app_length. pose proof (ksufp_length g). lia.
Qed.

Theorem scan_rev from limit : limit <> 0%nat ->
  exists batches, scan s k from Rev limit = Some batches /\
    map committed_events (concat batches) = Erev k from (abs_visible s) /\
    Forall (fun b => 1 <= length b <= limit)%nat batches.
Proof.
  intros Hlim. unfold scan. replace (Nat.eqb limit 0) with false by (symmetry; apply Nat.eqb_neq; assumption).
  unfold iter_new. rewrite Erev_visible.
  assert (Hhi : rev_hi (nsegs s) = S lid) by (unfold rev_hi, nsegs; fold lid; lia).
  destruct (new_inner_rev (nsegs s) from) as [[Hnone HE]|(j & idx & _ & Hst & _ & HE)]; rewrite Hhi in HE.
  - cbn [scan_loop]. rewrite next_batch_none by assumption. exists []. rewrite HE. repeat split; constructor.
  - rewrite <- HE. apply rev_scan_loop; [lia|assumption|].
    rewrite HE, <- Erev_visible. pose proof (Erev_length from (abs_visible s)). pose proof visible_events_length.
    unfold total_recs in *. lia.
Qed.
End RevIter.
