(** Proofs about Model/Watermark.v (C08). *)
From Coq Require Import NArith Arith PeanoNat List Bool Lia Permutation.
From SV Require Import Model.Watermark.
Import ListNotations.
Open Scope N_scope.

(** ---- the map ---------------------------------------------------------------------------------------- *)
Lemma wm_get_set m k c k' : wm_get (wm_set m k c) k' = if k' =? k then Some c else wm_get m k'.
Proof.
  induction m as [|[a b] t IH]; cbn [wm_set wm_get].
  - destruct (k' =? k); reflexivity.
  - destruct (k <? a) eqn:E1; [|destruct (k =? a) eqn:E2]; cbn [wm_get].
    + destruct (k' =? k); reflexivity.
    + apply N.eqb_eq in E2; subst a. destruct (k' =? k); reflexivity.
    + rewrite IH. destruct (k' =? a) eqn:E3; [|reflexivity].
      apply N.eqb_eq in E3; subst a. apply N.eqb_neq in E2.
      destruct (k' =? k) eqn:E4; [apply N.eqb_eq in E4; congruence|reflexivity].
Qed.

Lemma wm_get_retain m w k : wm_get (wm_retain_gt m w) k = if w <? k then wm_get m k else None.
Proof.
  unfold wm_retain_gt. induction m as [|[a b] t IH]; cbn [filter wm_get fst].
  - destruct (w <? k); reflexivity.
  - destruct (w <? a) eqn:E1; cbn [wm_get]; destruct (k =? a) eqn:E2.
    + apply N.eqb_eq in E2; subst a. rewrite E1. reflexivity.
    + exact IH.
    + apply N.eqb_eq in E2; subst a. rewrite E1. rewrite IH, E1. reflexivity.
    + exact IH.
Qed.

Lemma wm_get_in m k c : wm_get m k = Some c -> In (k, c) m.
Proof.
  induction m as [|[a b] t IH]; cbn [wm_get]; [discriminate|].
  destruct (k =? a) eqn:E; intros H.
  - apply N.eqb_eq in E; subst a. injection H as ->. left; reflexivity.
  - right; auto.
Qed.

(** number of keys above w: the variant of the scan loop *)
Definition wm_above (m : wm_map) (w : N) : nat := length (filter (fun kc => w <? fst kc) m).

Lemma wm_above_le_length m w : (wm_above m w <= length m)%nat.
Proof.
  unfold wm_above. induction m as [|a t IH]; cbn [filter length]; [lia|].
  destruct (w <? fst a); cbn [length]; lia.
Qed.

Lemma wm_above_step m w c : wm_get m (w + 1) = Some c -> (wm_above m (w + 1) < wm_above m w)%nat.
Proof.
  unfold wm_above. induction m as [|[a b] t IH]; cbn [wm_get filter fst]; [discriminate|].
  destruct (w + 1 =? a) eqn:E; intros H.
  - apply N.eqb_eq in E; subst a.
    replace (w + 1 <? w + 1) with false by (symmetry; apply N.ltb_ge; lia).
    replace (w <? w + 1) with true by (symmetry; apply N.ltb_lt; lia). cbn [length].
    clear. induction t as [|[a b] t IH]; cbn [filter fst length]; [lia|].
    destruct (w + 1 <? a) eqn:E1.
    + replace (w <? a) with true by (symmetry; apply N.ltb_lt; apply N.ltb_lt in E1; lia). cbn [length]. lia.
    + destruct (w <? a); cbn [length]; lia.
  - specialize (IH H). destruct (w + 1 <? a) eqn:E1.
    + replace (w <? a) with true by (symmetry; apply N.ltb_lt; apply N.ltb_lt in E1; lia). cbn [length]. lia.
    + destruct (w <? a); cbn [length]; lia.
Qed.

(** ---- the scan ----------------------------------------------------------------------------------------- *)
Definition wm_good (m : wm_map) (q i : N) : Prop := exists c, wm_get m i = Some c /\ q <= c.

Lemma wm_scan_ge m q w f : w <= wm_scan m q w f.
Proof.
  revert w; induction f as [|f IH]; intros w; cbn [wm_scan]; [lia|].
  destruct (wm_get m (w + 1)) as [c|]; [|lia].
  destruct (q <=? c); [|lia]. specialize (IH (w + 1)). lia.
Qed.

Lemma wm_scan_good m q w f i : w < i -> i <= wm_scan m q w f -> wm_good m q i.
Proof.
  revert w; induction f as [|f IH]; intros w Hlo Hhi; cbn [wm_scan] in Hhi; [lia|].
  destruct (wm_get m (w + 1)) as [c|] eqn:G; [|lia].
  destruct (q <=? c) eqn:Q; [|lia].
  destruct (N.eq_dec i (w + 1)) as [->|Hne].
  - exists c. split; [assumption|apply N.leb_le; assumption].
  - apply (IH (w + 1)); [lia|assumption].
Qed.

Lemma wm_scan_stops m q w f : (wm_above m w <= f)%nat -> ~ wm_good m q (wm_scan m q w f + 1).
Proof.
  revert w; induction f as [|f IH]; intros w Hf; cbn [wm_scan].
  - intros [c [G _]]. pose proof (wm_above_step m w c G). lia.
  - destruct (wm_get m (w + 1)) as [c|] eqn:G.
    + destruct (q <=? c) eqn:Q.
      * apply IH. pose proof (wm_above_step m w c G). lia.
      * intros [c' [G' Q']]. rewrite G in G'. injection G' as <-. apply N.leb_gt in Q. lia.
    + intros [c' [G' _]]. rewrite G in G'. discriminate.
Qed.

Lemma wm_scan_first m q w f c : wm_get m (w + 1) = Some c -> q <= c -> (1 <= f)%nat -> w + 1 <= wm_scan m q w f.
Proof.
  intros G Q Hf. destruct f as [|f]; [lia|]. cbn [wm_scan]. rewrite G.
  replace (q <=? c) with true by (symmetry; apply N.leb_le; assumption). apply wm_scan_ge.
Qed.

(** ---- one update ----------------------------------------------------------------------------------------- *)
Lemma wm_update_mono md rf s v c : wm_mark s <= wm_mark (fst (wm_update_gen md rf s v c)).
Proof.
  unfold wm_update_gen. destruct (v <=? wm_mark s); cbn [fst wm_mark]; [lia|].
  match goal with |- context [?a <? ?b] => destruct (a <? b) eqn:E end; cbn [fst wm_mark]; [|lia].
  apply N.ltb_lt in E. lia.
Qed.

Lemma wm_run_app md rf a b : wm_run_gen md rf (a ++ b) = fold_left (wm_step_gen md rf) b (wm_run_gen md rf a).
Proof. unfold wm_run_gen. apply fold_left_app. Qed.

Lemma wm_fold_mono md rf rs s : wm_mark s <= wm_mark (fold_left (wm_step_gen md rf) rs s).
Proof.
  revert s; induction rs as [|r rs IH]; intros s; cbn [fold_left]; [lia|].
  specialize (IH (wm_step_gen md rf s r)).
  assert (wm_mark s <= wm_mark (wm_step_gen md rf s r)) by (unfold wm_step_gen; apply wm_update_mono). lia.
Qed.

(** ---- best reported count ---------------------------------------------------------------------------- *)
Lemma wm_best_app a b v : wm_best (a ++ b) v = N.max (wm_best a v) (wm_best b v).
Proof.
  unfold wm_best. induction a as [|r a IH]; cbn [app fold_right]; [lia|].
  rewrite IH. destruct (fst r =? v); lia.
Qed.

Lemma wm_best_single v c v' : wm_best [(v, c)] v' = if v =? v' then c else 0.
Proof. unfold wm_best; cbn. destruct (v =? v'); lia. Qed.

Lemma wm_best_ge_iff rs v k : k <= wm_best rs v <-> k = 0 \/ exists c, In (v, c) rs /\ k <= c.
Proof.
  unfold wm_best. induction rs as [|[a b] t IH]; cbn [fold_right fst snd In].
  - split; [intros; left; lia|intros [->|[c [[] _]]]; lia].
  - destruct (a =? v) eqn:E.
    + apply N.eqb_eq in E; subst a. split.
      * intros H. destruct (N.le_gt_cases k b) as [Hb|Hb].
        -- right. exists b. split; [left; reflexivity|assumption].
        -- assert (k <= fold_right (fun r acc => if fst r =? v then N.max (snd r) acc else acc) 0 t) as H1 by lia.
           apply IH in H1. destruct H1 as [->|[c [Hin Hc]]]; [left; reflexivity|].
           right. exists c. split; [right; assumption|assumption].
      * intros [->|[c [[Heq|Hin] Hc]]]; [lia| |].
        -- injection Heq as <-. lia.
        -- assert (k <= fold_right (fun r acc => if fst r =? v then N.max (snd r) acc else acc) 0 t) as H1
             by (apply IH; right; exists c; split; assumption). lia.
    + apply N.eqb_neq in E. rewrite IH. split.
      * intros [->|[c [Hin Hc]]]; [left; reflexivity|right; exists c; split; [right; assumption|assumption]].
      * intros [->|[c [[Heq|Hin] Hc]]]; [left; reflexivity|injection Heq as -> _; congruence|right; exists c; split; assumption].
Qed.

Lemma wm_best_ext rs rs' : (forall r, In r rs <-> In r rs') -> forall v, wm_best rs v = wm_best rs' v.
Proof.
  intros H v. apply N.le_antisymm.
  - apply (proj2 (wm_best_ge_iff rs' v (wm_best rs v))).
    destruct (proj1 (wm_best_ge_iff rs v (wm_best rs v)) (N.le_refl _)) as [E|[c [Hin Hc]]]; [left; assumption|].
    right. exists c. split; [apply H; assumption|assumption].
  - apply (proj2 (wm_best_ge_iff rs v (wm_best rs' v))).
    destruct (proj1 (wm_best_ge_iff rs' v (wm_best rs' v)) (N.le_refl _)) as [E|[c [Hin Hc]]]; [left; assumption|].
    right. exists c. split; [apply H; assumption|assumption].
Qed.

Definition wm_reported (rs : list (N * N)) (v : N) : bool := existsb (fun r => fst r =? v) rs.

Lemma wm_reported_app a b v : wm_reported (a ++ b) v = wm_reported a v || wm_reported b v.
Proof. unfold wm_reported. apply existsb_app. Qed.

Lemma wm_reported_single v c v' : wm_reported [(v, c)] v' = (v =? v').
Proof. unfold wm_reported; cbn. apply orb_false_r. Qed.

Lemma wm_best_unreported rs v : wm_reported rs v = false -> wm_best rs v = 0.
Proof.
  unfold wm_reported, wm_best. induction rs as [|r t IH]; cbn [existsb fold_right]; [reflexivity|].
  intros H. apply orb_false_iff in H. destruct H as [H1 H2]. rewrite H1. auto.
Qed.

Lemma wm_quorum_pos rf : 1 <= wm_quorum rf.
Proof. unfold wm_quorum. pose proof (N.le_0_l (rf / 2)). lia. Qed.

(** ---- the invariant of the repaired update ------------------------------------------------------------ *)
Record wm_inv (rf : N) (rs : list (N * N)) (s : wm_state) : Prop := {
  inv_below : forall i, 1 <= i -> i <= wm_mark s -> wm_quorum rf <= wm_best rs i;
  inv_above : forall v, wm_mark s < v ->
                wm_get (wm_unconf s) v = if wm_reported rs v then Some (wm_best rs v) else None;
  inv_stop  : ~ wm_good (wm_unconf s) (wm_quorum rf) (wm_mark s + 1)
}.

Lemma wm_inv_init rf : wm_inv rf [] wm_init.
Proof.
  split; cbn.
  - intros; lia.
  - reflexivity.
  - intros [c [H _]]. discriminate.
Qed.

Lemma wm_inv_step rf rs s v c :
  wm_inv rf rs s -> wm_inv rf (rs ++ [(v, c)]) (fst (wm_update rf s v c)).
Proof.
  intros [Hb Ha Hs]. unfold wm_update, wm_update_gen.
  destruct (v <=? wm_mark s) eqn:Ev; cbn [fst].
  - apply N.leb_le in Ev. split; cbn [wm_mark wm_unconf].
    + intros i H1 H2. rewrite wm_best_app. specialize (Hb i H1 H2). lia.
    + intros v' Hv'. rewrite Ha by assumption. rewrite wm_reported_app, wm_best_app, wm_best_single, wm_reported_single.
      replace (v =? v') with false by (symmetry; apply N.eqb_neq; lia). rewrite orb_false_r.
      replace (N.max (wm_best rs v') 0) with (wm_best rs v') by lia. reflexivity.
    + assumption.
  - apply N.leb_gt in Ev.
    set (old := match wm_get (wm_unconf s) v with Some o => o | None => 0 end).
    set (un := wm_set (wm_unconf s) v (N.max old c)).
    set (w' := wm_scan un (wm_quorum rf) (wm_mark s) (length un)).
    assert (Hold : old = wm_best rs v).
    { unfold old. rewrite Ha by assumption. destruct (wm_reported rs v) eqn:R; [reflexivity|].
      symmetry. apply wm_best_unreported. assumption. }
    assert (Hun : forall v', wm_mark s < v' ->
              wm_get un v' = if wm_reported (rs ++ [(v, c)]) v' then Some (wm_best (rs ++ [(v, c)]) v') else None).
    { intros v' Hv'. unfold un. rewrite wm_get_set, wm_reported_app, wm_best_app, wm_best_single, wm_reported_single.
      destruct (v' =? v) eqn:E.
      - apply N.eqb_eq in E; subst v'. rewrite N.eqb_refl, orb_true_r. rewrite Hold. reflexivity.
      - rewrite (N.eqb_sym v v'), E, orb_false_r. rewrite Ha by assumption.
        replace (N.max (wm_best rs v') 0) with (wm_best rs v') by lia. reflexivity. }
    assert (Hge : wm_mark s <= w') by apply wm_scan_ge.
    assert (Hgood : forall i, wm_mark s < i -> i <= w' -> wm_quorum rf <= wm_best (rs ++ [(v, c)]) i).
    { intros i H1 H2. destruct (wm_scan_good un (wm_quorum rf) (wm_mark s) (length un) i H1 H2) as [c' [G Q]].
      rewrite Hun in G by assumption. destruct (wm_reported (rs ++ [(v, c)]) i); [|discriminate].
      injection G as <-. assumption. }
    assert (Hstop : ~ wm_good un (wm_quorum rf) (w' + 1)).
    { apply wm_scan_stops. apply wm_above_le_length. }
    destruct (wm_mark s <? w') eqn:Ew; cbn [fst].
    + apply N.ltb_lt in Ew. split; cbn [wm_mark wm_unconf].
      * intros i H1 H2. destruct (N.le_gt_cases i (wm_mark s)) as [Hi|Hi].
        -- rewrite wm_best_app. specialize (Hb i H1 Hi). lia.
        -- apply Hgood; assumption.
      * intros v' Hv'. rewrite wm_get_retain.
        replace (w' <? v') with true by (symmetry; apply N.ltb_lt; assumption). apply Hun. lia.
      * intros [c' [G Q]]. rewrite wm_get_retain in G.
        replace (w' <? w' + 1) with true in G by (symmetry; apply N.ltb_lt; lia).
        apply Hstop. exists c'. split; assumption.
    + apply N.ltb_ge in Ew. assert (w' = wm_mark s) as Ew' by lia. split; cbn [wm_mark wm_unconf].
      * intros i H1 H2. rewrite wm_best_app. specialize (Hb i H1 H2). lia.
      * exact Hun.
      * rewrite <- Ew'. exact Hstop.
Qed.

Lemma wm_inv_run rf rs : wm_inv rf rs (wm_run rf rs).
Proof.
  induction rs as [|r rs IH] using rev_ind.
  - apply wm_inv_init.
  - unfold wm_run in *. rewrite wm_run_app. cbn [fold_left]. destruct r as [v c].
    unfold wm_step_gen; cbn [fst snd]. apply wm_inv_step. exact IH.
Qed.

Lemma wm_inv_prefix rf rs s : wm_inv rf rs s -> wm_is_prefix (wm_quorum rf) (wm_best rs) (wm_mark s).
Proof.
  intros [Hb Ha Hs]. split; [exact Hb|].
  specialize (Ha (wm_mark s + 1) ltac:(lia)).
  destruct (wm_reported rs (wm_mark s + 1)) eqn:R.
  - apply N.lt_nge. intros Q. apply Hs. exists (wm_best rs (wm_mark s + 1)). split; assumption.
  - rewrite (wm_best_unreported _ _ R). pose proof (wm_quorum_pos rf). lia.
Qed.

Lemma wm_prefix_unique q f k1 k2 : wm_is_prefix q f k1 -> wm_is_prefix q f k2 -> k1 = k2.
Proof.
  intros [A1 B1] [A2 B2].
  destruct (N.lt_trichotomy k1 k2) as [H|[H|H]]; [|assumption|].
  - specialize (A2 (k1 + 1) ltac:(lia) ltac:(lia)). lia.
  - specialize (A1 (k2 + 1) ltac:(lia) ltac:(lia)). lia.
Qed.

(** ---- the theorems about report sequences ------------------------------------------------------------- *)
Theorem wm_monotone_step : forall rf s v c, wm_mark s <= wm_mark (fst (wm_update rf s v c)).
Proof. intros. apply wm_update_mono. Qed.

Theorem wm_monotone_run : forall rf rs rs', wm_mark (wm_run rf rs) <= wm_mark (wm_run rf (rs ++ rs')).
Proof. intros. unfold wm_run. rewrite wm_run_app. apply wm_fold_mono. Qed.

Theorem wm_sound : forall rf rs i, 1 <= i -> i <= wm_mark (wm_run rf rs) -> wm_quorum rf <= wm_best rs i.
Proof. intros rf rs. exact (inv_below _ _ _ (wm_inv_run rf rs)). Qed.

Theorem wm_exact : forall rf rs, wm_is_prefix (wm_quorum rf) (wm_best rs) (wm_mark (wm_run rf rs)).
Proof. intros. apply wm_inv_prefix. apply wm_inv_run. Qed.

Theorem wm_order_independent : forall rf rs rs',
  (forall r, In r rs <-> In r rs') -> wm_mark (wm_run rf rs) = wm_mark (wm_run rf rs').
Proof.
  intros rf rs rs' H. pose proof (wm_exact rf rs) as [A B]. pose proof (wm_exact rf rs') as P'.
  apply (wm_prefix_unique (wm_quorum rf) (wm_best rs')); [|assumption].
  split.
  - intros i H1 H2. rewrite <- (wm_best_ext rs rs' H). auto.
  - rewrite <- (wm_best_ext rs rs' H). assumption.
Qed.

Theorem wm_permutation_independent : forall rf rs rs',
  Permutation rs rs' -> wm_mark (wm_run rf rs) = wm_mark (wm_run rf rs').
Proof.
  intros rf rs rs' P. apply wm_order_independent. intros r. split; intros H.
  - eapply Permutation_in; eassumption.
  - eapply Permutation_in; [apply Permutation_sym|]; eassumption.
Qed.

(** the original code (overwrite) is order dependent: the witness of the design *)
Theorem wm_overwrite_order_dependent :
  Permutation [(2, 2); (2, 1); (1, 2)] [(2, 1); (2, 2); (1, 2)] /\
  wm_mark (wm_run_gen WmOverwrite 2 [(2, 2); (2, 1); (1, 2)]) = 1 /\
  wm_mark (wm_run_gen WmOverwrite 2 [(2, 1); (2, 2); (1, 2)]) = 2.
Proof.
  split; [|split; vm_compute; reflexivity].
  apply perm_swap.
Qed.

(** the executable prefix function agrees with the relational one *)
Lemma wm_prefix_upto_spec q f w fuel :
  (forall i, 1 <= i -> i <= w -> q <= f i) ->
  (exists k, w <= k /\ (N.to_nat (k - w) < fuel)%nat /\ f (k + 1) < q) ->
  wm_is_prefix q f (wm_prefix_upto q f w fuel).
Proof.
  revert w; induction fuel as [|n IH]; intros w Hw [k [H1 [H2 H3]]]; [lia|].
  cbn [wm_prefix_upto]. destruct (q <=? f (w + 1)) eqn:E.
  - apply N.leb_le in E. apply IH.
    + intros i A B. destruct (N.eq_dec i (w + 1)) as [->|]; [assumption|apply Hw; lia].
    + exists k. assert (k <> w) by (intros ->; lia). split; [lia|split; [lia|assumption]].
  - apply N.leb_gt in E. split; assumption.
Qed.

Lemma wm_nth_skipn {A} (l : list A) n j d : nth j (skipn n l) d = nth (n + j) l d.
Proof.
  revert l; induction n as [|n IH]; intros l; [reflexivity|].
  destruct l as [|x l]; cbn [skipn Nat.add nth]; [destruct j; reflexivity|apply IH].
Qed.

(** ---- restart ------------------------------------------------------------------------------------------ *)
Definition wm_disk_covers (rf : N) (disk : list N) (w : N) : Prop :=
  w <= N.of_nat (length disk) /\ forall k, k < w -> wm_quorum rf <= nth (N.to_nat k) disk 0.

Lemma wm_update_reach rf s i c :
  wm_mark s = i -> wm_quorum rf <= c -> i + 1 <= wm_mark (fst (wm_update rf s (i + 1) c)).
Proof.
  intros Hm Q. unfold wm_update, wm_update_gen.
  replace (i + 1 <=? wm_mark s) with false by (symmetry; apply N.leb_gt; lia).
  set (old := match wm_get (wm_unconf s) (i + 1) with Some o => o | None => 0 end).
  set (un := wm_set (wm_unconf s) (i + 1) (N.max old c)).
  assert (G : wm_get un (wm_mark s + 1) = Some (N.max old c)).
  { unfold un. rewrite wm_get_set, Hm, N.eqb_refl. reflexivity. }
  assert (L : (1 <= length un)%nat).
  { apply wm_get_in in G. destruct un; [destruct G|cbn; lia]. }
  pose proof (wm_scan_first un (wm_quorum rf) (wm_mark s) (length un) _ G ltac:(lia) L) as F.
  match goal with |- context [?a <? ?b] => destruct (a <? b) eqn:E end; cbn [fst wm_mark].
  - lia.
  - apply N.ltb_ge in E. lia.
Qed.

Lemma wm_rescan_mono rf cs s i : wm_mark s <= wm_mark (wm_rescan rf s i cs).
Proof.
  revert s i; induction cs as [|c t IH]; intros s i; cbn [wm_rescan]; [lia|].
  specialize (IH (fst (wm_update rf s (i + 1) c)) (i + 1)).
  pose proof (wm_update_mono WmKeepMax rf s (i + 1) c). unfold wm_update in *. lia.
Qed.

Lemma wm_rescan_reach rf W cs s i :
  N.min i W <= wm_mark s ->
  (forall j, (j < length cs)%nat -> i + N.of_nat j < W -> wm_quorum rf <= nth j cs 0) ->
  N.min (i + N.of_nat (length cs)) W <= wm_mark (wm_rescan rf s i cs).
Proof.
  revert s i; induction cs as [|c t IH]; intros s i Hs Hc; cbn [wm_rescan length].
  - rewrite N.add_0_r. assumption.
  - replace (i + N.of_nat (S (length t))) with ((i + 1) + N.of_nat (length t)) by lia.
    apply IH.
    + pose proof (wm_update_mono WmKeepMax rf s (i + 1) c) as M. unfold wm_update.
      destruct (N.le_gt_cases W i) as [HW|HW]; [lia|].
      destruct (N.le_gt_cases (i + 1) (wm_mark s)) as [Hi|Hi]; [lia|].
      assert (wm_mark s = i) as E by lia.
      specialize (Hc 0%nat ltac:(cbn; lia) ltac:(cbn; lia)). cbn [nth] in Hc.
      pose proof (wm_update_reach rf s i c E Hc). unfold wm_update in *. lia.
    + intros j Hj Hlt. specialize (Hc (S j) ltac:(cbn; lia) ltac:(lia)). cbn [nth] in Hc. assumption.
Qed.

Theorem wm_initialize_ge_loaded : forall rf s disk, wm_mark s <= wm_mark (wm_initialize rf s disk).
Proof. intros. unfold wm_initialize. apply wm_rescan_mono. Qed.

Theorem wm_initialize_reaches : forall rf s disk W,
  wm_disk_covers rf disk W -> W <= wm_mark (wm_initialize rf s disk).
Proof.
  intros rf s disk W [HL HC]. unfold wm_initialize.
  destruct (N.le_gt_cases W (wm_mark s)) as [H|H].
  - pose proof (wm_rescan_mono rf (skipn (N.to_nat (wm_mark s)) disk) s (wm_mark s)). lia.
  - pose proof (wm_rescan_reach rf W (skipn (N.to_nat (wm_mark s)) disk) s (wm_mark s)) as R.
    rewrite skipn_length in R.
    assert (N.min (wm_mark s + N.of_nat (length disk - N.to_nat (wm_mark s))) W = W) as E by lia.
    rewrite E in R. apply R; [lia|].
    intros j Hj Hlt. specialize (HC (wm_mark s + N.of_nat j) Hlt).
    rewrite wm_nth_skipn. replace (N.to_nat (wm_mark s) + j)%nat with (N.to_nat (wm_mark s + N.of_nat j)) by lia.
    assumption.
Qed.

(** every crash point of a persist, whatever the directory held before, and in fact every directory content *)
Theorem wm_restart_any_dir : forall rf d disk W,
  wm_disk_covers rf disk W -> W <= wm_mark (wm_restart rf d disk).
Proof. intros. unfold wm_restart. apply wm_initialize_reaches. assumption. Qed.

Theorem wm_restart_crash : forall rf d s disk d',
  wm_disk_covers rf disk (wm_mark s) ->
  In d' (d :: wm_persist_steps d s) ->
  wm_mark s <= wm_mark (wm_restart rf d' disk).
Proof. intros. apply wm_restart_any_dir. assumption. Qed.

(** the rename sequence is atomic for the loader: at every crash point it sees the old or the new snapshot *)
Theorem wm_persist_atomic : forall d s d',
  d_cur d <> WfBad ->
  In d' (wm_persist_steps d s) -> wm_load d' = wm_load d \/ wm_load d' = s.
Proof.
  intros d s d' Hc H. unfold wm_persist_steps in H. destruct d as [cur prev tmp]. cbn [d_cur d_prev d_tmp] in *.
  destruct cur as [| |sc]; [| congruence |]; cbn [wf_exists] in H; cbn [In] in H;
    repeat (destruct H as [<-|H]); try contradiction; unfold wm_load; cbn [d_cur d_prev];
    try (left; reflexivity); try (right; reflexivity).
Qed.

Lemma wm_persist_last d s : wm_load (wm_persist d s) = s.
Proof.
  unfold wm_persist, wm_persist_steps. destruct (wf_exists (d_cur d)); cbn [last]; reflexivity.
Qed.

(** ---- the node: the on-disk counts always cover the in-memory watermark ------------------------------- *)
Record nd_inv (rf : N) (n : wm_node) : Prop := {
  ndi_cov : wm_disk_covers rf (nd_disk n) (wm_mark (nd_mem n));
  ndi_un : forall v c, wm_get (wm_unconf (nd_mem n)) v = Some c -> wm_quorum rf <= c ->
             1 <= v /\ v <= N.of_nat (length (nd_disk n)) /\ wm_quorum rf <= nth (N.to_nat (v - 1)) (nd_disk n) 0
}.

Lemma wm_disk_set_length d i c : length (wm_disk_set d i c) = length d.
Proof. revert i; induction d as [|x t IH]; intros [|i]; cbn; auto. Qed.

Lemma wm_disk_set_same d i c : (i < length d)%nat -> nth i (wm_disk_set d i c) 0 = c.
Proof. revert i; induction d as [|x t IH]; intros [|i] H; cbn in *; try lia; try reflexivity. apply IH; lia. Qed.

Lemma wm_disk_set_other d i c j : j <> i -> nth j (wm_disk_set d i c) 0 = nth j d 0.
Proof.
  revert i j; induction d as [|x t IH]; intros [|i] [|j] H; cbn; try reflexivity; try congruence.
  apply IH. congruence.
Qed.

Lemma wm_disk_set_over d i c : (length d <= i)%nat -> wm_disk_set d i c = d.
Proof. revert i; induction d as [|x t IH]; intros [|i] H; cbn in *; try lia; try reflexivity. f_equal; apply IH; lia. Qed.


Lemma nd_inv_step rf n o : nd_inv rf n -> nd_op_ok rf n o -> nd_inv rf (nd_step rf n o).
Proof.
  intros [[HL HC] HU] Hok. destruct o as [c|v c|v c]; cbn [nd_step nd_op_ok] in *.
  - (* append *) split; cbn [nd_mem nd_disk].
    + split; [rewrite app_length; cbn; lia|].
      intros k Hk. rewrite app_nth1 by lia. auto.
    + intros v c' G Q. destruct (HU v c' G Q) as [A [B C]]. split; [assumption|split].
      * rewrite app_length; cbn; lia.
      * rewrite app_nth1 by lia. assumption.
  - (* set on disk *) destruct (1 <=? v) eqn:E; [|split; [split; assumption|assumption]]. apply N.leb_le in E.
    assert (X : forall k, wm_quorum rf <= nth k (nd_disk n) 0 -> wm_quorum rf <= nth k (wm_disk_set (nd_disk n) (N.to_nat (v - 1)) c) 0).
    { intros k Hk. destruct (Nat.eq_dec k (N.to_nat (v - 1))) as [->|Hne].
      - destruct (Nat.lt_ge_cases (N.to_nat (v - 1)) (length (nd_disk n))) as [Hlt|Hge].
        + rewrite wm_disk_set_same by assumption. assumption.
        + rewrite wm_disk_set_over by assumption. assumption.
      - rewrite wm_disk_set_other by assumption. assumption. }
    split; cbn [nd_mem nd_disk].
    + split; [rewrite wm_disk_set_length; assumption|]. intros k Hk. apply X. auto.
    + intros v' c' G Q. destruct (HU v' c' G Q) as [A [B C]]. rewrite wm_disk_set_length. auto.
  - (* report *)
    unfold wm_update, wm_update_gen. destruct (v <=? wm_mark (nd_mem n)) eqn:Ev; cbn [fst].
    + split; cbn [nd_mem nd_disk wm_mark wm_unconf]; [split; assumption|assumption].
    + apply N.leb_gt in Ev.
      set (old := match wm_get (wm_unconf (nd_mem n)) v with Some o => o | None => 0 end).
      set (un := wm_set (wm_unconf (nd_mem n)) v (N.max old c)).
      set (w' := wm_scan un (wm_quorum rf) (wm_mark (nd_mem n)) (length un)).
      assert (HU' : forall v' c', wm_get un v' = Some c' -> wm_quorum rf <= c' ->
                 1 <= v' /\ v' <= N.of_nat (length (nd_disk n)) /\ wm_quorum rf <= nth (N.to_nat (v' - 1)) (nd_disk n) 0).
      { intros v' c' G Q. unfold un in G. rewrite wm_get_set in G. destruct (v' =? v) eqn:E.
        - apply N.eqb_eq in E; subst v'. injection G as <-.
          destruct (N.le_gt_cases (wm_quorum rf) c) as [Hc|Hc]; [auto|].
          assert (wm_quorum rf <= old) as Ho by lia. unfold old in Ho.
          destruct (wm_get (wm_unconf (nd_mem n)) v) as [o|] eqn:G'; [apply (HU v o G' Ho)|].
          pose proof (wm_quorum_pos rf). lia.
        - apply (HU v' c' G Q). }
      destruct (wm_mark (nd_mem n) <? w') eqn:Ew; cbn [fst].
      * apply N.ltb_lt in Ew. split; cbn [nd_mem nd_disk wm_mark wm_unconf].
        -- assert (Hw' : wm_good un (wm_quorum rf) w') by (apply (wm_scan_good un _ (wm_mark (nd_mem n)) (length un)); [assumption|apply N.le_refl]).
           destruct Hw' as [cw [Gw Qw]]. destruct (HU' w' cw Gw Qw) as [_ [Bw _]].
           split; [assumption|]. intros k Hk.
           destruct (N.lt_ge_cases k (wm_mark (nd_mem n))) as [Hlt|Hge]; [auto|].
           assert (Hg : wm_good un (wm_quorum rf) (k + 1)) by (apply (wm_scan_good un _ (wm_mark (nd_mem n)) (length un)); unfold w' in *; lia).
           destruct Hg as [ck [Gk Qk]]. destruct (HU' (k + 1) ck Gk Qk) as [_ [_ Ck]].
           replace (k + 1 - 1) with k in Ck by lia. assumption.
        -- intros v' c' G Q. rewrite wm_get_retain in G. destruct (w' <? v'); [|discriminate]. apply (HU' v' c' G Q).
      * split; cbn [nd_mem nd_disk wm_mark wm_unconf]; [split; assumption|exact HU'].
Qed.

Lemma nd_inv_reach rf n : nd_reach rf n -> nd_inv rf n.
Proof.
  induction 1 as [|n o _ IH Hok].
  - split; cbn.
    + split; [lia|intros; lia].
    + intros v c H; discriminate.
  - apply nd_inv_step; assumption.
Qed.

(** a crash at ANY moment of any admissible history (the directory holding whatever the persists, complete
    or interrupted, left there), then load + rescan: the watermark does not go back *)
Theorem wm_restart_history : forall rf n d,
  nd_reach rf n -> wm_mark (nd_mem n) <= wm_mark (wm_restart rf d (nd_disk n)).
Proof. intros rf n d H. apply wm_restart_any_dir. apply (ndi_cov _ _ (nd_inv_reach rf n H)). Qed.

(** a start without any state file: the watermark is exactly the quorum prefix of the on-disk counts
    (this is the situation of the C07 harness, and of a node whose confirmation directory was lost) *)
Fixpoint wm_number (i : N) (cs : list N) : list (N * N) :=
  match cs with [] => [] | c :: t => (i + 1, c) :: wm_number (i + 1) t end.

Lemma wm_rescan_fold rf cs s i : wm_rescan rf s i cs = fold_left (wm_step rf) (wm_number i cs) s.
Proof. revert s i; induction cs as [|c t IH]; intros s i; cbn [wm_rescan wm_number fold_left]; [reflexivity|apply IH]. Qed.

Lemma wm_best_number cs i v :
  wm_best (wm_number i cs) v =
  if (i <? v) && (v <=? i + N.of_nat (length cs)) then nth (N.to_nat (v - i - 1)) cs 0 else 0.
Proof.
  revert i; induction cs as [|c t IH]; intros i.
  - cbn. destruct ((i <? v) && (v <=? i + 0)); [destruct (N.to_nat (v - i - 1)); reflexivity|reflexivity].
  - cbn [wm_number]. unfold wm_best; cbn [fold_right fst snd]. fold (wm_best (wm_number (i + 1) t) v).
    rewrite IH. cbn [length].
    destruct (i + 1 =? v) eqn:E.
    + apply N.eqb_eq in E; subst v.
      replace (i + 1 <? i + 1) with false by (symmetry; apply N.ltb_ge; lia). cbn [andb].
      replace (i <? i + 1) with true by (symmetry; apply N.ltb_lt; lia).
      replace (i + 1 <=? i + N.of_nat (S (length t))) with true by (symmetry; apply N.leb_le; lia). cbn [andb].
      replace (N.to_nat (i + 1 - i - 1)) with 0%nat by lia. cbn [nth]. lia.
    + apply N.eqb_neq in E.
      destruct (i <? v) eqn:E1; cbn [andb].
      * apply N.ltb_lt in E1. replace (i + 1 <? v) with true by (symmetry; apply N.ltb_lt; lia). cbn [andb].
        replace (v <=? i + N.of_nat (S (length t))) with (v <=? i + 1 + N.of_nat (length t)) by (f_equal; lia).
        destruct (v <=? i + 1 + N.of_nat (length t)); [|reflexivity].
        replace (N.to_nat (v - i - 1)) with (S (N.to_nat (v - (i + 1) - 1))) by lia. reflexivity.
      * apply N.ltb_ge in E1. replace (i + 1 <? v) with false by (symmetry; apply N.ltb_ge; lia). reflexivity.
Qed.

Definition wm_disk_count (disk : list N) (v : N) : N :=
  if (0 <? v) && (v <=? N.of_nat (length disk)) then nth (N.to_nat (v - 1)) disk 0 else 0.

Theorem wm_fresh_start_exact : forall rf disk,
  wm_is_prefix (wm_quorum rf) (wm_disk_count disk) (wm_mark (wm_initialize rf wm_init disk)).
Proof.
  intros rf disk. unfold wm_initialize. cbn [wm_mark wm_init N.to_nat skipn].
  rewrite wm_rescan_fold. change (fold_left (wm_step rf) (wm_number 0 disk) (mkWm 0 0 [])) with (wm_run rf (wm_number 0 disk)).
  pose proof (wm_exact rf (wm_number 0 disk)) as [A B].
  assert (E : forall v, wm_best (wm_number 0 disk) v = wm_disk_count disk v).
  { intros v. rewrite wm_best_number. unfold wm_disk_count. rewrite N.add_0_l, N.sub_0_r. reflexivity. }
  split.
  - intros i H1 H2. rewrite <- E. auto.
  - rewrite <- E. assumption.
Qed.
