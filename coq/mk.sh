#!/bin/sh
# regenerate Makefile from _CoqProject + all .v files, then make the given targets (serialised by a lock)
cd "$(dirname "$0")"
exec 9>.mk.lock
flock 9
{ cat _CoqProject; find theories -name '*.v' | sort; } > _CoqProject.files
coq_makefile -f _CoqProject.files -o Makefile >/dev/null 2>&1
if [ $# -eq 0 ]; then exec make -k -j16; else exec make -j16 "$@"; fi
