#!/bin/sh
# Build the given targets (full .vo). Each invocation uses a private Makefile so that
# concurrent builds by different checks do not clobber each other's generated files.
cd "$(dirname "$0")"
mf="Makefile.$$"
trap 'rm -f "$mf" "$mf.conf" ".$mf.d" "_CoqProject.files.$$"' EXIT INT TERM
{ cat _CoqProject; find theories -name '*.v' | sort; } > "_CoqProject.files.$$"
coq_makefile -f "_CoqProject.files.$$" -o "$mf" >/dev/null 2>&1
if [ $# -eq 0 ]; then make -f "$mf" -k -j16; else make -f "$mf" -j16 "$@"; fi
rc=$?
exit $rc
