#!/bin/sh
# regenerate Makefile from _CoqProject + all .v files, then make the given targets
cd "$(dirname "$0")"
{ cat _CoqProject; find theories -name '*.v' | sort; } > _CoqProject.files
coq_makefile -f _CoqProject.files -o Makefile >/dev/null 2>&1
exec make -j16 "$@"
