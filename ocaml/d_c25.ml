(* Model driver for C25: one case per line in, the model's result per line out (same text the Rust harness prints). *)
open Svmodel
open Conv

let e_of_tok = function
  | "any" -> EvAny | "exists" -> EvExists | "empty" -> EvEmpty | s -> EvExact (n_of_string s)
let c_of_tok = function "empty" -> CvEmpty | s -> CvCurrent (n_of_string s)
let e_tok = function EvAny -> "any" | EvExists -> "exists" | EvEmpty -> "empty" | EvExact v -> string_of_n v
let c_tok = function CvEmpty -> "empty" | CvCurrent v -> string_of_n v

let bytes_of_hex s =
  if s = "-" then [] else
  List.init (String.length s / 2) (fun i -> ascii_of_N (n_of_z (BZ.of_int (int_of_string ("0x" ^ String.sub s (2 * i) 2)))))
let hex_of_bytes l =
  if l = [] then "-" else String.concat "" (List.map (fun a -> Printf.sprintf "%02x" (BZ.to_int (z_of_n (n_of_ascii a)))) l)

let perr = function PeEmpty -> "err empty" | PeInvalidDigit -> "err invalid" | PePosOverflow -> "err overflow"
let gap_str = function
  | GapNone -> "none" | GapAhead n -> "ahead " ^ string_of_n n | GapBehind n -> "behind " ^ string_of_n n
  | GapIncompatible -> "incompatible"

(* "sid:x,sid:y" *)
let pairs f s = if s = "-" then [] else
  List.map (fun kv -> match String.split_on_char ':' kv with [k; v] -> (n_of_string k, f v) | _ -> failwith "pair") (String.split_on_char ',' s)

let tx pnext epart db ev =
  let dbl = pairs n_of_string db and evs = pairs e_of_tok ev in
  let dbf = db_of_list dbl in
  let outcome = match append_tx dbf (n_of_string pnext) (e_of_tok epart) evs with
    | ApOk (a, b, l) ->
      (* canonicalisation only: the implementation returns a map stream -> version of its last event *)
      let tbl = Hashtbl.create 8 in
      List.iter (fun (s, v) -> Hashtbl.replace tbl (z_of_n s) v) l;
      let keys = List.sort_uniq BZ.compare (List.map (fun (s, _) -> z_of_n s) l) in
      Printf.sprintf "ok %s %s %s" (string_of_n a) (string_of_n b)
        (String.concat "," (List.map (fun k -> BZ.to_string k ^ ":" ^ string_of_n (Hashtbl.find tbl k)) keys))
    | ApWrongVersion (s, c, e) -> Printf.sprintf "wrongver %s %s %s" (string_of_n s) (c_tok c) (e_tok e)
    | ApWrongSequence (c, e) -> Printf.sprintf "wrongseq %s %s" (c_tok c) (e_tok e)
    | ApPanic -> "PANIC" in
  (* is_satisfied_by of the model against the running versions (same walk the harness does with the real predicate) *)
  let cur = Hashtbl.create 8 in
  List.iter (fun (s, v) -> Hashtbl.replace cur (z_of_n s) (CvCurrent v)) dbl;
  let sat = String.concat "" (List.map (fun (s, e) ->
      let k = z_of_n s in
      let c = (try Hashtbl.find cur k with Not_found -> CvEmpty) in
      Hashtbl.replace cur k (CvCurrent (cv_next_total c));
      if is_satisfied_by e c then "1" else "0") evs) in
  let psat = if is_satisfied_by (e_of_tok epart) (cv_of_count (n_of_string pnext)) then "1" else "0" in
  Printf.sprintf "%s ; sat=%s psat=%s" outcome sat psat

let dispatch line =
  match split_ws line with
  | ["sat"; e; c] -> string_of_bool (is_satisfied_by (e_of_tok e) (c_of_tok c))
  | ["gap"; e; c] -> gap_str (gap_from (e_of_tok e) (c_of_tok c))
  | ["gaporig"; e; c] -> (match gap_from_gen AddChecked (e_of_tok e) (c_of_tok c) with Some g -> gap_str g | None -> "PANIC")
  | ["fromnext"; v] -> e_tok (from_next_version (n_of_string v))
  | ["intonext"; e] -> (match into_next_version (e_of_tok e) with
      | None -> "PANIC" | Some None -> "none" | Some (Some v) -> "some " ^ string_of_n v)
  | ["cnext"; c] -> (match cv_next (c_of_tok c) with Some v -> string_of_n v | None -> "PANIC")
  | ["asexp"; c] -> e_tok (as_expected_version (c_of_tok c))
  | ["cadd"; c; k] -> (match cv_add (c_of_tok c) (n_of_string k) with Some c -> c_tok c | None -> "PANIC")
  | ["dispe"; e] -> hex_of_bytes (display_ev (e_of_tok e))
  | ["dispc"; c] -> hex_of_bytes (display_cv (c_of_tok c))
  | ["parsee"; h] -> (match parse_ev (bytes_of_hex h) with POk e -> "ok " ^ e_tok e | PErr x -> perr x)
  | ["parsec"; h] -> (match parse_cv (bytes_of_hex h) with POk c -> "ok " ^ c_tok c | PErr x -> perr x)
  | ["rnext"; v] -> (match into_next_version (from_next_version (n_of_string v)) with
      | None -> "PANIC" | Some None -> "none" | Some (Some v) -> "some " ^ string_of_n v)
  | ["rinto"; e] -> (match into_next_version (e_of_tok e) with
      | None -> "PANIC" | Some None -> "none" | Some (Some v) -> e_tok (from_next_version v))
  | ["rte"; e] -> (match parse_ev (display_ev (e_of_tok e)) with POk e -> "ok " ^ e_tok e | PErr x -> perr x)
  | ["rtc"; c] -> (match parse_cv (display_cv (c_of_tok c)) with POk c -> "ok " ^ c_tok c | PErr x -> perr x)
  | ["rse"; h] -> (match parse_ev (bytes_of_hex h) with POk e -> hex_of_bytes (display_ev e) | PErr x -> perr x)
  | ["rsc"; h] -> (match parse_cv (bytes_of_hex h) with POk c -> hex_of_bytes (display_cv c) | PErr x -> perr x)
  | ["tx"; pnext; epart; db; ev] -> tx pnext epart db ev
  | _ -> "BADCASE"

let () = Conv.main dispatch
