(* Model driver for C12: one case per line on stdin (see harness/c12/src/{queue,rep}.rs for the formats),
   the model's observation per line on stdout, in exactly the harness's notation. *)
open Svmodel
open Conv

let ns = string_of_n
let n_of_int i = n_of_z (BZ.of_int i)

let ent (e : rentry) =
  ns e.e_tx ^ "/" ^ String.concat "." (List.map (fun (r, t) -> ns r ^ "@" ^ ns t) e.e_replies)
let kv (k, e) = ns k ^ "=" ^ ent e
let kvs = function [] -> "-" | l -> String.concat "," (List.map kv l)

let ins = function
  | InsReady (v, m) -> "R:" ^ (if m then "m" else "-") ^ ":" ^ ent v
  | InsBuffered (m, ev) -> "B:" ^ (if m then "m" else "-") ^ ":" ^ (match ev with Some p -> kv p | None -> "-")
  | InsConflict v -> "C:" ^ ent v
  | InsFull (k, v) -> "F:" ^ kv (k, v)
  | InsStale (k, v) -> "S:" ^ kv (k, v)

let value tx key rid now = { e_tx = tx; e_seq = key; e_more = N0; e_ok = true; e_replies = [ (rid, now) ] }
let fields s = List.map n_of_string (List.tl (String.split_on_char ',' s))

(* q <next0> <limit> ops *)
let fam_q next0 limit ops =
  let q = ref (rq_new next0 limit) in
  let step op =
    let res =
      match op.[0], fields op with
      | 'i', [ k; tx; rid ] -> let q', r = rq_insert !q k (value tx k rid N0) in q := q'; ins r
      | 'p', [] -> let q', r = rq_pop !q in q := q'; "P:" ^ (match r with Some v -> ent v | None -> "-")
      | 'g', [ n ] -> let q', st = rq_progress !q n in q := q'; "G:" ^ kvs st
      | 'a', _ -> "A:-"
      | 'h', _ -> "H:-"
      | _ -> "BADOP"
    in
    res ^ "|" ^ ns !q.q_next ^ "|" ^ kvs !q.q_map
  in
  String.concat " " (List.map step ops)

(* tq <next0> <limit> <timeout> ops *)
let fam_tq next0 limit timeout ops =
  let t = ref (rtq_new next0 limit timeout) in
  let now = ref N0 in
  let step op =
    let res =
      match op.[0], fields op with
      | 'i', [ k; tx; rid ] -> let t', r = rtq_insert !now !t k (value tx k rid !now) in t := t'; ins r
      | 'p', [] -> let t', r = rtq_pop !now !t in t := t'; "P:" ^ (match r with Some v -> ent v | None -> "-")
      | 'g', [ n ] -> let t', st = rtq_progress !now !t n in t := t'; "G:" ^ kvs st
      | 'a', [ dt ] -> now := Svmodel.N.add !now dt; "A:-"
      | 'h', [] -> let t', st = rtq_handle_timeout !now !t in t := t'; "H:" ^ kvs st
      | _ -> "BADOP"
    in
    res ^ "|" ^ ns !t.tq_q.q_next ^ "|" ^ kvs !t.tq_q.q_map ^ "|"
    ^ (match !t.tq_timer with Some (_, d) -> ns d | None -> "-")
  in
  String.concat " " (List.map step ops)

let err = function
  | EConflict -> "conflict" | EFull -> "full" | EStale -> "stale" | EEvicted -> "evicted" | EDb -> "db" | EWrongSeq -> "wrongseq"
let outcome = function OApplied p -> "ok" ^ ns p | OErr e -> err e | OExpired -> "expired"

(* rep <n0> <limit> <catchup_ms> ops: the clock stands still (time-outs are an hour), `w` lets the catch-up
   timer fire: detect_and_handle_gaps, and, when it asks for a catch-up, the (empty) answer of a coordinator
   that has nothing confirmed for this partition *)
let fam_rep n0 limit ops =
  let big = n_of_int 3600000 in
  let s = ref (r_init n0 limit big big) in
  let evs = ref [] in
  let rid = ref 0 in
  let run o = let s', e = r_step !s o in s := s'; evs := !evs @ e; e in
  List.iter
    (fun op ->
      match op.[0], fields op with
      | 'd', [ key; tx; cnt; ok ] ->
        let more = (match cnt with N0 -> N0 | _ -> n_of_z (BZ.pred (z_of_n cnt))) in
        ignore (run (OpDeliver (N0, n_of_int !rid, key, tx, more, ok <> N0)));
        incr rid
      | 'w', _ ->
        let e = run (OpTick (N0, true)) in
        if List.exists (function EvCatchUp _ -> true | _ -> false) e then ignore (run (OpSync (N0, Some [])))
      | _ -> failwith "bad op")
    ops;
  let panicked = List.exists (function EvGapPanic -> true | _ -> false) !evs in
  let ans =
    List.init !rid (fun i ->
        let o =
          List.filter_map (function EvAns (r, o) when z_of_n r = BZ.of_int i -> Some (outcome o) | _ -> None) !evs
        in
        string_of_int i ^ ":" ^ (match o with [] -> "pending" | [ x ] -> x | l -> String.concat "+" l))
  in
  let log = List.map (fun le -> ns le.l_pos ^ ":" ^ ns le.l_tx ^ ":" ^ ns le.l_cnt) !s.r_log in
  let dash = function [] -> "-" | l -> String.concat "," l in
  "alive=" ^ (if panicked then "0" else "1") ^ " ans=" ^ dash ans ^ " log=" ^ dash log ^ " next=" ^ ns !s.r_dbnext

let dispatch line =
  match split_ws line with
  | "q" :: next0 :: limit :: ops -> fam_q (n_of_string next0) (n_of_string limit) ops
  | "tq" :: next0 :: limit :: timeout :: ops -> fam_tq (n_of_string next0) (n_of_string limit) (n_of_string timeout) ops
  | "rep" :: n0 :: limit :: _catchup :: ops -> fam_rep (n_of_string n0) (n_of_string limit) ops
  | _ -> "BADCASE"

let () = Conv.main dispatch
