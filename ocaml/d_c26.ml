(* Model driver for C26: `c26 <thr> <tmo_ms> <max> <sthr> <t0> <item>,<item>,...` with item
   `<tid><a|s|f|e|-><dt>`; prints the model's trace in the harness's format, then ` # ` and the
   ghost verdicts of the final state. *)
open Svmodel
open Conv

(* yield-point names of the real code (circuit_breaker.rs, verif_point!) per program counter *)
let name_of_pc = function
  | PIdle -> "idle"
  | PA_state | PS_state | PF_state | PE_state -> "state.load"
  | PA_clock | PS_clock | PF_clock | PE_clock -> "clock"
  | PA_lft _ -> "allow:last_failure_time.load"
  | PA_cas | PS_cas -> "to_half_open:state.compare_exchange"
  | PA_rcalls | PS_rcalls -> "to_half_open:half_open_call_count.store"
  | PA_rsucc | PS_rsucc -> "to_half_open:half_open_success_count.store"
  | PA_tcount -> "allow:transition:half_open_call_count.fetch_add"
  | PA_hcount -> "allow:half_open_call_count.fetch_add"
  | PS_lst _ -> "success:last_success_time.store"
  | PS_fc -> "success:failure_count.store"
  | PS_hs -> "success:half_open_success_count.fetch_add"
  | PS_cstate -> "to_closed:state.store"
  | PS_cfc -> "to_closed:failure_count.store"
  | PS_ccalls -> "to_closed:half_open_call_count.store"
  | PS_csucc -> "to_closed:half_open_success_count.store"
  | PF_lft _ -> "failure:last_failure_time.store"
  | PF_fc -> "failure:failure_count.fetch_add"
  | PF_ostate _ -> "to_open:state.store"
  | PF_ocalls -> "to_open:half_open_call_count.store"
  | PF_osucc -> "to_open:half_open_success_count.store"
  | PE_lft _ -> "estimate:last_failure_time.load"

let str_of_arr = function
  | AAt p -> name_of_pc p
  | ARetB true -> "=true" | ARetB false -> "=false"
  | ARetU -> "=unit" | ARetNone -> "=none"
  | ARetSome ms -> "=some:" ^ string_of_n ms
  | APanic -> "PANIC" | AIdle -> "idle"

let parse_item s =
  let n = String.length s in
  let p = ref 0 in
  while !p < n && s.[!p] >= '0' && s.[!p] <= '9' do incr p done;
  if !p = 0 || !p >= n then failwith "item";
  let tid = int_of_string (String.sub s 0 !p) in
  let m = (match s.[!p] with
      | 'a' -> Some MAllow | 's' -> Some MSuccess | 'f' -> Some MFailure | 'e' -> Some MEstimate
      | '-' -> None | _ -> failwith "method") in
  let dt = n_of_string (String.sub s (!p + 1) (n - !p - 1)) in
  { i_tid = nat_of_int tid; i_m = m; i_dt = dt }

let variant = function
  | "c26" -> (true, true) | "c26orig" -> (false, false) | "c26sat" -> (true, false) | _ -> failwith "variant"

let b2s b = if b then "1" else "0"

let run v r =
  match r with
  | thr :: tmo :: mx :: sthr :: t0 :: rest when List.length rest <= 1 ->
    let (sat, cnt) = variant v in
    let c = { b_thr = n_of_string thr; b_tmo = n_of_string tmo; b_max = n_of_string mx;
              b_sthr = n_of_string sthr; fx_sat = sat; fx_cnt = cnt } in
    let items = (match rest with [] -> [] | s :: _ -> List.map parse_item (String.split_on_char ',' s)) in
    if List.exists (fun it -> int_of_nat it.i_tid >= 4) items then "BADCASE" else
    let s0 = binit (n_of_string t0) in
    let tr = brun c s0 items in
    let toks = List.map (fun (((a, st), fc), lft) ->
        str_of_arr a ^ "/" ^ string_of_n st ^ "," ^ string_of_n fc ^ "," ^ string_of_n lft) tr in
    let g = (bexec c items s0).b_gh in
    String.concat " " toks ^ " # peak=" ^ string_of_n g.g_peak ^ " kpeak=" ^ string_of_n g.g_kpeak
    ^ " wrapped=" ^ b2s g.g_wrapped ^ " panicked=" ^ b2s g.g_panicked ^ " opens_ok=" ^ b2s (opens_ok c g)
    ^ " opens=" ^ string_of_int (List.length g.g_opens)
  | _ -> "BADCASE"

let dispatch line =
  match split_ws line with
  | v :: r -> (try run v r with Failure _ -> "BADCASE")
  | _ -> "BADCASE"

let () = Conv.main dispatch
