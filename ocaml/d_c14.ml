(* Model driver for C14 (same case/observation formats as harness/c14):
   c14n <N> <B> <P> <rf> <nodes> <parts>      count family
   c14o <N> <B> <P> <rf> <members> <script>   order family *)
open Svmodel
open Conv

let ni i = n_of_string (string_of_int i)
let cfg n b p rf = { c_n = n_of_string n; c_b = n_of_string b; c_p = n_of_string p; c_rf = n_of_string rf;
                     c_mode = RfWide; c_resp = RespRecalc }
let ints s = List.filter_map int_of_string_opt (List.filter (fun x -> x <> "") (String.split_on_char ',' s))
let strs l = "[" ^ String.concat "," l ^ "]"
let rec range a b = if a >= b then [] else a :: range (a + 1) b
let nth_replicas s q = Svmodel.nth (nat_of_int q) s.ts_replicas []

(* ---- count family *)
let c14n n b p rf nodes parts =
  let c = cfg n b p rf in
  let n_i = int_of_string n and p_i = int_of_string p in
  if n_i > 400 || int_of_string b > 65535 || p_i > 65535 || int_of_string rf > 255 then "SKIP" else
  let parts = if parts = "*" then range 0 p_i else List.map (fun q -> q land 0xffff) (ints parts) in
  let one i =
    let loc = { l_peer = ni i; l_alive = ni (1000 + i); l_idx = ni i } in
    let others = List.filter (fun j -> j <> i) (range 0 n_i) in
    let final =
      match t_init c loc with
      | None -> None
      | Some s0 ->
        if n_i <= 16 then
          List.fold_left (fun acc j -> match acc with
              | None -> None
              | Some s -> t_connect c s (ni j) (ni (1000 + j)) (ni j)) (Some s0) others
        else if others = [] then Some s0
        else
          (* the harness puts all but the last node into the membership maps and connects the last:
             one recalculation over the full membership *)
          let act = (ni i, (ni (1000 + i), ni i)) :: List.map (fun j -> (ni j, (ni (1000 + j), ni j))) others in
          mk_recalc c act (List.map (fun (x, _) -> x) act)
    in
    match final with
    | None -> Printf.sprintf "%d:PANIC" i
    | Some s ->
      let owned = match topo_assigned_gen RfWide c.c_n c.c_b c.c_p c.c_rf (ni i) with Some l -> l | None -> [] in
      let ownset = Hashtbl.create 64 in
      List.iter (fun q -> Hashtbl.replace ownset (string_of_n q) ()) owned;
      let o = List.filter (fun q -> Hashtbl.mem ownset (string_of_int q)) parts in
      let r = List.map (fun q -> nlist (nth_replicas s q)) parts in
      Printf.sprintf "%d:O=%s;R=%s" i (strs (List.map string_of_int o)) (strs r)
  in
  String.concat " " (List.map one (ints nodes))

(* ---- order family *)
let c14o n b p rf members script =
  let c = cfg n b p rf in
  let p_i = int_of_string p in
  if int_of_string b > 65535 || p_i > 65535 || int_of_string rf > 255 then "SKIP" else
  let ms = Array.of_list (List.map (fun e ->
      let t = List.map (fun x -> match int_of_string_opt x with Some v -> v | None -> 0) (String.split_on_char '/' e) in
      let idx = List.nth t 0 in
      let alt = (match List.nth_opt t 1 with Some v -> v | None -> idx) in
      let alive = (match List.nth_opt t 2 with Some v -> v | None -> 0) in
      (idx, alt, alive))
      (List.filter (fun x -> x <> "") (String.split_on_char ',' members))) in
  let k = Array.length ms in
  let idx j = let (i, _, _) = ms.(j) in i and alt j = let (_, a, _) = ms.(j) in a and alive j = let (_, _, a) = ms.(j) in a in
  let local j = { l_peer = ni j; l_alive = ni (alive j); l_idx = ni (idx j) } in
  let mgrs = Array.init k (fun j -> t_init c (local j)) in
  let responses = ref [] in
  List.iter (fun op ->
      match String.split_on_char '.' op with
      | [kind; m; j] ->
        (match int_of_string_opt m, int_of_string_opt j with
         | Some m, Some j when m >= 0 && j >= 0 && m < k ->
           if kind = "r" then begin
             match mgrs.(m), !responses with
             | Some s, (_ :: _ as rs) ->
               let v = List.nth rs (j mod List.length rs) in
               mgrs.(m) <- t_response c (local m) s v
             | _ -> ()
           end else if j < k && j <> m then begin
             match mgrs.(m) with
             | None -> ()
             | Some s ->
               (match kind with
                | "c" ->
                  (match t_connect c s (ni j) (ni (alive j)) (ni (idx j)) with
                   | Some s' -> mgrs.(m) <- Some s'; responses := !responses @ [view_of s']
                   | None -> mgrs.(m) <- None)
                | "h" -> mgrs.(m) <- t_heartbeat c s (ni j) (ni (alive j)) (ni (idx j))
                | "x" -> mgrs.(m) <- t_heartbeat c s (ni j) (ni (alive j)) (ni (alt j))
                | "d" -> mgrs.(m) <- t_disconnect c s (ni j)
                | "t" -> mgrs.(m) <- t_timeout c (local m) s (ni j)
                | _ -> ())
           end
         | _ -> ())
      | _ -> ())
    (List.filter (fun x -> x <> "") (String.split_on_char ',' script));
  let snapshot s =
    let r = List.map (fun q ->
        let l = List.sort compare (List.map (fun x -> BZ.to_int (z_of_n x)) (nth_replicas s q)) in
        strs (List.map string_of_int l)) (range 0 p_i) in
    let v = List.map (fun q -> nlist (List.map (fun (x, _) -> x) (available s (ni q)))) (range 0 p_i) in
    (strs r, strs v) in
  let one m =
    match mgrs.(m) with
    | None -> Printf.sprintf "%d:PANIC" m
    | Some s ->
      let act = List.sort compare (List.map (fun (x, (a, i)) ->
          (BZ.to_int (z_of_n x), BZ.to_int (z_of_n a), BZ.to_int (z_of_n i))) s.ts_active) in
      let (r, v) = snapshot s in
      let (la, li) = (match List.find_opt (fun (x, _, _) -> x = m) act with Some (_, a, i) -> (a, i) | None -> (alive m, idx m)) in
      ignore (la, li);
      let loc = local m in
      let reference = List.fold_left (fun acc (j, a, i) -> match acc with
          | None -> None
          | Some f -> if j = m then Some f else t_connect c f (ni j) (ni a) (ni i))
          (t_init c loc) act in
      let (rr, rv) = (match reference with Some f -> snapshot f | None -> ("PANIC", "PANIC")) in
      let a = List.map (fun (j, a, i) -> Printf.sprintf "%d/%d/%d" j a i) act in
      Printf.sprintf "%d:A=%s;R=%s;V=%s;RR=%s;RV=%s" m (strs a) r v rr rv
  in
  String.concat " " (List.map one (range 0 k))

let dispatch line =
  match split_ws line with
  | ["c14n"; n; b; p; rf; nodes; parts] -> c14n n b p rf nodes parts
  | ["c14o"; n; b; p; rf; members; script] -> c14o n b p rf members script
  | ["c14o"; n; b; p; rf; members] -> c14o n b p rf members ""
  | _ -> "SKIP"

let () = Conv.main dispatch
