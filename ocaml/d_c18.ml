(* Model driver for C18 (seglog writer + long-lived readers): one history per line -> the model's outputs.
   `h <H> <size> <start> <op> ; <op> ; ...`   (see harness/c18/src/main.rs for the op syntax)
   Trusted glue: parsing, data-spec expansion, hex/FNV printing, and the zstd oracle table built from the
   `a` (append) ops of the line. *)
open Svmodel
open Conv

let byte_tab : n array = Array.init 256 (fun i -> n_of_z (BZ.of_int i))
let int_of_n x = BZ.to_int (z_of_n x)
let coq_of_bytes (b : Bytes.t) : n list =
  let r = ref [] in
  for i = Bytes.length b - 1 downto 0 do r := byte_tab.(Char.code (Bytes.get b i)) :: !r done; !r
let bytes_of_coq (l : n list) : Bytes.t =
  let len = List.length l in
  let b = Bytes.create len in
  List.iteri (fun i x -> Bytes.set b i (Char.chr (int_of_n x land 255))) l; b
let hex_of_bytes b =
  let h = "0123456789abcdef" in
  let o = Bytes.create (2 * Bytes.length b) in
  Bytes.iteri (fun i c -> let v = Char.code c in Bytes.set o (2*i) h.[v lsr 4]; Bytes.set o (2*i+1) h.[v land 15]) b;
  Bytes.to_string o
let bytes_of_hex s =
  let n = String.length s / 2 in
  let v c = match c with '0'..'9' -> Char.code c - 48 | 'a'..'f' -> Char.code c - 87 | 'A'..'F' -> Char.code c - 55 | _ -> failwith "hex" in
  Bytes.init n (fun i -> Char.chr (v s.[2*i] * 16 + v s.[2*i+1]))
let expand (s : string) : Bytes.t =
  if s = "" then failwith "spec" else
  let body = String.sub s 1 (String.length s - 1) in
  let two () = match String.split_on_char ':' body with [a; b] -> (Int64.of_string a, int_of_string b) | _ -> failwith "spec" in
  match s.[0] with
  | 'x' -> bytes_of_hex body
  | 'z' -> Bytes.make (int_of_string body) '\000'
  | 'r' -> let (seed, len) = two () in
    let st = ref seed in
    Bytes.init len (fun _ ->
      st := Int64.add (Int64.mul !st 6364136223846793005L) 1442695040888963407L;
      Char.chr (Int64.to_int (Int64.shift_right_logical !st 56) land 255))
  | 't' -> let (seed, len) = two () in
    let sd = Int64.to_int seed in
    Bytes.init len (fun i -> Char.chr (32 + (((sd + (i lsr 4)) * 31) land 63)))
  | _ -> failwith "spec"
let digest (b : Bytes.t) : string =
  let h = ref 0xcbf29ce484222325L in
  Bytes.iter (fun c -> h := Int64.mul (Int64.logxor !h (Int64.of_int (Char.code c))) 0x100000001b3L) b;
  Printf.sprintf "%d#%016Lx" (Bytes.length b) !h

let sn = string_of_n
let err_str = function EOob l -> "oob:" ^ sn l | ETrunc -> "trunc" | ECrc -> "crc" | EIo -> "io"
let rec_str (r : rrec) =
  Printf.sprintf "ok:%s:%s:%s:%s" (hex_of_bytes (bytes_of_coq r.r_hdr)) (digest (bytes_of_coq r.r_data))
    (match r.r_cdata with Some _ -> "c" | None -> "u") (sn r.r_len)
let res_str = function ROk r -> rec_str r | RErr e -> err_str e | RPanic -> "PANIC"
let term_str = function TEnd -> "end" | TErr e -> err_str e | TPanic -> "PANIC" | TFuel -> "FUEL"
let iter_str recs t =
  String.concat "," (List.map (fun (o, r) -> sn o ^ "@" ^ rec_str r) recs) ^ "^" ^ term_str t

let split_ops (s : string) : string list list =
  List.filter (fun l -> l <> []) (List.map split_ws (String.split_on_char ';' s))

let history = function
  | hs :: size :: start :: _ as all ->
    let line = String.concat " " all in
    (* everything after the third token *)
    let rest = let rec skip i k = if k = 0 then i else skip (String.index_from line i ' ' + 1) (k - 1) in
      let i = skip 0 3 in String.sub line i (String.length line - i) in
    let ops = split_ops rest in
    let table = ref [] in     (* (data, stored) pairs of the append ops *)
    let parse_op = function
      | ["a"; hdr; data; stored] ->
        let d = coq_of_bytes (expand data) in
        if stored <> "-" then table := (d, coq_of_bytes (expand stored)) :: !table;
        OAppend (coq_of_bytes (expand hdr), d)
      | ["f"] -> OFlush | ["s"] -> OSync
      | ["l"; o] -> OSetLen (n_of_string o)
      | ["c"; b] -> OComp (b = "1")
      | ["n"] -> ONewReader
      | ["k"; r] -> OClone (nat_of_int (int_of_string r))
      | ["r"; r; off; seq] -> ORead (nat_of_int (int_of_string r), n_of_string off, seq = "1")
      | ["i"; r; off] -> OIter (nat_of_int (int_of_string r), n_of_string off)
      | ["p"; r; off; hdr] -> OReplace (nat_of_int (int_of_string r), n_of_string off, coq_of_bytes (expand hdr))
      | ["d"] -> OComp true   (* placeholder, handled below *)
      | _ -> failwith "op" in
    let h = n_of_string hs in
    let cmp d = (try List.assoc d !table with Not_found -> []) in
    let dec z = (try Some (fst (List.find (fun (_, s) -> s = z) !table)) with Not_found -> None) in
    let st = ref (sl_init (n_of_string size) (n_of_string start)) in
    let outs = List.map (fun optoks ->
      match optoks with
      | ["d"] -> "d=" ^ digest (bytes_of_coq (!st).s_w.w_file)
      | ["K"] -> "K"   (* marker ops are ignored *)
      | _ ->
        let op = parse_op optoks in
        let known = op_known !st op in
        let (s', o) = sl_step h cmp dec !st op in
        st := s';
        (match o with
         | UAppend (Some (o, l)) -> "a=" ^ sn o ^ "," ^ sn l
         | UAppend None -> "a=full"
         | UUnit -> (match optoks with t :: _ -> t | [] -> "?")
         | USync o -> "s=" ^ sn o
         | UReader r -> (match optoks with t :: _ -> t | [] -> "?") ^ "=" ^ string_of_int (int_of_nat r)
         | URead r -> "r=" ^ res_str r
         | UIter (recs, t) -> "i=" ^ iter_str recs t
         | UReplace (ROk _) -> "p=ok"
         | UReplace (RErr e) -> "p=" ^ err_str e
         | UReplace RPanic -> "p=PANIC"
         | UBad -> "BADREADER") ^ (if known then "!" else "")) ops in
    String.concat ";" outs
  | _ -> "BADCASE"

let dispatch line =
  match split_ws line with
  | "h" :: r -> history r
  | _ -> "BADCASE"

let () =
  if Sys.getenv_opt "SV_STACK" = None then begin
    let cmd = Printf.sprintf "ulimit -s 4000000 2>/dev/null || ulimit -s unlimited 2>/dev/null; SV_STACK=1 exec %s" (Filename.quote Sys.executable_name) in
    exit (Sys.command cmd)
  end else Conv.main dispatch
