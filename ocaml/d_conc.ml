(* Model driver for the concurrency traces of harness/cconc (C15, C16, C20).
   Input: a case line `cc <config> | <item> ; <item> ...` (grammar in harness/cconc/src/main.rs) or
   `route nb=.. nt=.. pos=..`.
   Output for a trace: `a=<verdict> | r=<verdict> | w=<verdict>` where
     a (C16): the successful appends of each bucket, in the order the worker replied (hook stamp),
        are replayed on the extracted reference [spec_append]; each must reproduce exactly, and each
        rejected append must be the reference's answer at some admissible position of that order;
     r (C15): each read must be the reference's answer at a position between what was acknowledged
        before it started and what had been started before it ended, positions non-decreasing per reader;
     w (C20): the worker events (reply / published / rollover) are replayed on the extracted
        SyncWatch model (per-segment watch): every published value must be the model's, and at each
        acknowledgement the model's poll of that waiter must succeed.
   Output for a route line: the thread ids from the extracted [thread_of]. *)
open Svmodel
open Conv

let n_of_int i = n_of_z (BZ.of_int i)
let int_of_n n = BZ.to_int (z_of_n n)

let parse_xv s = match s with
  | "a" -> XAny | "e" -> XExists | "n" -> XEmpty
  | _ -> XExact (n_of_string (String.sub s 1 (String.length s - 1)))
let show_xv = function XAny -> "a" | XExists -> "e" | XEmpty -> "n" | XExact v -> "x" ^ string_of_n v
let show_cur = function None -> "none" | Some v -> string_of_n v

let split_on s sep =
  let ls = String.length sep in
  let rec go start i acc =
    if i + ls > String.length s then List.rev (String.sub s start (String.length s - start) :: acc)
    else if String.sub s i ls = sep then go (i + ls) (i + ls) (String.sub s start (i - start) :: acc)
    else go start (i + 1) acc in
  go 0 0 []

let tl1 s = String.sub s 1 (String.length s - 1)

let show_event e = Printf.sprintf "e%s:q%s:v%s" (string_of_n e.e_id) (string_of_n e.e_seq) (string_of_n e.e_ver)

let show_reject = function
  | WrongVersion (sid, cur, exp) -> Printf.sprintf "err ver s%s cur:%s exp:%s" (string_of_n sid) (show_cur cur) (show_xv exp)
  | KeyMismatch (epk, _) -> Printf.sprintf "err key existing:k%s" (string_of_n epk)
  | WrongSequence (_, cur, exp) -> Printf.sprintf "err seq cur:%s exp:%s" (show_cur cur) (show_xv exp)
  | BadTimestamp -> "err ts"
  | TooBig -> "err big"

let show_ok evs =
  match evs with
  | [] -> "ok"
  | first :: _ ->
    let last = List.nth evs (List.length evs - 1) in
    let tbl = Hashtbl.create 8 in
    List.iter (fun e -> Hashtbl.replace tbl (int_of_n e.e_sid) e.e_ver) evs;
    let l = List.sort compare (Hashtbl.fold (fun k v acc -> (k, v) :: acc) tbl []) in
    Printf.sprintf "ok %s %s %s" (string_of_n first.e_seq) (string_of_n last.e_seq)
      (String.concat "," (List.map (fun (k, v) -> Printf.sprintf "s%d:%s" k (string_of_n v)) l))

let show_res = function Inl evs -> show_ok evs | Inr rj -> show_reject rj

type app = { op : int; ab : int; ae : int; pid : int; tx : txn; o : int; g : int; t : int; res : string }
type rd = { kind : char; rr : int; rb : int; re : int; rpid : int; arg : int; from : int; rres : string }
type item = App of app | Read of rd | Pub of int * int * int * int (* bucket seg v at *) | Roll of int * int * int * int

let parse_item s =
  let (lhs, res) = match split_on s " = " with
    | [l] -> (l, "")
    | l :: r -> (l, String.concat " = " r)
    | [] -> ("", "") in
  let res = String.trim res in
  match split_ws lhs with
  | "A" :: op :: _c :: b :: e :: k :: p :: x :: evs :: o :: g :: t :: _ ->
    let k = int_of_string (tl1 k) and pid = int_of_string (tl1 p) and op = int_of_string (tl1 op) in
    let news = List.map (fun ev -> match String.split_on_char ':' ev with
        | [sid; xv; eid] -> { n_id = n_of_string eid; n_sid = n_of_string sid; n_expect = parse_xv xv; n_ts_ok = true }
        | _ -> failwith "bad event") (String.split_on_char ',' evs) in
    let tx = { t_pk = n_of_int k; t_pid = n_of_int pid; t_tx = n_of_int op; t_flag = (List.length news = 1);
               t_events = news; t_xseq = parse_xv (tl1 x) } in
    App { op; ab = int_of_string b; ae = int_of_string e; pid; tx; o = int_of_string (tl1 o); g = int_of_string (tl1 g);
          t = int_of_string (tl1 t); res }
  | [("V" | "S" | "Q" | "E") as kd; r; b; e; p] ->
    Read { kind = kd.[0]; rr = int_of_string (tl1 r); rb = int_of_string b; re = int_of_string e; rpid = int_of_string (tl1 p); arg = 0; from = 0; rres = res }
  | [("V" | "E") as kd; r; b; e; p; a] ->
    Read { kind = kd.[0]; rr = int_of_string (tl1 r); rb = int_of_string b; re = int_of_string e; rpid = int_of_string (tl1 p);
           arg = int_of_string (tl1 a); from = 0; rres = res }
  | ["S"; r; b; e; p; a; f] ->
    Read { kind = 'S'; rr = int_of_string (tl1 r); rb = int_of_string b; re = int_of_string e; rpid = int_of_string (tl1 p);
           arg = int_of_string (tl1 a); from = int_of_string (tl1 f); rres = res }
  | ["P"; b; g; v; at] -> Pub (int_of_string (tl1 b), int_of_string (tl1 g), int_of_string (tl1 v), int_of_string (tl1 at))
  | ["R"; b; g; at; at2] -> Roll (int_of_string (tl1 b), int_of_string (tl1 g), int_of_string (tl1 at), int_of_string (tl1 at2))
  | _ -> failwith ("bad item: " ^ s)

let is_ok a = String.length a.res >= 2 && String.sub a.res 0 2 = "ok"
let is_err a = String.length a.res >= 4 && String.sub a.res 0 4 = "err "

(* ---- C16 / C15: replay on the reference event store ---- *)
let validate_bucket (apps : app list) (reads : rd list) =
  let succ = List.sort (fun x y -> compare (x.o, x.ab) (y.o, y.ab)) (List.filter is_ok apps) in
  let n = List.length succ in
  let succ_a = Array.of_list succ in
  let logs = Array.make (n + 1) ([] : alog) in
  let abad = ref [] and rbad = ref [] in
  Array.iteri (fun i a ->
      let (l', r) = spec_append logs.(i) a.tx true in
      let exp = show_res r in
      if exp <> a.res && List.length !abad < 3 then
        abad := Printf.sprintf "#%d (position %d in the worker's order) returned '%s' but the serial execution gives '%s'" a.op i a.res exp :: !abad;
      (* keep going on the reference's own log when it accepted; otherwise nothing is added *)
      logs.(i + 1) <- (match r with Inl _ -> l' | Inr _ -> logs.(i))) succ_a;
  (* admissible positions of an operation running over [b, e]: after every success acknowledged
     before b, before every success started after e *)
  let window b e =
    let lo = ref 0 and hi = ref n in
    Array.iteri (fun i s -> if s.ae < b && i + 1 > !lo then lo := i + 1; if s.ab > e && i < !hi then hi := i) succ_a;
    (!lo, !hi) in
  List.iter (fun a ->
      if is_err a then begin
        let (lo, hi) = window a.ab a.ae in
        let found = ref false and seen = ref [] in
        for i = lo to hi do
          if not !found then begin
            let (_, r) = spec_append logs.(i) a.tx true in
            let s = show_res r in
            if s = a.res then found := true else if not (List.mem s !seen) then seen := s :: !seen
          end
        done;
        if not !found && List.length !abad < 3 then
          abad := Printf.sprintf "#%d failed with '%s' but at every admissible position %d..%d of the serial order the reference answers %s" a.op a.res lo hi
              (String.concat " / " (List.map (fun s -> "'" ^ s ^ "'") (List.rev !seen))) :: !abad
      end) apps;
  (* reads *)
  let render (r : rd) (l : alog) =
    match r.kind with
    | 'V' -> (match spec_stream_version l (n_of_int r.arg) with Some (pk, v) -> Printf.sprintf "k%s:v%s" (string_of_n pk) (string_of_n v) | None -> "none")
    | 'Q' -> (match spec_partition_sequence l (n_of_int r.rpid) with Some q -> "q" ^ string_of_n q | None -> "none")
    | 'E' -> (match spec_read_event l (n_of_int r.arg) with Some e -> show_event e | None -> "none")
    | _ -> (match spec_scan_stream_fwd l (n_of_int r.arg) (n_of_int r.from) with [] -> "none" | evs -> String.concat " " (List.map show_event evs)) in
  let prev = Hashtbl.create 16 in
  List.iter (fun (r : rd) ->
      let (lo, hi) = window r.rb r.re in
      let p = (try Hashtbl.find prev r.rr with Not_found -> 0) in
      let pick a b = let res = ref (-1) in
        for i = a to b do if !res < 0 && render r logs.(i) = r.rres then res := i done; !res in
      let i = pick (max lo p) hi in
      if i >= 0 then Hashtbl.replace prev r.rr i
      else if List.length !rbad < 3 then begin
        let j = pick lo hi in
        let what = Printf.sprintf "%c r%d [%d,%d] arg=%d returned '%s'" r.kind r.rr r.rb r.re r.arg r.rres in
        if j >= 0 then rbad := Printf.sprintf "%s, which is the state after %d appends although this reader had already observed the state after %d" what j p :: !rbad
        else rbad := Printf.sprintf "%s; the states admissible for it (after %d..%d appends of the bucket) give '%s'..'%s'" what lo hi (render r logs.(lo)) (render r logs.(hi)) :: !rbad
      end) (List.sort (fun (x : rd) (y : rd) -> compare x.rb y.rb) reads);
  (List.rev !abad, List.rev !rbad)

(* ---- C20: replay of the worker events on the SyncWatch model ---- *)
type wev = WReply of app | WPub of int * int | WRoll of int

(* Program order of the worker for one append: [rollover]; write; [sync_if_necessary]; reply.  The trace has
   the reply (with the target = write offset after the write), the publications and the rollovers, each
   stamped by the worker thread itself, so per bucket the stamp order is the program order.  A publication
   of an offset beyond the model's write offset can only be the sync between a write and its reply: the
   write step is then taken there, and must be the next reply's. *)
let validate_watch (apps : app list) (pubs : (int * int * int) list) (rolls : (int * int) list) =
  let evs = List.map (fun a -> (a.o, WReply a)) (List.filter (fun a -> is_ok a && a.o > 0) apps)
            @ List.map (fun (g, v, at) -> (at, WPub (g, v))) pubs
            @ List.map (fun (g, at) -> (at, WRoll g)) rolls in
  let evs = Array.of_list (List.sort (fun (x, _) (y, _) -> compare x y) evs) in
  let bad = ref [] in
  let note s = if List.length !bad < 3 then bad := s :: !bad in
  let st = ref sw_init in
  let nw = ref 0 in
  let acks = ref [] in            (* acknowledgements to check: (end stamp, waiter index, op) *)
  let written = Hashtbl.create 16 in   (* ops whose write step was already taken (at a publication) *)
  let seg () = int_of_nat !st.sw_seg and off () = int_of_n !st.sw_off in
  let next_reply i =
    let r = ref None in
    for j = Array.length evs - 1 downto i + 1 do (match snd evs.(j) with WReply a -> r := Some a | _ -> ()) done; !r in
  Array.iteri (fun i (at, ev) ->
      let (due, rest) = List.partition (fun (e, _, _) -> e < at) !acks in
      acks := rest;
      List.iter (fun (e, w, op) -> if not (poll_ok !st (nat_of_int w)) then
                    note (Printf.sprintf "#%d was acknowledged at %d before any sync published an offset covering it (model: poll of waiter %d fails)" op e w)) due;
      match ev with
      | WReply a ->
        if seg () <> a.g then note (Printf.sprintf "#%d replied in segment %d but the model is in segment %d" a.op a.g (seg ()))
        else begin
          if not (Hashtbl.mem written a.op) then begin
            if a.t <= off () then note (Printf.sprintf "#%d: target offset %d is not beyond the write offset %d" a.op a.t (off ()))
            else st := sw_step PerSegment !st (SWrite (n_of_int (a.t - off ())))
          end;
          if off () <> a.t then note (Printf.sprintf "#%d: target offset %d but the model's write offset is %d" a.op a.t (off ()));
          st := sw_step PerSegment !st SReply;
          acks := (a.ae, !nw, a.op) :: !acks; incr nw
        end
      | WPub (g, v) ->
        if seg () <> g then note (Printf.sprintf "published in segment %d but the model is in segment %d" g (seg ()))
        else begin
          if v > off () then begin
            match next_reply i with
            | Some a when a.g = g && a.t = v -> st := sw_step PerSegment !st (SWrite (n_of_int (v - off ()))); Hashtbl.replace written a.op ()
            | _ -> note (Printf.sprintf "sync at %d published offset %d in segment %d beyond the model's write offset %d, and it is not the next reply's target" at v g (off ()))
          end;
          st := sw_step PerSegment !st SSync;
          let mv = int_of_n (sw_cur_val PerSegment !st) in
          if mv <> v then note (Printf.sprintf "sync at %d published offset %d in segment %d, the model publishes %d" at v g mv)
        end
      | WRoll g ->
        st := sw_step PerSegment !st SRoll;
        if seg () <> g then note (Printf.sprintf "rollover to segment %d but the model is in segment %d" g (seg ()))) evs;
  List.iter (fun (e, w, op) -> if not (poll_ok !st (nat_of_int w)) then
                note (Printf.sprintf "#%d was acknowledged at %d but no sync ever published an offset covering it" op e)) !acks;
  List.rev !bad

let verdict = function [] -> "ok" | l -> "BAD " ^ String.concat " ;; " l

let run_trace line =
  let (cfg, body) = match split_on line " | " with
    | [c] -> (c, "")
    | c :: r -> (c, String.concat " | " r)
    | [] -> ("", "") in
  let nb = ref 1 in
  List.iter (fun t -> match String.index_opt t '=' with
      | Some i -> if String.sub t 0 i = "B" then nb := int_of_string (String.sub t (i + 1) (String.length t - i - 1))
      | None -> ()) (split_ws cfg);
  let items = if String.trim body = "" then [] else List.map parse_item (split_on body " ; ") in
  let nb = !nb in
  let bucket_of_pid pid = int_of_n (bucket_of (n_of_int nb) (n_of_int pid)) in
  let apps = Array.make nb [] and reads = Array.make nb [] and pubs = Array.make nb [] and rolls = Array.make nb [] in
  let unknown = ref false in
  List.iter (function
      | App a -> let b = bucket_of_pid a.pid in apps.(b) <- a :: apps.(b); if not (is_ok a || is_err a) then unknown := true
      | Read r -> let b = bucket_of_pid r.rpid in reads.(b) <- r :: reads.(b)
      | Pub (b, g, v, at) -> if b < nb then pubs.(b) <- (g, v, at) :: pubs.(b)
      | Roll (b, g, at, _) -> if b < nb then rolls.(b) <- (g, at) :: rolls.(b)) items;
  let abad = ref [] and rbad = ref [] and wbad = ref [] in
  for b = 0 to nb - 1 do
    if not !unknown then begin
      let (a, r) = validate_bucket (List.rev apps.(b)) (List.rev reads.(b)) in
      abad := !abad @ a; rbad := !rbad @ r
    end;
    wbad := !wbad @ validate_watch (List.rev apps.(b)) (List.rev pubs.(b)) (List.rev rolls.(b))
  done;
  if !unknown then Printf.sprintf "a=skip | r=skip | w=%s" (verdict !wbad)
  else Printf.sprintf "a=%s | r=%s | w=%s" (verdict !abad) (verdict !rbad) (verdict !wbad)

let run_route line =
  let nb = ref 1 and nt = ref 1 and pos = ref [] in
  List.iter (fun t -> match String.index_opt t '=' with
      | Some i -> let a = String.sub t 0 i and b = String.sub t (i + 1) (String.length t - i - 1) in
        (match a with
         | "nb" -> nb := int_of_string b | "nt" -> nt := int_of_string b
         | "pos" -> pos := List.map int_of_string (List.filter (fun x -> x <> "") (String.split_on_char ',' b))
         | _ -> ())
      | None -> ()) (split_ws line);
  String.concat "," (List.map (fun p ->
      if p >= !nb then "none" else string_of_n (thread_of (n_of_int !nb) (n_of_int !nt) (n_of_int p))) !pos)

let dispatch line =
  if String.length line >= 3 && String.sub line 0 3 = "cc " then run_trace line
  else if String.length line >= 6 && String.sub line 0 6 = "route " then run_route line
  else "BADCASE"

let () = Conv.main dispatch
