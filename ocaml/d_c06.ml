(* Model driver for C06 (see harness/c06/src/main.rs for the case grammar).
   `c06 sg=<b>/<s> file=<e|p|s> st=<missing|empty|p<len>|complete> lay=<hdr>:<recs>:<total> recs=<record>,.. | <history>`
   The sealed segment is rebuilt from its record list (as read from the real data.evts); the named index file is put
   into the given state, the other two are complete; prints what the harness prints for the real Database after
   reopening: `open=ok id=<found>/<n> st=<found>/<n> pt=<found>/<n> oth=ok`. *)
open Svmodel
open Conv

let n_of_int i = n_of_z (BZ.of_int i)

let parse_rec s =
  let body = String.sub s 1 (String.length s - 1) in
  let f = List.map n_of_string (String.split_on_char '.' body) in
  match s.[0], f with
  | 'E', [eid; pid; seq; sid; ver; tx; flag] ->
    REvent { e_id = eid; e_pk = N0; e_pid = pid; e_tx = tx; e_flag = (flag <> N0); e_seq = seq; e_sid = sid; e_ver = ver }
  | 'C', [tx; n] -> RCommit (tx, n)
  | _ -> failwith "bad record"

let run line =
  let head = (match String.index_opt line '|' with Some i -> String.sub line 0 i | None -> line) in
  let fs = List.filter_map (fun t -> match String.index_opt t '=' with
      | Some i -> Some (String.sub t 0 i, String.sub t (i + 1) (String.length t - i - 1)) | None -> None) (split_ws head) in
  let get k = List.assoc k fs in
  let recs = (match get "recs" with "" -> [] | r -> List.map parse_rec (String.split_on_char ',' r)) in
  let lay = (match List.map n_of_string (String.split_on_char ':' (get "lay")) with
      | [h; r; t] -> { l_hdr = h; l_recs = r; l_total = t } | _ -> failwith "bad layout") in
  let st = (match get "st" with
      | "missing" -> FMissing | "empty" -> FPrefix N0 | "complete" | "emptydir" -> FComplete
      | s -> FPrefix (n_of_string (String.sub s 1 (String.length s - 1)))) in
  let g = { s_recs = recs; s_idx = hydrate_from recs O } in
  let full = { l_hdr = n_of_int 20; l_recs = n_of_int 20; l_total = n_of_int 20 } in
  let f = (match get "file" with
      | "e" -> { f_le = lay; f_e = st; f_lp = full; f_p = FComplete; f_ls = full; f_s = FComplete }
      | "p" -> { f_le = full; f_e = FComplete; f_lp = lay; f_p = st; f_ls = full; f_s = FComplete }
      | "d" -> { f_le = full; f_e = FComplete; f_lp = full; f_p = FComplete; f_ls = full; f_s = FComplete }   (* an empty next segment directory: no index file is touched *)
      | _ -> { f_le = full; f_e = FComplete; f_lp = full; f_p = FComplete; f_ls = lay; f_s = st }) in
  let r = open_sealed g f in
  let evs = seg_committed recs in
  let n = List.length evs in
  let c p = int_of_nat (count p evs) in
  Printf.sprintf "open=ok id=%d/%d st=%d/%d pt=%d/%d oth=ok" (c (find_by_id r)) n (c (find_by_stream r)) n (c (find_by_partition r)) n

let dispatch line =
  match split_ws line with
  | "c06" :: _ -> run line
  | _ -> "BADCASE"

let () = Conv.main dispatch
