(* Model driver for C22: runs a command history (same line format as harness/c22) through the extracted
   handlers of Model/Resp.v and prints the canonical replies joined by " | ".
   uuid numbers: partition key k<j> with hash h = (2j+1)*65536+h; default key of stream n = (2n)*65536+h;
   event id e<i>h<h> = (2i+1)*65536+h; generated id g<n> = (2n)*65536+hash (Resp.rs_gen_id). *)
open Svmodel
open Conv

exception Bad of string
let bad s = raise (Bad s)

let z65536 = BZ.of_int 65536
let mk_uuid q h = n_of_z (BZ.add (BZ.mul q z65536) (BZ.of_int h))
let key_uuid j h = mk_uuid (BZ.of_int (2 * j + 1)) h
let dflt_uuid n h = mk_uuid (BZ.mul (BZ.of_int 2) (BZ.of_string n)) h
let eid_uuid i h = mk_uuid (BZ.succ (BZ.mul (BZ.of_int 2) (BZ.of_string i))) h
let gen_uuid g h = mk_uuid (BZ.of_int (2 * g)) h

let strip p s =
  let lp = String.length p in
  if String.length s >= lp && String.sub s 0 lp = p then Some (String.sub s lp (String.length s - lp)) else None
let need = function Some x -> x | None -> bad "token"
let is_num s = s <> "" && String.for_all (fun c -> c >= '0' && c <= '9') s
let num s = if is_num s then n_of_string s else bad ("number " ^ s)

type hdr = { p : int; b : int; strict : bool; keys : int array; dflt : (string * int) list }

let parse_hdr toks =
  let h = ref { p = 0; b = 0; strict = false; keys = [||]; dflt = [] } in
  List.iter (fun t ->
    if t <> "c22" then
      match String.index_opt t '=' with
      | None -> bad "header"
      | Some i ->
        let k = String.sub t 0 i and v = String.sub t (i + 1) (String.length t - i - 1) in
        let items = List.filter (fun x -> x <> "") (String.split_on_char ',' v) in
        (match k with
         | "P" -> h := { !h with p = int_of_string v }
         | "B" -> h := { !h with b = int_of_string v }
         | "strict" -> h := { !h with strict = (v = "1") }
         | "K" -> h := { !h with keys = Array.of_list (List.map int_of_string items) }
         | "D" -> h := { !h with dflt = List.map (fun e -> match String.split_on_char ':' e with [n; hh] -> (n, int_of_string hh) | _ -> bad "D") items }
         | _ -> bad "header key")) toks;
  if !h.p <= 0 || !h.b <= 0 then bad "P/B";
  !h

let key_of h t = let j = int_of_string (need (strip "k" t)) in if j < 0 || j >= Array.length h.keys then bad "key" else (j, key_uuid j h.keys.(j))
let stream_of t = let n = need (strip "st" t) in if is_num n then n else bad "stream"
let dflt_of h n = dflt_uuid n (try List.assoc n h.dflt with Not_found -> bad "no default hash")
let eid_of t =
  let r = need (strip "e" t) in
  match String.split_on_char 'h' r with [i; hh] when is_num i && is_num hh -> eid_uuid i (int_of_string hh) | _ -> bad "eid"

let xv_of = function
  | "any" | "ANY" -> XAny | "exists" | "EXISTS" -> XExists | "empty" | "EMPTY" -> XEmpty
  | s -> XExact (num s)

(* options of one event: returns (newev, explicit pk option, ts given?) *)
let parse_event h toks =
  match toks with
  | [] -> bad "event"
  | st :: opts ->
    let sid = n_of_string (stream_of st) in
    let eid = ref None and xv = ref XAny and ts = ref RTsNow and pk = ref None in
    List.iter (fun o ->
      match String.index_opt o '=' with
      | None -> bad "option"
      | Some i ->
        let k = String.sub o 0 i and v = String.sub o (i + 1) (String.length o - i - 1) in
        (match k with
         | "id" -> eid := Some (eid_of v)
         | "pk" -> pk := Some (snd (key_of h v))
         | "xv" -> xv := xv_of v
         | "ts" -> ts := RTsMs (num v)
         | "pl" | "md" -> ignore (num v)
         | _ -> bad "option key")) opts;
    ({ rn_sid = sid; rn_eid = !eid; rn_xv = !xv; rn_ts = !ts }, !pk, stream_of st)

(* split [s] at every occurrence of the string [sep] *)
let split_str sep s =
  let ls = String.length sep and n = String.length s in
  let rec go start i acc =
    if i + ls > n then List.rev (String.sub s start (n - start) :: acc)
    else if String.sub s i ls = sep then go (i + ls) (i + ls) (String.sub s start (i - start) :: acc)
    else go start (i + 1) acc in
  go 0 0 []

let rec split_on sep = function
  | [] -> [[]]
  | x :: r when x = sep -> [] :: split_on sep r
  | x :: r -> (match split_on sep r with g :: gs -> (x :: g) :: gs | [] -> [[x]])

let range_of = function "-" -> RgStart | "+" -> RgEnd | s -> RgVal (num s)
let psel_of h t = if String.length t > 0 && t.[0] = 'k' then PsKey (snd (key_of h t)) else PsId (num t)

let now_ns = n_of_string "1700000000000000000"

(* ---- printing ---- *)
let zq u = BZ.div (z_of_n u) z65536
let zh u = BZ.rem (z_of_n u) z65536
let sym_key u = let q = zq u in if BZ.is_odd q then "k" ^ BZ.to_string (BZ.div q (BZ.of_int 2)) else "d" ^ BZ.to_string (BZ.div q (BZ.of_int 2))
let sym_eid u = let q = zq u in if BZ.is_odd q then "e" ^ BZ.to_string (BZ.div q (BZ.of_int 2)) ^ "h" ^ BZ.to_string (zh u) else "g" ^ BZ.to_string (BZ.div q (BZ.of_int 2))

(* the model numbers transactions by accepted appends, as the harness does *)
let sym_tx u = "t" ^ string_of_n u

let show_event e =
  Printf.sprintf "ev(id=%s pk=%s pid=%s tx=%s seq=%s ver=%s st=st%s body=ok)" (sym_eid e.e_id) (sym_key e.e_pk) (string_of_n e.e_pid)
    (sym_tx e.e_tx) (string_of_n e.e_seq) (string_of_n e.e_ver) (string_of_n e.e_sid)

let show_err = function
  | EInvalidArg -> "INVALIDARG" | EInvalidEventId -> "other:the_event_id" | EWrongVer -> "WRONGVER"
  | EDbFailed -> "DBOPFAILED" | EClusterDown -> "CLUSTERDOWN"

(* tss: for each event of the request whether TIMESTAMP was given *)
let show tss = function
  | RPanic -> "LOST"
  | ROk r ->
    (match r with
     | RpErr e -> "ERR " ^ show_err e ^ " +alive"
     | RpPong -> "simple:PONG"
     | RpNum None -> "null" | RpNum (Some n) -> string_of_n n
     | RpEvent None -> "null" | RpEvent (Some e) -> show_event e
     | RpScan (_, evs) when tss = [false; false] -> Printf.sprintf "sub [%s]" (String.concat ";" (List.map show_event evs))
     | RpScan (more, evs) -> Printf.sprintf "more=%d [%s]" (if more then 1 else 0) (String.concat ";" (List.map show_event evs))
     | RpAppend (id, pk, pid, seq, ver, ms) ->
       Printf.sprintf "ok id=%s pk=%s pid=%s seq=%s ver=%s ts=%s" (sym_eid id) (sym_key pk) (string_of_n pid) (string_of_n seq) (string_of_n ver)
         (match tss with [true] -> string_of_n ms | _ -> "T")
     | RpMAppend (pk, pid, first, last, infos) ->
       let rec go is ts = match is, ts with
         | i :: is', t :: ts' -> Printf.sprintf "%s/st%s/%s/%s" (sym_eid i.rf_id) (string_of_n i.rf_sid) (string_of_n i.rf_ver) (if t then string_of_n i.rf_ms else "T") :: go is' ts'
         | _, _ -> [] in
       Printf.sprintf "ok pk=%s pid=%s first=%s last=%s [%s]" (sym_key pk) (string_of_n pid) (string_of_n first) (string_of_n last) (String.concat "," (go infos tss)))

(* generated ids in order of appearance in replies: id number -> uuid *)
let gens : (int, n) Hashtbl.t = Hashtbl.create 16

(* the request of one command, plus: which timestamps were explicit; for g<n> lookups the state is needed *)
let request h toks =
  match toks with
  | [] -> bad "empty"
  | c :: args ->
    let c = if String.length c > 1 && c.[String.length c - 1] = '~' then String.sub c 0 (String.length c - 1) else c in
    (match c with
     | "A" ->
       let (ev, pk, sname) = parse_event h args in
       (RqAppend (ev, pk, dflt_of h sname, now_ns, true), [ev.rn_ts <> RTsNow])
     | "M" ->
       (match args with
        | k :: rest ->
          let evs = List.map (fun g -> let (ev, pk, _) = parse_event h g in if pk <> None then bad "pk in M"; ev) (split_on "," rest) in
          (RqMAppend (snd (key_of h k), evs, now_ns, true), List.map (fun ev -> ev.rn_ts <> RTsNow) evs)
        | [] -> bad "M")
     | "G" ->
       (match args with
        | [t] ->
          (match strip "g" t with
           | Some g when is_num g ->
             (* the g-th generated id: known to the client only once a reply carried it; otherwise some unknown uuid *)
             let gi = int_of_string g in
             (match Hashtbl.find_opt gens gi with
              | Some u -> (RqGet u, [])
              | None -> (RqGet (eid_uuid (string_of_int (1000000 + gi)) 0), []))
           | _ -> (RqGet (eid_of t), []))
        | _ -> bad "G")
     | "S" ->
       (match args with
        | s :: a :: b :: opts ->
          let pk = ref None and cnt = ref None in
          List.iter (fun o -> match strip "pk=" o, strip "n=" o with
            | Some v, _ -> pk := Some (snd (key_of h v)) | _, Some v -> cnt := Some (num v) | _ -> bad "S option") opts;
          (RqScan (n_of_string (stream_of s), range_of a, range_of b, !pk, dflt_of h (stream_of s), !cnt), [])
        | _ -> bad "S")
     | "P" ->
       (match args with
        | s :: a :: b :: opts ->
          let cnt = ref None in
          List.iter (fun o -> match strip "n=" o with Some v -> cnt := Some (num v) | None -> bad "P option") opts;
          (RqPScan (psel_of h s, range_of a, range_of b, !cnt), [])
        | _ -> bad "P")
     | "V" ->
       (match args with
        | s :: opts ->
          let pk = ref None in
          List.iter (fun o -> match strip "pk=" o with Some v -> pk := Some (snd (key_of h v)) | None -> bad "V option") opts;
          (RqSVer (n_of_string (stream_of s), !pk, dflt_of h (stream_of s)), [])
        | _ -> bad "V")
     | "Q" -> (match args with [s] -> (RqPSeq (psel_of h s), []) | _ -> bad "Q")
     | "U" -> (match args with [s] -> (RqPScan (PsId (num s), RgStart, RgEnd, Some (n_of_string "18446744073709551615")), [false; false]) | _ -> bad "U")
     | "X" -> (RqMalformed, [])
     | _ -> bad "command")

let note_gens out =
  let note u = let q = zq u in if not (BZ.is_odd q) then Hashtbl.replace gens (BZ.to_int (BZ.div q (BZ.of_int 2))) u in
  match out with
  | ROk (RpAppend (id, _, _, _, _, _)) -> note id
  | ROk (RpMAppend (_, _, _, _, infos)) -> List.iter (fun i -> note i.rf_id) infos
  | _ -> ()

let pid_of_reply = function
  | ROk (RpAppend (_, _, pid, _, _, _)) -> Some pid
  | ROk (RpMAppend (_, pid, _, _, _)) -> Some pid
  | _ -> None

let rec range_n a b = if BZ.gt a b then [] else a :: range_n (BZ.succ a) b
let dedup l = List.fold_left (fun acc x -> if List.mem x acc then acc else acc @ [x]) [] l

let history line =
  Hashtbl.reset gens;
  let (hs, cs) = match split_str "::" line with [a; b] -> (a, b) | _ -> bad "no ::" in
  let h = parse_hdr (split_ws hs) in
  let cfg = { rc_parts = n_of_z (BZ.of_int h.p); rc_buckets = n_of_z (BZ.of_int h.b); rc_strict = h.strict } in
  let cmds = List.filter (fun c -> c <> []) (List.map split_ws (split_str " ; " cs)) in
  let st = ref rs_init in
  let wait = ref None in            (* partition of an append whose confirmation has not been awaited yet *)
  let outs = List.map (fun toks ->
    try
      let (rq, tss) = request h toks in
      (* admissible watermarks of the partition with an unawaited append: from the confirmed to the written *)
      let states = match !wait with
        | None -> [!st]
        | Some (pid, _) ->
          let lo = z_of_n (!st.rs_wm pid) and hi = z_of_n (rs_next_seq (!st.rs_logs (rs_bucket cfg pid)) pid) in
          List.map (fun w -> rs_confirm_upto !st pid (n_of_z w)) (range_n lo hi) in
      let results = List.map (fun s -> rs_handle SubFixed cfg s rq) states in
      (* the state change of a request does not depend on the watermark: continue from the first *)
      let (st1, out1) = List.hd results in
      let st1 = { st1 with rs_wm = !st.rs_wm } in
      note_gens out1;
      let shown = dedup (List.map (fun (_, o) -> show tss o) results) in
      (* the harness now awaits the earlier append: the watermark reaches at least what that append wrote *)
      let st2 = match !wait with
        | Some (pid, upto) -> if BZ.lt (z_of_n (st1.rs_wm pid)) (z_of_n upto) then rs_confirm_upto st1 pid upto else st1
        | None -> st1 in
      wait := None;
      let unq = (match toks with c :: _ -> String.length c > 1 && c.[String.length c - 1] = '~' | [] -> false) in
      let st3 = match pid_of_reply out1 with
        | Some pid -> if unq then (wait := Some (pid, rs_next_seq (st2.rs_logs (rs_bucket cfg pid)) pid); st2) else rs_confirm cfg st2 pid
        | None -> st2 in
      st := st3;
      String.concat " || " shown
    with Bad _ | Failure _ | Not_found | Invalid_argument _ -> "BADCASE") cmds in
  String.concat " | " outs

let dispatch line =
  try history line with Bad m -> "BADCASE " ^ m

let () = Conv.main dispatch
