(* Model driver for the storage-engine histories (see harness/cstore/src/hist.rs for the grammar).
   For every history prints "<concrete results> ## <spec results>" where both are " ; "-joined per op.
   The concrete results come from Model/Store.v + StoreIter.v, the spec results from StoreSpec.v
   applied to the abstract log maintained by spec_append only. *)
open Svmodel
open Conv

let n_of_int i = n_of_z (BZ.of_int i)
let int_of_n n = BZ.to_int (z_of_n n)

let parse_xv s = match s with
  | "a" -> XAny | "e" -> XExists | "n" -> XEmpty
  | _ -> XExact (n_of_string (String.sub s 1 (String.length s - 1)))
let show_xv = function XAny -> "a" | XExists -> "e" | XEmpty -> "n" | XExact v -> "x" ^ string_of_n v
let show_cur = function None -> "none" | Some v -> string_of_n v

let split_on s sep =
  (* split string s on the multi-char separator sep *)
  let ls = String.length sep in
  let rec go start i acc =
    if i + ls > String.length s then List.rev (String.sub s start (String.length s - start) :: acc)
    else if String.sub s i ls = sep then go (i + ls) (i + ls) (String.sub s start (i - start) :: acc)
    else go start (i + 1) acc in
  go 0 0 []

let show_event e = Printf.sprintf "e%s:q%s:v%s" (string_of_n e.e_id) (string_of_n e.e_seq) (string_of_n e.e_ver)
let show_group evs = "g(" ^ String.concat "," (List.map show_event evs) ^ ")"

let show_reject keys = function
  | WrongVersion (sid, cur, exp) -> Printf.sprintf "err ver s%s cur=%s exp=%s" (string_of_n sid) (show_cur cur) (show_xv exp)
  | KeyMismatch (epk, _) -> Printf.sprintf "err key existing=k%s" (string_of_n epk)
  | WrongSequence (_, cur, exp) -> Printf.sprintf "err seq cur=%s exp=%s" (show_cur cur) (show_xv exp)
  | BadTimestamp -> "err ts"
  | TooBig -> "err big"

let show_ok evs =
  match evs with
  | [] -> "ok"
  | first :: _ ->
    let last = List.nth evs (List.length evs - 1) in
    let tbl = Hashtbl.create 8 in
    List.iter (fun e -> Hashtbl.replace tbl (int_of_n e.e_sid) e.e_ver) evs;
    let l = List.sort compare (Hashtbl.fold (fun k v acc -> (k, v) :: acc) tbl []) in
    Printf.sprintf "ok %s %s %s" (string_of_n first.e_seq) (string_of_n last.e_seq)
      (String.concat "," (List.map (fun (k, v) -> Printf.sprintf "s%d=%s" k (string_of_n v)) l))

let run_history line =
  let parts = split_on line " ; " in
  let head = split_ws (List.hd parts) in
  let buckets = ref 1 and keys = ref [||] in
  List.iter (fun t -> match String.index_opt t '=' with
    | Some i -> let a = String.sub t 0 i and b = String.sub t (i+1) (String.length t - i - 1) in
      (match a with
       | "B" -> buckets := int_of_string b
       | "K" -> keys := Array.of_list (List.map int_of_string (String.split_on_char ',' b))
       | _ -> ())
    | None -> ()) head;
  let nb = !buckets in
  let stores = Array.make nb store_init in
  let specs = Array.make nb ([] : event list list) in
  (* per bucket: (live length before the last successful append, number of its records) *)
  let lastapp = Array.make nb None in
  let last_bucket = ref (-1) in
  let conc = ref [] and spec = ref [] in
  let txc = ref 0 in
  let scan_str r = match r with
    | None -> "err"
    | Some batches -> String.concat " " (List.map (fun c -> show_group (committed_events c)) (List.concat batches)) in
  (* spec-side scans: events are grouped by transaction like the implementation does *)
  let spec_groups_fwd (evs : event list) =
    (* consecutive events with the same tx form one group *)
    let rec go acc cur = function
      | [] -> List.rev (match cur with [] -> acc | _ -> List.rev cur :: acc)
      | e :: r -> (match cur with
          | c :: _ when c.e_tx = e.e_tx -> go acc (e :: cur) r
          | [] -> go acc [e] r
          | _ -> go (List.rev cur :: acc) [e] r) in
    String.concat " " (List.map show_group (go [] [] evs)) in
  List.iter (fun p ->
    let t = split_ws p in
    let emit c s = conc := c :: !conc; spec := s :: !spec in
    match t with
    | "A" :: fields ->
      let k = ref 0 and xseq = ref XAny and roll = ref false and big = ref false and evs = ref [] in
      List.iter (fun f -> match String.index_opt f '=' with
        | Some i -> let a = String.sub f 0 i and b = String.sub f (i+1) (String.length f - i - 1) in
          (match a with
           | "k" -> k := int_of_string b
           | "x" -> xseq := parse_xv b
           | "r" -> roll := (b = "1")
           | "z" -> big := (b = "1")
           | "e" -> evs := List.map (fun e -> match String.split_on_char ':' e with
               | [eid; sid; xv; _len; _rnd; ts] -> { n_id = n_of_string eid; n_sid = n_of_string sid; n_expect = parse_xv xv; n_ts_ok = (ts = "g") }
               | _ -> failwith "bad event") (String.split_on_char ',' b)
           | _ -> ())
        | None -> ()) fields;
      let pid = (!keys).(!k) in
      let b = pid mod nb in
      incr txc;
      let tx = { t_pk = n_of_int !k; t_pid = n_of_int pid; t_tx = n_of_int !txc;
                 t_flag = (List.length !evs = 1); t_events = !evs; t_xseq = !xseq } in
      let before = List.length (if !roll then [] else stores.(b).live.s_recs) in
      let (s', r) = append stores.(b) tx !roll !big in
      (* the append API returns after the next sync: publish *)
      let s'' = (match r with Inl _ -> publish s' | Inr _ -> s') in
      stores.(b) <- s'';
      last_bucket := b;
      (match r with
       | Inl evs -> lastapp.(b) <- Some (before, List.length evs + (if tx.t_flag then 0 else 1))
       | Inr _ -> lastapp.(b) <- None);
      let (l', sr) = spec_append specs.(b) tx (not !big) in
      specs.(b) <- l';
      let show = function Inl evs -> show_ok evs | Inr rj -> show_reject !keys rj in
      emit (show r) (show sr)
    | ["RE"; eid; pid] ->
      let b = int_of_string pid mod nb in
      let sh = function Some e -> show_event e | None -> "none" in
      emit (sh (read_event stores.(b) (n_of_string eid))) (sh (spec_read_event specs.(b) (n_of_string eid)))
    | ["RT"; eid; pid] ->
      let b = int_of_string pid mod nb in
      let c = (match read_transaction stores.(b) (n_of_string eid) with
          | Some c -> show_group (committed_events c) | None -> "none") in
      (* spec: the events of the transaction from the asked event onwards *)
      let s = (match List.find_opt (fun g -> List.exists (fun e -> e.e_id = n_of_string eid) g) specs.(b) with
          | Some g ->
            let rec drop = function [] -> [] | (e :: _) as l when e.e_id = n_of_string eid -> l | _ :: r -> drop r in
            show_group (drop g)
          | None -> "none") in
      emit c s
    | ["SS"; sid; pid; from; d; batch] ->
      let b = int_of_string pid mod nb in
      let rev = (d = "r") in
      let c = scan_str (scan stores.(b) (KStream (n_of_string sid)) (n_of_string from) (if rev then Rev else Fwd) (nat_of_int (int_of_string batch))) in
      let s = if rev then "set:" ^ String.concat "," (List.map show_event (spec_scan_stream_rev specs.(b) (n_of_string sid) (n_of_string from)))
                          ^ " | " ^ spec_groups_fwd (spec_scan_stream_fwd specs.(b) (n_of_string sid) N0)
        else spec_groups_fwd (spec_scan_stream_fwd specs.(b) (n_of_string sid) (n_of_string from)) in
      emit c s
    | ["SP"; pid; from; d; batch] ->
      let b = int_of_string pid mod nb in
      let rev = (d = "r") in
      let c = scan_str (scan stores.(b) (KPartition (n_of_string pid)) (n_of_string from) (if rev then Rev else Fwd) (nat_of_int (int_of_string batch))) in
      let s = if rev then "set:" ^ String.concat "," (List.map show_event (spec_scan_partition_rev specs.(b) (n_of_string pid) (n_of_string from)))
                          ^ " | " ^ spec_groups_fwd (spec_scan_partition_fwd specs.(b) (n_of_string pid) N0)
        else spec_groups_fwd (spec_scan_partition_fwd specs.(b) (n_of_string pid) (n_of_string from)) in
      emit c s
    | ["SV"; sid; pid] ->
      let b = int_of_string pid mod nb in
      let sh = function Some (pk, v) -> Printf.sprintf "k%s:v%s" (string_of_n pk) (string_of_n v) | None -> "none" in
      emit (sh (get_stream_version stores.(b) (n_of_string sid))) (sh (spec_stream_version specs.(b) (n_of_string sid)))
    | ["PS"; pid] ->
      let b = int_of_string pid mod nb in
      let sh = function Some v -> "q" ^ string_of_n v | None -> "none" in
      emit (sh (get_partition_sequence stores.(b) (n_of_string pid))) (sh (spec_partition_sequence specs.(b) (n_of_string pid)))
    | ["SX"; lo; hi; kind] ->
      (* sweep of never-written keys: the model (and the spec) hold nothing for them *)
      let lo = int_of_string lo and hi = int_of_string hi in
      let found = ref [] in
      for id = lo to hi - 1 do
        if kind = "p" then begin
          if not (Array.exists (fun p -> p = id) !keys) then begin
            let b = id mod nb in
            (match scan stores.(b) (KPartition (n_of_int id)) N0 Fwd (nat_of_int 50) with
             | Some (bt :: _) when bt <> [] -> found := Printf.sprintf "p%d:%s" id (String.concat " " (List.map (fun c -> show_group (committed_events c)) bt)) :: !found
             | Some _ -> ()
             | None -> found := Printf.sprintf "p%d:err" id :: !found);
            (match get_partition_sequence stores.(b) (n_of_int id) with Some q -> found := Printf.sprintf "p%d:seq%s" id (string_of_n q) :: !found | None -> ())
          end
        end else begin
          for b = 0 to nb - 1 do
            (* a stream id that was written is skipped by the harness; the model only reports what it holds *)
            (match scan stores.(b) (KStream (n_of_int id)) N0 Fwd (nat_of_int 50) with
             | Some (bt :: _) when bt <> [] -> found := Printf.sprintf "s%d:%s" id (String.concat " " (List.map (fun c -> show_group (committed_events c)) bt)) :: !found
             | _ -> ())
          done
        end
      done;
      let r = String.concat " " (List.rev !found) in
      emit r ""
    | ["RO"] ->
      for b = 0 to nb - 1 do stores.(b) <- reopen (publish stores.(b)); lastapp.(b) <- None done;
      emit "ok" "ok"
    | ["CR"; keep; _extra] ->
      let keep = int_of_string keep in
      let b = !last_bucket in
      (match (if b >= 0 then lastapp.(b) else None) with
       | Some (before, nrec) ->
         let k = Stdlib.min keep nrec in
         for b' = 0 to nb - 1 do
           if b' = b then stores.(b') <- crash stores.(b') (nat_of_int (before + k))
           else stores.(b') <- reopen (publish stores.(b'))
         done;
         (* spec: the torn transaction is lost unless all of its records survived *)
         if k < nrec then specs.(b) <- (match List.rev specs.(b) with [] -> [] | _ :: r -> List.rev r);
         lastapp.(b) <- None
       | None -> for b' = 0 to nb - 1 do stores.(b') <- reopen (publish stores.(b')) done);
      emit "ok" "ok"
    | _ -> emit "BADOP" "BADOP") (List.tl parts);
  String.concat " ; " (List.rev !conc) ^ " ## " ^ String.concat " ; " (List.rev !spec)

let dispatch line =
  if String.length line >= 3 && String.sub line 0 3 = "st " then run_history line else "BADCASE"

let () = Conv.main dispatch
