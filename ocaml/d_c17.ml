(* Model driver for C17 (seglog record codec): one case per line on stdin -> the model's result line.
   Trusted glue: data-spec expansion, hex, the FNV digest used to print long byte strings, and the
   enumeration loops of the corruption families (the decisions themselves are made by the extracted model). *)
open Svmodel
open Conv

(* ---------- bytes <-> Coq lists ---------- *)
let byte_tab : n array = Array.init 256 (fun i -> n_of_z (BZ.of_int i))
let n_of_int i = if i >= 0 && i < 256 then byte_tab.(i) else n_of_z (BZ.of_int i)
let int_of_n x = BZ.to_int (z_of_n x)
let coq_of_bytes (b : Bytes.t) : n list =
  let r = ref [] in
  for i = Bytes.length b - 1 downto 0 do r := byte_tab.(Char.code (Bytes.get b i)) :: !r done; !r
let bytes_of_coq (l : n list) : Bytes.t =
  let len = List.length l in
  let b = Bytes.create len in
  List.iteri (fun i x -> Bytes.set b i (Char.chr (int_of_n x land 255))) l; b

let hex_of_bytes b =
  let h = "0123456789abcdef" in
  let o = Bytes.create (2 * Bytes.length b) in
  Bytes.iteri (fun i c -> let v = Char.code c in Bytes.set o (2*i) h.[v lsr 4]; Bytes.set o (2*i+1) h.[v land 15]) b;
  Bytes.to_string o
let bytes_of_hex s =
  let n = String.length s / 2 in
  let v c = match c with '0'..'9' -> Char.code c - 48 | 'a'..'f' -> Char.code c - 87 | 'A'..'F' -> Char.code c - 55 | _ -> failwith "hex" in
  Bytes.init n (fun i -> Char.chr (v s.[2*i] * 16 + v s.[2*i+1]))

(* data specs: x<hex> | r<seed>:<len> (LCG bytes) | t<seed>:<len> (runs of 16, compressible) | z<len> *)
let expand (s : string) : Bytes.t =
  if s = "" then failwith "spec" else
  let body = String.sub s 1 (String.length s - 1) in
  let two () = match String.split_on_char ':' body with [a; b] -> (Int64.of_string a, int_of_string b) | _ -> failwith "spec" in
  match s.[0] with
  | 'x' -> bytes_of_hex body
  | 'z' -> Bytes.make (int_of_string body) '\000'
  | 'r' -> let (seed, len) = two () in
    let st = ref seed in
    Bytes.init len (fun _ ->
      st := Int64.add (Int64.mul !st 6364136223846793005L) 1442695040888963407L;
      Char.chr (Int64.to_int (Int64.shift_right_logical !st 56) land 255))
  | 't' -> let (seed, len) = two () in
    let sd = Int64.to_int seed in
    Bytes.init len (fun i -> Char.chr (32 + (((sd + (i lsr 4)) * 31) land 63)))
  | _ -> failwith "spec"

(* FNV-1a 64 *)
let digest (b : Bytes.t) : string =
  let h = ref 0xcbf29ce484222325L in
  Bytes.iter (fun c -> h := Int64.mul (Int64.logxor !h (Int64.of_int (Char.code c))) 0x100000001b3L) b;
  Printf.sprintf "%d#%016Lx" (Bytes.length b) !h

let sn = string_of_n
let err_str = function
  | EOob l -> "oob:" ^ sn l | ETrunc -> "trunc" | ECrc -> "crc" | EIo -> "io"
let rec_str (r : rrec) =
  Printf.sprintf "ok:%s:%s:%s:%s" (hex_of_bytes (bytes_of_coq r.r_hdr)) (digest (bytes_of_coq r.r_data))
    (match r.r_cdata with Some _ -> "c" | None -> "u") (sn r.r_len)
let res_str = function ROk r -> rec_str r | RErr e -> err_str e | RPanic -> "PANIC"
let parse_str = function
  | ROk ((h, d), l) -> Printf.sprintf "ok:%s:%s:%s" (hex_of_bytes (bytes_of_coq h)) (digest (bytes_of_coq d)) (sn l)
  | RErr e -> err_str e | RPanic -> "PANIC"
let term_str = function TEnd -> "end" | TErr e -> err_str e | TPanic -> "PANIC" | TFuel -> "FUEL"
let iter_str recs t =
  String.concat "," (List.map (fun (o, r) -> sn o ^ "@" ^ rec_str r) recs) ^ "^" ^ term_str t
let open_str = function ROk o -> sn o | RErr e -> err_str e | RPanic -> "PANIC"

(* the zstd oracle of a case: compress returns the recorded stored bytes; decompress inverts exactly that *)
let oracle (data : n list) (stored : string) =
  if stored = "-" then ((fun _ -> []), (fun _ -> None))
  else
    let st = coq_of_bytes (expand stored) in
    ((fun _ -> st), (fun z -> if z = st then Some data else None))

(* build the one-record segment of a case; returns (h, decompress, writer after sync, append result) *)
let build hs comp start slack hdr data stored =
  let h = n_of_string hs in
  let hdrl = coq_of_bytes (expand hdr) and datal = coq_of_bytes (expand data) in
  let (cmp, dec) = oracle datal stored in
  let start = n_of_string start in
  let size = N.add (N.add (N.add (N.add start (n_of_int 8)) h) (lenN datal)) (n_of_string slack) in
  let w0 = writer_create size start in
  let w0 = { w0 with w_comp = (comp = "1") } in
  let (w1, app) = writer_append h cmp w0 hdrl datal in
  let w2 = writer_sync w1 in
  (h, dec, start, w2, app, hdrl, datal)

let rt = function
  | [hs; comp; start; slack; hdr; data; stored] ->
    let (h, dec, start, w, app, _, _) = build hs comp start slack hdr data stored in
    let file = w.w_file and fl = w.w_flushed in
    let rnd = read_random h dec file fl start in
    let (_, seq) = read_seq h dec file fl ra_empty start in
    let (((_, recs), _), t) = iter_all h dec file fl ra_empty start in
    let pr = parse_record h dec file start in
    let op = writer_open_offset h dec file start in
    Printf.sprintf "app=%s|sync=%s|rnd=%s|seq=%s|iter=%s|parse=%s|open=%s"
      (match app with Some (o, l) -> sn o ^ "," ^ sn l | None -> "full") (sn w.w_off)
      (res_str rnd) (res_str seq) (iter_str recs t) (parse_str pr) (open_str op)
  | _ -> "BADCASE"

(* classification of one corrupted read against the original record *)
let cls_full hdrl datal = function
  | ROk r -> if r.r_hdr = hdrl && r.r_data = datal then '=' else 'X'
  | RErr (EOob _) -> 'O' | RErr ETrunc -> 'T' | RErr ECrc -> 'C' | RErr EIo -> 'I' | RPanic -> 'P'
let cls_parse hdrl datal = function
  | ROk ((h, d), _) -> if h = hdrl && d = datal then '=' else 'X'
  | RErr (EOob _) -> 'O' | RErr ETrunc -> 'T' | RErr ECrc -> 'C' | RErr EIo -> 'I' | RPanic -> 'P'

let flip (b : Bytes.t) (bit : int) =
  let i = bit lsr 3 in Bytes.set b i (Char.chr (Char.code (Bytes.get b i) lxor (1 lsl (bit land 7))))

(* burst pattern of length l (2..32) starting at bit s: first and last bit set, the middle from an LCG on (seed,s,l) *)
let burst_bits seed s l =
  let st = ref (Int64.add (Int64.mul (Int64.of_int seed) 1000003L) (Int64.of_int (s * 64 + l))) in
  List.init l (fun k ->
    if k = 0 || k = l - 1 then true
    else begin
      st := Int64.add (Int64.mul !st 6364136223846793005L) 1442695040888963407L;
      Int64.to_int (Int64.shift_right_logical !st 63) = 1 end)

let cor = function
  | hs :: comp :: start :: slack :: hdr :: data :: stored :: mode :: args ->
    let (h, dec, start, w, app, hdrl, datal) = build hs comp start slack hdr data stored in
    (match app with
     | None -> "full"
     | Some (_, reclen) ->
       let file = bytes_of_coq w.w_file in
       let st = int_of_n start and rl = int_of_n reclen in
       let buf = Buffer.create 1024 in
       let parse_cls (b : Bytes.t) = cls_parse hdrl datal (parse_record h dec (coq_of_bytes b) start) in
       (match mode, args with
        | "bits", [] ->
          for bit = 0 to 8 * rl - 1 do
            let b = Bytes.copy file in flip b (8 * st + bit); Buffer.add_char buf (parse_cls b)
          done; Buffer.contents buf
        | "burst", [seed] ->
          let seed = int_of_string seed in
          for s = 0 to 8 * rl - 1 do
            for l = 2 to 32 do
              if s + l <= 8 * rl then begin
                let b = Bytes.copy file in
                List.iteri (fun k on -> if on then flip b (8 * st + s + k)) (burst_bits seed s l);
                Buffer.add_char buf (parse_cls b) end
            done
          done; Buffer.contents buf
        | "trunc", [] ->
          for k = 0 to rl - 1 do
            let b = Bytes.sub file 0 (st + k) in Buffer.add_char buf (parse_cls b)
          done; Buffer.contents buf
        | "ftrunc", ks ->
          (* the file cut to start+k bytes, read through fresh readers (flushed = file length) and reopened *)
          List.iter (fun k ->
            let k = int_of_string k in
            let f = coq_of_bytes (Bytes.sub file 0 (st + k)) in
            let fl = lenN f in
            let c1 = cls_full hdrl datal (read_random h dec f fl start) in
            let c2 = cls_full hdrl datal (snd (read_seq h dec f fl ra_empty start)) in
            let (((_, recs), _), t) = iter_all h dec f fl ra_empty start in
            Buffer.add_string buf (Printf.sprintf "%c%c%d%s/%s " c1 c2 (List.length recs) (term_str t)
              (open_str (writer_open_offset h dec f start)))) ks;
          String.trim (Buffer.contents buf)
        | "fbits", bits ->
          (* single bit flips applied to the file, read through fresh readers and reopened *)
          List.iter (fun bit ->
            let b = Bytes.copy file in flip b (8 * st + int_of_string bit);
            let f = coq_of_bytes b in
            let fl = lenN f in
            let c1 = cls_full hdrl datal (read_random h dec f fl start) in
            let c2 = cls_full hdrl datal (snd (read_seq h dec f fl ra_empty start)) in
            Buffer.add_string buf (Printf.sprintf "%c%c%s " c1 c2 (open_str (writer_open_offset h dec f start)))) bits;
          String.trim (Buffer.contents buf)
        | _ -> "BADCASE"))
  | _ -> "BADCASE"

let crc = function
  | [data] -> sn (crc32 (coq_of_bytes (expand data)))
  | [a; b; c] -> sn (calculate_crc (coq_of_bytes (expand a)) (coq_of_bytes (expand b)) (coq_of_bytes (expand c)))
  | _ -> "BADCASE"

(* raw parse_record on arbitrary bytes (malformed stream): `raw <H> <offset> <bytes>`; no compression oracle *)
let raw = function
  | [hs; off; bytes] ->
    parse_str (parse_record (n_of_string hs) (fun _ -> None) (coq_of_bytes (expand bytes)) (n_of_string off))
  | ["orig"; hs; off; bytes] ->
    parse_str (parse_record_orig (n_of_string hs) (fun _ -> None) (coq_of_bytes (expand bytes)) (n_of_string off))
  | _ -> "BADCASE"

let dispatch line =
  match split_ws line with
  | "crc" :: r -> crc r
  | "rt" :: r -> rt r
  | "cor" :: r -> cor r
  | "raw" :: r -> raw r
  | "skip" :: _ -> "skip"
  | _ -> "BADCASE"

(* the extracted list functions are not tail recursive: give large (1 MiB) records enough stack *)
let () =
  if Sys.getenv_opt "SV_STACK" = None then begin
    let cmd = Printf.sprintf "ulimit -s 4000000 2>/dev/null || ulimit -s unlimited 2>/dev/null; SV_STACK=1 exec %s" (Filename.quote Sys.executable_name) in
    exit (Sys.command cmd)
  end else Conv.main dispatch
