(* Model driver for C23: one case per line in, the model's result per line out. UUIDs are decimal u128. *)
open Svmodel
open Conv

let ns = n_of_string
let opt = function Some v -> string_of_n v | None -> "PANIC"
let sb = string_of_bool
let list_of s = if s = "-" then [] else List.map ns (String.split_on_char ',' s)

let route1 u np nb =
  let part = primary_partition_id u np in
  (part, (match part with Some p -> partition_id_to_bucket p nb | None -> None))
let pb (p, b) = opt p ^ "/" ^ (match p with None -> "-" | Some _ -> opt b)

let one = n_of_z BZ.one
let dispatch line =
  match split_ws line with
  | ["gen"; h; u] ->
    let h = ns h and u = ns u in
    (* re-compose the id from the fields extracted from the recorded one and from the requested hash *)
    let u' = mk_id (ts_of u) (r12_of u) h (r46_of u) in
    let hx = n_of_z (BZ.logxor (z_of_n h) BZ.one) in
    Printf.sprintf "%s hash=%s valid=%s other=%s" (string_of_n u') (string_of_n (hash_of u')) (sb (validate_event_id u' h)) (sb (validate_event_id u' hx))
  | ["flag"; u; b] ->
    let u = ns u in let s = set_flag u (b = "1") in
    Printf.sprintf "set=%s get=%s was=%s hash=%s" (string_of_n s) (sb (get_flag s)) (sb (get_flag u)) (string_of_n (hash_of s))
  | ["route"; u; np; nb] ->
    let u = ns u and np = ns np and nb = ns nb in
    let (part, pbucket) = route1 u np nb in
    Printf.sprintf "part=%s ebucket=%s pbucket=%s" (opt part) (opt (extract_event_id_bucket u nb)) (match part with None -> "-" | Some _ -> opt pbucket)
  | ["samekey"; key; np; nb; evs] ->
    let key = ns key and np = ns np and nb = ns nb in
    Printf.sprintf "key=%s ev=%s" (pb (route1 key np nb)) (String.concat "," (List.map (fun e -> pb (route1 e np nb)) (list_of evs)))
  | ["txnew"; key; evs] ->
    (match tx_new (ns key) (list_of evs) N0 with
     | TxNewOk tid -> "ok flag=" ^ sb (get_flag tid)
     | TxNewEmpty -> "empty"
     | TxNewInvalidEventId -> "invalid")
  | _ -> "BADCASE"

let () = Conv.main dispatch
