#!/bin/sh
# build the extracted model + driver: ocaml/_build/svdriver
set -e
cd "$(dirname "$0")"
mkdir -p _build
cp ../coq/svmodel.ml ../coq/svmodel.mli conv.ml driver.ml _build/
cd _build
ocamlfind ocamlopt -O2 -package zarith -linkpkg -w -a svmodel.mli svmodel.ml conv.ml driver.ml -o svdriver 2>/dev/null || \
ocamlfind ocamlopt -package zarith -linkpkg -w -a svmodel.mli svmodel.ml conv.ml driver.ml -o svdriver
