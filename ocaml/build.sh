#!/bin/sh
# ocaml/build.sh c24  ->  ocaml/_build/c24/svdriver  (extracted coq/c24_model.ml + conv.ml + d_c24.ml)
set -e
p="$1"
cd "$(dirname "$0")"
mkdir -p _build/$p
cp ../coq/${p}_model.ml _build/$p/svmodel.ml
cp ../coq/${p}_model.mli _build/$p/svmodel.mli
cp conv.ml _build/$p/conv.ml
cp d_$p.ml _build/$p/driver.ml
cd _build/$p
ocamlfind ocamlopt -O2 -package zarith -linkpkg -w -a svmodel.mli svmodel.ml conv.ml driver.ml -o svdriver 2>/dev/null || \
ocamlfind ocamlopt -package zarith -linkpkg -w -a svmodel.mli svmodel.ml conv.ml driver.ml -o svdriver
