(* Model driver for C21: `c21 <CMD> tok tok ... [| str@uuid ...]` -> canonical request text (same format as
   harness/c21/src/obs.rs).  Tokens: bytes 0x21..0x7e except % @ | # literal, others %XX, empty token %_ .
   Trusted glue: decoding, conversion OCaml string <-> Coq string, printing, sorting of the set/map listings. *)
open Svmodel
open Conv
module S = Stdlib.String

let bit c i = (Char.code c lsr i) land 1 = 1
let coq_ascii c = Ascii (bit c 0, bit c 1, bit c 2, bit c 3, bit c 4, bit c 5, bit c 6, bit c 7)
let coq_string (s : S.t) =
  let r = ref EmptyString in
  for i = S.length s - 1 downto 0 do r := String (coq_ascii s.[i], !r) done; !r
let ml_char (Ascii (a, b, c, d, e, f, g, h)) =
  let v x i = if x then 1 lsl i else 0 in
  Char.chr (v a 0 + v b 1 + v c 2 + v d 3 + v e 4 + v f 5 + v g 6 + v h 7)
let ml_string cs =
  let b = Buffer.create 16 in
  let rec go = function EmptyString -> () | String (c, r) -> Buffer.add_char b (ml_char c); go r in
  go cs; Buffer.contents b

let dec_tok (s : S.t) : S.t =
  if s = "%_" then "" else begin
    let b = Buffer.create (S.length s) in
    let i = ref 0 in
    while !i < S.length s do
      if s.[!i] = '%' then (Buffer.add_char b (Char.chr (int_of_string ("0x" ^ S.sub s (!i + 1) 2))); i := !i + 3)
      else (Buffer.add_char b s.[!i]; incr i)
    done; Buffer.contents b end
let enc_tok (s : S.t) : S.t =
  if s = "" then "%_" else begin
    let b = Buffer.create (S.length s) in
    S.iter (fun c -> let k = Char.code c in
      if k >= 0x21 && k <= 0x7e && c <> '%' && c <> '@' && c <> '|' && c <> '#' then Buffer.add_char b c
      else Buffer.add_string b (Printf.sprintf "%%%02X" k)) s;
    Buffer.contents b end
let enc cs = enc_tok (ml_string cs)

let on = function None -> "-" | Some n -> string_of_n n
let ou = function None -> "-" | Some u -> ml_string u
let pk_d = function None -> "d" | Some u -> ml_string u
let ev = function None | Some EvAny -> "any" | Some EvExists -> "exists" | Some EvEmpty -> "empty" | Some (EvExact n) -> string_of_n n
let od = function None -> "%_" | Some d -> enc d
let rv = function RStart -> "-" | REnd -> "+" | RVal n -> string_of_n n
let ps = function ById p -> "id:" ^ string_of_n p | ByKey u -> "key:" ^ ml_string u
let sorted_by cmp l = List.sort cmp l
let ncmp a b = BZ.compare (z_of_n a) (z_of_n b)
let fseq = function
  | FsLatest -> "latest"
  | FsAll n -> "all:" ^ string_of_n n
  | FsMap (l, d) ->
    let l = sorted_by (fun (a, _) (b, _) -> ncmp a b) l in
    "map[" ^ S.concat "," (List.map (fun (p, s) -> string_of_n p ^ "=" ^ string_of_n s) l) ^ "]default=" ^ on d
let event e =
  Printf.sprintf "sid=%s name=%s id=%s ev=%s ts=%s payload=%s meta=%s" (enc e.ae_stream) (enc e.ae_name) (ou e.ae_event_id)
    (ev e.ae_expected) (on e.ae_timestamp) (od e.ae_payload) (od e.ae_metadata)
let request = function
  | RESub (EsStream (sid, pk, from, win)) ->
    Printf.sprintf "ESUB stream sid=%s pk=%s from=%s win=%s" (enc sid) (pk_d pk) (on from) (on win)
  | RESub (EsStreams (ids, from, win)) ->
    let ids = sorted_by compare (List.map (fun (s, p) -> (ml_string s, pk_d p)) ids) in
    let f = match from with
      | RvLatest -> "latest" | RvAll n -> "all:" ^ string_of_n n
      | RvMap l ->
        let l = sorted_by (fun (a, b, c) (a', b', c') -> let x = compare (a, b) (a', b') in if x <> 0 then x else ncmp c c')
                  (List.map (fun ((s, p), n) -> (ml_string s, pk_d p, n)) l) in
        "map[" ^ S.concat "," (List.map (fun (s, p, n) -> enc_tok s ^ ":" ^ p ^ "=" ^ string_of_n n) l) ^ "]" in
    Printf.sprintf "ESUB streams [%s] from=%s win=%s" (S.concat "," (List.map (fun (s, p) -> enc_tok s ^ ":" ^ p) ids)) f (on win)
  | REPSub (EpAll (f, win)) -> Printf.sprintf "EPSUB all from=%s win=%s" (fseq f) (on win)
  | REPSub (EpPart (p, f, win)) -> Printf.sprintf "EPSUB part %s from=%s win=%s" (string_of_n p) (on f) (on win)
  | REPSub (EpParts (l, f, win)) ->
    Printf.sprintf "EPSUB parts [%s] from=%s win=%s" (S.concat "," (List.map string_of_n (sorted_by ncmp l))) (fseq f) (on win)
  | REAppend e ->
    Printf.sprintf "EAPPEND sid=%s name=%s id=%s pk=%s ev=%s ts=%s payload=%s meta=%s" (enc e.ae_stream) (enc e.ae_name)
      (ou e.ae_event_id) (ou e.ae_partition_key) (ev e.ae_expected) (on e.ae_timestamp) (od e.ae_payload) (od e.ae_metadata)
  | REMAppend (pk, evs) -> Printf.sprintf "EMAPPEND pk=%s [%s]" (ml_string pk) (S.concat ";" (List.map event evs))
  | REScan r -> Printf.sprintf "ESCAN sid=%s start=%s end=%s pk=%s count=%s" (enc r.sc_stream) (rv r.sc_start) (rv r.sc_end) (ou r.sc_pk) (on r.sc_count)
  | REPScan r -> Printf.sprintf "EPSCAN part=%s start=%s end=%s count=%s" (ps r.ps_part) (rv r.ps_start) (rv r.ps_end) (on r.ps_count)
  | REGet u -> "EGET id=" ^ ml_string u
  | RESVer (s, pk) -> Printf.sprintf "ESVER sid=%s pk=%s" (enc s) (ou pk)
  | REPSeq p -> "EPSEQ part=" ^ ps p
  | REAck (u, n) -> Printf.sprintf "EACK id=%s cursor=%s" (ml_string u) (string_of_n n)

let command = function
  | "ESUB" -> Some CESub | "EPSUB" -> Some CEPSub | "EAPPEND" -> Some CEAppend | "EMAPPEND" -> Some CEMAppend
  | "ESCAN" -> Some CEScan | "EPSCAN" -> Some CEPScan | "EGET" -> Some CEGet | "ESVER" -> Some CESVer
  | "EPSEQ" -> Some CEPSeq | "EACK" -> Some CEAck | _ -> None

(* UTF-8 encoding of a scalar value, for the table cases *)
let utf8 cp =
  let b = Buffer.create 4 in
  let add x = Buffer.add_char b (Char.chr x) in
  if cp < 0x80 then add cp
  else if cp < 0x800 then (add (0xC0 lor (cp lsr 6)); add (0x80 lor (cp land 0x3F)))
  else if cp < 0x10000 then (add (0xE0 lor (cp lsr 12)); add (0x80 lor ((cp lsr 6) land 0x3F)); add (0x80 lor (cp land 0x3F)))
  else (add (0xF0 lor (cp lsr 18)); add (0x80 lor ((cp lsr 12) land 0x3F)); add (0x80 lor ((cp lsr 6) land 0x3F)); add (0x80 lor (cp land 0x3F)));
  Buffer.contents b
let scalars f = for cp = 0 to 0x10FFFF do if cp < 0xD800 || cp > 0xDFFF then f cp done
(* every scalar whose upper-case expansion is pure ASCII and that is non-ASCII or changed by it *)
let uppertable () =
  let out = ref [] in
  scalars (fun cp ->
    let s = utf8 cp in
    match upper_ascii (coq_string s) with
    | Some u -> let u = ml_string u in if cp >= 0x80 || u <> s then out := Printf.sprintf "%X=%s" cp u :: !out
    | None -> ());
  S.concat "," (List.rev !out)
let wstable () =
  let out = ref [] in
  scalars (fun cp -> if trim (coq_string (utf8 cp)) = EmptyString then out := Printf.sprintf "%X" cp :: !out);
  S.concat "," (List.rev !out)


(* ---- client calls: `c21 CALL <Kind> k=v ...` -> the tokens the model's printers produce *)
let uprint u = let h = ml_string u in
  coq_string (S.sub h 0 8 ^ "-" ^ S.sub h 8 4 ^ "-" ^ S.sub h 12 4 ^ "-" ^ S.sub h 16 4 ^ "-" ^ S.sub h 20 12)
let fields ws = List.filter_map (fun w -> match S.index_opt w '=' with
    | Some i -> Some (S.sub w 0 i, S.sub w (i + 1) (S.length w - i - 1)) | None -> None) ws
let fld f k = List.assoc k f
let opt f v = if v = "-" then None else Some (f v)
let hexu v = coq_string v
let tokv v = coq_string (dec_tok v)
let evv = function "any" -> EvAny | "exists" -> EvExists | "empty" -> EvEmpty | n -> EvExact (n_of_string n)
let optsv f with_pk =
  { co_event_id = opt hexu (fld f "id"); co_partition_key = (if with_pk then opt hexu (fld f "pk") else None);
    co_expected = evv (fld f "ev"); co_timestamp = opt n_of_string (fld f "ts");
    co_payload = tokv (fld f "payload"); co_metadata = tokv (fld f "meta") }
let selv v = if S.length v > 3 && S.sub v 0 3 = "id:" then CPid (n_of_string (S.sub v 3 (S.length v - 3)))
             else CPkey (hexu (S.sub v 4 (S.length v - 4)))
let mapv v = if v = "-" then [] else
    List.map (fun e -> match S.split_on_char ':' e with [a; b] -> (n_of_string a, n_of_string b) | _ -> failwith "map") (S.split_on_char ',' v)
let cmd_name = function
  | CESub -> "ESUB" | CEPSub -> "EPSUB" | CEAppend -> "EAPPEND" | CEMAppend -> "EMAPPEND" | CEScan -> "ESCAN"
  | CEPScan -> "EPSCAN" | CEGet -> "EGET" | CESVer -> "ESVER" | CEPSeq -> "EPSEQ" | CEAck -> "EACK"
let call kind rest =
  let f = fields rest in
  let on k = opt n_of_string (fld f k) in
  let c = match kind with
    | "EAppend" -> CallEAppend (tokv (fld f "sid"), tokv (fld f "name"), optsv f true)
    | "EMAppend" ->
      (* groups separated by ";" *)
      let rec groups acc cur = function
        | [] -> List.rev (List.rev cur :: acc)
        | ";" :: r -> groups (List.rev cur :: acc) [] r
        | w :: r -> groups acc (w :: cur) r in
      (match groups [] [] rest with
       | hd :: evs -> CallEMAppend (hexu (fld (fields hd) "pk"),
                        List.map (fun g -> let f = fields g in { ce_stream = tokv (fld f "sid"); ce_name = tokv (fld f "name"); ce_opts = optsv (("pk", "-") :: f) false }) evs)
       | [] -> failwith "emappend")
    | "EGet" -> CallEGet (hexu (fld f "id"))
    | "EPScan" -> CallEPScan (selv (fld f "sel"), n_of_string (fld f "start"), on "end", on "count")
    | "EScan" -> CallEScan (tokv (fld f "sid"), opt hexu (fld f "pk"), n_of_string (fld f "start"), on "end", on "count")
    | "EPSeq" -> CallEPSeq (selv (fld f "sel"))
    | "ESVer" -> CallESVer (tokv (fld f "sid"), opt hexu (fld f "pk"))
    | "ESub" -> CallESub (tokv (fld f "sid"), opt hexu (fld f "pk"), on "from", on "win")
    | "ESubLatest" -> CallESubLatest (tokv (fld f "sid"))
    | "EPSubId" -> CallEPSubId (n_of_string (fld f "p"), on "from", on "win")
    | "EPSubKey" -> CallEPSubKey (hexu (fld f "u"), on "from", on "win")
    | "EPSubAllLatest" -> CallEPSubAllLatest
    | "EPSubAll" -> CallEPSubAll (mapv (fld f "m"), on "fallback", on "win")
    | "EPSubSeqs" -> CallEPSubSeqs (mapv (fld f "m"), on "win")
    | "EPSubText" -> CallEPSubText (tokv (fld f "sel"), n_of_string (fld f "from"), on "win")
    | "EAck" -> CallEAck (hexu (fld f "id"), n_of_string (fld f "cursor"))
    | _ -> failwith "call kind" in
  S.concat " " (cmd_name (client_command c) :: List.map enc (client_tokens uprint c))

let dispatch line =
  let body, orc = match S.index_opt line '|' with
    | Some i -> S.sub line 0 i, S.sub line (i + 1) (S.length line - i - 1)
    | None -> line, "" in
  match split_ws body with
  | ["c21"; "UPPERTABLE"] -> uppertable ()
  | ["c21"; "WSTABLE"] -> wstable ()
  | "c21" :: "UTF8" :: toks -> S.concat "," (List.map (fun t -> if utf8_valid (coq_string (dec_tok t)) then "1" else "0") toks)
  | "c21" :: "CALL" :: kind :: rest -> call kind rest
  | "c21" :: "DEC" :: ns -> S.concat "," (List.map (fun t -> ml_string (dec (n_of_string t))) ns)
  | "c21" :: cmd :: toks ->
    (match command cmd with
     | None -> "BADCASE"
     | Some c ->
       let table = List.map (fun e -> match S.split_on_char '@' e with
           | [s; u] -> (dec_tok s, coq_string u) | _ -> failwith "oracle") (split_ws orc) in
       let uo cs = List.assoc_opt (ml_string cs) table in
       (match parse_command uo c (List.map (fun t -> coq_string (dec_tok t)) toks) with
        | None -> "ERR"
        | Some r -> "OK " ^ request r))
  | _ -> "BADCASE"

let () = Conv.main dispatch
