(* Model driver for C07: one case per line on stdin, the model's result per line. *)
open Svmodel
open Conv

let split_on c s = String.split_on_char c s

(* layout "2:010,2.0.2:01" -> list of commits of (stream, count) *)
let parse_layout s : (n * n) list list =
  if s = "-" then [] else
  List.map (fun t -> match split_on ':' t with
    | [c; st] ->
      let streams = List.init (String.length st) (fun i -> n_of_string (String.make 1 st.[i])) in
      let counts = List.map n_of_string (split_on '.' c) in
      let counts = if List.length counts = 1 then List.map (fun _ -> List.hd counts) streams else counts in
      if List.length counts <> List.length streams then failwith "layout";
      List.combine streams counts
    | _ -> failwith "layout") (split_on ',' s)

let opt s = if s = "-" then None else Some (n_of_string s)
let b2s b = if b then "1" else "0"
let watermark rf log = (wm_initialize rf wm_init (cr_counts log)).wm_mark
let total log = List.length (List.concat log)

(* the five reads at watermark [w]; [count_at] = the on-disk confirmation count of the event at a sequence *)
let answer rf log w count_at kind args =
  match kind, args with
  | "rp", [s; e; c] ->
    let s = n_of_string s in
    let acc, more = partition_read (cr_partition_commits log s) [] w s (opt e) (n_of_string c) in
    Printf.sprintf "%s more=%s" (nlist acc) (b2s more)
  | "rs", [x; s; e; c] ->
    let s = n_of_string s in
    let acc, more = stream_read (cr_stream_commits (n_of_string x) log s) [] w (opt e) (n_of_string c) in
    Printf.sprintf "%s more=%s" (list_str (fun (v, q) -> string_of_n v ^ "@" ^ string_of_n q) acc) (b2s more)
  | "re", [s] ->
    let ev = if BZ.lt (BZ.of_string s) (BZ.of_int (total log)) then Some (n_of_string s, count_at (int_of_string s)) else None in
    (match read_event ev (wm_quorum rf) w with Some q -> string_of_n q | None -> "none")
  | "sv", [x] ->
    (match stream_version (cr_stream_rev_commits (n_of_string x) log) w with Some v -> string_of_n v | None -> "none")
  | "ps", [] ->
    (match partition_sequence w with Some v -> string_of_n v | None -> "none")
  | _ -> "BADCASE"

let parse_deliveries s =
  if s = "-" then [] else
  List.map (fun t -> match split_on ':' t with [a; b] -> (int_of_string a, n_of_string b) | _ -> failwith "delivery") (split_on ',' s)

let dispatch line =
  match split_ws line with
  | "lv" :: rf :: l :: d :: kind :: args ->
    let rf = n_of_string rf and log = parse_layout l and ds = parse_deliveries d in
    (* first sequence and size of every transaction *)
    let _, spans = List.fold_left (fun (pos, acc) c -> (pos + List.length c, acc @ [(pos, List.length c)])) (0, []) log in
    let span t = List.nth spans t in
    let reports = List.concat_map (fun (t, c) -> let (f, n) = span t in cr_confirm_reports (n_of_string (string_of_int f)) (nat_of_int n) c) ds in
    let st = cr_live_state rf log reports in
    let initial = Array.of_list (cr_counts log) in
    List.iter (fun (t, c) -> let (f, n) = span t in for i = f to f + n - 1 do initial.(i) <- c done) ds;   (* set_confirmations overwrites *)
    answer rf log st.wm_mark (fun i -> initial.(i)) kind args
  | kind :: rf :: l :: args ->
    let rf = n_of_string rf and log = parse_layout l in
    let counts = Array.of_list (cr_counts log) in
    answer rf log (watermark rf log) (fun i -> counts.(i)) kind args
  | _ -> "BADCASE"

let () = Conv.main dispatch
