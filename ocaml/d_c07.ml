(* Model driver for C07: one case per line on stdin, the model's result per line. *)
open Svmodel
open Conv

let split_on c s = String.split_on_char c s

(* layout "2:010,2.0.2:01" -> list of commits of (stream, count) *)
let parse_layout s : (n * n) list list =
  if s = "-" then [] else
  List.map (fun t -> match split_on ':' t with
    | [c; st] ->
      let streams = List.init (String.length st) (fun i -> n_of_string (String.make 1 st.[i])) in
      let counts = List.map n_of_string (split_on '.' c) in
      let counts = if List.length counts = 1 then List.map (fun _ -> List.hd counts) streams else counts in
      if List.length counts <> List.length streams then failwith "layout";
      List.combine streams counts
    | _ -> failwith "layout") (split_on ',' s)

let opt s = if s = "-" then None else Some (n_of_string s)
let b2s b = if b then "1" else "0"
let watermark rf log = (wm_initialize rf wm_init (cr_counts log)).wm_mark
let total log = List.length (List.concat log)

let dispatch line =
  match split_ws line with
  | ["rp"; rf; l; s; e; c] ->
    let rf = n_of_string rf and log = parse_layout l and s = n_of_string s in
    let w = watermark rf log in
    let acc, more = partition_read (cr_partition_commits log s) [] w s (opt e) (n_of_string c) in
    Printf.sprintf "%s more=%s" (nlist acc) (b2s more)
  | ["rs"; rf; l; x; s; e; c] ->
    let rf = n_of_string rf and log = parse_layout l and s = n_of_string s in
    let w = watermark rf log in
    let acc, more = stream_read (cr_stream_commits (n_of_string x) log s) [] w (opt e) (n_of_string c) in
    Printf.sprintf "%s more=%s" (list_str (fun (v, q) -> string_of_n v ^ "@" ^ string_of_n q) acc) (b2s more)
  | ["re"; rf; l; s] ->
    let rf = n_of_string rf and log = parse_layout l in
    let w = watermark rf log in
    let ev = if BZ.lt (BZ.of_string s) (BZ.of_int (total log)) then cr_event_at log (n_of_string s) else None in
    (match read_event ev (wm_quorum rf) w with Some q -> string_of_n q | None -> "none")
  | ["sv"; rf; l; x] ->
    let rf = n_of_string rf and log = parse_layout l in
    (match stream_version (cr_stream_rev_commits (n_of_string x) log) (watermark rf log) with Some v -> string_of_n v | None -> "none")
  | ["ps"; rf; l] ->
    let rf = n_of_string rf and log = parse_layout l in
    (match partition_sequence (watermark rf log) with Some v -> string_of_n v | None -> "none")
  | _ -> "BADCASE"

let () = Conv.main dispatch
