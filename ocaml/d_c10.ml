(* Model driver for C10 / C11: replays a harness case line on the extracted node handlers.
   X = node 0 (the real ClusterActor), Y = node 1 (the real stand-alone replicator whose coordinator is X).
   case:  n <rf> <limit> <n0x> <n0y> <op>*     (see harness/c10/src/main.rs)
   optional first token "orig" runs the ORIGINAL catch-up (ExpectedVersion::Any) instead of the repaired one. *)
open Svmodel
open Conv

let ni = n_of_string
let of_int i = n_of_z (BZ.of_int i)
let si n = string_of_n n
let x_limit = of_int 4
let reset_limit = of_int 1000
let u64max = ni "18446744073709551615"
let x_alive = of_int 5

let werr_s = function
  | WConflict -> "conflict" | WFull -> "full" | WStale -> "stale" | WEvicted -> "evicted" | WWrongSeq -> "wrongseq"
  | WDb -> "db" | WMissing -> "missing" | WInvalid -> "invalid" | WNotOwned -> "notowned" | WInsufficient -> "insufficient"
  | WQuorumFailed -> "err(QUORUMFAILED)" | WConfirmFailed -> "err(CONFIRMFAILED)" | WTimeout -> "err(TIMEOUT)"
  | WNotLeader -> "err(NOTLEADER)"
let ares_s = function AOk f -> "ok" ^ si f | AErr e -> werr_s e
let cres_s = function COk -> "ok" | CNotFound -> "notfound" | CLenMis -> "lenmis" | CSeqMis -> "seqmis" | CIdMis -> "idmis" | CWrite -> "write"

let log_s (l : log) =
  match List.rev l with
  | [] -> "-"
  | es -> String.concat "," (List.map (fun e ->
            let tx = if BZ.equal (z_of_n e.en_tx) (BZ.of_int 999999) then "?" else si e.en_tx in
            Printf.sprintf "%s:%s:%s:%s" (si e.en_first) tx (si e.en_nev) (si e.en_cnt)) es)

let run_case fixed toks =
  match toks with
  | rf :: limit :: n0x :: n0y :: ops ->
    let rf = ni rf and limit = ni limit in
    let n0x = int_of_string n0x and n0y = int_of_string n0y in
    let q = quorum rf in
    let c0 = cnt0 rf in
    let cfgx = { c_rf = rf; c_reps = [of_int 0; of_int 1; of_int 2]; c_limit = x_limit; c_cufix = fixed } in
    let cfgy = { cfgx with c_limit = limit } in
    let pre n = let rec go j acc = if j >= n then acc else go (j + 1) ({ en_tx = of_int (900 + j); en_first = of_int j; en_nev = of_int 1; en_off = N0; en_cnt = q } :: acc) in go 0 [] in
    let xn = of_int 0 and yn = of_int 1 in
    let x = ref (ns_boot cfgx xn (pre n0x) x_alive) in
    let y = ref (ns_boot cfgy yn (pre n0y) x_alive) in
    let bad = ref [] in
    let nops = List.length ops in
    let toksr = Array.make nops "pend" in
    let answers outs = List.iter (function
        | MRepAns (_, _, rid, _, res) -> let i = BZ.to_int (z_of_n rid) in if i >= 0 && i < nops then toksr.(i) <- ares_s res
        | _ -> ()) outs in
    let orc () = orc_harness !bad in
    let fix_wm () = x := ns_with_wm !x (wm_ideal q !x.ns_log) in
    let settle () =
      fix_wm ();
      (match !y.ns_rp with
       | Some rp when rp.rp_buf <> [] ->
         let (y', outs) = y_settle (nat_of_int 60) cfgy (orc ()) !x yn !y in
         y := y'; answers outs
       | _ -> ()) in
    let flag fl c = String.contains fl c in
    (* the harness builds a transaction at its first mention: only there does the b flag count *)
    let seen = ref [] in
    let mark_bad tx fl =
      if not (List.exists (fun t -> t = tx) !seen) then begin
        seen := tx :: !seen;
        if flag fl 'b' then bad := tx :: !bad
      end in
    List.iteri (fun i op ->
        let f = String.split_on_char ',' op in
        (match f with
         | ["xr"; tx; seq; k; fl] ->
           let tx = ni tx in mark_bad tx fl;
           let ex = if flag fl 'e' then RxAny else RxAt (ni seq) in
           let c = if flag fl 'f' then of_int 99 else xn in
           let alive = if flag fl 'z' then N0 else u64max in
           let (x', outs) = n_replicate xn (orc ()) !x c alive (of_int i) tx ex (ni k) c0 in
           x := x'; answers outs
         | ["yr"; tx; seq; k; fl] ->
           let tx = ni tx in mark_bad tx fl;
           (match !y.ns_rp with
            | Some rp ->
              let w = { bw_key = ni seq; bw_tx = tx; bw_nev = ni k; bw_cnt = c0; bw_coord = xn; bw_rids = [of_int i] } in
              let ((rp', l'), outs) = rp_deliver yn (orc ()) rp !y.ns_log w in
              y := ns_with_rp_log !y rp' l'; answers outs
            | None -> ())
         | [("xl" | "yl") as o; tx; k; fl] ->
           let tx = ni tx in mark_bad tx fl;
           let nd = if o = "xl" then x else y in
           let l = !nd.ns_log in
           (match db_append l None ((orc ()) false l tx) tx (ni k) N0 N0 with
            | Some l' -> toksr.(i) <- "ok" ^ si (log_next l); nd := ns_with_log !nd l'
            | None -> toksr.(i) <- "db")
         | ["xe"; tx; k; fl] ->
           let tx = ni tx in mark_bad tx fl;
           let (x1, o1) = n_client cfgx xn (orc ()) !x tx (ni k) in
           let (x2, o2) = n_finish1 cfgx xn x1 tx true in
           let (x3, o3) = n_finish2 cfgx xn x2 tx in
           let (x4, _) = n_timeout xn x3 tx in     (* the late loop ends: no replies are pending *)
           x := x4;
           List.iter (function MClient (_, _, res) -> toksr.(i) <- ares_s res | _ -> ()) (o1 @ o2 @ o3)
         | ["xc"; tx; seq; k; cnt; v] ->
           let k = int_of_string k in
           mark_bad (ni tx) "-";
           let tx' = if v = "n" then of_int 999998 else ni tx in
           let k' = if v = "s" && k > 1 then k - 1 else k in
           let idsok = not (v = "i" && k > 1) in
           let (x', r) = n_confirm !x tx' (ni seq) (of_int k') (ni cnt) idsok true in
           x := x'; toksr.(i) <- cres_s r
         | ["xR"] ->
           let b = ns_boot cfgx xn !x.ns_log x_alive in
           x := { b with ns_rp = Some { rp_next = log_next !x.ns_log; rp_limit = reset_limit; rp_buf = []; rp_catching = false } };
           toksr.(i) <- "-"
         | ["yR"] -> y := ns_boot cfgy yn !y.ns_log x_alive; toksr.(i) <- "-"
         | ["b"] -> ()
         | ["xpad"; _] -> toksr.(i) <- "-"
         | _ -> failwith ("bad op " ^ op));
        settle ();
        if op = "b" then toksr.(i) <- Printf.sprintf "X[%s]Y[%s]" (log_s !x.ns_log) (log_s !y.ns_log))
      ops;
    settle ();
    Printf.sprintf "res=%s X=%s Y=%s W=%s" (String.concat ";" (Array.to_list toksr)) (log_s !x.ns_log) (log_s !y.ns_log)
      (si (wm_ideal q !x.ns_log))
  | _ -> "BADCASE"


(* ---- family co: two coordinators A1 (node 1), A2 (node 2) running the coordinator actions against the replica X (node 0) *)
let run_co toks =
  match toks with
  | rf :: n0x :: n0a1 :: n0a2 :: ops ->
    let rf = ni rf in
    let q = quorum rf in
    let c0 = cnt0 rf in
    let cfg = { c_rf = rf; c_reps = [of_int 0; of_int 1; of_int 2]; c_limit = x_limit; c_cufix = true } in
    let pre n = let rec go j acc = if j >= n then acc else go (j + 1) ({ en_tx = of_int (900 + j); en_first = of_int j; en_nev = of_int 1; en_off = N0; en_cnt = q } :: acc) in go 0 [] in
    let nx = int_of_string n0x in
    let pre n = List.map (fun e -> if BZ.geq (z_of_n e.en_first) (BZ.of_int nx) then { e with en_cnt = N0 } else e) (pre n) in
    let xn = of_int 0 in
    let x = ref { (ns_boot cfg xn (pre (int_of_string n0x)) x_alive) with ns_view = [(of_int 0, x_alive); (of_int 1, x_alive); (of_int 2, x_alive)] } in
    (* a coordinator sees itself first, then X; when one replica cannot make a quorum (rf >= 4) further replicas that
       never answer stand for the ones the harness does not have: the outcome (no quorum) is the same *)
    let view i = [(of_int i, x_alive); (xn, x_alive)] @ (let rec ph j = if j >= BZ.to_int (z_of_n q) - 2 then [] else (of_int (7 + j), x_alive) :: ph (j + 1) in ph 0) in
    let mk i n0 = { (ns_boot cfg (of_int i) (pre (int_of_string n0)) x_alive) with ns_view = view i } in
    let a = [| !x; mk 1 n0a1; mk 2 n0a2 |] in
    let bad = ref [] and seen = ref [] in
    let flag fl c = String.contains fl c in
    let mark_bad tx fl =
      if not (List.exists (fun t -> t = tx) !seen) then begin
        seen := tx :: !seen; if flag fl 'b' then bad := tx :: !bad end in
    let orc () = orc_harness !bad in
    let nops = List.length ops in
    let toksr = Array.make nops "pend" in
    let client = ref None in
    (* messages a node emitted: replies of X go to the coordinator they name (or, for the harness's own xr writes, to the
       token of that op); confirmations go to X; client replies are recorded *)
    let rec route outs =
      List.iter (function
          | MRepAns (_, c, rid, t, res) ->
            let ci = BZ.to_int (z_of_n c) in
            if ci = 0 then (let i = BZ.to_int (z_of_n rid) in if i >= 0 && i < nops then toksr.(i) <- ares_s res)
            else if ci = 1 || ci = 2 then begin
              let (ns', o) = n_rep_reply cfg c a.(ci) xn t res in a.(ci) <- ns'; route o;
              let (ns1, o1) = n_finish1 cfg c a.(ci) t true in a.(ci) <- ns1; route o1;
              let (ns2, o2) = n_finish2 cfg c a.(ci) t in a.(ci) <- ns2; route o2
            end
          | MRep (c, r, alive, rid, t, ex, k, cnt) when BZ.equal (z_of_n r) BZ.zero ->
            let (x', o) = n_replicate xn (orc ()) !x c alive rid t ex k cnt in x := x'; route o
          | MConf (_, r, t, s, k, cnt, idsok) when BZ.equal (z_of_n r) BZ.zero ->
            let (x', _) = n_confirm !x t s k cnt idsok true in x := x'
          | MClient (_, _, res) -> client := Some res
          | _ -> ()) outs in
    List.iteri (fun i op ->
        (match String.split_on_char ',' op with
         | [("a1" | "a2") as o; tx; k; fl] ->
           let ci = if o = "a1" then 1 else 2 in
           let tx = ni tx in mark_bad tx fl;
           client := None;
           let (ns', outs) = n_client cfg (of_int ci) (orc ()) a.(ci) tx (ni k) in
           a.(ci) <- ns'; route outs;
           (* no answer from the replica (the write waits in its buffer): the coordinator gives up; then the late loop ends *)
           let (ns2, o2) = n_timeout (of_int ci) a.(ci) tx in a.(ci) <- ns2;
           (match !client with None -> route o2 | Some _ -> ());
           toksr.(i) <- (match !client with
               | Some (AOk f) -> "ok" ^ si f
               | Some (AErr WDb) -> "db"
               | Some (AErr (WQuorumFailed | WTimeout)) -> "fail"
               | Some (AErr e) -> werr_s e
               | None -> "fail")
         | ["xr"; tx; seq; k; fl] ->
           let tx = ni tx in mark_bad tx fl;
           let ex = if flag fl 'e' then RxAny else RxAt (ni seq) in
           let alive = if flag fl 'z' then N0 else u64max in
           let (x', outs) = n_replicate xn (orc ()) !x (if flag fl 'f' then of_int 99 else xn) alive (of_int i) tx ex (ni k) c0 in
           x := x'; route outs
         | ["b"] -> toksr.(i) <- Printf.sprintf "X[%s]A[%s]B[%s]" (log_s !x.ns_log) (log_s a.(1).ns_log) (log_s a.(2).ns_log)
         | _ -> failwith ("bad op " ^ op)))
      ops;
    Printf.sprintf "res=%s X=%s A1=%s A2=%s" (String.concat ";" (Array.to_list toksr)) (log_s !x.ns_log) (log_s a.(1).ns_log) (log_s a.(2).ns_log)
  | _ -> "BADCASE"

let dispatch line =
  match split_ws line with
  | "n" :: r -> run_case true r
  | "co" :: r -> run_co r
  | "orig" :: "n" :: r -> run_case false r
  | _ -> "BADCASE"

let () = Conv.main dispatch
