(* Model driver for C19 (see harness/c19/src/main.rs for the case grammar).
   `c19 seg=<S> comp=<0|1> off=<write offset> ev=<kind><plen>:<var>:<stored record length>,...`
   prints what the harness prints for the real Database: the attempts (first + up to 3 retries until accepted;
   `rd=ok` = the accepted events read back intact) and the probe append: `a0=<res> .. [rd=ok] p=<res>`, res = ok:<segments rolled since the fill>:<offsets> | full | big *)
open Svmodel
open Conv

let n_of_int i = n_of_z (BZ.of_int i)
let int_of_n n = BZ.to_int (z_of_n n)
let field fs k = List.assoc k fs
let parse line =
  let fs = List.filter_map (fun t -> match String.index_opt t '=' with
      | Some i -> Some (String.sub t 0 i, String.sub t (i + 1) (String.length t - i - 1)) | None -> None) (split_ws line) in
  let seg = n_of_string (field fs "seg") and comp = (field fs "comp" = "1") and off = n_of_string (field fs "off") in
  let evs = List.map (fun e -> match String.split_on_char ':' e with
      | [_; var; stored] ->
        (* stored record length = RECORD_HEAD_SIZE + confirmation byte + stored data *)
        { b_var = n_of_string var; b_st = n_of_int (int_of_string stored - 9) }
      | _ -> failwith "bad event") (String.split_on_char ',' (field fs "ev")) in
  (seg, comp, off, evs)

let show base (s : bstate) = function
  | BOk (_, offs) -> Printf.sprintf "ok:%d:%s" (List.length s.bl_sealed - base) (String.concat "," (List.map string_of_n offs))
  | BTooBig -> "big"
  | BFull -> "full"

let run version line =
  let (seg, comp, off, evs) = parse line in
  let app = (match version with `V0 -> bl_append_v0 | `Cur -> bl_append) in
  let s0 = { bl_size = seg; bl_comp = comp; bl_sealed = []; bl_wo = off } in
  let out = ref [] in
  let s = ref s0 in
  (try
     for i = 0 to 3 do
       let (s1, r) = app !s evs in
       s := s1;
       out := Printf.sprintf "a%d=%s" i (show 0 s1 r) :: !out;
       (match r with BOk _ -> (out := "rd=ok" :: !out; raise Exit) | _ -> ())
     done
   with Exit -> ());
  (* the probe: one filler event with a 10-byte payload: stream "f", name "F" -> var = 12, never compressed *)
  let (s2, r) = app !s [{ b_var = n_of_int 12; b_st = N0 }] in
  out := ("p=" ^ show 0 s2 r) :: !out;
  String.concat " " (List.rev !out)

let dispatch line =
  match split_ws line with
  | "c19" :: _ -> run `Cur line
  | "c19v0" :: _ -> run `V0 line
  | _ -> "BADCASE"

let () = Conv.main dispatch
