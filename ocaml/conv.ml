(* Conversions between decimal text and Coq's binary numbers, via zarith. Trusted glue. *)
module BZ = Z
open Svmodel
let rec pos_of_z z =
  if BZ.equal z BZ.one then XH
  else if BZ.is_odd z then XI (pos_of_z (BZ.shift_right z 1))
  else XO (pos_of_z (BZ.shift_right z 1))
let n_of_z z = if BZ.sign z <= 0 then N0 else Npos (pos_of_z z)
let rec z_of_pos = function
  | XH -> BZ.one
  | XO p -> BZ.shift_left (z_of_pos p) 1
  | XI p -> BZ.succ (BZ.shift_left (z_of_pos p) 1)
let z_of_n = function N0 -> BZ.zero | Npos p -> z_of_pos p
let n_of_string s = n_of_z (BZ.of_string s)
let string_of_n n = BZ.to_string (z_of_n n)
let coqz_of_z z = if BZ.sign z = 0 then Z0 else if BZ.sign z > 0 then Zpos (pos_of_z z) else Zneg (pos_of_z (BZ.neg z))
let z_of_coqz = function Z0 -> BZ.zero | Zpos p -> z_of_pos p | Zneg p -> BZ.neg (z_of_pos p)
let rec nat_of_int i = if i <= 0 then O else S (nat_of_int (i - 1))
let rec int_of_nat = function O -> 0 | S n -> 1 + int_of_nat n
let list_str f l = "[" ^ String.concat "," (List.map f l) ^ "]"
let nlist l = list_str string_of_n l
let split_ws s = List.filter (fun x -> x <> "") (String.split_on_char ' ' s)

(* main loop shared by all per-property drivers: one case per line in, one result per line out *)
let main dispatch =
  let buf = Buffer.create (1 lsl 16) in
  (try
     while true do
       let line = input_line stdin in
       let r = (try dispatch line with e -> "MODEL-EXN " ^ Printexc.to_string e) in
       Buffer.add_string buf r; Buffer.add_char buf '\n';
       if Buffer.length buf > 60000 then (print_string (Buffer.contents buf); Buffer.clear buf)
     done
   with End_of_file -> ());
  print_string (Buffer.contents buf)
