(* Model driver for C09.  Case line (annotated by the harness, see harness/c09/src/main.rs):
     c09|c09orig <bg> <layout> <sub> <schedule>
   The schedule is translated into model operations; after every harness-level step the model
   runs the subscription task until it blocks (sb_do).  Output: the deliveries and the final
   state in the harness's format. *)
open Svmodel
open Conv

let np = 4
let spp = 4
let cap = 1024
let n k = let rec mk acc j = if j <= 0 then acc else mk (S acc) (j - 1) in mk O k
let fuel = n 2_000_000
let i = int_of_nat

exception Bad of string
let bad s = raise (Bad s)
let int s = match int_of_string_opt s with Some v when v >= 0 -> v | _ -> bad ("int:" ^ s)

let split_rep t =
  match String.rindex_opt t '*' with
  | Some j -> (String.sub t 0 j, int (String.sub t (j + 1) (String.length t - j - 1)))
  | None -> (t, 1)

let streams_of p s =
  if s = "" then bad "streams";
  List.init (String.length s) (fun j ->
      let d = Char.code s.[j] - 48 in
      if d < 0 || d >= spp then bad "stream digit"; n (p * spp + d))

(* layout -> (ops, confirmed prefix per partition) *)
let parse_layout s =
  let parts = String.split_on_char '|' s in
  if List.length parts <> np then bad "layout";
  List.concat (List.mapi (fun p ps ->
      if ps = "-" then [] else begin
        let bits = ref [] in
        let ops = ref [] in
        List.iter (fun t ->
            let (t, rep) = split_rep t in
            match String.split_on_char ':' t with
            | [b; st] ->
              let sids = streams_of p st in
              let k = List.length sids in
              let bl = List.init (String.length b) (fun j -> match b.[j] with '1' -> true | '0' -> false | _ -> bad "bit") in
              let bl = if List.length bl = 1 then List.init k (fun _ -> List.hd bl) else bl in
              if List.length bl <> k then bad "bits";
              for _ = 1 to rep do
                ops := OAppend (n p, sids) :: !ops;
                bits := List.rev_append bl !bits
              done
            | _ -> bad "tx") (String.split_on_char ',' ps);
        let bits = List.rev !bits in
        let rec pre l = match l with true :: r -> 1 + pre r | _ -> 0 in
        List.rev !ops @ [OAdvance (n p, n (pre bits))]
      end) parts)

let parse_from f =
  if f = "L" then FLatest
  else if String.length f > 0 && f.[0] = 'A' then FAll (n (int (String.sub f 1 (String.length f - 1))))
  else if String.length f > 0 && f.[0] = 'M' then begin
    let body = String.sub f 1 (String.length f - 1) in
    let m = ref [] and fb = ref None in
    List.iter (fun kv -> if kv <> "" then
                  match String.split_on_char '=' kv with
                  | ["f"; v] -> fb := Some (n (int v))
                  | [k; v] -> m := !m @ [(n (int k), n (int v))]
                  | _ -> bad "map") (String.split_on_char ';' body);
    FMap (!m, !fb)
  end else bad "from"

let optn s = if s = "-" then None else Some (n (int s))
let ids s = List.map (fun x -> n (int x)) (String.split_on_char '.' s)

let parse_sub s =
  let win w = if String.length w > 1 && w.[0] = 'w' then n (int (String.sub w 1 (String.length w - 1))) else bad "window" in
  match String.split_on_char '/' s with
  | ["all"; f; w] -> (MAllP (parse_from f), win w, false)
  | ["part"; p; f; w] -> (MPart (n (int p), optn f), win w, false)
  | ["parts"; ps; f; w] -> (MParts (ids ps, parse_from f), win w, false)
  | ["stream"; st; f; w] -> (MStream (n (int st), optn f), win w, true)
  | ["streams"; ss; f; w] -> (MStreams (ids ss, parse_from f), win w, true)
  | _ -> bad "sub"

let digits s = List.init (String.length s) (fun j -> let d = Char.code s.[j] - 48 in if d < 0 || d >= spp then bad "digit"; d)

let run variant bg layout sub sched =
  let cfg = { c_np = n np; c_spp = n spp; c_cap = n cap; c_brk = (variant = "c09") } in
  let (m, w, streamkind) = parse_sub sub in
  let st = ref (List.fold_left (sb_step cfg) (sb_init (bg = "1")) (parse_layout layout)) in
  let flags = ref [] in
  let doops ops = st := sb_do cfg fuel !st ops in
  let steps = if sched = "-" then [] else String.split_on_char ',' sched in
  List.iter (fun t ->
      let (t, rep) = split_rep t in
      if rep <> 1 then bad "unannotated repeat";
      let (body, ann) = match String.index_opt t '=' with
        | Some j -> (String.sub t 0 j, Some (String.sub t (j + 1) (String.length t - j - 1)))
        | None -> (t, None) in
      if body = "" then bad "step";
      match body.[0], ann with
      | 'a', None ->
        (match String.split_on_char ':' (String.sub body 1 (String.length body - 1)) with
         | [p; s] -> let p = int p in doops [OAppend (n p, streams_of p s)]
         | _ -> bad "a")
      | 'c', Some w -> let p = int (String.sub body 1 (String.length body - 1)) in doops [OAdvance (n p, n (int w))]
      | 'x', Some a ->
        (match String.split_on_char ':' (String.sub body 1 (String.length body - 1)), String.split_on_char '/' a with
         | [p; s], [w; b] ->
           let p = int p in
           st := List.fold_left (sb_step cfg) !st [OAppend (n p, streams_of p s); OAdvance (n p, n (int w))];
           let recv = (match !st.sb_sub with Some _ -> true | None -> !st.sb_bg) in
           let cnt = if recv then max 0 (i (!st.sb_wm (n p)) - i (!st.sb_nb (n p))) else 0 in
           if cnt <> int b then flags := Printf.sprintf "BCAST-MISMATCH:model=%d,observed=%s" cnt b :: !flags;
           doops [OBcast (n p)]
         | _ -> bad "x")
      | 'S', None when body = "S" -> doops [OSubscribe (m, w)]
      | 'k', None -> doops [OAck (n (int (String.sub body 1 (String.length body - 1))))]
      | 'h', None ->
        if body = "h-" then
          (if sb_wait cfg !st = WGate then flags := "GATE-MISMATCH:model-at-pause-point" :: !flags)
        else
          (match String.split_on_char ':' (String.sub body 1 (String.length body - 1)) with
           | [k; cnt] ->
             let k = if streamkind then KS (n (int k)) else KP (n (int k)) in
             if sb_wait cfg !st <> WGate then flags := "GATE-MISMATCH:model-not-at-pause-point" :: !flags;
             doops [OHistBatch (k, n (int cnt))]
           | _ -> bad "h")
      | _ -> bad ("unannotated or unknown step " ^ t)) steps;
  let s = !st in
  let outs, lags = match s.sb_sub with
    | None -> [], []
    | Some u ->
      List.rev_map (fun d ->
          let e = d.d_ev in
          Printf.sprintf "%d.%d.%d.%d@%d/%d/%s" (i e.e_pid) (i e.e_seq) (i e.e_sid) (i e.e_ver) (i d.d_wm) (i d.d_cur)
            (match d.d_ack with Some a -> string_of_int (i a) | None -> "-")) u.u_out,
      List.rev_map (fun x -> string_of_int (i x)) u.u_lags in
  let fin = match sb_wait cfg s with WNone -> "none" | WGate -> "gate" | WWindow -> "window" | WLive -> "live" | WBusy -> "running" in
  let ws = String.concat "." (List.init np (fun p -> string_of_int (i (s.sb_wm (n p))))) in
  let o = Printf.sprintf "%s ; end=%s ; lag=%s ; W=%s" (String.concat " " outs) fin (String.concat "," lags) ws in
  match List.rev !flags with [] -> o | f -> String.concat " " f ^ " ; " ^ o

let dispatch line =
  match split_ws line with
  | [v; bg; layout; sub; sched] when v = "c09" || v = "c09orig" ->
    (try run v bg layout sub sched with Bad s -> "BADCASE " ^ s)
  | _ -> "BADCASE"

let () = Conv.main dispatch
