(* Model driver for C13: `c13 <N> <idx> <B> <P> <rf>` -> what Model/Placement.v says the server configuration
   and the topology compute (same line format as harness/c13). *)
open Svmodel
open Conv

let c13 = function
  | [n; idx; b; p; rf] ->
    let n' = n_of_string n and idx' = n_of_string idx and b' = n_of_string b
    and p' = n_of_string p and rf' = n_of_string rf in
    if not (cfg_validate n' idx' b' p' rf') then "INVALID"
    else begin
      let cb = cfg_buckets n' idx' b' rf' in
      let cp = cfg_partitions n' idx' b' p' rf' in
      match topo_assigned_gen RfWide n' b' p' rf' idx' with
      | None -> "PANIC-topology"
      | Some tp ->
        let rt = if int_of_string n <= 320 then nlist (topo_routed RfWide n' b' p' rf' idx') else "skip" in
        Printf.sprintf "cb=%s cp=%s tp=%s rt=%s" (nlist cb) (nlist cp) (nlist tp) rt
    end
  | _ -> "BADCASE"

let dispatch line =
  match split_ws line with
  | "c13" :: r -> c13 r
  | _ -> "BADCASE"

let () = Conv.main dispatch
