(* Model driver: reads one case per line on stdin, prints the model's result per line. *)
open Svmodel
open Conv

let c24 = function
  | [h; n; rf] -> nlist (distribute (n_of_string h) (n_of_string n) (n_of_string rf))
  | _ -> "BADCASE"

let c24p = function
  | [h; n; r1; r2] -> c24 [h; n; r1] ^ "|" ^ c24 [h; n; r2]
  | _ -> "BADCASE"

let c24gen = function
  | [a; h; n; rf] ->
    let a = (match a with "wide" -> Wide | "wrap16" -> Wrap16 | _ -> Panic16) in
    (match distribute_gen a (n_of_string h) (n_of_string n) (n_of_string rf) with
     | Some l -> nlist l | None -> "PANIC")
  | _ -> "BADCASE"

let dispatch line =
  match split_ws line with
  | "c24" :: r -> c24 r
  | "c24p" :: r -> c24p r
  | "c24gen" :: r -> c24gen r
  | _ -> "BADCASE"

let () = Conv.main dispatch
