(* Model driver for C08: one case per line on stdin, the model's result per line. *)
open Svmodel
open Conv

let split_on c s = String.split_on_char c s

(* "v:c" or "v:c*n" -> n copies of (v, c) *)
let parse_tok t =
  let vc, n = match split_on '*' t with [a; b] -> a, int_of_string b | _ -> t, 1 in
  match split_on ':' vc with
  | [v; c] -> List.init n (fun _ -> (n_of_string v, n_of_string c))
  | _ -> failwith "tok"

let fmt_map m = "[" ^ String.concat "," (List.map (fun (v, c) -> string_of_n v ^ ":" ^ string_of_n c) m) ^ "]"

let upd = function
  | rf :: toks ->
    let reps = List.concat_map parse_tok toks in
    let s, tr = wm_trace_gen WmKeepMax (n_of_string rf) wm_init reps in
    Printf.sprintf "w=%s hv=%s u=%s ws=%s adv=%s" (string_of_n s.wm_mark) (string_of_n s.wm_high) (fmt_map s.wm_unconf)
      (nlist (List.map fst tr)) (list_str (fun (_, a) -> if a then "1" else "0") tr)
  | _ -> "BADCASE"

let strip p s =
  let lp = String.length p in
  if String.length s >= lp && String.sub s 0 lp = p then String.sub s lp (String.length s - lp) else failwith "prefix"

let parse_disk s =
  let s = strip "d=" s in
  if s = "-" then [] else
  List.concat_map (fun t -> match split_on 'x' t with
    | [c; k] -> List.init (int_of_string k) (fun _ -> n_of_string c)
    | _ -> [n_of_string t]) (split_on ',' s)

let parse_ops s =
  let s = strip "ops=" s in
  if s = "-" then [] else
  List.map (fun t -> if t = "P" then MgPersist else match split_on ':' t with
    | [v; c] -> MgReport (n_of_string v, n_of_string c) | _ -> failwith "op") (split_on ',' s)

let persist = function
  | [rf; d; o] ->
    let rf = n_of_string rf in
    let disk = parse_disk d and ops = parse_ops o in
    let m = mg_run rf ops in
    let a = m.mg_dir and s = m.mg_state in
    let steps = wm_persist_steps a s in
    let fin = wm_persist a s in
    let nth i = List.nth steps i in
    let cps =
      [ ("pre", a); ("t0", nth 0); ("tH", nth 0); ("tF", nth 1) ]
      @ (if wf_exists a.d_cur then [ ("pr", nth 2); ("cr", nth 3) ] else [])
      @ [ ("ok", fin);
          ("cc", { d_cur = WfBad; d_prev = fin.d_prev; d_tmp = WfMissing });
          ("ct", { d_cur = WfBad; d_prev = fin.d_prev; d_tmp = WfMissing });
          ("no", wm_dir_empty) ] in
    let one (name, dir) =
      let st = wm_restart rf dir disk in
      Printf.sprintf "%s:%s:%s" name (string_of_n st.wm_mark) (string_of_n (N.sub st.wm_high st.wm_mark)) in
    Printf.sprintf "wb=%s cps=[%s]" (string_of_n s.wm_mark) (String.concat "," (List.map one cps))
  | _ -> "BADCASE"

let dispatch line =
  match split_ws line with
  | "upd" :: r -> upd r
  | "persist" :: r -> persist r
  | _ -> "BADCASE"

let () = Conv.main dispatch
