#!/bin/sh
# regenerate MANIFEST, validate, stage everything except evidence of unclaimed properties, commit
cd "$(dirname "$0")/.."
python3 bin/mkmanifest.py || exit 1
claimed=$(python3 -c "import json; print(' '.join(c['property_id'] for c in json.load(open('MANIFEST.json'))['checks']))")
git add -A
git reset -q -- evidence >/dev/null 2>&1
for p in $claimed; do [ -f evidence/$p.json ] && git add evidence/$p.json; done
python3-vt - <<PY || exit 1
import json,jsonschema
jsonschema.validate(json.load(open('/verif/MANIFEST.json')), json.load(open('/root/.vp/MANIFEST.schema.json')))
sch=json.load(open('/root/.vp/EVIDENCE.schema.json'))
import os
for p in "$claimed".split():
    f='/verif/evidence/%s.json'%p
    if os.path.exists(f): jsonschema.validate(json.load(open(f)), sch)
    else: print('WARNING: no evidence for', p)
print('valid')
PY
git commit -qm "$1" && echo committed
