#!/usr/bin/env python3
"""regenerate MANIFEST.json from the check plugins (checks/cXX.py) and properties.jsonl"""
import importlib, json, os, sys
ROOT = os.path.dirname(os.path.dirname(os.path.abspath(__file__)))
sys.path.insert(0, ROOT)
props = [json.loads(l)["id"] for l in open(os.path.join(ROOT, "properties.jsonl"))]
PENDING = {}
pend_file = os.path.join(ROOT, "checks", "not_claimed.json")
if os.path.exists(pend_file): PENDING = json.load(open(pend_file))
checks, na = [], []
for p in props:
    if not os.path.exists(os.path.join(ROOT, "checks", p.lower() + ".py")):
        na.append(dict(property_id=p, reason=PENDING.get(p, "check not built yet; design in DESIGN.md section 6 (" + p + ")")))
        continue
    m = importlib.import_module("checks." + p.lower())
    if not getattr(m, "READY", False):
        na.append(dict(property_id=p, reason=PENDING.get(p, "check under construction; design in DESIGN.md section 6 (" + p + ")")))
        continue
    checks.append(dict(
        property_id=p,
        quick_cmd=f"bin/check {p} --tier quick",
        thorough_cmd=f"bin/check {p} --tier thorough",
        evidence_file=f"/verif/evidence/{p}.json",
        replay_cmd_template=f"bin/check {p} --replay {{path}}",
        engine="coq-proof+correspondence",
        level_claimed=dict(category="proof", text=m.LEVEL_TEXT, design_ref=f"DESIGN.md section 6 {p}"),
        level_note=m.LEVEL_NOTE,
        technique=m.TECHNIQUE))
man = dict(
    version=1,
    setup_cmd="bin/setup",
    hooks=dict(guard="sierradb_verif (rustc --cfg)",
               enable='RUSTFLAGS="--cfg sierradb_verif" (set in harness/.cargo/config.toml; the harness crates depend on /repo/crates/* by path)',
               baseline_off_cmd="cd /repo && cargo nextest run --workspace --no-fail-fast --test-threads 8 --offline",
               source_commits=json.load(open(os.path.join(ROOT, "checks", "hook_commits.json"))) if os.path.exists(os.path.join(ROOT, "checks", "hook_commits.json")) else [],
               add_only=False),
    engines=[dict(name="coq-proof+correspondence", path="bin/check",
                  serves_properties=[c["property_id"] for c in checks],
                  kind_free_text="Coq 8.16 theorems about a hand-written executable Gallina model (coq/theories), tied to /repo on every run by a correspondence check: the Rust harness (harness/) runs the implementation, the extracted model (ocaml/) runs the same cases, outputs are diffed and a direct property monitor searches for a failing input")],
    checks=checks,
    notes="See DESIGN.md (section 0 = as built). known_findings.json lists fixed/known defects; evidence/ is rewritten by every run. Hook commits are additive except for 7 rewritten lines in total (bb75ef4 binds the timestamp to a local so that a yield point fits between the clock read and the store; 0b61203 and f516bff move one statement each) — behaviour with the cfg off is unchanged (crate tests pass without the cfg).",
    not_applicable=na)
json.dump(man, open(os.path.join(ROOT, "MANIFEST.json"), "w"), indent=1)
print(f"MANIFEST.json: {len(checks)} checks, {len(na)} not claimed")
