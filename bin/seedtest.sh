#!/bin/sh
# bin/seedtest.sh <PROP> <patch.diff> [tier]
# Runs the check for PROP against a PRIVATE copy of /repo (worktree /tmp/seedrun/repo at /repo's HEAD) with the
# seeded patch applied, using a private copy of /verif whose harness crates point at that worktree, so that
# neither /repo nor the checks other sessions are running are disturbed. Prints the verdict lines.
P="$1"; patch="$2"; tier="${3:-quick}"
R="${SEEDRUN:-/tmp/seedrun}"      # one private copy per concurrent user: SEEDRUN=/tmp/seedrun2 bin/seedtest.sh ...
mkdir -p $R
exec 9>$R/.lock; flock 9          # two runs on one copy would rewrite the paths twice
head=$(git -C /repo rev-parse HEAD)
if [ ! -d $R/repo ]; then git -C /repo worktree add --detach $R/repo "$head" >/dev/null 2>&1 || exit 2; fi
git -C $R/repo checkout -q -- . && git -C $R/repo checkout -q --detach "$head" || exit 2
rsync -a --delete --exclude harness/target --exclude work --exclude replays --exclude evidence --exclude .git --exclude 'coq/*.vo' /verif/ $R/verif/ 
# compiled coq objects are reused (copied once) to avoid rebuilding proofs
rsync -a --include '*/' --include '*.vo' --include '*.glob' --include '*_model.ml' --include '*_model.mli' --exclude '*' /verif/coq/ $R/verif/coq/
mkdir -p $R/verif/harness/target && cp -u /verif/harness/target/libsvio.so $R/verif/harness/target/ 2>/dev/null
for f in $R/verif/harness/*/Cargo.toml; do sed -i "s|/repo/crates|$R/repo/crates|g" "$f"; done
sed -i "s|/verif/harness/target/libsvio.so|$R/verif/harness/target/libsvio.so|g" $R/verif/checks/*.py 2>/dev/null
sed -i "s#^REPO = \"/repo\"#REPO = \"$R/repo\"#" $R/verif/checks/*.py 2>/dev/null
if ! git -C $R/repo apply --check "$patch" 2>/dev/null; then echo "PATCH-DOES-NOT-APPLY"; exit 2; fi
git -C $R/repo apply "$patch"
cd $R/verif && timeout 3400 bin/check "$P" --tier "$tier" 2>&1 | grep -E "^(OK|VIOLATION|KNOWN-FINDING|CHECK-ERROR)"
git -C $R/repo checkout -q -- .
ls $R/verif/replays 2>/dev/null | head -3
