#!/bin/sh
# bin/confirmseed.sh <ID> <crate> : in the seed worktree run the demo with the patch (must fail), the crate's own
# tests with the patch (must pass), and the demo without the patch (must pass). Leaves the patch applied.
ID="$1"; CRATE="$2"; W=/tmp/seed/$ID
cd $W || exit 2
export CARGO_NET_OFFLINE=true
git apply --check -R OUT/patch.diff 2>/dev/null || { git checkout -q -- . ; git apply OUT/patch.diff || exit 2; }
mkdir -p crates/$CRATE/tests && cp OUT/demo.rs crates/$CRATE/tests/seed_demo.rs
echo "--- demo WITH patch (expect failure)"; timeout 3000 cargo test --offline -q -p $CRATE --test seed_demo 2>&1 | grep -E "^test result|FAILED|failed|error" | head -5
rm -f crates/$CRATE/tests/seed_demo.rs
echo "--- crate tests WITH patch (expect pass)"; timeout 3000 cargo test --offline -q -p $CRATE 2>&1 | grep -E "^test result|FAILED|error\[" | head -12
git apply -R OUT/patch.diff
cp OUT/demo.rs crates/$CRATE/tests/seed_demo.rs
echo "--- demo WITHOUT patch (expect pass)"; timeout 3000 cargo test --offline -q -p $CRATE --test seed_demo 2>&1 | grep -E "^test result|FAILED|failed|error" | head -5
rm -f crates/$CRATE/tests/seed_demo.rs
git apply OUT/patch.diff
