#!/usr/bin/env python3
"""bin/keepseed.py <ID> <property> <verdict> "<needs>" "<what I ran>"  — copy a confirmed seeded change into /verif/seeded/<id>/"""
import json, os, shutil, sys
sid, prop, verdict, needs, ran = sys.argv[1:6]
src = f"/tmp/seed/{sid}/OUT"
dst = f"/verif/seeded/{sid.lower()}"
os.makedirs(dst, exist_ok=True)
for f in os.listdir(src):
    if f in ("PROPERTY.txt",): continue
    p = os.path.join(src, f)
    if os.path.isfile(p): shutil.copy(p, os.path.join(dst, f))
json.dump(dict(id=sid.lower(), property=prop, breaks=open(os.path.join(src, "PROPERTY.txt")).read().split("\n")[0],
               needs_to_manifest=needs, confirmed=ran, check_verdict=verdict,
               apply="git -C /repo apply seeded/%s/patch.diff ; bin/check %s ; git -C /repo checkout -- ." % (sid.lower(), prop)),
          open(os.path.join(dst, "meta.json"), "w"), indent=1)
print("kept", dst)
