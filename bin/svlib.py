"""Core of the /verif check driver: proof gate, harness build, model run, diff, monitor,
known findings, evidence and replay files.  Property-specific parts live in checks/cXX.py."""
import json, os, re, subprocess, sys, time, hashlib, shutil, random

ROOT = os.path.dirname(os.path.dirname(os.path.abspath(__file__)))
COQ = os.path.join(ROOT, "coq")
WORK = os.path.join(ROOT, "work")
HARNESS = os.path.join(ROOT, "harness")
def driver_path(prop): return os.path.join(ROOT, "ocaml", "_build", prop.lower(), "svdriver")
ENV = dict(os.environ, CARGO_NET_OFFLINE="true")

ALLOWED_AXIOMS = {
    # standard-library axioms a tactic may bring in; each is named in DESIGN.md's trusted base
    "functional_extensionality_dep", "FunctionalExtensionality.functional_extensionality_dep",
    "Eqdep.Eq_rect_eq.eq_rect_eq", "JMeq_eq", "JMeq.JMeq_eq",
    "proof_irrelevance", "ProofIrrelevance.proof_irrelevance", "Classical_Prop.classic",
}
FORBIDDEN = re.compile(r"\b(Admitted|admit|Axiom|Axioms|Parameter|Parameters|Conjecture|Conjectures|Admit Obligations|bypass_check)\b|Unset\s+Guard|Unset\s+Positivity|Unset\s+Universe|type-in-type|impredicative-set|native_compute|Extract\s+(Constant|Inductive|Inlined)|Extraction\s+(Blacklist|Inline|Implicit)")

class CheckError(Exception):
    """the machinery itself failed (build, infrastructure); not a property violation"""

def log(*a):
    print(*a, file=sys.stderr, flush=True)

def run(cmd, cwd=None, timeout=3600, inp=None, env=None):
    p = subprocess.run(cmd, cwd=cwd, timeout=timeout, input=inp, env=env or ENV,
                       stdout=subprocess.PIPE, stderr=subprocess.PIPE, text=True)
    return p.returncode, p.stdout, p.stderr

# ---------------------------------------------------------------- proof gate
def strip_comments(s):
    out, depth, i = [], 0, 0
    while i < len(s):
        if s.startswith("(*", i): depth += 1; i += 2; continue
        if s.startswith("*)", i) and depth: depth -= 1; i += 2; continue
        if not depth: out.append(s[i])
        i += 1
    return "".join(out)

def scan_forbidden():
    bad = []
    for d, _, fs in os.walk(os.path.join(COQ, "theories")):
        for f in fs:
            if not f.endswith(".v"): continue
            p = os.path.join(d, f)
            src = strip_comments(open(p).read())
            depth = 0
            for ln, line in enumerate(src.split("\n"), 1):
                if re.match(r"\s*Section\b", line): depth += 1
                if re.match(r"\s*End\b", line) and depth: depth -= 1
                if FORBIDDEN.search(line): bad.append(f"{p}:{ln}: {line.strip()}")
                if depth == 0 and re.match(r"\s*(Variable|Variables|Hypothesis|Hypotheses|Context)\b", line):
                    bad.append(f"{p}:{ln}: {line.strip()} (outside a section)")
    return bad

def theorems_of(prop):
    p = os.path.join(COQ, "theories", "Props", prop + ".v")
    src = strip_comments(open(p).read())
    return re.findall(r"^\s*Theorem\s+([A-Za-z0-9_']+)", src, re.M)

def proof_gate(prop, thorough=False, extract=None):
    """returns dict(ok, theorems, discharged, failures[], axioms{})"""
    res = dict(ok=True, theorems=[], discharged=0, failures=[], axioms={})
    os.makedirs(WORK, exist_ok=True)
    target = f"theories/Props/{prop}.vo"
    rc, so, se = run([os.path.join(COQ, "mk.sh"), target, f"theories/Extract/{extract or prop}.vo"], timeout=3000)
    if rc != 0:
        res["ok"] = False
        res["failures"].append("coq build failed: " + (se or so)[-1500:])
    bad = scan_forbidden()
    if bad:
        res["ok"] = False
        res["failures"].append("forbidden constructs: " + "; ".join(bad[:10]))
    try:
        ths = theorems_of(prop)
    except OSError:
        ths = []
    res["theorems"] = ths
    if rc == 0 and ths:
        av = os.path.join(WORK, f"assump_{prop}.v")
        with open(av, "w") as f:
            f.write(f"From SV Require Import Props.{prop}.\n")
            for t in ths:
                f.write(f'Goal True. idtac "@@ {t}". exact I. Qed.\nPrint Assumptions {t}.\n')
        rc2, so2, se2 = run(["coqc", "-noglob", "-Q", os.path.join(COQ, "theories"), "SV", av], cwd=WORK, timeout=600)
        if rc2 != 0:
            res["ok"] = False
            res["failures"].append("Print Assumptions failed: " + (se2 or so2)[-800:])
        else:
            cur = None
            blocks = {}
            for line in so2.split("\n"):
                if line.startswith("@@ "): cur = line[3:].strip(); blocks[cur] = []
                elif cur is not None: blocks[cur].append(line)
            for t in ths:
                txt = "\n".join(blocks.get(t, []))
                if "Closed under the global context" in txt:
                    res["axioms"][t] = []; res["discharged"] += 1; continue
                axs = re.findall(r"^([A-Za-z_][A-Za-z0-9_.']*)\s*:", txt, re.M)
                res["axioms"][t] = axs
                badax = [a for a in axs if a not in ALLOWED_AXIOMS and a.split(".")[-1] not in ALLOWED_AXIOMS]
                if badax or not axs:
                    res["ok"] = False
                    res["failures"].append(f"theorem {t}: assumptions not allowed: {badax or txt[:200]}")
                else:
                    res["discharged"] += 1
    if thorough and rc == 0:
        rc3, so3, se3 = run(["coqchk", "-silent", "-o", "-Q", os.path.join(COQ, "theories"), "SV", f"SV.Props.{prop}"], cwd=COQ, timeout=3000)
        res["coqchk"] = (so3 + se3)[-600:]
        if rc3 != 0:
            res["ok"] = False; res["failures"].append("coqchk failed: " + (se3 or so3)[-600:])
    return res

def build_driver(prop):
    lp = prop.lower()
    drv = driver_path(prop)
    src = [os.path.join(COQ, lp + "_model.ml"), os.path.join(ROOT, "ocaml", "conv.ml"), os.path.join(ROOT, "ocaml", f"d_{lp}.ml")]
    if not os.path.exists(src[0]):
        ex = prop if os.path.exists(os.path.join(COQ, "theories", "Extract", prop + ".v")) else prop.capitalize()
        rc, so, se = run([os.path.join(COQ, "mk.sh"), f"theories/Extract/{ex}.vo"], timeout=3000)
        if rc != 0: raise CheckError("extraction failed: " + (se or so)[-1500:])
    if os.path.exists(drv) and all(os.path.getmtime(drv) >= os.path.getmtime(x) for x in src):
        return drv
    rc, so, se = run([os.path.join(ROOT, "ocaml", "build.sh"), lp], timeout=900)
    if rc != 0: raise CheckError("ocaml driver build failed: " + (se or so)[-1500:])
    return drv

# ---------------------------------------------------------------- implementation
def sync_workspace():
    """harness/Cargo.toml lists exactly the crates that are complete (Cargo.toml + src/main.rs|lib.rs), so a
    crate under construction cannot break the build of the others"""
    members = []
    for d in sorted(os.listdir(HARNESS)):
        p = os.path.join(HARNESS, d)
        if os.path.isfile(os.path.join(p, "Cargo.toml")) and (os.path.isfile(os.path.join(p, "src", "main.rs")) or os.path.isfile(os.path.join(p, "src", "lib.rs"))):
            members.append(d)
    body = ("[workspace]\nresolver = \"3\"\nmembers = [" + ", ".join('"%s"' % m for m in members) + "]\n\n"
            "[workspace.package]\nedition = \"2024\"\nversion = \"0.0.0\"\n\n"
            "[profile.dev]\ndebug = 0\nincremental = false\n\n[profile.release]\ndebug = 0\noverflow-checks = false\n")
    path = os.path.join(HARNESS, "Cargo.toml")
    try:
        if open(path).read() == body: return
    except OSError: pass
    tmp = path + ".tmp%d" % os.getpid()
    open(tmp, "w").write(body); os.replace(tmp, path)

def build_harness(crate, release=False):
    sync_workspace()
    cmd = ["cargo", "build", "--offline", "-q", "-p", crate] + (["--release"] if release else [])
    for attempt in range(2):
        rc, so, se = run(cmd, cwd=HARNESS, timeout=3000)
        if rc == 0: break
    if rc != 0: raise CheckError(f"cargo build of {crate} failed:\n" + se[-3000:])
    return os.path.join(HARNESS, "target", "release" if release else "debug", crate)

def run_harness(binary, prop, tier, seed, extra=(), timeout=3000, env=None):
    """returns list of (case, observed)"""
    e = dict(ENV); e.update(env or {})
    rc, so, se = run([binary, prop, tier, str(seed)] + list(extra), timeout=timeout, env=e)
    if rc != 0: raise CheckError(f"harness {binary} {prop} exited {rc}: {se[-2000:]}")
    out = []
    for line in so.split("\n"):
        if not line: continue
        c, _, o = line.partition("\t")
        out.append((c, o))
    return out

def run_model(prop, cases):
    drv = build_driver(prop)
    inp = "\n".join(cases) + "\n"
    rc, so, se = run([drv], inp=inp, timeout=3000)
    if rc != 0: raise CheckError("model driver failed: " + se[-1000:])
    res = so.split("\n")
    if res and res[-1] == "": res.pop()
    if len(res) != len(cases): raise CheckError(f"model driver returned {len(res)} lines for {len(cases)} cases")
    return res

def coq_crosscheck(prop, goals, imports):
    """goals: list of Coq propositions (strings) that must hold by vm_compute; returns list of failing indices"""
    if not goals: return []
    v = os.path.join(WORK, f"cases_{prop}.v")
    with open(v, "w") as f:
        f.write("From Coq Require Import NArith ZArith List String. Import ListNotations.\n" + imports + "\nOpen Scope N_scope.\n")
        for i, g in enumerate(goals):
            f.write(f'Goal True. idtac "@@ {i}". exact I. Qed.\nGoal {g}.\nProof. vm_compute. first [reflexivity | idtac "@@FAIL {i}"]. Abort.\n')
    rc, so, se = run(["coqc", "-noglob", "-Q", os.path.join(COQ, "theories"), "SV", v], cwd=WORK, timeout=1200)
    if rc != 0: raise CheckError("cases.v failed to compile: " + (se or so)[-1500:])
    return [int(x) for x in re.findall(r"@@FAIL (\d+)", so)]

# ---------------------------------------------------------------- findings / evidence / replay
def known_findings(prop):
    p = os.path.join(ROOT, "known_findings.json")
    if not os.path.exists(p): return []
    return [k for k in json.load(open(p)) if k.get("property") == prop and k.get("status") == "known"]

def write_replay(prop, seed, body):
    d = os.path.join(ROOT, "replays"); os.makedirs(d, exist_ok=True)
    p = os.path.join(d, f"{prop}-{seed}.json")
    body = dict(body, property=prop, seed=seed)
    json.dump(body, open(p, "w"), indent=1)
    return p

def write_evidence(prop, tier, seed, coverage, wall, violations, assumptions):
    d = os.path.join(ROOT, "evidence"); os.makedirs(d, exist_ok=True)
    ev = dict(property_id=prop, tier=tier, seed=seed, level="proof", coverage=coverage,
              assumptions=assumptions, wall_s=round(wall, 2), violations=violations)
    json.dump(ev, open(os.path.join(d, prop + ".json"), "w"), indent=1)

TRUSTED_BASE = [
    "Coq 8.16.1 kernel; vm_compute for witnesses/examples/cases.v; no native_compute",
    "extraction with ExtrOcamlBasic only (Extract Inductive bool/option/unit/list/prod/sumbool/sumor; Extract Inlined Constant andb/orb); OCaml 4.13.1; ocaml/conv.ml + ocaml/driver.ml glue (zarith for decimal <-> binary numbers)",
    "the Rust harness under /verif/harness and its canonicalisation of outputs",
    "bin/check (this driver): diffing, monitors written in Python",
]
