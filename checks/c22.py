"""C22 the RESP API of a single node behaves like the event-store model: K2 history differential (a real Server over a real
single-node ClusterActor, raw RESP3 client) against the extracted handlers of Model/Resp.v, plus a direct monitor that replays
every history on an independent reference store written here (dictionaries, not the Coq handlers)."""
import re
PROP = "C22"
COQ_IMPORTS = "From SV Require Import Model.StoreSpec Model.Resp."
READY = True
XCHECK = 12
RULE = ("case = one command history over one TCP connection against a fresh database of a single-node cluster (rf 1; P partitions / B buckets in "
        "{8/4, 3/1} quick, {8/4, 5/2, 3/1, 64/8, 1/1} thorough; every third history with strict versioning): 15..60 (every 7th: 120..200) commands, "
        "30% EAPPEND (default or explicit partition key; explicit event ids with the right and a wrong partition hash; expected version any/exists/empty/exact - "
        "mostly the one that holds, else off by one, boundary values; TIMESTAMP from the boundary set 0, 1, 9223372036854+-1 ms (2^63 ns), 18446744073709+1 ms (u64 overflow), 2^62, 2^63-1, 2^63, u64::MAX; payload/metadata 0..300 bytes), "
        "20% EMAPPEND of 1..7 events with repeated streams inside the transaction, 10% requests outside the grammar (50 templates: missing/duplicate/invalid arguments, bad uuids, empty / 65-byte / NUL stream ids, unknown commands), "
        "40% reads (ESCAN / EPSCAN with start/end in {-, +, 0, n, n+1, u64::MAX, random} and COUNT in {absent, 0, 1, 100, u64::MAX, 1..5}, ESVER, EPSEQ by id (also >= P) and by key, EGET of explicit, generated and unknown ids), "
        "then a sweep of every stream and partition. A sixth of the appends is followed by a command sent BEFORE the confirmation is awaited (its reply must be one a confirmed prefix allows). "
        "14 (quick) / 60 (thorough) histories per configuration. A case is non-trivial when it contains an accepted multi-event EMAPPEND and an error reply. distinct = distinct case strings.")
ASSUMPTIONS = [
    "Model/Resp.v is hand-written from crates/sierradb-server/src/{server.rs,request.rs,request/*.rs} and the single-node paths of sierradb-cluster/src/{read.rs,write/*.rs}; tie = this differential run",
    "requests are modelled after the command grammar (the grammar itself is C21): the harness labels a request as outside the grammar from its template, the model answers INVALIDARG",
    "the storage engine is represented by Model/StoreSpec.v (the reference the engine is proved against in C01-C05); a transaction always fits into a segment here (1 MiB segments, payloads <= 300 bytes)",
    "event names, payloads, metadata and stored timestamps are not part of the model: the harness compares what reads return with what it sent (body=ok)",
    "event ids are unique per accepted event in the generated histories (StoreSpec's read_event returns the first, the engine's index the last of duplicates)",
    "numbers >= 2^63 in replies (`as i64` casts) are not modelled: sequences and versions stay far below",
    "single node, replication factor 1: forwarding, replicas and quorum failures are not exercised; the debug build is used (overflow checks on)",
    "subscriptions are covered by C09 (delivery) and C21 (grammar); here only EPSUB <partition> FROM 0: the subscribe confirmation and the first pushed events (those already confirmed)",
]
TRUSTED = ["the raw RESP3 client and canonicaliser in harness/c22 (uuids -> symbols by first occurrence, clock timestamps -> T)"]

U64, I63 = 1 << 64, 1 << 63
EV = re.compile(r"ev\(id=(\S+) pk=(\S+) pid=(\d+) tx=(\S+) seq=(\d+) ver=(\d+) st=(\S+) body=(\S+)\)")

def model_case(c): return c

def _split(c):
    h, _, cs = c.partition("::")
    hd = {}
    for t in h.split():
        if "=" in t:
            k, v = t.split("=", 1); hd[k] = v
    P, B, strict = int(hd["P"]), int(hd["B"]), hd["strict"] == "1"
    keys = [int(x) for x in hd.get("K", "").split(",") if x]
    dflt = {int(e.split(":")[0]): int(e.split(":")[1]) for e in hd.get("D", "").split(",") if e}
    cmds = [x.split() for x in cs.split(" ; ") if x.split()]
    return P, B, strict, keys, dflt, cmds

def agree(c, o, e):
    if e is None: return False
    os_, es = o.split(" | "), e.split(" | ")
    if len(os_) != len(es): return False
    return all(x in y.split(" || ") for x, y in zip(os_, es))

class _Bad(Exception):
    pass

class _Shadow:
    """an independent reference store: per bucket the streams, per partition the events"""
    def __init__(s, P, B, strict, keys, dflt):
        s.P, s.B, s.strict, s.keys, s.dflt = P, B, strict, keys, dflt
        s.streams = {}      # (bucket, stream) -> [pk symbol, pid, last version]
        s.parts = {}        # pid -> list of events (dicts)
        s.ids = {}          # id symbol -> event
        s.ngen = 0
        s.ntx = 0
        s.wm = {}           # pid -> confirmed count (lags behind len(parts[pid]) only after an unquiesced append)
    def khash(s, pk):
        return s.keys[int(pk[1:])] if pk[0] == "k" else s.dflt[int(pk[1:])]
    def plen(s, pid): return len(s.parts.get(pid, []))

def _opts(toks):
    d = {}
    for t in toks:
        k, _, v = t.partition("=")
        if k in d: raise _Bad("duplicate option")
        d[k] = v
    return d

def _xv_holds(xv, cur):
    if xv in (None, "any", "ANY"): return True
    if xv in ("exists", "EXISTS"): return cur is not None
    if xv in ("empty", "EMPTY"): return cur is None
    return cur is not None and cur == int(xv)

def _plan_append(sh, pk, evs):
    """evs = [(stream number, opts)]. -> (reason or None, planned events)"""
    h = sh.khash(pk)
    pid = h % sh.P
    b = pid % sh.B
    if sh.strict:
        for n, o in evs:
            if o.get("xv") in (None, "any", "ANY", "exists", "EXISTS"): return "strict versioning", None
    for n, o in evs:
        if "ts" in o and int(o["ts"]) * 1000000 >= U64: return "timestamp overflows u64", None
    for n, o in evs:
        if "id" in o and int(o["id"].split("h")[1]) != h: return "event id without the key's partition hash", None
    cur = {}
    planned = []
    seq = sh.plen(pid)
    for n, o in evs:
        if n in cur: c = cur[n]
        else:
            st = sh.streams.get((b, n))
            if st is not None and st[0] != pk: return "stream belongs to another partition key", None
            c = st[2] if st is not None else None
        if not _xv_holds(o.get("xv"), c): return "expected version does not hold", None
        v = 0 if c is None else c + 1
        cur[n] = v
        planned.append(dict(id=o.get("id"), pk=pk, pid=pid, seq=seq, ver=v, st=f"st{n}", ts=o.get("ts")))
        seq += 1
    for n, o in evs:
        if "ts" in o and int(o["ts"]) * 1000000 >= I63: return "timestamp >= 2^63 ns", None
    return None, planned

def _commit(sh, planned, ids):
    tx = sh.ntx; sh.ntx += 1
    for e, i in zip(planned, ids):
        e["id"] = i; e["tx"] = tx
        sh.parts.setdefault(e["pid"], []).append(e)
        sh.streams[(e["pid"] % sh.B, int(e["st"][2:]))] = [e["pk"], e["pid"], e["ver"]]
        sh.ids.setdefault(i, e)

def _events(o):
    return [dict(id=m[0], pk=m[1], pid=int(m[2]), tx=m[3], seq=int(m[4]), ver=int(m[5]), st=m[6], body=m[7]) for m in EV.findall(o)]

def _same(sh, got, want):
    """observed event vs reference event (t<n> = the transaction of the n-th accepted append)"""
    for k in ("id", "pk", "pid", "seq", "ver", "st"):
        if got[k] != want[k]: return f"{k}={got[k]} (reference: {want[k]})"
    if got["body"] != "ok": return f"body={got['body']}"
    if got["tx"] != f"t{want['tx']}": return f"transaction id {got['tx']} is not that of the event's transaction (t{want['tx']})"
    return None

def _rng(s, e):
    if s == "+" or e == "-": return None
    return (0 if s == "-" else int(s)), (None if e == "+" else int(e))

def _check_scan(sh, what, o, cands_by_w, count, ws):
    """cands_by_w(W) = the in-range confirmed events for watermark W; the reply must fit SOME admissible W"""
    m = re.match(r"more=(\d) \[(.*)\]$", o)
    if not m: return ("reply", f"{what}: unexpected reply {o[:120]}")
    more, got = int(m[1]), _events(o)
    if m[2] and not got: return ("reply", f"{what}: unparsable events in {o[:120]}")
    why = None
    for W in ws:
        want = cands_by_w(W)
        exp = want[:count]
        if len(got) != len(exp): why = f"returned {len(got)} events, the reference has {len(want)} in range below watermark {W} (count {count})"; continue
        bad = next((x for x in (_same(sh, g, w_) for g, w_ in zip(got, exp)) if x), None)
        if bad: why = bad; continue
        if more == 0 and len(want) > len(got):
            why = f"has_more=false hides {len(want) - len(got)} existing confirmed event(s) in range"; cls = "has_more"; continue
        return None
    return ("has_more" if why and why.startswith("has_more") else "scan", f"{what}: {why}")

def _walk(c, o):
    P, B, strict, keys, dflt, cmds = _split(c)
    obs = o.split(" | ")
    if len(obs) != len(cmds): return ("reply", f"{len(cmds)} requests but {len(obs)} replies recorded: {o[:160]}")
    sh = _Shadow(P, B, strict, keys, dflt)
    pending = None      # (pid, events written) of an append whose confirmation was not awaited before this command
    for t, r in zip(cmds, obs):
        what = " ".join(t)[:150]
        if r in ("LOST", "NOREPLY", "NOCONNECTION") or r.startswith("PROTO") or "+DEAD" in r or "+PING=" in r:
            return ("connection", f"`{what}`: no reply / connection not usable afterwards ({r[:80]})")
        if r == "BADCASE": return None
        if "BADREPLY" in r or "BADEVENT" in r or "BADSCAN" in r or "MISMATCH" in r or "+NOTCONFIRMED" in r or "!sent" in r:
            return ("reply", f"`{what}`: {r[:200]}")
        err = r.startswith("ERR ")
        if err and not r.endswith("+alive"): return ("connection", f"`{what}`: {r[:100]}")
        kind = t[0].rstrip("~")
        # admissible watermarks of the partition whose confirmation is still in flight
        def ws(pid):
            full = sh.plen(pid)
            return list(range(sh.wm.get(pid, 0), full + 1)) if pending is not None and pending[0] == pid else [full]
        try:
            if kind == "X":
                if not err: return ("invalid_accepted", f"`{what}` is outside the grammar but was answered with {r[:100]}")
            elif kind in ("A", "M"):
                if kind == "A":
                    n = int(t[1][2:]); o_ = _opts(t[2:])
                    pk = o_.get("pk", f"d{n}")
                    evs = [(n, o_)]
                else:
                    pk = t[1]; evs = []
                    grp = []
                    for x in t[2:] + [","]:
                        if x == ",":
                            evs.append((int(grp[0][2:]), _opts(grp[1:]))); grp = []
                        else: grp.append(x)
                reason, planned = _plan_append(sh, pk, evs)
                if err:
                    if reason is None: return ("append_refused", f"`{what}`: the reference store accepts this append, the server answered {r[:80]}")
                else:
                    if reason is not None: return ("append_accepted", f"`{what}`: the reference rejects this append ({reason}), the server answered {r[:120]}")
                    if kind == "A":
                        m = re.match(r"ok id=(\S+) pk=(\S+) pid=(\d+) seq=(\d+) ver=(\d+) ts=(\S+)$", r)
                        if not m: return ("reply", f"`{what}`: unexpected reply {r[:120]}")
                        got = [dict(id=m[1], seq=int(m[4]), ver=int(m[5]), ts=m[6], st=planned[0]["st"])]
                        gpk, gpid, first, last = m[2], int(m[3]), int(m[4]), int(m[4])
                    else:
                        m = re.match(r"ok pk=(\S+) pid=(\d+) first=(\d+) last=(\d+) \[(.*)\]$", r)
                        if not m: return ("reply", f"`{what}`: unexpected reply {r[:120]}")
                        gpk, gpid, first, last = m[1], int(m[2]), int(m[3]), int(m[4])
                        got = []
                        for i, x in enumerate(m[5].split(",")):
                            f = x.split("/")
                            if len(f) != 4: return ("reply", f"`{what}`: unexpected event info {x}")
                            got.append(dict(id=f[0], st=f[1], ver=int(f[2]), ts=f[3], seq=first + i))
                    if gpk != pk or gpid != planned[0]["pid"]: return ("append_reply", f"`{what}`: reply names partition key {gpk} / partition {gpid}, expected {pk} / {planned[0]['pid']}")
                    if len(got) != len(planned): return ("append_reply", f"`{what}`: reply lists {len(got)} events for {len(planned)} appended")
                    if first != planned[0]["seq"] or last != planned[-1]["seq"]:
                        return ("append_reply", f"`{what}`: reply carries partition sequences {first}..{last}, the reference assigns {planned[0]['seq']}..{planned[-1]['seq']} (consecutive after the partition's last)")
                    ids = []
                    for g, w_ in zip(got, planned):
                        if g["ver"] != w_["ver"] or g["st"] != w_["st"]:
                            return ("append_versions", f"`{what}`: reply reports {g['st']} version {g['ver']}, the reference assigns {w_['st']} version {w_['ver']}")
                        if w_["id"] is not None and g["id"] != w_["id"]: return ("append_reply", f"`{what}`: reply carries event id {g['id']}, sent {w_['id']}")
                        if w_["id"] is None:
                            if g["id"] != f"g{sh.ngen}": return ("append_reply", f"`{what}`: generated event id {g['id']} is not a new id")
                            sh.ngen += 1
                        if (w_["ts"] is None) != (g["ts"] == "T") or (w_["ts"] is not None and g["ts"] != w_["ts"]):
                            return ("append_reply", f"`{what}`: reply timestamp {g['ts']}, sent {w_['ts']}")
                        ids.append(g["id"])
                    _commit(sh, planned, ids)
            elif kind == "S":
                n = int(t[1][2:]); o_ = _opts(t[4:]); rg = _rng(t[2], t[3])
                if rg is None:
                    if not err: return ("invalid_accepted", f"`{what}`: start '+' / end '-' was answered with {r[:80]}")
                else:
                    if err: return ("read_refused", f"`{what}`: a valid scan was answered with {r[:80]}")
                    pk = o_.get("pk", f"d{n}"); pid = sh.khash(pk) % P
                    st = sh.streams.get((pid % B, n))
                    if st is None or st[1] == pid:      # otherwise: another partition's stream addressed through a foreign key
                        lo, hi = rg; cnt = int(o_["n"]) if "n" in o_ else 100
                        f = lambda W: [e for e in sh.parts.get(pid, []) if e["st"] == f"st{n}" and e["seq"] < W and e["ver"] >= lo and (hi is None or e["ver"] <= hi)]
                        v = _check_scan(sh, f"`{what}`", r, f, cnt, ws(pid))
                        if v: return v
            elif kind == "P":
                o_ = _opts(t[4:]); rg = _rng(t[2], t[3])
                pid = sh.keys[int(t[1][1:])] % P if t[1][0] == "k" else int(t[1])
                if rg is None or pid >= P:
                    if not err: return ("invalid_accepted", f"`{what}`: an invalid range / unowned partition was answered with {r[:80]}")
                else:
                    if err: return ("read_refused", f"`{what}`: a valid scan was answered with {r[:80]}")
                    lo, hi = rg; cnt = int(o_["n"]) if "n" in o_ else 100
                    f = lambda W: [e for e in sh.parts.get(pid, []) if e["seq"] < W and e["seq"] >= lo and (hi is None or e["seq"] <= hi)]
                    v = _check_scan(sh, f"`{what}`", r, f, cnt, ws(pid))
                    if v: return v
            elif kind == "U":
                pid = int(t[1])
                m = re.match(r"sub \[(.*)\]$", r)
                if not m: return ("subscription", f"`{what}` (EPSUB {pid} FROM 0): {r[:160]}")
                got = _events(r)
                ok = False
                for W in ws(pid):
                    want = [e for e in sh.parts.get(pid, []) if e["seq"] < W]
                    if len(got) == len(want) and not any(_same(sh, g, w_) for g, w_ in zip(got, want)): ok = True
                if not ok: return ("subscription", f"`{what}` (EPSUB {pid} FROM 0) delivered {len(got)} events, the partition has {sh.plen(pid)} confirmed: {r[:160]}")
            elif kind == "V":
                n = int(t[1][2:]); o_ = _opts(t[2:])
                if err: return ("read_refused", f"`{what}`: answered with {r[:80]}")
                pk = o_.get("pk", f"d{n}"); pid = sh.khash(pk) % P
                st = sh.streams.get((pid % B, n))
                if st is None or st[1] == pid:
                    ok = []
                    for W in ws(pid):
                        vs = [e["ver"] for e in sh.parts.get(pid, []) if e["st"] == f"st{n}" and e["seq"] < W]
                        ok.append(str(vs[-1]) if vs else "null")
                    if r not in ok: return ("version", f"`{what}`: answered {r}, the reference stream version is {ok[-1]}")
            elif kind == "Q":
                pid = sh.keys[int(t[1][1:])] % P if t[1][0] == "k" else int(t[1])
                if pid >= P:
                    if not err: return ("invalid_accepted", f"`{what}`: partition {pid} does not exist but was answered with {r[:80]}")
                else:
                    if err: return ("read_refused", f"`{what}`: answered with {r[:80]}")
                    ok = [str(W - 1) if W else "null" for W in ws(pid)]
                    if r not in ok: return ("sequence", f"`{what}`: answered {r}, the reference partition sequence is {ok[-1]}")
            elif kind == "G":
                if err: return ("read_refused", f"`{what}`: answered with {r[:80]}")
                e = sh.ids.get(t[1])
                if e is None:
                    if r != "null": return ("get", f"`{what}`: no such event in the reference, answered {r[:100]}")
                else:
                    got = _events(r)
                    may_null = e["seq"] >= min(ws(e["pid"]))
                    if r == "null":
                        if not may_null: return ("get", f"`{what}`: the confirmed event {t[1]} was not found")
                    elif len(got) != 1 or _same(sh, got[0], e): return ("get", f"`{what}`: answered {r[:120]}, reference event seq={e['seq']} ver={e['ver']}")
        except (_Bad, ValueError, IndexError, KeyError):
            return None     # not a well-formed case line: nothing to say
        # confirmations: the harness awaits the previous unquiesced append after this command, and this one unless marked ~
        if pending is not None: sh.wm[pending[0]] = max(sh.wm.get(pending[0], 0), pending[1])
        pending = None
        if kind in ("A", "M") and not err:
            pid = planned[0]["pid"]
            if t[0].endswith("~"): pending = (pid, sh.plen(pid))
            else: sh.wm[pid] = sh.plen(pid)
    return None

def monitor(c, o):
    if o == "BADCASE": return None
    return _walk(c, o)

def nontrivial(c, o):
    return bool(re.search(r"ok pk=\S+ pid=\d+ first=(\d+) last=(?!\1 )\d+ ", o)) and "ERR " in o

def shrink_key(c): return (len(c), c)

SHRINK_BUDGET = 80
def shrink_candidates(c):
    """smaller histories for bin/check's greedy delta debugging: the command list with a chunk removed
    (halves first, single commands last); the header stays"""
    h, _, cs = c.partition(" :: ")
    cmds = cs.split(" ; ")
    n = len(cmds)
    if n < 2: return
    size = n // 2
    seen = set()
    while size >= 1:
        for i in range(0, n, size):
            cand = cmds[:i] + cmds[i + size:]
            if cand:
                line = h + " :: " + " ; ".join(cand)
                if line not in seen:
                    seen.add(line); yield line
        size //= 2

# ---- extraction cross-check: the prefix of a history without unquiesced appends, evaluated inside Coq ----
def _uu(sym, keys, dflt):
    if sym[0] == "k": j = int(sym[1:]); return (2 * j + 1) * 65536 + keys[j]
    if sym[0] == "d": n = int(sym[1:]); return (2 * n) * 65536 + dflt[n]
    raise _Bad(sym)
def _eid(sym):
    i, h = sym[1:].split("h"); return (2 * int(i) + 1) * 65536 + int(h)
def _xv(x):
    if x in (None, "any", "ANY"): return "XAny"
    if x in ("exists", "EXISTS"): return "XExists"
    if x in ("empty", "EMPTY"): return "XEmpty"
    return f"(XExact {int(x)})"
def _newev(n, o):
    i = f"(Some {_eid(o['id'])})" if "id" in o else "None"
    ts = f"(RTsMs {int(o['ts'])})" if "ts" in o else "RTsNow"
    return f"(mkRNew {n} {i} {_xv(o.get('xv'))} {ts})"
def _rgv(x): return "RgStart" if x == "-" else "RgEnd" if x == "+" else f"(RgVal {int(x)})"
def _optn(o, k): return f"(Some {int(o[k])})" if k in o else "None"

def coq_goal(c, e):
    if e is None or "BADCASE" in e: return None
    try:
        P, B, strict, keys, dflt, cmds = _split(c)
        exp = e.split(" | ")
        steps, fps, gens = [], [], {}
        NOW = 1700000000000000000
        for t, r in zip(cmds, exp):
            if t[0].endswith("~") or len(steps) > 60: break
            kind = t[0]
            if kind == "A":
                n = int(t[1][2:]); o = _opts(t[2:])
                pk = f"(Some {_uu(o['pk'], keys, dflt)})" if "pk" in o else "None"
                steps.append(f"StReq (RqAppend {_newev(n, o)} {pk} {_uu(f'd{n}', keys, dflt)} {NOW} true)")
            elif kind == "M":
                evs, grp = [], []
                for x in t[2:] + [","]:
                    if x == ",": evs.append(_newev(int(grp[0][2:]), _opts(grp[1:]))); grp = []
                    else: grp.append(x)
                steps.append(f"StReq (RqMAppend {_uu(t[1], keys, dflt)} [{'; '.join(evs)}] {NOW} true)")
            elif kind == "G":
                if t[1][0] == "g":
                    g = int(t[1][1:]); u = gens.get(g, (2 * (1000000 + g) + 1) * 65536)
                else: u = _eid(t[1])
                steps.append(f"StReq (RqGet {u})")
            elif kind == "S":
                n = int(t[1][2:]); o = _opts(t[4:])
                pk = f"(Some {_uu(o['pk'], keys, dflt)})" if "pk" in o else "None"
                steps.append(f"StReq (RqScan {n} {_rgv(t[2])} {_rgv(t[3])} {pk} {_uu(f'd{n}', keys, dflt)} {_optn(o, 'n')})")
            elif kind == "P":
                o = _opts(t[4:]); sel = f"(PsKey {_uu(t[1], keys, dflt)})" if t[1][0] == "k" else f"(PsId {int(t[1])})"
                steps.append(f"StReq (RqPScan {sel} {_rgv(t[2])} {_rgv(t[3])} {_optn(o, 'n')})")
            elif kind == "V":
                n = int(t[1][2:]); o = _opts(t[2:])
                pk = f"(Some {_uu(o['pk'], keys, dflt)})" if "pk" in o else "None"
                steps.append(f"StReq (RqSVer {n} {pk} {_uu(f'd{n}', keys, dflt)})")
            elif kind == "Q":
                sel = f"(PsKey {_uu(t[1], keys, dflt)})" if t[1][0] == "k" else f"(PsId {int(t[1])})"
                steps.append(f"StReq (RqPSeq {sel})")
            elif kind == "X": steps.append("StReq RqMalformed")
            else: break
            # fingerprint of the expected reply (what rs_fp computes) and the confirmation that follows an append
            if r.startswith("ERR "):
                code = r.split()[1]
                fps.append("[0; %d]" % {"INVALIDARG": 0, "other:the_event_id": 1, "WRONGVER": 2, "DBOPFAILED": 3, "CLUSTERDOWN": 4}[code])
            elif r.startswith("ok id="):
                m = re.match(r"ok id=(\S+) pk=(\S+) pid=(\d+) seq=(\d+) ver=(\d+) ts=(\S+)$", r)
                hh = keys[int(m[2][1:])] if m[2][0] == "k" else dflt[int(m[2][1:])]
                if m[1][0] == "g": gens[int(m[1][1:])] = (2 * int(m[1][1:])) * 65536 + hh
                fps.append(f"[1; {m[3]}; {m[4]}; {m[5]}]")
                steps.append(f"StConfirm {m[3]}")
            elif r.startswith("ok pk="):
                m = re.match(r"ok pk=(\S+) pid=(\d+) first=(\d+) last=(\d+) \[(.*)\]$", r)
                hh = keys[int(m[1][1:])]
                vs = []
                for x in m[5].split(","):
                    f = x.split("/")
                    if f[0][0] == "g": gens[int(f[0][1:])] = (2 * int(f[0][1:])) * 65536 + hh
                    vs.append(f[2])
                fps.append(f"[2; {m[2]}; {m[3]}; {m[4]}; {'; '.join(vs)}]")
                steps.append(f"StConfirm {m[2]}")
            elif r.startswith("more="):
                evs = _events(r)
                fps.append("[3; %s%s]" % (r[5], "".join(f"; {x['seq']}; {x['ver']}" for x in evs)))
            elif r == "null": fps.append("[4]")
            elif r.startswith("ev("):
                x = _events(r)[0]; fps.append(f"[5; {x['seq']}; {x['ver']}]")
            elif r.isdigit(): fps.append(f"[6; {r}]")
            else: return None
        if not fps: return None
        return (f"map rs_fp (snd (rs_run SubFixed (mkRCfg {P} {B} {'true' if strict else 'false'}) rs_init [{'; '.join(steps)}])) = [{'; '.join(fps)}]")
    except (_Bad, ValueError, IndexError, KeyError, TypeError):
        return None

def distribution(pairs):
    d = {"histories": 0, "commands": 0, "append_ok": 0, "mappend_ok": 0, "mappend_repeated_stream": 0, "errors": 0, "malformed": 0,
         "scans": 0, "has_more_true": 0, "unquiesced": 0, "strict": 0, "ts_boundary": 0}
    for c, o in pairs:
        d["histories"] += 1
        d["commands"] += c.count(" ; ") + 1
        d["append_ok"] += o.count("ok id=")
        d["mappend_ok"] += o.count("ok pk=")
        d["errors"] += o.count("ERR ")
        d["malformed"] += c.count("; X ")
        d["scans"] += o.count("more=")
        d["has_more_true"] += o.count("more=1")
        d["unquiesced"] += c.count("A~ ") + c.count("M~ ")
        d["strict"] += "strict=1" in c
        d["ts_boundary"] += len(re.findall(r"ts=(?:0|1|9223372036\d+|18446744073\d+|4611686018427387904) ", c))
        for m in re.findall(r"ok pk=\S+ pid=\d+ first=\d+ last=\d+ \[([^\]]*)\]", o):
            sts = [x.split("/")[1] for x in m.split(",")]
            d["mappend_repeated_stream"] += len(sts) != len(set(sts))
    return d

LEVEL_TEXT = ("Machine-checked proof (Coq) about a model of the RESP request handlers on top of the abstract event store the storage engine is proved against: "
              "EAPPEND/EMAPPEND replies carry exactly the sequences and per-event versions spec_append assigns (C22_append_reply, C22_mappend_reply; the reverse "
              "reconstruction of emappend.rs is proved correct for every transaction, C22_reconstruction), ESCAN/EPSCAN return the first COUNT in-range events below the "
              "watermark and has_more=false only if nothing is left out (C22_scan_reply, C22_pscan_reply, for every log reachable by appends: C22_reachable_wf), ESVER/EGET/EPSEQ "
              "are the reference reads of the confirmed prefix, every request gets a reply and errors change nothing (C22_total, C22_error_unchanged, C22_timestamp_*). "
              "The original `*version -= 1` is refuted for debug builds (C22_emappend_debug_refuted; fixed by c8fbef5). Tie to the code: command histories over a real TCP "
              "connection to a real Server + single-node ClusterActor, replies compared with the extracted model, and an independent reference store in the monitor.")
LEVEL_NOTE = ("Trusted: Coq kernel, extraction (ExtrOcamlBasic), OCaml driver glue, the Rust harness incl. its RESP3 client and canonicalisation, the Python monitor. "
              "The theorems are about Model/Resp.v over Model/StoreSpec.v; the engine below the RESP layer is tied to StoreSpec by C01-C05 and the read loops by C07. "
              "Correspondence is sampled (generated histories), single node, rf 1, debug build. All theorems closed under the global context (no axioms).")
TECHNIQUE = "Coq proof of a hand-written Gallina model + history-differential correspondence check (extracted OCaml model vs real RESP server) + independent property monitor"
