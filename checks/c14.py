"""C14 replica count / ownership / order independence: K1 (count family) and K2 (membership histories) differential
on the real TopologyManager + direct monitor."""
PROP = "C14"
COQ_IMPORTS = "From SV Require Import Model.Topology Model.Placement."
READY = True
XCHECK = 40
RULE = ("count family c14n (N,B,P,rf | examined nodes | examined partitions): every N<=8 x rf in {0..N+1,12,13,255} x B<=16 x P (quick: 0,1,2,B-1,B,B+1,2B+1,31,32; "
        "thorough: every P<=32), all partitions, all nodes (quick: 2 nodes when N>3); boundary N in {9,11,12,13,14,16,17,31,64,128,254..258,299,300} with rf in "
        "{1,2,3,5,11,12,13,44,255,min(N,255),rnd}, B in {1,2,N-1,N,N+1,2N+1,1000,65535,rnd}, P up to 2048 (65535 once per N on thorough and in three fixed cases at N=256,257,300), 2-3 nodes and ~50 partitions examined (9 per N quick, 30 thorough); "
        "each examined node is a real manager that has learnt all N-1 others (random order). "
        "order family c14o: every sequence of up to 4 (thorough 5) events from a pool of 9 (connects, heartbeat, timeout, disconnect, two ownership responses) on a 3-node cluster "
        "and 3-4 events on a second one, plus 1500 (thorough 12000) random histories of 1..14 events over 2-5 managers (connect/heartbeat/index-change heartbeat/disconnect/timeout/"
        "ownership response recorded from another manager), each manager compared with a fresh manager that learnt the same members by plain connects. "
        "non-trivial = count case with N>1, rf>0, B>0, or order case with at least two events. distinct = distinct case strings.")
ASSUMPTIONS = [
    "Model/Placement.v is hand-written from manager.rs:37-473; tie = this differential run",
    "a peer's cluster ref is identified with the peer (one ClusterActor and a fresh keypair per process)",
    "distinct live peers have distinct configured node indices (wf_world); histories in which two live peers claim the same index are not generated "
    "(the code then picks whichever the HashMap iteration yields last)",
    "the ownership response is delivered as behaviour.rs:268-285 does (ref->partitions, back to partition->refs); gossipsub itself is not run",
    "heartbeat timeouts are produced by moving a peer's last-heartbeat Instant into the past and calling check_heartbeat_timeouts; alive_since is set by the harness",
]

def model_case(c): return c
def plist(s):
    s = s.strip()
    return [int(x) for x in s[1:-1].split(",") if x]
def pnested(s):
    """'[[1,2],[3]]' -> [[1,2],[3]]"""
    s = s.strip()
    if s == "[]": return []
    inner = s[1:-1]
    out, depth, cur = [], 0, ""
    for ch in inner:
        if ch == "[": depth += 1
        if ch == "]": depth -= 1
        if ch == "," and depth == 0: out.append(cur); cur = ""
        else: cur += ch
    out.append(cur)
    return [plist(x) for x in out]
def head(c):
    t = c.split(); return t[0], int(t[1]), int(t[2]), int(t[3]), int(t[4])

def monitor(c, o):
    kind, n, b, p, rf = head(c)
    t = c.split()
    if o == "SKIP": return None
    degenerate = (n == 0 or b == 0)
    want = min(rf, n)
    def panic(who):
        if degenerate: return None                       # no cluster / no buckets: outside the property
        if want > 12:
            return ("rf-over-capacity", f"TopologyManager panics (ArrayVec capacity 12) with N={n} rf={rf}: min(rf,N)={want} replicas do not fit ({who})")
        return ("panic", f"TopologyManager panicked: N={n} B={b} P={p} rf={rf} ({who}) case {c[:160]}")
    if kind == "c14n":
        parts = list(range(p)) if t[6] == "*" else [int(x) for x in t[6].split(",") if x]
        per = {}
        for ent in o.split():
            i, _, rest = ent.partition(":")
            if rest == "SKIP": continue
            if rest == "PANIC":
                r = panic(f"node {i} learning all members")
                if r: return r
                continue
            f = dict(x.split("=", 1) for x in rest.split(";"))
            per[int(i)] = (set(plist(f["O"])), pnested(f["R"]))
        if degenerate: return None
        for i, (own, reps) in per.items():
            for q, r in zip(parts, reps):
                if q >= p: continue
                if len(r) != want: return ("count", f"N={n} B={b} P={p} rf={rf}: node {i} sees {len(r)} replicas {r} for partition {q}, expected min(rf,N)={want}")
                if len(set(r)) != len(r): return ("distinct", f"N={n} B={b} P={p} rf={rf}: node {i}: replicas of partition {q} are not distinct: {r}")
                if any(x >= n for x in r): return ("range", f"N={n} B={b} P={p} rf={rf}: node {i}: replica index out of range for partition {q}: {r}")
                for j, (ownj, _) in per.items():
                    if j < n and ((q in ownj) != (j in r)):
                        return ("owner", f"N={n} B={b} P={p} rf={rf}: node {j} {'owns' if q in ownj else 'does not own'} partition {q} but node {i}'s replica list for it is {r}")
        vals = list(per.items())
        for (i, (_, ri)), (j, (_, rj)) in zip(vals, vals[1:]):
            if ri != rj: return ("disagree", f"N={n} B={b} P={p} rf={rf}: nodes {i} and {j} know all members but hold different replica lists")
        return None
    # order family
    states = {}
    for ent in o.split():
        m, _, rest = ent.partition(":")
        if rest == "PANIC":
            r = panic(f"manager {m}")
            if r: return r
            continue
        f = dict(x.split("=", 1) for x in rest.split(";"))
        if f["RR"] == "PANIC":
            r = panic(f"reference manager {m}")
            if r: return r
            continue
        if f["R"] != f["RR"]:
            return ("order", f"N={n} B={b} P={p} rf={rf}: manager {m} knows members {f['A']} and holds replica sets {f['R']}, a manager that learnt the same members by plain connects holds {f['RR']}; history {t[6] if len(t) > 6 else ''}")
        if f["V"] != f["RV"]:
            return ("coordinator-order", f"N={n} B={b} P={p} rf={rf}: manager {m} knows members {f['A']} and orders coordinators {f['V']}, reference {f['RV']}; history {t[6] if len(t) > 6 else ''}")
        states[m] = f
    # which members a manager knows is decided by what it heard, not by what it reports: without ownership responses in the
    # history, manager m knows itself plus every peer whose last event at m is a connect or a heartbeat (not a disconnect / time-out)
    script = t[6] if len(t) > 6 else ""
    evs = [e.split(".") for e in script.split(",") if e]
    k = len(t[5].split(",")) if len(t) > 5 else 0
    if evs and all(len(e) == 3 and e[0] in "chxdt" and e[1].isdigit() and e[2].isdigit() for e in evs):
        heard = {m: {int(m)} for m in states}
        for kind_, m_, j_ in evs:
            m_, j_ = int(m_), int(j_)
            if str(m_) not in heard or j_ >= k or j_ == m_: continue
            if kind_ in "chx": heard[str(m_)].add(j_)
            else: heard[str(m_)].discard(j_)
        for m, f in states.items():
            known = {int(x.split("/")[0]) for x in f["A"].strip("[]").split(",") if x}
            if known != heard[m]:
                return ("membership", f"N={n} B={b} P={p} rf={rf}: after the history {script} manager {m} heard from peers {sorted(heard[m])} last by connect/heartbeat but knows members {sorted(known)}: "
                        f"two managers hearing the same live members no longer hold the same replica sets")
    ms = sorted(states)
    for x in ms:
        for y in ms:
            if x < y and states[x]["A"] == states[y]["A"] and (states[x]["R"] != states[y]["R"] or states[x]["V"] != states[y]["V"]):
                return ("disagree", f"managers {x} and {y} know the same members {states[x]['A']} but differ: {states[x]['R']} / {states[y]['R']}")
    return None

def nontrivial(c, o):
    kind, n, b, p, rf = head(c)
    if kind == "c14n": return n > 1 and rf > 0 and b > 0 and "PANIC" not in o
    t = c.split()
    return len(t) > 6 and t[6].count(",") >= 1
def shrink_key(c):
    kind, n, b, p, rf = head(c)
    t = c.split()
    if kind == "c14o": return (1, len(t[6].split(",")) if len(t) > 6 else 0, n, p, b, rf, c)
    return (0, n, rf, b, p, len(c), c)
def coq_list(l): return "[" + "; ".join(str(x) for x in l) + "]"
def coq_goal(c, e):
    if e is None: return None
    kind, n, b, p, rf = head(c)
    t = c.split()
    if kind != "c14n" or t[6] != "*" or n < 1 or n > 16 or b < 1 or p > 16 or "PANIC" in e or "SKIP" in e or not e: return None
    ent = e.split()[0]
    f = dict(x.split("=", 1) for x in ent.partition(":")[2].split(";"))
    reps = pnested(f["R"])
    return (f"recalc {{| c_n := {n}; c_b := {b}; c_p := {p}; c_rf := {rf}; c_mode := RfWide; c_resp := RespRecalc |}} "
            f"(full_members {n} (fun i => i) (fun i => 1000 + i)) (nrange {n}) = Some [" + "; ".join(coq_list(r) for r in reps) + "]")
def distribution(pairs):
    d = {"count cases": 0, "order cases": 0, "N<=8": 0, "8<N<256": 0, "N>=256": 0, "rf>N": 0, "min(rf,N)>12 (known finding class)": 0,
         "N=0 or B=0": 0, "histories with an ownership response": 0, "histories with timeout/disconnect": 0, "histories with index change": 0, "panic observed": 0}
    for c, o in pairs:
        kind, n, b, p, rf = head(c)
        if kind == "c14n":
            d["count cases"] += 1
            d["N<=8" if n <= 8 else "8<N<256" if n < 256 else "N>=256"] += 1
            if rf > n: d["rf>N"] += 1
            if min(rf, n) > 12: d["min(rf,N)>12 (known finding class)"] += 1
            if n == 0 or b == 0: d["N=0 or B=0"] += 1
        else:
            d["order cases"] += 1
            s = c.split()[6] if len(c.split()) > 6 else ""
            if "r." in s: d["histories with an ownership response"] += 1
            if "t." in s or "d." in s: d["histories with timeout/disconnect"] += 1
            if "x." in s: d["histories with index change"] += 1
        if "PANIC" in o: d["panic observed"] += 1
    return d
LEVEL_TEXT = ("Machine-checked proof (Coq) over a transition system of membership events (connect, heartbeat, disconnect, timeout, ownership response from any reachable state of "
              "any node, in any order, for any N, B, P, rf): every reachable state's replica lists are a function of the live members it knows, so two managers with the same "
              "live-member map hold the same replica lists and the same (alive_since, ref) coordinator order (C14_order_independent); once all N configured nodes are live every "
              "partition has exactly min(rf,N) distinct replicas and a node is in the list iff calculate_assigned_partitions gives it the partition (C14_count, C14_window); no step "
              "panics when min(rf,N)<=12 (C14_no_panic); which members a manager knows is exactly what it heard — last event of a peer a connect or heartbeat — after every history of local membership events (C14_membership, C14_membership_init, C14_heard_again; the monitor applies the same rule to the real manager). History: u8 truncation (C14_u8_ok_below_256 / C14_u8_refuted_256), order dependence of the unrepaired response handler "
              "(C14_order_refuted_before_fix). Known finding: min(rf,N) > 12 overflows the 12-slot ArrayVec (C14_capacity_refuted). Tie to the code: differential run of real "
              "TopologyManager instances against the extracted model, exhaustive for N<=8, B<=16 and for short event sequences, boundary (N up to 300, B,P up to 65535) and random beyond, "
              "plus a direct monitor that compares every manager with a freshly connected one.")
LEVEL_NOTE = ("Trusted: Coq kernel, extraction, OCaml driver glue, Rust harness (it sets alive_since and last-heartbeat instants through public fields), Python monitor. "
              "Assumes distinct live peers have distinct configured indices and one cluster ref per peer; gossipsub/libp2p delivery is not run (the harness performs the "
              "response conversion of behaviour.rs itself). All theorems closed under the global context.")
TECHNIQUE = "Coq proof (invariant over an inductively defined reachability relation) of a hand-written Gallina model + differential correspondence check against real TopologyManager instances"
