"""C09 subscriptions deliver confirmed events in order, once, without gaps, within the window:
K4 schedule replay on a real single-node ClusterActor (rf = 1) against the extracted transition system, + a direct
monitor of the property statement on the observed deliveries."""
import re
PROP = "C09"
COQ_IMPORTS = "From SV Require Import Model.Subscription."
READY = True
XCHECK = 12
NP, SPP = 4, 4
RULE = ("dup_ack scenarios (6 quick / 24 thorough): the window is filled, one acknowledgement, then the SAME acknowledgement repeated 2-3 times (observed for 25 ms each): nothing may be sent. "
        "scenario = initial on-disk logs of 4 partitions (transactions of 1..3 events over <= 3 streams each, a confirmed prefix followed by a mix, a quarter with the watermark inside a transaction) "
        "+ one subscription (kind cycles all-partitions / one partition / several partitions / one stream / several streams; start Latest, AllPartitions(n)/AllStreams(n), explicit map with or without "
        "fallback, positions 0 / watermark / watermark-1 / end / beyond / random; window cycles 1, 2, 10, sometimes 100) + a schedule of 3..20 steps before/after Subscribe drawn from "
        "{direct unconfirmed append, ConfirmTransaction (watermark moves, nothing broadcast), ExecuteTransaction (append+confirm+broadcast), ack, release one history pause point, release all, flush} "
        "and a closing sequence (confirm, one write per partition, flush). 300 such scenarios (quick) / 2400 (thorough); plus 60 / 500 'batches' scenarios (a 52..125-transaction partition so that the "
        "history read takes several batches, the watermark / log / acknowledgements change at the pause point between batches) and 5 / 30 'lag' scenarios (> 1024 events are broadcast while the "
        "subscription waits at a pause point or for an acknowledgement: Lagged -> history re-read) and 2 / 10 'lag-live' scenarios (a live subscription that holds a received record behind a "
        "closed window while > 1024 new events are appended, confirmed and broadcast: the events it still needs are dropped and only the re-read delivers them). Plus 10 / 30 'history-live-lag-reread' scenarios, 2 / 6 for EACH matcher kind: the history read delivers some events, the subscription goes live and receives 3..5 (+ other partition) "
        "records through the broadcast that are acknowledged one by one, is then held behind a closed window (window more records unacknowledged, one more received and waiting) while > 1024 events are "
        "appended (16-event transactions), confirmed by ConfirmTransaction and broadcast at once, so the events it still needs (and queued events of the other partition) are dropped and the re-read "
        "starts from the positions recorded during live delivery; then 2 more live records; half of them continue with a second lag, either behind a closed window again or while the re-read is held at "
        "its history pause point (not for the several-streams kind, whose history is not written into). The subscription task runs freely between steps; the harness waits after each step until the "
        "task is provably blocked (hook log). Every scenario is also run through the extracted model (same annotated schedule) and the outputs must be equal. "
        "A case is non-trivial when at least one record was delivered. distinct = distinct case strings.")
ASSUMPTIONS = [
    "Model/Subscription.v is hand-written from crates/sierradb-cluster/src/subscription.rs:103-292, 402-461, 463-742 and confirmation/actor.rs:161-262 (after fix commits 6d8d4bd, de080bc); tie = this schedule replay",
    "single node, replication factor 1: the watermark is moved with the public ConfirmTransaction message (replica path: no broadcast) and by ExecuteTransaction (coordinator path: broadcast); "
    "remote/multi-node delivery is not exercised",
    "the storage iterators are modelled by what they yield (a snapshot of the key's events taken at creation, in batches whose sizes are read from the run: oracle input); their correctness is C03/C04's subject",
    "tokio::sync::broadcast is modelled as a bounded queue of 1024 (= 1000 rounded up to a power of two) values per receiver that drops the oldest and reports Lagged(number dropped); "
    "a large broadcast is treated as atomic w.r.t. the subscription task, which the scenarios guarantee by broadcasting more than the capacity only while the task is blocked",
    "the several-streams history creates its iterators lazily; schedules do not write while that history read is in progress (the model's OExtend step covers it in the theorems)",
    "the hooks (cfg sierradb_verif, commits a040eba, 0b61203) only observe / pause; with the cfg off the code is unchanged",
    "liveness (C09_idle_complete, C09_eventual_partial) is a statement about the model only; the monitor checks completeness whenever a schedule ends with the task idle in the live receive",
]

# ------------------------------------------------------------------ parsing
def _rep(t):
    if "*" in t:
        a, n = t.rsplit("*", 1); return a, int(n)
    return t, 1
def _layout(s):
    """-> per partition list of events (sid, confirmed)"""
    logs = []
    for p, ps in enumerate(s.split("|")):
        evs = []
        if ps != "-":
            for t in ps.split(","):
                t, n = _rep(t)
                b, st = t.split(":")
                bits = [c == "1" for c in b]
                if len(bits) == 1: bits = bits * len(st)
                for _ in range(n):
                    for d, c in zip(st, bits): evs.append([p * SPP + int(d), c])
        logs.append(evs)
    return logs
def _from(f):
    if f == "L": return ("L",)
    if f[0] == "A": return ("A", int(f[1:]))
    m, fb = {}, None
    for kv in f[1:].split(";"):
        if not kv: continue
        k, v = kv.split("=")
        if k == "f": fb = int(v)
        else: m.setdefault(int(k), int(v))
    return ("M", m, fb)
def _sub(s):
    t = s.split("/")
    w = int(t[-1][1:])
    kind = t[0]
    if kind == "all": return dict(kind=kind, stream=False, ids=list(range(NP)), frm=_from(t[1]), win=w)
    if kind == "part": return dict(kind=kind, stream=False, ids=[int(t[1])], frm=("L",) if t[2] == "-" else ("A", int(t[2])), win=w)
    if kind == "parts": return dict(kind=kind, stream=False, ids=[int(x) for x in t[1].split(".")], frm=_from(t[2]), win=w)
    if kind == "stream": return dict(kind=kind, stream=True, ids=[int(t[1])], frm=("L",) if t[2] == "-" else ("A", int(t[2])), win=w)
    return dict(kind=kind, stream=True, ids=[int(x) for x in t[1].split(".")], frm=_from(t[2]), win=w)
def _start(sub, k):
    """explicit start position of key k (None = latest), 'ignore' if the key does not match"""
    if k not in sub["ids"]: return "ignore"
    f = sub["frm"]
    if f[0] == "L": return None
    if f[0] == "A": return f[1]
    return f[1].get(k, f[2])
def _parse_obs(o):
    parts = o.split(" ; ")
    pre = []
    while parts and not re.match(r"^(\d+\.\d+\.\d+\.\d+@|$|end=)", parts[0]): pre.append(parts.pop(0))
    if len(parts) < 4: return None
    ds = []
    for t in parts[0].split():
        m = re.match(r"^(\d+)\.(\d+)\.(\d+)\.(\d+)@(\d+)/(\d+)/(\d+|-)$", t)
        if not m: return None
        ds.append(dict(p=int(m[1]), seq=int(m[2]), s=int(m[3]), ver=int(m[4]), w=int(m[5]), cur=int(m[6]), ack=None if m[7] == "-" else int(m[7])))
    return dict(pre=pre, ds=ds, end=parts[1][4:], lag=[int(x) for x in parts[2][4:].split(",") if x], W=[int(x) for x in parts[3][2:].split(".")])
def _replay(c):
    """logs after the schedule, the watermark known at Subscribe, and per partition the watermark at the last
    broadcast after Subscribe"""
    t = c.split()
    logs = _layout(t[2])
    wm = [0] * NP
    for p in range(NP):
        while wm[p] < len(logs[p]) and logs[p][wm[p]][1]: wm[p] += 1
    subscribed, at_sub, bc = False, None, [None] * NP
    if t[4] != "-":
        for st in t[4].split(","):
            body, _, ann = st.partition("=")
            if body[0] in "ax":
                p, ss = body[1:].split(":")
                p = int(p)
                for d in ss: logs[p].append([p * SPP + int(d), body[0] == "x"])
                if body[0] == "x" and ann:
                    wm[p] = int(ann.split("/")[0])
                    if subscribed: bc[p] = wm[p]
            elif body[0] == "c" and ann: wm[int(body[1:])] = int(ann)
            elif body == "S": subscribed, at_sub = True, list(wm)
    return logs, at_sub, bc, wm

def model_case(c): return c

def monitor(c, o):
    t = c.split()
    if o.startswith(("BADCASE", "CRASH", "TIMEOUT")): return ("error", f"{c[:200]}: {o[:100]}")
    ob = _parse_obs(o)
    if ob is None: return ("error", f"{c[:200]}: unreadable observation {o[:120]}")
    if ob["pre"]: return ("error", f"{c[:200]}: {' '.join(ob['pre'])[:200]}")
    sub = _sub(t[3])
    if ob["end"].startswith(("dead", "running")) or ":" in ob["end"]:
        return ("dead", f"{c[:300]}: the subscription task ended ({ob['end']}) after {len(ob['ds'])} records")
    keyf = (lambda d: d["s"]) if sub["stream"] else (lambda d: d["p"])
    posf = (lambda d: d["ver"]) if sub["stream"] else (lambda d: d["seq"])
    what = "stream" if sub["stream"] else "partition"
    last, first = {}, {}
    for i, d in enumerate(ob["ds"]):
        k, x = keyf(d), posf(d)
        if d["cur"] != i: return ("cursor", f"{c[:300]}: record {i} carries cursor {d['cur']}")
        st = _start(sub, k)
        if st == "ignore": return ("foreign", f"{c[:300]}: delivered an event of {what} {k}, which the subscription does not match")
        if k in last:
            if x > last[k] + 1: return ("gap", f"{c[:300]}: {what} {k}: position {x} delivered after {last[k]} - the positions {last[k]+1}..{x-1} were skipped")
            if x <= last[k]: return ("duplicate", f"{c[:300]}: {what} {k}: position {x} delivered after {last[k]} (duplicate or out of order)")
        else:
            first[k] = x
            if st is not None and x != st: return ("start", f"{c[:300]}: {what} {k}: first delivered position is {x}, the subscription starts at {st}")
        last[k] = x
        if not d["seq"] < d["w"]: return ("unconfirmed", f"{c[:300]}: the event with partition sequence {d['seq']} of partition {d['p']} was delivered while the confirmed watermark was {d['w']}")
        gap = d["cur"] + 1 if d["ack"] is None else max(0, d["cur"] - d["ack"])
        if gap > sub["win"]: return ("window", f"{c[:300]}: record with cursor {d['cur']} was sent while the last acknowledged cursor was {d['ack']}: {gap} unacknowledged > window {sub['win']}")
    # completeness, when the subscription ended idle in the live receive
    if ob["end"] == "live":
        logs, at_sub, bc, wm = _replay(c)
        if at_sub is not None:
            keys = sub["ids"]
            for k in keys:
                p = k // SPP if sub["stream"] else k
                st = _start(sub, k)
                if st is None: st = first.get(k)
                if st is None: continue
                bound = max(at_sub[p], bc[p] or 0)
                evs = [(i, e) for i, e in enumerate(logs[p]) if (not sub["stream"]) or e[0] == k]
                for x, (seq, e) in enumerate(evs):
                    if x >= st and seq < bound and not (k in last and first[k] <= x <= last[k]):
                        return ("missing", f"{c[:300]}: {what} {k}: the confirmed event at position {x} (partition sequence {seq} < {bound}) was never delivered although the subscription is idle")
    return None

def nontrivial(c, o):
    ob = _parse_obs(o)
    return bool(ob and ob["ds"])
def shrink_key(c): return (len(c), c)
def agree(c, o, e): return o == e

# ------------------------------------------------------------------ extraction cross-check inside Coq
def _coq_sids(p, ss): return "[" + "; ".join(str(p * SPP + int(d)) for d in ss) + "]"
def _coq_from(f):
    if f[0] == "L": return "FLatest"
    if f[0] == "A": return f"(FAll {f[1]})"
    return "(FMap [" + "; ".join(f"({k}, {v})" for k, v in f[1].items()) + "] " + ("None" if f[2] is None else f"(Some {f[2]})") + ")"
def _coq_matcher(spec):
    t = spec.split("/")
    optn = lambda x: "None" if x == "-" else f"(Some {int(x)})"
    ids = lambda x: "[" + "; ".join(str(int(y)) for y in x.split(".")) + "]"
    if t[0] == "all": return f"(MAllP {_coq_from(_from_raw(t[1]))})"
    if t[0] == "part": return f"(MPart {int(t[1])} {optn(t[2])})"
    if t[0] == "parts": return f"(MParts {ids(t[1])} {_coq_from(_from_raw(t[2]))})"
    if t[0] == "stream": return f"(MStream {int(t[1])} {optn(t[2])})"
    return f"(MStreams {ids(t[1])} {_coq_from(_from_raw(t[2]))})"
def _from_raw(f):
    """like _from but keeps duplicate keys in order (the model's association list)"""
    if f == "L": return ("L",)
    if f[0] == "A": return ("A", int(f[1:]))
    m, fb = [], None
    for kv in f[1:].split(";"):
        if not kv: continue
        k, v = kv.split("=")
        if k == "f": fb = int(v)
        else: m.append((int(k), int(v)))
    class L(list):
        def items(self): return list(self)
    return ("M", L(m), fb)
def coq_goal(c, e):
    if e is None or e.startswith(("BADCASE", "MODEL-EXN", "BCAST", "GATE")): return None
    ob = _parse_obs(e)
    if ob is None or len(ob["ds"]) > 120 or len(c) > 1500: return None
    t = c.split()
    if t[0] != "c09": return None
    init = []
    for p, ps in enumerate(t[2].split("|")):
        if ps == "-": continue
        bits = []
        for tx in ps.split(","):
            tx, n = _rep(tx)
            b, st = tx.split(":")
            bl = [x == "1" for x in b]
            if len(bl) == 1: bl = bl * len(st)
            for _ in range(n):
                init.append(f"OAppend {p} {_coq_sids(p, st)}"); bits += bl
        w = 0
        while w < len(bits) and bits[w]: w += 1
        init.append(f"OAdvance {p} {w}")
    sub = _sub(t[3])
    groups = []
    if t[4] != "-":
        for st in t[4].split(","):
            body, _, ann = st.partition("=")
            if body[0] == "a":
                p, ss = body[1:].split(":"); groups.append([f"OAppend {int(p)} {_coq_sids(int(p), ss)}"])
            elif body[0] == "c": groups.append([f"OAdvance {int(body[1:])} {int(ann)}"])
            elif body[0] == "x":
                p, ss = body[1:].split(":"); w = int(ann.split("/")[0])
                groups.append([f"OAppend {int(p)} {_coq_sids(int(p), ss)}", f"OAdvance {int(p)} {w}", f"OBcast {int(p)}"])
            elif body == "S": groups.append([f"OSubscribe {_coq_matcher(t[3])} {sub['win']}"])
            elif body[0] == "k": groups.append([f"OAck {int(body[1:])}"])
            elif body == "h-": continue
            elif body[0] == "h":
                k, n = body[1:].split(":")
                groups.append([f"OHistBatch ({'KS' if sub['stream'] else 'KP'} {int(k)}) {int(n)}"])
            else: return None
    want = "[" + "; ".join(f"({d['p']}, {d['seq']}, {d['w']}, {d['cur']})" for d in ob["ds"]) + "]"
    g = "[" + "; ".join("[" + "; ".join(x) + "]" for x in groups) + "]"
    return ("(let c := mkSbCfg 4 4 1024 true in let st := sb_script c (300 * 300) (fold_left (sb_step c) [" + "; ".join(init) + f"] (sb_init {'true' if t[1] == '1' else 'false'})) {g} in "
            "match sb_sub st with Some u => map (fun d => (e_pid (d_ev d), e_seq (d_ev d), d_wm d, d_cur d)) (rev (u_out u)) | None => [] end = " + want + ")%nat")

def distribution(pairs):
    d = {"kind": {}, "window": {}, "end": {}, "lagged": 0, "records": 0, "history_batches": 0, "multi_batch": 0, "watermark_moved_between_batches": 0,
         "window_blocked": 0, "start_latest": 0, "bg_subscriber": 0,
         # history -> live (>= 3 acknowledged live records) -> lag -> re-read -> live [-> second lag], per matcher kind
         "hist_live_lag_reread": {}, "hist_live_double_lag": {}, "second_lag_at_pause_point": {}, "min_acked_live_records_before_first_lag": None}
    for c, o in pairs:
        t = c.split()
        if len(t) != 5: continue
        sub = _sub(t[3])
        d["kind"][sub["kind"]] = d["kind"].get(sub["kind"], 0) + 1
        d["window"][sub["win"]] = d["window"].get(sub["win"], 0) + 1
        ob = _parse_obs(o)
        if not ob: continue
        d["end"][ob["end"]] = d["end"].get(ob["end"], 0) + 1
        d["lagged"] += bool(ob["lag"]); d["records"] += len(ob["ds"])
        hs = [s for s in t[4].split(",") if s.startswith("h") and s != "h-"]
        d["history_batches"] += len(hs); d["multi_batch"] += len(hs) > len(set(h.split(":")[0] for h in hs))
        if re.search(r"h\d+:\d+,(k\d+,)*c\d+=\d+(,[ck]\d+(=\d+)?)*,h\d", t[4]): d["watermark_moved_between_batches"] += 1
        steps = t[4].split(",")
        bulk = [i for i, x in enumerate(steps) if re.match(r"^a\d:\d{16}$", x)]
        if bulk and sub["frm"][0] != "L" and ob["lag"]:
            hs = [i for i, x in enumerate(steps[:bulk[0]]) if x.startswith("h") and x != "h-"]
            live_acks = sum(1 for x in steps[(hs[-1] + 1 if hs else 0):bulk[0]] if x.startswith("k"))
            fam = "hist_live_double_lag" if len(ob["lag"]) >= 2 else "hist_live_lag_reread"
            d[fam][sub["kind"]] = d[fam].get(sub["kind"], 0) + 1
            m = d["min_acked_live_records_before_first_lag"]
            d["min_acked_live_records_before_first_lag"] = live_acks if m is None else min(m, live_acks)
            # second flood between the K that released the held record and the next pause-point release
            if len(ob["lag"]) >= 2 and re.search(r"x\d:\d=\d+/\d{4},k\d+,(h\d+:\d+,)?a\d:\d{16}", t[4]):
                d["second_lag_at_pause_point"][sub["kind"]] = d["second_lag_at_pause_point"].get(sub["kind"], 0) + 1
        d["window_blocked"] += any(x["ack"] is not None for x in ob["ds"]) or ob["end"] == "window"
        d["start_latest"] += sub["frm"][0] == "L"; d["bg_subscriber"] += t[1] == "1"
    return d

LEVEL_TEXT = ("Machine-checked proof (Coq, one invariant by induction over operation lists) over ALL executions of the subscription transition system (every interleaving of appends, watermark "
              "advances, broadcasts, history batches of any size for any pending iterator, iterator refreshes, live receives, sends, acknowledgements and lag, for all five matcher kinds, any start "
              "position, any window, any channel capacity): per partition / per stream the delivered positions are consecutive from the start position (so in order, exactly once, no gap), every "
              "delivered event is a log event that was below the watermark when it was sent (C09_order_once_nogap), at every send at most `window` records are unacknowledged (C09_window); "
              "when the task is idle everything below the broadcast position has been delivered (C09_idle_complete), and from every reachable state a fair continuation (one broadcast per "
              "partition, acknowledgements, the task's own steps) reaches that idle state with every confirmed matching event delivered (C09_eventual_partial, termination by a measure). "
              "C09_stream_break_refuted: the stream reader before commit 6d8d4bd skips events. Tie to the code: schedule replay of the real ClusterActor (pause points between history batches, "
              "exact blocked-state detection from the hook log) against the extracted model with equal outputs, plus a direct monitor (consecutive / start / confirmed / window / completeness).")
LEVEL_NOTE = ("Trusted: Coq kernel, extraction, OCaml driver, Rust harness + hook callbacks, Python monitor. Liveness is proved on the model only and for the canonical fair schedule, not for "
              "every fair schedule. Multi-node delivery, the storage iterators and tokio's channels are modelled, not verified. On the real node, events confirmed through the replica path "
              "(ConfirmTransaction) are broadcast only by the next write on that partition (pending_events is never filled) - a liveness weakness outside the model, reported, not repaired.")
TECHNIQUE = "Coq proof (invariant by induction over operation lists) of a hand-written transition-system model + K4 schedule replay against the real ClusterActor with cfg-gated pause points"
