"""C20 every append completes within a bounded time: proof of the acknowledgement path's wake-up logic + latency bound and
ack-after-publish validation on traces of the REAL Database (harness/cconc), including the late-poll schedule."""
from checks.conclib import *
from checks import conclib
PROP = "C20"
READY = True
XCHECK = 10
LEVEL_TEXT = ("Machine-checked proof (Coq) about Model/SyncWatch.v (worker steps write / reply(channel, target offset) / sync / rollover with a NEW watch value per "
              "segment = the code after fix 9690820; client step poll of the latest value of ITS channel): for EVERY sequence of steps, once a sync or rollover "
              "follows a reply every later poll of that waiter succeeds and a poll that succeeded once succeeds for ever (C20_no_lost_wakeup, C20_covered_forever); "
              "a poll succeeds ONLY if a sync/rollover of the transaction's segment happened after its write (C20_ack_after_sync: the acknowledgement follows the "
              "fsync + publication covering it); if every window of k worker steps contains a sync, the append completes within k+1 steps of its reply "
              "(C20_bounded_steps). The code before the fix (one watch value across rollovers) is refuted by two witnesses (C20_shared_refuted: acknowledged before "
              "the sync; lost wake-up for ever). Tie to the code: every append of the concurrent runs must return within 10 x sync_idle_interval + 2 s (a schedule fails "
              "only if it is slow on 3 consecutive attempts); the late-poll witness is replayed through the pause point between the worker's reply and wait_for; the "
              "worker's reply/published/rollover events are replayed on the extracted model (every published offset must be the model's; at every acknowledgement "
              "the model's poll must succeed).")
LEVEL_NOTE = ("PARTIAL: the wall-clock bound itself is not a theorem. Named gap: delivery of the syncer thread's FlushPoll (period sync_interval / sync_idle_interval, "
              "try_send into a bounded channel that may be full), fsync latency and the scheduling of the client task are runtime behaviour, covered only by the "
              "measured bound on the harness's runs with a healthy disk. Trusted: Coq kernel, extraction, ocaml/d_conc.ml, the harness and the hook stamps.")
TECHNIQUE = "Coq proof of a transition system (invariant: per-segment watch values are monotone and cover every replied target after the next sync) + run-time latency bound and trace replay on the extracted model"
RULE = ("latepoll runs: 1 bucket; the live segment is filled to within 6-60 KB, a client's append is held between the worker's reply and wait_for, a second client's "
        "append rolls the segment over and is acknowledged, the syncer gets two more periods, then the first client is released and must complete; "
        "window runs (writer held inside a rollover) and stress runs as C15/C16 (1-4 buckets, 1-4 writer threads, 2-10 clients, payloads 3-30 KB, sync interval 2-10 ms). "
        "Every append is bounded by 10 x sync_idle_interval + 2 s. non-trivial = a run with at least one rollover")
ASSUMPTIONS = conclib.ASSUMPTIONS_COMMON + [
    "the latency bound assumes a healthy, not overloaded disk; it is generous (>= 2 s against sync intervals of 2-20 ms) and a schedule is reported only when slow on 3 consecutive attempts",
    "SEGMENT_HEADER_SIZE = 48 is the write offset of a fresh segment (seg_header in the model); checked by the replay of the published offsets",
]

def agree(c, o, e):
    if is_route(c): return o == e
    return field(e, "w") == "ok"

def nontrivial(c, o):
    return int(summary(o).get("roll", "0")) >= 1

def coq_goal(c, expected):
    return None

def monitor(c, o):
    if is_route(c): return None
    if o.startswith("open-err"): return ("c20:open", f"database did not open: {o[:200]}")
    s = summary(o)
    k, _, n = s.get("slow", "0/1").partition("/")
    tr = Trace(c)
    if k == "3" and n == "3":
        slowest = [a for a in tr.apps if a["res"] == "TIMEOUT"]
        what = f"append #{slowest[0]['op']} did not return" if slowest else f"slowest append took {s.get('maxms')} ms"
        return ("c20:slow", f"{what} within the bound of {s.get('bound')} ms on 3 consecutive attempts of this schedule")
    if any(a["res"] == "PANIC" for a in tr.odd): return ("c20:panic", "an append panicked instead of returning")
    for a in tr.apps:
        if "no reply from the writer thread" in a["res"]:
            # wait_for ends with RecvError only when the watch channel was closed with a final value below the target:
            # the wake-up that should cover the append never came (the model's rollover publishes before it abandons a channel)
            return ("c20:no-wakeup", f"append #{a['op']} ended with NoThreadReply: its segment's watch channel was closed without ever publishing an offset covering it")
    # an acknowledgement follows a publication (sync) of its segment that covers its target offset
    pubs = {}
    for i in tr.items:
        if i["kind"] == "P": pubs.setdefault((i["bucket"], i["g"]), []).append(i)
    for a in tr.succ:
        if a["o"] == 0: continue
        b = a["pid"] % tr.nb
        if not any(p["v"] >= a["t"] and p["at"] < a["e"] for p in pubs.get((b, a["g"]), [])):
            return ("c20:ack-before-sync", f"append #{a['op']} (segment {a['g']}, target offset {a['t']}) was acknowledged at {a['e']} before any sync of that segment had published an offset covering it")
    return None
