"""C25 expected-version algebra: K1 differential of sierradb-protocol's ExpectedVersion/CurrentVersion (and of the real
Database's acceptance of appends) against the extracted model + direct monitors of the property statement."""
PROP = "C25"
COQ_IMPORTS = "From SV Require Import Model.Version."
READY = True
XCHECK = 60
MAX = 2**64 - 1
RULE = ("protocol cases: sat/gap on boundary x boundary pairs (3 keywords + 25 boundary values incl. 0, 2^31, 2^32, 2^63, 10^19, MAX-2..MAX) and "
        "4000 (quick) / 60000 (thorough) random pairs, most with the current version within +-100 of the expected one; from/into_next_version, "
        "next, as_expected_version, += on the boundary values and 1000 / 15000 random u64 of random bit length; Display and FromStr on those values, "
        "on 45 hand-picked strings ('', '+', '+5', '007', 2^64, mixed case, non-ASCII digits, ...) and 4000 / 40000 seeded mutations of canonical strings; "
        "round trips rnext/rinto/rte/rtc/rse/rsc on the real code. store cases: 1500 / 12000 transactions (1..6 events over 1..3 streams, 70-95 % of the "
        "expectations satisfiable) each appended through Database::append_events to a fresh partition brought to the recorded state. "
        "non-trivial = involves an exact value or a current version / a transaction. distinct = distinct case strings.")
ASSUMPTIONS = ["Model/Version.v is hand-written from crates/sierradb-protocol/src/lib.rs and writer_thread_pool.rs:795-1046,1208-1255; tie = this differential run",
               "u64 Display / u64::from_str of the Rust standard library are modelled (display_u64, parse_u64) and compared on every generated value/string",
               "store side: stream versions reachable by real appends are small (< 20); the stream's recorded partition key equals the transaction's",
               "debug build (overflow checks on): a u64 overflow is observed as PANIC"]

def model_case(c): return c

def tok_e(t): return t if t in ("any", "exists", "empty") else int(t)
def tok_c(t): return None if t == "empty" else int(t)        # None = Empty
def accepts(e, c):
    """the meaning of an expectation (written from the doc comments of ExpectedVersion, not from gap_from)"""
    if e == "any": return True
    if e == "exists": return c is not None
    if e == "empty": return c is None
    return c is not None and c == e
def count(c): return 0 if c is None else c + 1
def want_gap(e, c):
    if e == "any": return "none"
    if e == "exists": return "incompatible" if c is None else "none"
    d = count(c) - (0 if e == "empty" else e + 1)
    if d == 0: return "none"
    return f"ahead {min(d, MAX)}" if d > 0 else f"behind {min(-d, MAX)}"
def unhex(h): return b"" if h == "-" else bytes.fromhex(h)
def canonical(b, current=False):
    kws = (b"empty",) if current else (b"any", b"exists", b"empty")
    if b in kws: return True
    return len(b) > 0 and b.isdigit() and all(48 <= x <= 57 for x in b) and (b == b"0" or b[0] != 48) and int(b) <= MAX
def parse_pairs(s, f):
    return [] if s == "-" else [(int(k), f(v)) for k, v in (kv.split(":") for kv in s.split(","))]

def monitor(c, o):
    if o == "BADCASE": return None      # malformed corpus line: the harness did not run it (the model diff reports it)
    t = c.split()
    k = t[0]
    if k == "sat":
        e, cu = tok_e(t[1]), tok_c(t[2])
        if o == "PANIC": return ("panic", f"is_satisfied_by({t[1]}, {t[2]}) panicked")
        if o != str(accepts(e, cu)).lower():
            return ("satisfied", f"is_satisfied_by({t[1]}, {t[2]}) = {o} but the store rule says {accepts(e, cu)}")
    elif k == "gap":
        e, cu = tok_e(t[1]), tok_c(t[2])
        if o == "PANIC": return ("panic", f"gap_from({t[1]}, {t[2]}) panicked")
        if o != want_gap(e, cu): return ("gap", f"gap_from({t[1]}, {t[2]}) = {o}, signed distance is {want_gap(e, cu)}")
    elif k == "rnext":
        if o != f"some {t[1]}": return ("next-inverse", f"into_next_version(from_next_version({t[1]})) = {o}")
    elif k == "rinto":
        e = tok_e(t[1])
        if e == "empty" or (isinstance(e, int) and e < MAX):
            if o != t[1]: return ("next-inverse", f"from_next_version(into_next_version({t[1]})) = {o}")
        elif e == MAX and o != "none": return ("next-inverse", f"into_next_version(Exact(u64::MAX)) should be None, round trip gave {o}")
    elif k in ("rte", "rtc"):
        if o != f"ok {t[1]}": return ("text-roundtrip", f"parse(display({t[1]})) = {o}")
    elif k in ("rse", "rsc"):
        b = unhex(t[1])
        if canonical(b, current=(k == "rsc")):
            if o != t[1]: return ("text-roundtrip", f"display(parse({b!r})) = {o if o.startswith('err') or o == 'PANIC' else unhex(o)!r}")
        elif o == "PANIC": return ("panic", f"parse({b!r}) panicked")
    elif k == "tx":
        pnext, epart = int(t[1]), tok_e(t[2])
        cur = dict(parse_pairs(t[3], int)); evs = parse_pairs(t[4], tok_e)
        out, _, tail = o.partition(" ; ")
        if out.startswith("SETUP-FAILED") or out.startswith("err ") or out == "PANIC":
            return ("store-error", f"append failed unexpectedly: {out}")
        ok = True
        for s, e in evs:
            if not accepts(e, cur.get(s)): ok = False; break
            cur[s] = count(cur.get(s))
        if ok and not accepts(epart, None if pnext == 0 else pnext - 1): ok = False
        accepted = out.startswith("ok ")
        if accepted != ok:
            return ("store-accepts", f"database {'accepted' if accepted else 'rejected'} the append ({out}) but the expectations are {'all satisfied' if ok else 'not all satisfied'}")
        # the real is_satisfied_by, evaluated by the harness along the same walk
        bits = dict(x.split("=") for x in tail.split())
        pred = "P" not in bits["sat"] + bits["psat"] and "0" not in bits["sat"] + bits["psat"]
        if "P" in bits["sat"] + bits["psat"]: return ("panic", "is_satisfied_by panicked")
        if pred != accepted:
            return ("satisfied", f"is_satisfied_by says {bits} but the database {'accepted' if accepted else 'rejected'} ({out})")
    return None

def nontrivial(c, o):
    t = c.split()
    if t[0] in ("sat", "gap"): return t[1].isdigit() or t[2].isdigit()
    return True
def shrink_key(c): return (len(c), c)

def coq_e(t): return {"any": "EvAny", "exists": "EvExists", "empty": "EvEmpty"}.get(t) or f"(EvExact {t})"
def coq_c(t): return "CvEmpty" if t == "empty" else f"(CvCurrent {t})"
def coq_bytes(b): return "[" + "; ".join(f"byte {x}" for x in b) + "]"
def coq_goal(c, e):
    if e is None or e in ("PANIC", "BADCASE"): return None
    t = c.split(); k = t[0]
    if k == "sat": return f"is_satisfied_by {coq_e(t[1])} {coq_c(t[2])} = {e}"
    if k == "gap":
        g = {"none": "GapNone", "incompatible": "GapIncompatible"}.get(e) or ("GapAhead " + e.split()[1] if e.startswith("ahead") else "GapBehind " + e.split()[1])
        return f"gap_from {coq_e(t[1])} {coq_c(t[2])} = {g}"
    if k == "fromnext": return f"from_next_version {t[1]} = {coq_e(e)}"
    if k == "intonext":
        return f"into_next_version {coq_e(t[1])} = " + ("Some None" if e == "none" else f"Some (Some {e.split()[1]})")
    if k == "dispe": return f"display_ev {coq_e(t[1])} = {coq_bytes(unhex(e))}"
    if k in ("parsee", "parsec"):
        f, ok = ("parse_ev", coq_e) if k == "parsee" else ("parse_cv", coq_c)
        r = f"POk {ok(e.split()[1])}" if e.startswith("ok ") else "PErr " + {"err empty": "PeEmpty", "err invalid": "PeInvalidDigit", "err overflow": "PePosOverflow"}[e]
        return f"{f} {coq_bytes(unhex(t[1]))} = {r}"
    if k == "tx":
        out = e.partition(" ; ")[0]
        db = "[" + "; ".join(f"({a}, {b})" for a, b in parse_pairs(t[3], int)) + "]"
        evs = "[" + "; ".join(f"({a}, {coq_e(str(b))})" for a, b in parse_pairs(t[4], tok_e)) + "]"
        call = f"append_tx (db_of_list {db}) {t[1]} {coq_e(t[2])} {evs}"
        w = out.split()
        if w[0] == "wrongver": return f"{call} = ApWrongVersion {w[1]} {coq_c(w[2])} {coq_e(w[3])}"
        if w[0] == "wrongseq": return f"{call} = ApWrongSequence {coq_c(w[1])} {coq_e(w[2])}"
        if w[0] == "ok": return f"match {call} with ApOk a b _ => Some (a, b) | _ => None end = Some ({w[1]}, {w[2]})"
    return None

def distribution(pairs):
    d = {}
    for c, o in pairs:
        k = c.split()[0]
        d[k] = d.get(k, 0) + 1
        if k == "tx": kk = "tx:" + o.split()[0]
        elif k in ("parsee", "parsec", "rse", "rsc"): kk = k + (":err" if o.startswith("err") else ":ok")
        elif k == "sat": kk = "sat:" + o
        elif k == "gap": kk = "gap:" + o.split()[0]
        elif o == "PANIC": kk = k + ":PANIC"
        else: continue
        d[kk] = d.get(kk, 0) + 1
    return d

LEVEL_TEXT = ("Machine-checked proofs (Coq) over the model of ExpectedVersion/CurrentVersion: is_satisfied_by equals the acceptance rule for every pair, and the "
              "store's three checks (both arms of validate_event_versions, validate_partition_sequence) equal that rule; validate_event_versions over a whole "
              "transaction refines the per-event specification for every store state and event list (C25_validate_events_spec, C25_append_accepts_iff); "
              "gap_from (after the fix) is total and equals the signed distance clamped to u64::MAX, exact everywhere except the two pairs whose distance is 2^64 "
              "(C25_gap_total/_signed/_exact/_boundary; the original code is refuted there: C25_gap_original_refuted); parse(display e) = e for every u64, "
              "display(parse s) = s on canonical strings, display is canonical, parse results are in range; into/from_next_version are mutually inverse on their "
              "domains incl. Exact(u64::MAX) -> None. Tie to the code: differential run of the real functions (and of a real Database for the acceptance side) "
              "against the extracted model, plus direct monitors of the property statement.")
LEVEL_NOTE = ("Trusted: Coq kernel, extraction, OCaml driver glue (hex/decimal conversion, canonicalising the stream_versions map), the Rust harness. "
              "The theorems are about Model/Version.v; correspondence is sampled (boundary-heavy), the store side only at small stream versions. "
              "u64 Display/from_str of the Rust std are part of the modelled behaviour. All theorems closed under the global context.")
TECHNIQUE = "Coq proof of a hand-written Gallina model + differential correspondence check (extracted OCaml model vs real Rust code incl. a real Database)"
