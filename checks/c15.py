"""C15 concurrent readers see acknowledged writes and never go backwards: trace validation of the REAL Database with
readers racing appenders and rollovers (harness/cconc), including schedules that hold the writer inside a rollover."""
from checks.conclib import *
from checks import conclib
PROP = "C15"
READY = True
LEVEL_TEXT = ("Machine-checked proof (Coq) about the interleaving model Model/Interleave.v (one bucket = Model/Store.v's store; writer steps at the granularity "
              "of the code's lock scopes: append | sync | rollover up to the index swap | one installation step per reader-pool thread, the index write lock "
              "held until the last installation = the code after fix 37abcc4; a read = live-index lookup in a state where the read lock is free, then a "
              "closed-index lookup by some reader-pool thread in any later state; any number of readers): for EVERY sequence of writer steps a read that "
              "starts after a write was published returns at least it (stream version / partition sequence >= the acknowledged one with the same key: "
              "C15_read_your_ack_version/_sequence; the acknowledged event itself: C15_read_your_ack_event) and of two successive reads of a reader the second "
              "never returns less (C15_monotone_version/_sequence/_event). The order of the code before the fix is refuted (C15_refuted: after the swap the live "
              "index is empty and no reader thread holds the sealed indexes) and the witness is replayed on the real code. "
              "Tie to the code: the writer is held at the pause points inside rollover while every acknowledged version, sequence, event and a scan are read; "
              "free-running readers during stress with frequent rollovers; every read must be the reference store's answer at a position between what was "
              "acknowledged before it started and what had started before it ended, positions non-decreasing per reader.")
LEVEL_NOTE = ("PARTIAL: the model's step atomicity is assumed to match the code's lock scopes (tokio RwLock on the live indexes, rayon broadcast for the "
              "installation); tokio/rayon scheduling is not modelled; scans (bucket/iter.rs) are covered only by the trace validation, not by the model "
              "(their hand-over from segment to segment reads index_segment_id outside the lock). 'Acknowledged' is taken as 'published by a sync' (C20_ack_after_sync). "
              "Trusted: Coq kernel, extraction, ocaml/d_conc.ml, the harness and the hook stamps.")
TECHNIQUE = "Coq proof of an interleaving model (invariant + monotone 'later' relation over writer step lists, two-phase reads as pairs of states), reusing C02's store invariant; trace validation of the real Database with pause points inside the rollover"
RULE = ("window runs: 1 bucket, sequential appends (9-24 KB) until a rollover reaches the pause point after the index swap; while the writer is held there every "
        "acknowledged stream version, partition sequence, the last 10 events and a scan per stream are read concurrently (1-4 reader threads), then the writer "
        "is released; 1-2 windows per run. stress runs: as C16 with 1-4 reader tasks doing get_stream_version / get_partition_sequence / read_event of recently "
        "acknowledged events / short forward scans, the rollover optionally widened by 0-3 ms at the pause point. corpus/C15 = the C15_refuted witness schedule. "
        "non-trivial = a run with a rollover and reads")
ASSUMPTIONS = conclib.ASSUMPTIONS_COMMON + [
    "event ids are unique (the harness generates them so; the theorems carry NoDup of the ids of everything written)",
]

def agree(c, o, e):
    if is_route(c): return o == e
    return field(e, "r") in ("ok", "skip")

def nontrivial(c, o):
    s = summary(o)
    return int(s.get("roll", "0")) >= 1 and int(s.get("reads", "0")) >= 1

EV = re.compile(r"^e(\d+):q(\d+):v(\d+)$")

def monitor(c, o):
    if is_route(c): return None
    if o.startswith("open-err"): return ("c15:open", f"database did not open: {o[:200]}")
    tr = Trace(c)
    if tr.odd or tr.problems: return None       # C20 / C16 report those; the acknowledged set is not known reliably
    K = int(tr.cfg.get("K", "1"))
    bysid, bypid = {}, {}
    for eid, e in tr.events.items():
        bysid.setdefault(e["sid"], []).append(e); bypid.setdefault(e["pid"], []).append(e)
    def known(tok):
        m = EV.match(tok)
        if not m: return f"unreadable event '{tok}'"
        eid, q, v = int(m.group(1)), int(m.group(2)), int(m.group(3))
        e = tr.events.get(eid)
        if e and (e["seq"], e["ver"]) != (q, v): return f"event {eid} was acknowledged with sequence {e['seq']} / version {e['ver']} but read as q{q}:v{v}"
        return None
    # read-your-acknowledgement
    for r in tr.reads:
        k, res = r["kind"], r["res"]
        what = f"{k} by reader {r['r']} over [{r['b']},{r['e']}]"
        if k == "V":
            acked = [e["ver"] for e in bysid.get(r["sid"], []) if e["ack"] < r["b"]]
            if not acked: continue
            lo = max(acked)
            if res == "none" or res.startswith("err"):
                return ("c15:ack", f"get_stream_version(stream {r['sid']}) {what} returned '{res[:80]}' although version {lo} had been acknowledged before it started")
            m = re.match(r"^k(\d+|\?):v(\d+)$", res)
            if not m: return ("c15:ack", f"get_stream_version(stream {r['sid']}) {what} returned '{res[:80]}'")
            if int(m.group(2)) < lo: return ("c15:ack", f"get_stream_version(stream {r['sid']}) {what} returned version {m.group(2)} although version {lo} had been acknowledged before it started")
            if m.group(1) != str(r["sid"] % K): return ("c15:ack", f"get_stream_version(stream {r['sid']}) {what} returned partition key {m.group(1)}")
        elif k == "Q":
            acked = [e["seq"] for e in bypid.get(r["pid"], []) if e["ack"] < r["b"]]
            if not acked: continue
            lo = max(acked)
            m = re.match(r"^q(\d+)$", res)
            if not m or int(m.group(1)) < lo:
                return ("c15:ack", f"get_partition_sequence(partition {r['pid']}) {what} returned '{res[:80]}' although sequence {lo} had been acknowledged before it started")
        elif k == "E":
            e = tr.events.get(r["eid"])
            if e and e["ack"] < r["b"]:
                want = f"e{r['eid']}:q{e['seq']}:v{e['ver']}"
                if res != want: return ("c15:ack", f"read_event(event {r['eid']}) {what} returned '{res[:80]}' although the event ({want}) had been acknowledged before it started")
            elif res != "none" and not res.startswith("err"):
                bad = known(res)
                if bad: return ("c15:ack", f"read_event(event {r['eid']}) {what}: {bad}")
        elif k == "S":
            acked = [e["ver"] for e in bysid.get(r["sid"], []) if e["ack"] < r["b"] and e["ver"] >= r["frm"]]
            toks = [] if res == "none" else res.split()
            if any(t.startswith("err") for t in toks) or res.startswith("err"):
                if acked: return ("c15:ack", f"scan of stream {r['sid']} from {r['frm']} {what} failed: '{res[:120]}'")
                continue
            vers = []
            for t in toks:
                bad = known(t)
                if bad: return ("c15:ack", f"scan of stream {r['sid']} {what}: {bad}")
                vers.append(int(EV.match(t).group(3)))
            if vers and vers != list(range(r["frm"], r["frm"] + len(vers))):
                return ("c15:ack", f"scan of stream {r['sid']} from {r['frm']} {what} returned versions {vers[:30]}: not consecutive from {r['frm']} (an event was skipped or repeated)")
            if acked and (not vers or vers[-1] < max(acked)):
                return ("c15:ack", f"scan of stream {r['sid']} from {r['frm']} {what} ended at version {vers[-1] if vers else None} although version {max(acked)} had been acknowledged before it started")
    # a reader's successive observations never go backwards
    byr = {}
    for r in tr.reads: byr.setdefault(r["r"], []).append(r)
    for rid, l in byr.items():
        l.sort(key=lambda r: r["b"])
        ver, seq, found, last_e = {}, {}, {}, 0
        for r in l:
            sequential = r["b"] > last_e     # same reader id, not overlapping in time
            last_e = max(last_e, r["e"])
            k, res = r["kind"], r["res"]
            if k == "V":
                m = re.match(r"^k(\d+|\?):v(\d+)$", res)
                cur = int(m.group(2)) if m else None
                old = ver.get(r["sid"])
                if sequential and old is not None and (cur is None or cur < old[0]):
                    return ("c15:monotone", f"reader {rid}: stream {r['sid']} had version {old[0]} (read ending at {old[1]}) and a later read [{r['b']},{r['e']}] returned '{res[:60]}'")
                if cur is not None and (old is None or cur >= old[0]): ver[r["sid"]] = (cur, r["e"])
            elif k == "S":
                toks = [] if res == "none" or res.startswith("err") else res.split()
                vs = [int(EV.match(t).group(3)) for t in toks if EV.match(t)]
                cur = vs[-1] if vs else None
                old = ver.get(r["sid"])
                if sequential and old is not None and old[0] >= r["frm"] and (cur is None or cur < old[0]) and not res.startswith("err"):
                    return ("c15:monotone", f"reader {rid}: stream {r['sid']} had version {old[0]} (read ending at {old[1]}) and a later scan from {r['frm']} [{r['b']},{r['e']}] ended at {cur}")
                if cur is not None and (old is None or cur >= old[0]): ver[r["sid"]] = (cur, r["e"])
            elif k == "Q":
                m = re.match(r"^q(\d+)$", res)
                cur = int(m.group(1)) if m else None
                old = seq.get(r["pid"])
                if sequential and old is not None and (cur is None or cur < old[0]):
                    return ("c15:monotone", f"reader {rid}: partition {r['pid']} had sequence {old[0]} (read ending at {old[1]}) and a later read [{r['b']},{r['e']}] returned '{res[:60]}'")
                if cur is not None and (old is None or cur >= old[0]): seq[r["pid"]] = (cur, r["e"])
            elif k == "E":
                old = found.get(r["eid"])
                if sequential and old is not None and res != old[0]:
                    return ("c15:monotone", f"reader {rid}: event {r['eid']} was read as '{old[0]}' (read ending at {old[1]}) and a later read [{r['b']},{r['e']}] returned '{res[:60]}'")
                if EV.match(res): found[r["eid"]] = (res, r["e"])
    return None
