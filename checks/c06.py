"""C06 a crash during segment rollover neither loses data nor blocks reopening: real histories with rollovers, then every
sealed segment's index files in the states a crash can leave, reopened on the REAL Database; differential against the
extracted model + direct monitor of the property statement."""
import os, re
PROP = "C06"
CRATE = "c06"
COQ_IMPORTS = "From SV Require Import Model.IndexFiles."
READY = True
ENV = {"TMPDIR": "/dev/shm"} if os.path.isdir("/dev/shm") and os.access("/dev/shm", os.W_OK) else {}
XCHECK = 12
RULE = ("cases = (history, sealed segment, index file, file state): a generated history (1-2 buckets, 2-4 partition keys, 1-4 events per transaction, payloads 0..45 KB so that a 128 KiB segment is sealed every few appends, now and then a reopen or a crash tearing the live segment; executed by cstore's executor) runs on a REAL "
        "Database and is shut down cleanly; then for a sealed segment one of index.eidx / partition.pidx / stream.sidx is deleted, emptied, cut to a proper prefix (structural cut points: "
        "inside the magic, the counts, the MPHF, header-only, inside / at the end of the records array, inside the values, total-1, every 1 KiB, plus random lengths) or left complete; "
        "or -- once per history -- an empty directory for the next segment is created (the process died inside the rollover); the database is reopened and every committed event of that segment is looked up by id, by a stream scan and by a partition scan (events of the other segments by id). "
        "quick: 12 file states per history, thorough: 60, until the time budget (55 s / 14 min). non-trivial = the file was damaged.")
ASSUMPTIONS = [
    "Model/IndexFiles.v is hand-written from bucket/event_index.rs, partition_index/{open,closed}.rs, stream_index/{open,closed}.rs and database.rs DatabaseBuilder::open; tie = this differential run",
    "file contents are abstract: a complete index file holds the writer's entry list, a damaged one is described by its length against the file layout (recorded from the real file); MPHF and bloom filter internals are not modelled",
    "crash states are prefixes (what a killed write or an unflushed page cache tail leaves); arbitrary corruption inside a complete-length file (torn pages, bit rot) is outside the property text and is not detected by the length validation",
    "the sealed segment's events file itself is intact (a rollover syncs it before sealing; C05 covers the live segment)",
]
def model_case(c): return c
def head(c): return c.split(" | ")[0]
def fields(c): return dict(t.split("=", 1) for t in head(c).split()[1:] if "=" in t)
def committed(c):
    """number of events of committed transactions in the segment's record list"""
    n, pending, tx_open = 0, 0, None
    r = fields(c).get("recs", "")
    for rec in (r.split(",") if r else []):
        f = rec[1:].split(".")
        if rec[0] == "E":
            if f[6] == "1": n += 1
            else:
                if tx_open != f[5]: tx_open, pending = f[5], 0
                pending += 1
        else:
            if tx_open == f[0]: n += pending
            tx_open, pending = None, 0
    return n
def agree(c, o, e): return o.split(" !")[0] == e
def monitor(c, o):
    f = fields(c)
    what = f"sealed segment {f.get('sg')}, {dict(e='index.eidx', p='partition.pidx', s='stream.sidx', d='next segment directory')[f.get('file', 'e')]} {f.get('st')} (layout {f.get('lay')})"
    if o.startswith("open=err"):
        return ("open", f"the database does not reopen: {o[9:120]} [{what}]")
    m = re.match(r"open=ok id=(\d+)/(\d+) st=(\d+)/(\d+) pt=(\d+)/(\d+) oth=(\S+)(?: !(.*))?$", o)
    if not m: return ("malformed", f"unexpected observation {o[:200]}")
    n = committed(c)
    detail = m.group(8) or ""
    for kind, a, b in (("id", 1, 2), ("stream", 3, 4), ("partition", 5, 6)):
        found, total = int(m.group(a)), int(m.group(b))
        if total != n: return ("count", f"the harness looked up {total} events, the segment's record list holds {n} committed ones [{what}]")
        if found != total:
            return ("lookup_" + kind, f"{total - found} of {total} acknowledged events of the segment are not found by {kind}: {detail[:200]} [{what}]")
    if m.group(7) != "ok": return ("other_segments", f"events of other sealed segments are no longer found by id ({m.group(7)}) [{what}]")
    return None
def nontrivial(c, o): return fields(c).get("st") != "complete"
def shrink_key(c): return (len(c.split(" | ")[1].split(" ; ")) if " | " in c else 0, len(c))
def coq_goal(c, e):
    f = fields(c)
    recs = f.get("recs", "")
    if not recs or recs.count(",") > 40 or not e: return None
    m = re.match(r"open=ok id=(\d+)/(\d+) st=(\d+)/\d+ pt=(\d+)/\d+", e)
    if not m: return None
    rl = []
    for rec in recs.split(","):
        x = rec[1:].split(".")
        if rec[0] == "E": rl.append(f"REvent (mkEvent {x[0]} 0 {x[1]} {x[5]} {'true' if x[6] == '1' else 'false'} {x[2]} {x[3]} {x[4]})")
        else: rl.append(f"RCommit {x[0]} {x[1]}")
    h, r, t = f["lay"].split(":")
    if f["file"] == "d": return None
    st = {"missing": "FMissing", "empty": "(FPrefix 0)", "complete": "FComplete"}.get(f["st"]) or f"(FPrefix {f['st'][1:]})"
    full = "(mkLay 20 20 20) FComplete"
    mine = f"(mkLay {h} {r} {t}) {st}"
    files = {"e": f"mkFiles {mine} {full} {full}", "p": f"mkFiles {full} {mine} {full}", "s": f"mkFiles {full} {full} {mine}"}[f["file"]]
    return (f"let recs := [{'; '.join(rl)}] in let r := open_sealed (mkSeg recs (hydrate_from recs 0)) ({files}) in "
            f"(count (find_by_id r) (seg_committed recs), count (find_by_stream r) (seg_committed recs), count (find_by_partition r) (seg_committed recs), List.length (seg_committed recs)) "
            f"= ({m.group(1)}%nat, {m.group(3)}%nat, {m.group(4)}%nat, {m.group(2)}%nat)")
def distribution(pairs):
    d = {}
    for c, o in pairs:
        f = fields(c)
        st = f.get("st", "?")
        if st.startswith("p") and st[1:].isdigit():
            h, r, t = (int(x) for x in f["lay"].split(":")); p = int(st[1:])
            st = "prefix<header" if p < h else "prefix=header" if p == h else "prefix<records" if p < r else "prefix=records" if p == r else "prefix<values"
        k = f.get("file", "?") + ":" + st
        d[k] = d.get(k, 0) + 1
        d["events/segment max"] = max(d.get("events/segment max", 0), committed(c))
    return d
LEVEL_TEXT = ("Machine-checked proof (Coq): for every state (missing, empty, every prefix length, complete) of each of the three index files of a sealed segment, DatabaseBuilder::open as it is now "
              "hands the reader pool exactly the writer's indexes (an index file that is missing or fails the new length validation is rebuilt from the segment's events), every event of every "
              "committed transaction of the segment is found by stream, by partition, and by id when ids are distinct (C06_reopen_total); for every history with rollovers, every crash cut of the live "
              "segment and every combination of index-file states the reopened store is exactly the one C05 describes for undamaged files (C06_crash_during_rollover, C06_crash_step, C06_reopen_step); "
              "the validation accepts exactly the complete file (C06_validation_exact, C06_rebuilt_iff); a next-segment directory without an events file (the process died inside the rollover) changes neither the sealed set nor the live segment, which is never opened as a sealed one (C06_interrupted_rollover_dir, C06_live_not_sealed, before the repair: C06_v0_dir_refuted); the code before the repair failed to open on a short header, skipped missing files and "
              "failed / silently missed lookups on truncated records or values (C06_v0_*_refuted). Tie to the code: real histories, then every structural prefix of each real index file, the real "
              "Database reopened and every event looked up three ways; compared with the extracted model and a direct monitor.")
LEVEL_NOTE = ("Trusted: Coq kernel, extraction, OCaml driver, Rust harness (it edits the index files in place and restores them). The theorem is about Model/IndexFiles.v + Model/Store.v; index file contents "
              "are abstract (MPHF/bloom not modelled), so 'a complete file yields the writer's entries' is checked only by the differential run. Scans over several segments are C03's theorems; here the "
              "stream/partition statement is at the level of the segment's index entry (the key's offsets list contains the event's offset).")
TECHNIQUE = "Coq proof (every file state reduces to the undamaged store through the store invariant) of a hand-written Gallina model + crash-state enumeration of real index files against the real Database"
