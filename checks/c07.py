"""C07 cluster reads expose only the quorum-confirmed prefix: K2 differential of ReadPartition / ReadStream / ReadEvent /
GetStreamVersion / GetPartitionSequence on a real single-node ClusterActor over pre-populated logs, + a direct gating monitor."""
PROP = "C07"
COQ_IMPORTS = "From SV Require Import Model.Watermark Model.ClusterRead Proofs.ClusterReadProofs."
READY = True
XCHECK = 30
RULE = ("layout = one partition's log, written through the public Database API: 0..9 transactions (every 10th layout 40..70, i.e. more than one batch of 50 commits) of 1..4 events over 1..3 streams, "
        "per-transaction on-disk confirmation counts (a healthy prefix at/above quorum followed by a mix below/at/above quorum), a quarter of the multi-event transactions with per-event counts "
        "(so the watermark falls inside a transaction); rf in {1,2,3,5} (quick) / {1,2,3,4,5,7,12} (thorough); 30 (quick) / 140 (thorough) layouts per rf plus the design's probe. "
        "A single-node ClusterActor is started on the database (its ConfirmationActor derives the watermark from the on-disk counts) and asked: GetPartitionSequence, GetStreamVersion for streams 0..2, "
        "ReadEvent for the id of every position (long logs: 9 positions) and one unknown id, 14 (quick) / 40 (thorough) ReadPartition and as many ReadStream requests with start in {0, n, n+1, u64::MAX, random}, "
        "end in {none, = start, u64::MAX, random}, count in {0, 1, 1000, u64::MAX, random}. A case is non-trivial when the log has an event at or after the watermark (something must be withheld). "
        "Second family (lv): the watermark is built LIVE. The log is written with (mostly) count-0 events (a third of the scenarios with a confirmed prefix already on disk), the node is started, "
        "and ConfirmTransaction messages - the path a coordinator's confirmation takes on a replica: on-disk count, then the report to the ConfirmationActor - are delivered to the running "
        "ClusterActor: per transaction nothing at all (write failed quorum), only a sub-quorum count, one quorum count, an exact duplicate, a higher count before a lower quorum count, or a stale "
        "sub-quorum count after the quorum one; in order, reversed or shuffled; 6 (quick) / 40 (thorough) scenarios per rf with up to 8 / 14 deliveries, every 8th with a 52..60-transaction log whose "
        "first 54 transactions are confirmed first (more than one batch of 50 commits below the watermark). After the start and after EVERY delivery (once GetPartitionSequence has settled) all five "
        "reads are asked: GetPartitionSequence, GetStreamVersion x3, ReadEvent for every position (logs over 7 events: 8 positions around the watermark), 5 ReadPartition and 5 ReadStream requests around the current watermark. "
        "distinct = distinct case strings.")
ASSUMPTIONS = [
    "Model/ClusterRead.v is hand-written from crates/sierradb-cluster/src/read.rs:119-249, 451-563, 596-715, 948-1103; tie = this differential run",
    "the storage iterators are modelled by what they yield (commits in order; forward from a position the first commit is the suffix of its transaction; in reverse one suffix-commit per event); "
    "their correctness is C03's subject. Batch sizes are an oracle input of the model, every theorem holds for every batching; the driver runs the model with full batches",
    "the watermark is taken from Model/Watermark.v: wm_initialize on the on-disk counts (C08_fresh_start_exact) and, for the live family, wm_step folded over the delivered reports "
    "(cr_live_watermark, C07_live_watermark_exact); the monitor recomputes it independently as the longest prefix whose best count (on disk at start-up or delivered) reaches quorum",
    "live family: deliveries are sequential (each ConfirmTransaction is answered and the published watermark has settled before the next); concurrent deliveries are covered by C08's order-independence theorem, not executed",
    "single node: ReadEvent's replica fall-back, request forwarding and remote reads are not exercised (no second ClusterActor can exist in the sandbox)",
    "u64 overflow is not modelled: `end + 1` saturates in the code, which is invisible below a watermark < 2^64",
]

def _layout(s):
    """-> list of (stream, count) in partition order, and the transaction sizes"""
    evs = []
    if s == "-": return evs
    for t in s.split(","):
        c, st = t.split(":")
        cs = [int(x) for x in c.split(".")]
        if len(cs) == 1: cs = cs * len(st)
        for d, k in zip(st, cs): evs.append((int(d), k))
    return evs
def _quorum(rf): return rf // 2 + 1
def _wm(rf, evs):
    q, w = _quorum(rf), 0
    while w < len(evs) and evs[w][1] >= q: w += 1
    return w
def _spans(layout):
    """(first sequence, size) of every transaction"""
    out, pos = [], 0
    if layout != "-":
        for t in layout.split(","):
            n = len(t.split(":")[1]); out.append((pos, n)); pos += n
    return out
def _deliveries(d):
    return [] if d == "-" else [tuple(int(x) for x in t.split(":")) for t in d.split(",")]
def _parse(c):
    """-> kind of read, rf, events as (stream, best count known: on disk at start-up or delivered), args, live?"""
    t = c.split()
    if t[0] != "lv": return t[0], int(t[1]), _layout(t[2]), t[3:], False
    evs = _layout(t[2]); sp = _spans(t[2])
    for tx, cnt in _deliveries(t[3]):
        f, n = sp[tx]
        for i in range(f, f + n): evs[i] = (evs[i][0], max(evs[i][1], cnt))
    return t[4], int(t[1]), evs, t[5:], True
def _seqs(o):
    body = o.split(" more=")[0].strip()
    return [x for x in body[1:-1].split(",") if x]

def model_case(c): return c

def monitor(c, o):
    kind, rf, evs, a, live = _parse(c)
    W = _wm(rf, evs)          # the longest prefix whose events carry (or were delivered) a quorum confirmation count
    if o == "PANIC" or o == "TIMEOUT" or o.startswith("ERR") or o == "BADCASE":
        return ("error", f"{c[:160]}: {o}")
    if kind == "rp":
        for s in _seqs(o):
            if int(s) >= W: return ("gated", f"{c[:200]}: ReadPartition returned the event with partition sequence {s}, the confirmed watermark is {W} (only sequences < {W} are quorum-confirmed)")
    elif kind == "rs":
        for x in _seqs(o):
            v, s = x.split("@")
            if int(s) >= W: return ("gated", f"{c[:200]}: ReadStream returned version {v} at partition sequence {s}, the confirmed watermark is {W}")
    elif kind == "re":
        if o != "none" and int(o) >= W: return ("gated", f"{c[:200]}: ReadEvent returned the event at partition sequence {o}, the confirmed watermark is {W}")
    elif kind == "ps":
        if o != "none" and int(o) >= W: return ("gated", f"{c[:200]}: GetPartitionSequence answered {o}, the confirmed watermark is {W} (latest confirmed sequence is {W - 1 if W else 'none'})")
    elif kind == "sv":
        if o != "none":
            x = int(a[0])
            vers = [i for i, (d, _) in enumerate(evs) if d == x]          # partition sequences of the stream, by version
            v = int(o)
            if v >= len(vers) or vers[v] >= W:
                return ("gated", f"{c[:200]}: GetStreamVersion answered {v}, but that event is not below the confirmed watermark {W}")
    return None

def nontrivial(c, o):
    kind, rf, evs, a, live = _parse(c)
    return _wm(rf, evs) < len(evs)

def shrink_key(c): return (len(c.split()[2]), len(c), c)

def _coq_log(s):
    if s == "-": return "[]"
    txs = []
    for t in s.split(","):
        cc, st = t.split(":")
        cs = cc.split(".")
        if len(cs) == 1: cs = cs * len(st)
        txs.append("[" + "; ".join(f"({d}, {k})" for d, k in zip(st, cs)) + "]")
    return "[" + "; ".join(txs) + "]"
def _big(x): return len(x) > 12
def coq_goal(c, e):
    if e is None or e.startswith(("ERR", "BADCASE")): return None
    t = c.split()
    live = t[0] == "lv"
    if len(t[2]) > 120 or any(_big(x) for x in (t[5:] if live else t[3:])): return None
    log = _coq_log(t[2]); rf = t[1]
    if live:
        sp = _spans(t[2]); ds = _deliveries(t[3])
        if len(ds) > 20: return None
        reps = " ++ ".join(f"cr_confirm_reports {sp[tx][0]} {sp[tx][1]}%nat {cnt}" for tx, cnt in ds) or "[]"
        W = f"(cr_live_watermark {rf} {log} ({reps}))"
        t = [t[4], t[1], t[2]] + t[5:]
    else:
        W = f"(cr_watermark {rf} {log})"
    opt = lambda x: "None" if x == "-" else f"(Some {x})"
    if t[0] == "rp":
        acc = "; ".join(_seqs(e)); more = "true" if e.endswith("more=1") else "false"
        return f"partition_read (cr_partition_commits {log} {t[3]}) [] {W} {t[3]} {opt(t[4])} {t[5]} = ([{acc}], {more})"
    if t[0] == "rs":
        acc = "; ".join("(%s, %s)" % tuple(x.split("@")) for x in _seqs(e)); more = "true" if e.endswith("more=1") else "false"
        return f"stream_read (cr_stream_commits {t[3]} {log} {t[4]}) [] {W} {opt(t[5])} {t[6]} = ([{acc}], {more})"
    if t[0] == "sv":
        return f"stream_version (cr_stream_rev_commits {t[3]} {log}) {W} = {'None' if e == 'none' else 'Some ' + e}"
    if t[0] == "ps":
        return f"partition_sequence {W} = {'None' if e == 'none' else 'Some ' + e}"
    return None

def distribution(pairs):
    d = {"rp": 0, "rs": 0, "re": 0, "sv": 0, "ps": 0, "startup.cases": 0, "live.cases": 0, "layouts": 0, "layouts.unconfirmed_tail": 0, "layouts.wm_inside_txn": 0,
         "layouts.long": 0, "live.scenarios": 0, "live.delivery_steps": 0, "live.steps_with_unconfirmed_hole_and_confirmed_behind": 0, "live.duplicate_deliveries": 0,
         "live.stale_lower_deliveries": 0, "rp.nonempty": 0, "rs.nonempty": 0, "more=1": 0, "errors": 0}
    seen, steps, scen = set(), set(), set()
    for c, o in pairs:
        t = c.split()
        live = t[0] == "lv"
        kind = t[4] if live else t[0]
        d[kind] = d.get(kind, 0) + 1
        d["live.cases" if live else "startup.cases"] += 1
        if o.startswith(("ERR", "PANIC", "TIMEOUT")): d["errors"] += 1
        if kind in ("rp", "rs") and not o.startswith("[]"): d[kind + ".nonempty"] += 1
        if o.endswith("more=1"): d["more=1"] += 1
        if live:
            scen.add((t[1], t[2]))
            key = (t[1], t[2], t[3])
            if key in steps: continue
            steps.add(key)
            d["live.delivery_steps"] += 1
            _, rf, evs, _, _ = _parse(c)
            q = _quorum(rf); W = _wm(rf, evs)
            if any(k >= q for _, k in evs[W:]): d["live.steps_with_unconfirmed_hole_and_confirmed_behind"] += 1
            ds = _deliveries(t[3])
            if ds:
                last = ds[-1]
                if last in ds[:-1]: d["live.duplicate_deliveries"] += 1
                if any(tx == last[0] and cnt > last[1] for tx, cnt in ds[:-1]): d["live.stale_lower_deliveries"] += 1
            continue
        key = (t[1], t[2])
        if key in seen: continue
        seen.add(key)
        d["layouts"] += 1
        evs = _layout(t[2]); W = _wm(int(t[1]), evs)
        if W < len(evs): d["layouts.unconfirmed_tail"] += 1
        if len(evs) > 50: d["layouts.long"] += 1
        for f, n in _spans(t[2]):
            if f < W < f + n: d["layouts.wm_inside_txn"] += 1
    d["live.scenarios"] = len(scen)
    return d

LEVEL_TEXT = ("Machine-checked proof (Coq) about the model of the five cluster read paths: every event ReadPartition / ReadStream return lies below the watermark, with no assumption on what the "
              "storage iterator yields and for every batching (C07_partition_gated, C07_stream_gated); on well-formed iterator output - which is what every log yields from every start "
              "(C07_partition_commits_wf, C07_stream_commits_wf) - the result is exactly the first `count` events of the requested range clipped to below the watermark "
              "(C07_partition_exact, C07_stream_exact) and has_more is false only if nothing confirmed in range was left out (C07_partition_has_more, C07_stream_has_more); GetStreamVersion is the "
              "version of the last stream event below the watermark (C07_stream_version_exact/_gated), ReadEvent answers exactly for stored events below the watermark (C07_read_event_gated/_complete), "
              "GetPartitionSequence is watermark-1 (C07_partition_sequence_exact); everything below the watermark a node derives from its log carries a quorum count "
              "(C07_below_watermark_confirmed, via C08), and on a running node, after any sequence of confirmation reports, the watermark is the longest quorum prefix of the best count known "
              "per version (C07_live_watermark_exact, C07_live_below_watermark_confirmed). Tie to the code: differential run of a real in-process ClusterActor over generated logs against the extracted model, plus a direct gating monitor.")
LEVEL_NOTE = ("Trusted: Coq kernel, extraction (ExtrOcamlBasic), OCaml driver glue, Rust harness, the Python monitor. Theorems are about Model/ClusterRead.v; the storage iterators are modelled by "
              "their output (C03 is about them). Multi-node read forwarding is not executed. All theorems closed under the global context.")
TECHNIQUE = "Coq proof of a hand-written Gallina model + differential correspondence check (extracted OCaml model vs a real in-process ClusterActor)"
