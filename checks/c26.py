"""C26 circuit breaker: K4 schedule replay. The REAL WriteCircuitBreaker is driven by 2-3 real threads that block at
the #[cfg(sierradb_verif)] yield points before every atomic operation / clock read; the same schedule is run through
the extracted Coq transition system and compared step by step; a direct monitor checks the property on the
implementation's trace."""
PROP = "C26"
COQ_IMPORTS = "From SV Require Import Model.Breaker."
READY = True
XCHECK = 30
RULE = ("case = (failure_threshold, recovery_timeout_ms, half_open_max_calls, success_threshold, t0, schedule); schedule item = "
        "<thread><a|s|f|e|-><clock advance>: the thread performs ONE atomic step (an idle thread first starts the method). "
        "quick: for 6 breaker states (closed / open / half-open ...) x all 10 unordered pairs of the 4 public methods, ALL interleavings of "
        "the two threads' atomic steps (stateless DFS, the real breaker re-executed per schedule; cap 700 per pair then random); 160 random "
        "scenarios (random config, sequential prefix of 0-3 calls, 2 threads x 1-2 calls; all interleavings up to 120 then 120 random); "
        "500 single-thread call sequences. thorough: caps 6000 / 900 scenarios with 2-3 threads x 1-3 calls, cap 400 / 3000 sequences. "
        "Clock advances per step are drawn from {0,1,2,timeout/2,timeout,timeout+1} by the seed. corpus/C26 (model witnesses) always runs first. "
        "non-trivial = a thread is pre-empted inside a method (another thread steps while it is blocked). distinct = distinct case strings.")
ASSUMPTIONS = [
    "Model/Breaker.v is hand-written from circuit_breaker.rs (after fix commits 25ca01c, c4b550e); tie = step-by-step comparison of every schedule run (arrival point / return value of every step and the three public getters after every step)",
    "atomics are modelled as sequentially consistent (one total order of atomic steps); the code uses Acquire/Release/AcqRel on independent locations, so weak-memory reorderings between DIFFERENT atomics are not explored",
    "the yield points (hook commits bb75ef4, 20dbd33) sit immediately before each atomic operation; code between two yield points is thread-local",
    "recovery_timeout is a whole number of milliseconds; clock values stay below 2^64",
    "theorems carry the side condition 'no u32 counter wrapped' (g_wrapped = false), which C26_no_wrap_short discharges for schedules of fewer than 2^32 atomic steps; the harness cannot reach 2^32 steps",
    "episode / consecutive-failure readings as written at the top of Props/C26.v (weaker readings, DESIGN 6b)",
]
FIRST = {"a": "state.load", "s": "clock", "f": "clock", "e": "state.load"}
# (method, yield point) -> pc_code of Model/Breaker.v
CODE = {
    ("a", "state.load"): 1, ("a", "clock"): 2, ("a", "allow:last_failure_time.load"): 3,
    ("a", "to_half_open:state.compare_exchange"): 4, ("a", "to_half_open:half_open_call_count.store"): 5,
    ("a", "to_half_open:half_open_success_count.store"): 6, ("a", "allow:transition:half_open_call_count.fetch_add"): 7,
    ("a", "allow:half_open_call_count.fetch_add"): 8,
    ("s", "clock"): 10, ("s", "success:last_success_time.store"): 11, ("s", "state.load"): 12, ("s", "success:failure_count.store"): 13,
    ("s", "success:half_open_success_count.fetch_add"): 14, ("s", "to_closed:state.store"): 15, ("s", "to_closed:failure_count.store"): 16,
    ("s", "to_closed:half_open_call_count.store"): 17, ("s", "to_closed:half_open_success_count.store"): 18,
    ("s", "to_half_open:state.compare_exchange"): 19, ("s", "to_half_open:half_open_call_count.store"): 20,
    ("s", "to_half_open:half_open_success_count.store"): 21,
    ("f", "clock"): 30, ("f", "failure:last_failure_time.store"): 31, ("f", "state.load"): 32, ("f", "failure:failure_count.fetch_add"): 33,
    ("f", "to_open:state.store"): 34, ("f", "to_open:half_open_call_count.store"): 35, ("f", "to_open:half_open_success_count.store"): 36,
    ("e", "state.load"): 40, ("e", "clock"): 41, ("e", "estimate:last_failure_time.load"): 42,
}
RET = {"=true": 101, "=false": 100, "=unit": 102, "=none": 103, "PANIC": 104, "idle": 105}
METHOD = {"a": "MAllow", "s": "MSuccess", "f": "MFailure", "e": "MEstimate"}

def model_case(c): return c

def parse_case(c):
    t = c.split()
    if len(t) < 6 or len(t) > 7 or t[0] != "c26": return None
    try:
        cfg = dict(thr=int(t[1]), tmo=int(t[2]), max=int(t[3]), sthr=int(t[4]), t0=int(t[5]))
        items = []
        for s in (t[6].split(",") if len(t) == 7 else []):
            i = 0
            while i < len(s) and s[i].isdigit(): i += 1
            if i == 0 or i >= len(s) or s[i] not in "asfe-": return None
            items.append((int(s[:i]), None if s[i] == "-" else s[i], int(s[i + 1:])))
        return cfg, items
    except ValueError:
        return None

_cache = {}
def analyse(c, o):
    """Replays the implementation's observed trace. Uses only the schedule, the observed yield-point names / return values
    and the observed public getters; independent of the Coq model."""
    k = (c, o)
    if k in _cache: return _cache[k]
    if len(_cache) > 4: _cache.clear()
    r = _cache[k] = _analyse(c, o)
    return r

def _analyse(c, o):
    res = dict(ok=False, viol=[], peak=0, kpeak=0, opens=[], panic=False, codes=[], preempt=0, episodes=0, threads=0, steps=0)
    pc = parse_case(c)
    if pc is None or o in ("BADCASE", ""):
        res["bad"] = True; return res
    cfg, items = pc
    toks = o.split(" ") if o else []
    if len(toks) != len(items):
        res["viol"].append(("malformed", f"{len(toks)} observations for {len(items)} schedule items")); return res
    cur, prev_op, myrun = {}, {}, {}
    state, admits, lost, run, loser_reset, won = 0, 0, False, 0, False, {}
    last_tid = None
    for k, ((tid, m, dt), tok) in enumerate(zip(items, toks)):
        arr, _, snap = tok.rpartition("/")
        try: st, fc, lft = (int(x) for x in snap.split(","))
        except ValueError:
            res["viol"].append(("malformed", f"step {k}: bad token {tok}")); return res
        if last_tid is not None and last_tid != tid and last_tid in cur: res["preempt"] += 1
        last_tid = tid
        if tid not in cur:
            if m is None:
                res["codes"].append((RET.get(arr, -1), st, fc, lft)); state = st; continue
            method, op = m, FIRST[m]
        else:
            method, op = cur[tid]
        before, after = state, st
        if op == "failure:failure_count.fetch_add":
            run += 1; myrun[tid] = run
        if op in ("success:failure_count.store", "to_closed:failure_count.store"):
            run = 0
        if op == "to_open:state.store" and prev_op.get(tid) == "failure:failure_count.fetch_add":
            res["opens"].append(myrun.get(tid, 0))
            if myrun.get(tid, 0) < cfg["thr"]:
                res["viol"].append(("open_early", f"step {k}: thread {tid} opened the breaker from Closed after {myrun.get(tid, 0)} consecutive counted failures, threshold {cfg['thr']}"))
        if before == 0 and after == 1 and op != "to_open:state.store":
            res["viol"].append(("open_early", f"step {k}: state went Closed->Open at {op}, not through a failure report"))
        if op == "to_half_open:state.compare_exchange":
            won[tid] = (before == 1 and after == 2)
        if before != 2 and after == 2:
            admits, lost, loser_reset = 0, False, False; res["episodes"] += 1
        if op.endswith("half_open_call_count.store") and after == 2 and admits > 0:
            lost = True
            # the known residual race is a reset by the WINNER of the exchange or by a delayed transition_to_open/closed;
            # a reset by a thread that lost the exchange is the defect repaired by c4b550e, never the known finding
            if op.startswith("to_half_open:") and not won.get(tid, False): loser_reset = True
        if arr == "PANIC":
            res["panic"] = True
            res["viol"].append(("panic", f"step {k}: thread {tid} panicked in {METHOD[method]} at {op}"))
        if method == "a" and arr == "=true" and after == 2:
            admits += 1
            if lost: res["kpeak"] = max(res["kpeak"], admits)
            else: res["peak"] = max(res["peak"], admits)
            if admits > cfg["max"]:
                if lost and not loser_reset:
                    res["viol"].append(("probe_bound_reset_race", f"step {k}: {admits} requests admitted in one half-open episode, max {cfg['max']}, after a reset of half_open_call_count landed inside the episode"))
                else:
                    res["viol"].append(("probe_bound", f"step {k}: {admits} requests admitted in one half-open episode, max {cfg['max']}"))
        if arr.startswith("=") or arr == "PANIC":
            code = RET.get(arr, 1000 + int(arr[6:]) if arr.startswith("=some:") else -1)
            cur.pop(tid, None); prev_op.pop(tid, None)
        else:
            code = CODE.get((method, arr), -1)
            cur[tid] = (method, arr); prev_op[tid] = op
        res["codes"].append((code, st, fc, lft))
        state = after
    res["ok"] = True
    res["threads"] = len({t for t, _, _ in items}); res["steps"] = len(items)
    return res

ORDER = ["panic", "probe_bound", "open_early", "malformed", "probe_bound_reset_race"]
def monitor(c, o):
    if o == "BADCASE": return None
    a = analyse(c, o)
    if not a["viol"]: return None
    v = min(a["viol"], key=lambda x: ORDER.index(x[0]))
    return (v[0], f"{c}: {v[1]}")

def ghost(e):
    if e is None or " # " not in e: return None
    return dict(kv.split("=") for kv in e.split(" # ")[1].split())

def agree(c, o, e):
    if e is None: return False
    if " # " not in e: return o == e
    if o != e.split(" # ")[0]: return False
    # the monitor's own replay of the observed trace must give the ghost values the theorems speak about
    a, g = analyse(c, o), ghost(e)
    return (a["ok"] and int(g["peak"]) == a["peak"] and int(g["kpeak"]) == a["kpeak"] and int(g["opens"]) == len(a["opens"])
            and (g["panicked"] == "1") == a["panic"] and g["opens_ok"] == "1" and g["wrapped"] == "0")

def nontrivial(c, o):
    a = analyse(c, o); return a["ok"] and a["preempt"] > 0

def shrink_key(c):
    p = parse_case(c)
    return (len(p[1]) if p else 10**6, len(c), c)

def coq_goal(c, e):
    if e is None or " # " not in e: return None
    p = parse_case(c)
    if p is None: return None
    cfg, items = p
    a = analyse(c, e.split(" # ")[0])
    if not a["ok"] or len(items) > 60 or any(x[0] < 0 for x in a["codes"]): return None
    its = "; ".join(f"mkItem {t} {'None' if m is None else '(Some ' + METHOD[m] + ')'} {dt}" for t, m, dt in items)
    exp = "; ".join(f"({x}, {s}, {f}, {l})" for x, s, f, l in a["codes"])
    return f"brun_codes (mkCfg {cfg['thr']} {cfg['tmo']} {cfg['max']} {cfg['sthr']} true true) {cfg['t0']} [{its}] = [{exp}]"

def distribution(pairs):
    d = {"threads=1": 0, "threads=2": 0, "threads>=3": 0, "preempted": 0, "with_episode": 0, "episode_full(admits=max)": 0,
         "opened_from_closed": 0, "known_reset_race": 0, "panic": 0, "steps_total": 0}
    for c, o in pairs:
        a = analyse(c, o)
        if not a["ok"]: continue
        d["threads=1" if a["threads"] <= 1 else "threads=2" if a["threads"] == 2 else "threads>=3"] += 1
        d["preempted"] += a["preempt"] > 0
        d["with_episode"] += a["episodes"] > 0
        p = parse_case(c)[0]
        d["episode_full(admits=max)"] += (a["peak"] == p["max"] and p["max"] > 0)
        d["opened_from_closed"] += len(a["opens"]) > 0
        d["known_reset_race"] += any(v[0] == "probe_bound_reset_race" for v in a["viol"])
        d["panic"] += a["panic"]
        d["steps_total"] += a["steps"]
    return d

LEVEL_TEXT = ("Machine-checked proof (Coq) over a small-step model of WriteCircuitBreaker (each public method = its sequence of atomic loads/stores/"
              "fetch_adds/compare_exchange/clock reads, thread-local registers, ANY number of threads, ANY interleaving, any non-decreasing clock), by "
              "invariants preserved by every atomic step and induction over the schedule: C26_no_panic (no step panics), C26_open_after_threshold "
              "(every Closed->Open decision follows >= threshold consecutive counted failures), C26_probe_bound (admitted requests per half-open episode "
              "<= max for every episode in which no counter reset landed after an admitted probe), C26_inv (all three for schedules of < 2^32 steps), "
              "plus refutations of the original code (C26_orig_panic_refuted, C26_orig_probe_refuted) and the witness of the residual race "
              "(C26_reset_race_known). Tie to the code: the real breaker is run by real threads under explicit schedules through cfg-guarded yield "
              "points and compared step by step with the extracted model; a Python monitor re-checks the three properties on the observed trace.")
LEVEL_NOTE = ("Two defects were confirmed on the real code with deterministic schedules and repaired (25ca01c saturating_sub; c4b550e count the "
              "transitioning request, reset only on a successful exchange). Residual, NOT repaired (needs state and probe counter in one atomic word): "
              "a reset of half_open_call_count by the exchange winner / a stale transition can land after another thread's probe was admitted -> "
              "known finding probe_bound_reset_race; the probe-bound theorem excludes exactly those episodes (g_lost). Sequentially consistent "
              "atomics assumed. u32 wrap (2^32 increments of one counter) is excluded by an explicit hypothesis. All theorems closed under the global context.")
TECHNIQUE = "Coq proof (invariants over all schedules of a small-step model) + schedule-replay correspondence check (real threads at yield points vs extracted OCaml model) + trace monitor"
