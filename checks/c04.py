from checks.storelib import *
from checks import storelib
PROP = "C04"
READY = True
LEVEL_TEXT = ("Machine-checked proof (Coq) about the model of read_committed_events (Model/Store.v rc_loop): for EVERY record list a group is returned only with a commit record of the "
              "same transaction right after its consecutive event records (C04_commit_required, C04_no_commit_no_return); on every writer-produced log cut at any crash point a read at an "
              "event offset returns exactly the transaction's events from that event on and nothing of a torn transaction (C04_siblings, C04_torn_none, C04_all_or_nothing, C04_crash_reads); "
              "the stream filter keeps exactly the matching events (C04_filter). Tie to the code: histories with half-written (failed, truncated) and crash-torn transactions are executed on the "
              "real Database (every tear position incl. inside a record) and compared op by op with the extracted model and with the abstract spec.")
LEVEL_NOTE = ("Trusted: Coq kernel, extraction, OCaml driver, Rust harness (incl. how it tears files). The theorem is about the record-level model; byte-level framing/CRC is C17's. "
              "One corner is kept visible (Example C04_ex_foreign_flagged): on arbitrary non-writer logs a flagged event following uncommitted events is returned inside that group; unreachable on writer-produced logs.")
TECHNIQUE = "Coq proof (induction over record lists) of a hand-written Gallina model + history/crash-state differential against the real Database"
RULE = ("histories with multi-event transactions, failed (half-written, truncated) transactions and crashes that tear the last transaction at every record boundary / inside a record; "
        "then read_transaction, read_event and scans; non-trivial = >=2 appends, one succeeded")
ENV = {"LD_PRELOAD": storelib.ensure_svio()}
monitor_e = storelib.monitor_kinds({"RE", "RT", "SS", "SP"}, "atomic", durable=True)
