from checks.storelib import *
from checks import storelib
PROP = "C04"
READY = False
LEVEL_TEXT = "pending"; LEVEL_NOTE = "pending"; TECHNIQUE = "Coq proof + history differential"
RULE = ("histories with multi-event transactions, failed (half-written, truncated) transactions and crashes that tear the last transaction at every record boundary / inside a record; "
        "then read_transaction, read_event and scans; non-trivial = >=2 appends, one succeeded")
monitor_e = storelib.monitor_kinds({"RE", "RT", "SS", "SP"}, "atomic")
