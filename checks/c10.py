"""C10 at most one transaction is confirmed per partition sequence (and, shared with checks/c11.py, C11).
Proof: Coq, over the protocol model Model/Replication.v (any number of nodes, any replication factor, every action list).
Tie: (K2) the REAL replica side / catch-up source / rf=1 coordinator of one node against the extracted node handlers;
(K5) source pins for the coordinator paths that need real remote replicas."""
import hashlib, os, re
from collections import Counter

PROP = "C10"
CRATE = "c10"
DRIVER = "C10"
COQ_IMPORTS = "From SV Require Import Model.Replication."
READY = True
XCHECK = 25
REPO = "/repo"

RULE = ("one case = one partition on a real single-node ClusterActor X (replication factor rf in {1,2,3,5}; thorough adds 4,7) plus a real "
        "PartitionReplicatorActor Y on a second database whose coordinator is X. Families: rep (X as replica: a coordinator history of 2..9 "
        "transactions of 1..3 events delivered in a window-shuffled order with duplicates, other transactions for the same sequence, far-ahead "
        "writes, stale coordinator_alive_since, missing expected sequence, a foreign coordinator ref, database-rejected writes, the node's own "
        "failed-coordinator appends, ConfirmTransaction good / wrong id / too few ids / unknown / wrong sequence, duplicates), sync (Y behind or "
        "diverged by its own unconfirmed append, restarted or not; its real catch-up timer pulls from X whose confirmed prefix grows), exec "
        "(ExecuteTransaction end to end; succeeds for rf=1), restart (ResetCluster in the middle), co (two real coordinators A1, A2 = transaction::spawn on "
        "their own databases with X as the one replica; logs level / behind / ahead of X; replies Ok, StaleWrite, SequenceConflict, none (10 s time-out); rf 2,3 reach "
        "a quorum, rf 4,5 never; 24 cases per rf 2,3 quick / 200 thorough). Logs of both nodes are snapshotted after "
        "barriers; after a final restart the number of events X's ReadPartition shows is recorded. quick ~ 60 cases per rf, thorough ~ 500. "
        "non-trivial = a case in which a replicated write was applied; distinct = distinct case strings.")
ASSUMPTIONS = [
    "Model/Replication.v is hand-written from transaction.rs, execute.rs, replicate.rs, confirm.rs, validate_partition_sequence (after fix 28b51ee); tie = this differential run (replica side, catch-up, rf=1 coordinator, coordinators with one real replica) + source pins (several remote replicas, routing)",
    "static configuration is the same on every node (replica set of the partition, replication factor); a node is its configured index; only the view of which replicas are alive diverges",
    "transaction ids are fresh per client request (Uuid v4) and a forwarded ExecuteTransaction is not duplicated",
    "set_confirmations is all-or-nothing per transaction; a torn write of counts is not modelled (C05/C06 cover the storage layer)",
    "family co: the two coordinators are plain databases running transaction::spawn with the real node as their only replica and the real node's member identity as theirs; for rf >= 4 the model adds a replica that never answers (one replica cannot make a quorum either way)",
    "the in-memory watermark is any value not beyond the confirmed prefix of the disk (C08); in the executed runs it is compared after a restart",
]
TRUSTED = ["source pins: sha256 of the whitespace/comment-normalised text of the pinned functions (checks/c10.py PINS)"]

# ------------------------------------------------------------------ parsing
def _log(s):
    """entries (first, tx, events, counts on disk); a count field `c~s` means a scan showed the older count s"""
    if s in ("-", ""): return []
    out = []
    for x in s.split(","):
        f, tx, k, c = x.split(":")
        c = c.split("~")[0]
        out.append((int(f), tx, int(k), [int(v) for v in c.split(".")]))
    return out

def _strip(o):
    return re.sub(r"~[0-9.]+", "", o)

def parse_co(c, o):
    """family co: logs of X (replica), A1, A2 (coordinators)"""
    t = c.split()
    rf = int(t[1])
    ops = [x.split(",") for x in t[5:]]
    m = re.match(r"res=(\S*) X=(\S+) A1=(\S+) A2=(\S+)$", o)
    if not m: return None
    toks = m.group(1).split(";") if m.group(1) else []
    if len(toks) != len(ops): return None
    snaps = []
    for op, tk in zip(ops, toks):
        if op[0] == "b":
            mm = re.match(r"X\[(.*)\]A\[(.*)\]B\[(.*)\]$", tk)
            if not mm: return None
            snaps.append(tuple(_log(mm.group(i)) for i in (1, 2, 3)))
    snaps.append(tuple(_log(m.group(i)) for i in (2, 3, 4)))
    return dict(rf=rf, q=rf // 2 + 1, n0=(int(t[2]), int(t[3]), int(t[4])), ops=ops, toks=toks, snaps=snaps)

def _mon_co(c, o):
    p = parse_co(c, o)
    if p is None: return ("malformed", f"cannot read the observation {o[:200]!r}")
    q, ops, toks = p["q"], p["ops"], p["toks"]
    names = ("X", "A1", "A2")
    # every snapshot: gap-free logs
    for si, sn in enumerate(p["snaps"]):
        for name, log in zip(names, sn):
            pos = 0
            for (f, tx, k, cs) in log:
                if f != pos or k < 1: return ("log-gap", f"snapshot {si}: {name}'s log has an entry at {f} where {pos} is next: {log}")
                pos += k
    # across snapshots: nothing replaced or rolled back, counts only rise
    for ni, name in enumerate(names):
        prev = None
        for si, sn in enumerate(p["snaps"]):
            log = sn[ni]
            if prev is not None:
                if len(log) < len(prev): return ("rolled-back", f"{name}'s log shrank: {prev} -> {log}")
                for a, b in zip(prev, log):
                    if a[:3] != b[:3]: return ("replaced", f"{name}: the entry {a[:3]} became {b[:3]} (snapshot {si})")
                    if min(b[3]) < min(a[3]): return ("count-fell", f"{name}: the count of {a[:3]} fell from {a[3]} to {b[3]}")
            prev = log
    # C10: across the three disks no sequence holds two different transactions that both carry a quorum count
    for si, sn in enumerate(p["snaps"]):
        cov = [_cover(l) or {} for l in sn]
        for i in range(3):
            for j in range(i + 1, 3):
                for s in sorted(set(cov[i]) & set(cov[j])):
                    a, b = cov[i][s], cov[j][s]
                    if a[3] >= q and b[3] >= q and a[0] != b[0]:
                        return ("two-confirmed", f"sequence {s} holds transaction {a[0]} on {names[i]} and {b[0]} on {names[j]}, both with a quorum count (>= {q}); "
                                                 + " ".join(f"{n}={l}" for n, l in zip(names, sn)))
    # C11: a client Ok only with >= q whole copies at that sequence (an error reply of the replica is no copy) and a
    # quorum count on the coordinator, from then on
    nb = 0
    for op, tk in zip(ops, toks):
        if op[0] == "b": nb += 1
        if op[0] in ("a1", "a2") and tk.startswith("ok"):
            s, k, ci = int(tk[2:]), int(op[2]), 1 if op[0] == "a1" else 2
            for sn in p["snaps"][nb:]:
                holders = [n for n, l in zip(names, sn) if any(e[0] == s and e[1] == op[1] and e[2] == k for e in l)]
                own = [e for e in sn[ci] if e[0] == s and e[1] == op[1] and e[2] == k]
                if not own: return ("ack-lost", f"{','.join(op)} was acknowledged at {s} but {names[ci]}'s log is {sn[ci]}")
                if min(own[0][3]) < q: return ("ack-unconfirmed", f"{','.join(op)} was acknowledged but carries count {own[0][3]} < quorum {q} on its coordinator")
                if len(holders) < q:
                    return ("ack-without-quorum", f"{','.join(op)} was acknowledged at sequence {s} but only {holders} hold it there (quorum {q}): "
                                                  + " ".join(f"{n}={l}" for n, l in zip(names, sn)))
    m = re.search(r"(\d+:[^:,\]\s]+:\d+:[0-9.]+~[0-9.]+)", o)
    if m: return ("stale-scan-count", f"a partition scan showed an older confirmation count than the disk holds: entry {m.group(1)} (disk~scan)")
    return None

def parse(c, o):
    t = c.split()
    if t[0] == "orig": t = t[1:]
    rf, limit, n0x, n0y = int(t[1]), int(t[2]), int(t[3]), int(t[4])
    ops = [x.split(",") for x in t[5:]]
    m = re.match(r"res=(\S*) X=(\S+) Y=(\S+) W=(\S+)$", o)
    if not m: return None
    toks = m.group(1).split(";") if m.group(1) else []
    if len(toks) != len(ops): return None
    snaps = []
    for op, tk in zip(ops, toks):
        if op[0] == "b":
            mm = re.match(r"X\[(.*)\]Y\[(.*)\]$", tk)
            if not mm: return None
            snaps.append((_log(mm.group(1)), _log(mm.group(2))))
    snaps.append((_log(m.group(2)), _log(m.group(3))))
    return dict(rf=rf, q=rf // 2 + 1, limit=limit, n0x=n0x, n0y=n0y, ops=ops, toks=toks, snaps=snaps, W=m.group(4))

def _cover(log):
    d = {}
    for (f, tx, k, cs) in log:
        for j in range(k):
            if f + j in d: return None
            d[f + j] = (tx, f, k, min(cs))
    return d

def _mon(c, o, prop):
    if o.startswith("HARNESS-ERROR"):
        # the harness could not run the case (time-out, actor gone, ...): a failure of the machinery, not a verdict
        from svlib import CheckError
        raise CheckError(f"harness could not run {c[:200]!r}: {o[:300]}")
    if o in ("BADCASE", "PANIC") or o.startswith("MODEL-EXN"):
        return ("malformed", o[:200])
    if c.startswith("co "): return _mon_co(c, o)
    p = parse(c, o)
    if p is None: return ("malformed", f"cannot read the observation {o[:200]!r}")
    q, ops, toks = p["q"], p["ops"], p["toks"]
    # 1. every snapshot: a gap-free log, one transaction per sequence
    for si, (X, Y) in enumerate(p["snaps"]):
        for name, log in (("X", X), ("Y", Y)):
            pos = 0
            for (f, tx, k, cs) in log:
                if f != pos or k < 1:
                    return ("log-gap", f"snapshot {si}: {name}'s log has an entry at {f} where {pos} is next: {log}")
                pos += k
    # 2. across snapshots: a position's transaction never changes, nothing disappears, counts only rise
    for name, idx in (("X", 0), ("Y", 1)):
        prev = None
        for si, sn in enumerate(p["snaps"]):
            log = sn[idx]
            if prev is not None:
                if len(log) < len(prev):
                    return ("rolled-back", f"{name}'s log shrank between snapshots {si-1} and {si}: {prev} -> {log}")
                for a, b in zip(prev, log):
                    if a[:3] != b[:3]:
                        return ("replaced", f"{name}: the entry {a[:3]} became {b[:3]} (snapshot {si})")
                    if min(b[3]) < min(a[3]) or max(b[3]) < max(a[3]):
                        return ("count-fell", f"{name}: the confirmation count of {a[:3]} fell from {a[3]} to {b[3]} (snapshot {si})")
            prev = log
    X, Y = p["snaps"][-1]
    # 3. a replica applies a write only at the sequence the coordinator assigned
    assigned_x, assigned_y, own_x, own_y = set(), set(), set(), set()
    for op in ops:
        if op[0] == "xr" and "e" not in op[4]: assigned_x.add((op[1], int(op[2]), int(op[3])))
        if op[0] == "yr": assigned_y.add((op[1], int(op[2]), int(op[3])))
        if op[0] in ("xl", "xe"): own_x.add(op[1])
        if op[0] == "yl": own_y.add(op[1])
    xcover = _cover(X) or {}
    for (f, tx, k, cs) in X:
        if f < p["n0x"]: continue
        if (tx, f, k) not in assigned_x and tx not in own_x:
            return ("applied-unassigned", f"X holds transaction {tx} ({k} events) at {f}, which no coordinator assigned: {X}")
    for (f, tx, k, cs) in Y:
        if f < p["n0y"]: continue
        if (tx, f, k) in assigned_y or tx in own_y: continue
        # a catch-up copy: the same events of the same transaction at the same sequences on the source
        if all(xcover.get(f + j, ("",))[0] == tx for j in range(k)) and xcover[f + k - 1][1] + xcover[f + k - 1][2] == f + k:
            continue
        return ("applied-unassigned", f"Y holds transaction {tx} ({k} events) at {f}: neither assigned there nor what the source holds there; X={X} Y={Y}")
    # 4. an acknowledged replicated write is in the log at the sequence it was sent for
    for op, tk in zip(ops, toks):
        if op[0] in ("xr", "yr") and tk.startswith("ok"):
            log = X if op[0] == "xr" else Y
            if int(tk[2:]) != int(op[2]) or not any(f == int(op[2]) and tx == op[1] for (f, tx, k, cs) in log):
                return ("ack-without-append", f"{','.join(op)} was answered {tk} but the log is {log}")
    # 5. C10 across the two nodes: a sequence never holds two different quorum-count transactions
    for si, (Xs, Ys) in enumerate(p["snaps"]):
        cx, cy = _cover(Xs), _cover(Ys)
        if cx is None or cy is None: continue
        for s in sorted(set(cx) & set(cy)):
            if cx[s][3] >= q and cy[s][3] >= q and cx[s][0] != cy[s][0]:
                return ("two-confirmed", f"sequence {s} holds transaction {cx[s][0]} on X and {cy[s][0]} on Y, both with a quorum count (>= {q}); X={Xs} Y={Ys}")
    # 6. C11: a write acknowledged to the client stays, with a quorum count on the coordinator
    nb = 0
    for i, (op, tk) in enumerate(zip(ops, toks)):
        if op[0] == "b": nb += 1
        if op[0] == "xe" and tk.startswith("ok"):
            s = int(tk[2:])
            for (Xs, _) in p["snaps"][nb:]:
                e = [x for x in Xs if x[0] == s and x[1] == op[1] and x[2] == int(op[2])]
                if not e:
                    return ("ack-lost", f"{','.join(op)} was acknowledged at {s} but a later log is {Xs}")
                if min(e[0][3]) < q:
                    return ("ack-unconfirmed", f"{','.join(op)} was acknowledged but carries count {e[0][3]} < quorum {q} on the coordinator")
    # 6b. a confirmation the node acknowledged storing is on its disk from then on (counts only rise)
    nb = 0
    for i, (op, tk) in enumerate(zip(ops, toks)):
        if op[0] == "b": nb += 1
        if op[0] == "xc" and tk == "ok" and op[5] == "g":
            for (Xs, _) in p["snaps"][nb:]:
                e = [x for x in Xs if x[1] == op[1] and x[0] == int(op[2])]
                if e and min(e[0][3]) < int(op[4]) and not any(o2[0] == "xc" and o2[1] == op[1] and int(o2[4]) < int(op[4]) for o2 in ops):
                    return ("confirm-not-stored", f"{','.join(op)} was answered ok but a later scan of X shows count {e[0][3]} for it")
    # 7. never hidden: after a restart the node shows at least its confirmed prefix
    stale_x = "~" in o.split(" X=")[-1].split(" ")[0]
    if stale_x:
        pass    # the emulated restart keeps the process's block cache: the new confirmation actor reads the stale counts (known finding, reported below)
    elif p["W"].isdigit():
        pref = 0
        for (f, tx, k, cs) in X:
            if min(cs) >= q: pref = f + k
            else: break
        if int(p["W"]) < pref:
            return ("hidden", f"X's confirmed prefix ends at {pref} but ReadPartition shows only {p['W']} events after a restart")
    else:
        return ("malformed", f"ReadPartition failed: {p['W']}")
    # 8. (known finding) a scan showed an older confirmation count than the record on disk carries
    m = re.search(r"(\d+:[^:,\]\s]+:\d+:[0-9.]+~[0-9.]+)", o)
    if m:
        return ("stale-scan-count", f"a partition scan showed an older confirmation count than the disk holds: entry {m.group(1)} (disk~scan)")
    return None

def monitor(c, o):
    if c == "pins": return None
    try: return _mon(c, o, PROP)
    except (ValueError, IndexError, KeyError) as e: return ("malformed", f"cannot read the observation: {e!r}")

def model_case(c): return c
def nontrivial(c, o):
    if c == "pins": return False
    if c.startswith("co "): return ";ok" in ";" + o.split(" ")[0].replace("res=", "")
    return bool(re.search(r"(^|;)ok\d", o.split(" ")[0].replace("res=", "")))
def shrink_key(c): return (len(c.split()), len(c), c)

def shrink(v, runner):
    case, obs, cls, msg = v
    t = case.split()
    head, ops = t[:5], t[5:]
    changed, budget = True, 60
    while changed and budget > 0:
        changed = False
        for i in range(len(ops) - 1, -1, -1):
            cand = ops[:i] + ops[i + 1:]
            if not cand: continue
            budget -= 1
            pairs = runner([" ".join(head + cand)])
            if pairs:
                m = monitor(pairs[0][0], pairs[0][1])
                if m and m[0] == cls:
                    ops, obs, msg, changed = cand, pairs[0][1], m[1], True
            if budget <= 0: break
    return (" ".join(head + ops), obs, cls, msg)

# ------------------------------------------------------------------ extraction cross-check (X's final log by vm_compute)
def coq_goal(c, e):
    t = c.split()
    if t[0] != "n" or e is None or not e.startswith("res="): return None
    rf, n0x = int(t[1]), int(t[3])
    ops = [x.split(",") for x in t[5:]]
    if any(op[0] not in ("xr", "xc", "xl", "b", "xpad") for op in ops): return None
    p = parse(c, e)
    if p is None: return None
    q = rf // 2 + 1
    c0 = 1 if q <= 1 else 0
    seen, bad = set(), []
    pre = "; ".join(f"mk_ent {900 + j} {j} 1 0 {q}" for j in range(n0x - 1, -1, -1))
    lines = [f"let cfg := mk_cfg {rf} [0;1;2] 4 true in", f"let x := ns_boot cfg 0 [{pre}] 5 in"]
    for i, op in enumerate(ops):
        if op[0] in ("b", "xpad"): continue
        tx = int(op[1])
        if tx not in seen:
            seen.add(tx)
            if op[0] in ("xr", "xl") and "b" in op[-1]: bad.append(tx)
        orc = f"(orc_harness [{';'.join(map(str, bad))}])"
        if op[0] == "xr":
            fl = op[4]
            ex = "RxAny" if "e" in fl else f"(RxAt {op[2]})"
            cn = 99 if "f" in fl else 0
            al = 0 if "z" in fl else 18446744073709551615
            lines.append(f"let x := fst (n_replicate 0 {orc} x {cn} {al} {i} {tx} {ex} {op[3]} {c0}) in")
        elif op[0] == "xl":
            lines.append(f"let x := match db_append (ns_log x) None ({orc} false (ns_log x) {tx}) {tx} {op[2]} 0 0 with Some l => ns_with_log x l | None => x end in")
        else:
            k, v = int(op[3]), op[5]
            txx = 999998 if v == "n" else tx
            kk = k - 1 if v == "s" and k > 1 else k
            idsok = "false" if v == "i" and k > 1 else "true"
            lines.append(f"let x := fst (n_confirm x {txx} {op[2]} {kk} {op[4]} {idsok} true) in")
    want = "; ".join(f"({f}, {tx}, {k}, {cs[0]})" for (f, tx, k, cs) in p["snaps"][-1][0])
    return "(" + " ".join(lines) + f" map (fun e => (en_first e, en_tx e, en_nev e, en_cnt e)) (rev (ns_log x))) = [{want}]"

def distribution(pairs):
    d = Counter()
    for name, v in pin_status().items(): d["pin:" + name + (":unchanged" if v["ok"] else ":CHANGED")] = 1
    for c, o in pairs:
        if c == "pins": continue
        if c.startswith("co "):
            pc = None
            try: pc = parse_co(c, o)
            except Exception: pass
            if not pc: d["unparsed"] += 1; continue
            d[f"rf:{pc['rf']}"] += 1; d["family:co"] += 1
            n0 = pc["n0"]
            for i, nm in ((1, "A1"), (2, "A2")):
                d["co:start:" + ("level" if n0[i] == n0[0] else "behind" if n0[i] < n0[0] else "ahead")] += 1
            for op, tk in zip(pc["ops"], pc["toks"]):
                if op[0] in ("a1", "a2"): d["co:write:" + re.sub(r"[0-9]+$", "", tk)] += 1
                if op[0] == "xr": d["co:xr:" + re.sub(r"[0-9]+$", "", tk)] += 1
            X, A1, A2 = pc["snaps"][-1]
            if any(min(e[3]) >= pc["q"] for e in A1 + A2 if int(e[1]) < 900): d["co:coordinator-confirmed"] += 1
            continue
        p = None
        try: p = parse(c, o)
        except Exception: pass
        if not p: d["unparsed"] += 1; continue
        d[f"rf:{p['rf']}"] += 1
        kinds = {op[0] for op in p["ops"]}
        fam = "restart" if "xR" in kinds else "sync" if "yr" in kinds else "exec" if "xe" in kinds else "rep"
        d["family:" + fam] += 1
        for op, tk in zip(p["ops"], p["toks"]):
            if op[0] == "b": continue
            d[f"{op[0]}:{re.sub(r'[0-9]+$', '', tk) if not tk.startswith('X[') else 'snap'}"] += 1
        X, Y = p["snaps"][-1]
        if any(x[1] not in [y[1] for y in X] for x in Y): d["sync:Y-diverged"] += 1
        if any(e[2] > 1 for e in Y[p["n0y"]:]): d["sync:multi-event-copied"] += 1
        q = p["q"]
        pref = 0
        for (f, tx, k, cs) in X:
            if min(cs) >= q: pref = f + k
            else: break
        if any(min(cs) >= q and f >= pref for (f, tx, k, cs) in X): d["observation:confirmed-behind-unconfirmed (C11_hidden_on_node)"] += 1
        if "~" in o: d["known:stale-scan-count"] += 1
        if _strip(o) != o and False: pass
    return dict(d)

# ------------------------------------------------------------------ K5 source pins
def _fn_text(path, start_pat, end_pat=None):
    src = open(os.path.join(REPO, path)).read()
    i = src.find(start_pat)
    if i < 0: return None
    # the item ends at the matching closing brace of its first '{'
    j = src.find("{", i)
    depth, k = 0, j
    while k < len(src):
        ch = src[k]
        if ch == "{": depth += 1
        elif ch == "}":
            depth -= 1
            if depth == 0: break
        k += 1
    body = src[i:k + 1]
    body = re.sub(r"//[^\n]*", "", body)
    body = re.sub(r"/\*.*?\*/", "", body, flags=re.S)
    return re.sub(r"\s+", "", body)

PINS = {
    # name: (file, start of the item, sha256 of its normalised text when the model was written)
    "transaction::spawn": ("crates/sierradb-cluster/src/write/transaction.rs", "pub fn spawn(", "dfd99af96451708f95e03a248fd3b564e70f4f6a68558b648fd08f9fc5dbcd34"),
    "transaction::run": ("crates/sierradb-cluster/src/write/transaction.rs", "async fn run(", "867a40323c0fd5bcd892da83c0db2dc54a20d75a94f5c659eed234158a662ac4"),
    "set_confirmations_with_retry": ("crates/sierradb-cluster/src/write/transaction.rs", "pub async fn set_confirmations_with_retry(", "8454921ee933993640e081caf43fb7543867d5e842e98dc640499c93fa4aab33"),
    "resolve_write_destination": ("crates/sierradb-cluster/src/write/execute.rs", "fn resolve_write_destination(", "4f0f32389b01e1a10c213e14058325a92b748f56a56f28cbd29b79a5871ec603"),
    "route_write_request": ("crates/sierradb-cluster/src/write/execute.rs", "fn route_write_request(", "a7dd7d06893e14a6717aafd78a9745bba7b161cc9af03f4fed90a6c73165ff0b"),
    "ReplicateWrite for ClusterActor": ("crates/sierradb-cluster/src/write/replicate.rs", "impl Message<ReplicateWrite> for ClusterActor", "a9d2b4766d275103b5c9d94c9a5a84553a19cdee1c93ed14aa8a3b485a4d54af"),
}
def pin_status():
    out = {}
    for name, (path, pat, want) in PINS.items():
        try: txt = _fn_text(path, pat)
        except OSError: txt = None
        got = hashlib.sha256(txt.encode()).hexdigest() if txt else None
        out[name] = dict(ok=(got == want), got=got, want=want)
    return out

def agree(c, o, e):
    """the pseudo-case `pins` stands for the K5 correspondence: the pinned coordinator functions are unchanged.
    Counts are compared as the DISK holds them (marks of stale scans removed). One tolerance: an entry that Y copied by
    catch-up may carry a LOWER count than the model's, because the source serves what its scan shows (known finding
    stale-scan-count); a lower count only makes fewer entries confirmed."""
    if c == "pins":
        return all(v["ok"] for v in pin_status().values())
    o1 = _strip(o)
    if o1 == e: return True
    if c.startswith("co "): return False
    try:
        po, pe = parse(c, o1), parse(c, e)
    except (ValueError, IndexError): return False
    if po is None or pe is None: return False
    if po["W"] != pe["W"]:
        # after the emulated restart the watermark is rebuilt from scans: with a stale scan count (known finding) it is lower
        stale_x = "~" in o.split(" X=")[-1].split(" ")[0]
        if not (stale_x and po["W"].isdigit() and pe["W"].isdigit() and int(po["W"]) <= int(pe["W"])): return False
    to = [t for op, t in zip(po["ops"], po["toks"]) if op[0] != "b"]
    te = [t for op, t in zip(pe["ops"], pe["toks"]) if op[0] != "b"]
    if to != te or len(po["snaps"]) != len(pe["snaps"]): return False
    assigned_y = {(op[1], int(op[2]), int(op[3])) for op in po["ops"] if op[0] == "yr"}
    own_y = {op[1] for op in po["ops"] if op[0] == "yl"}
    for (xo, yo), (xe, ye) in zip(po["snaps"], pe["snaps"]):
        if xo != xe or len(yo) != len(ye): return False
        for a, b in zip(yo, ye):
            if a == b: continue
            copied = a[0] >= po["n0y"] and (a[1], a[0], a[2]) not in assigned_y and a[1] not in own_y
            if a[:3] != b[:3] or not copied or len(a[3]) != len(b[3]) or any(x > y for x, y in zip(a[3], b[3])): return False
    return True

LEVEL_TEXT = ("Machine-checked proof (Coq) over a transition-system model of the write protocol of one partition: any number of nodes, any "
              "replication factor, every list of actions (client writes at any replica acting as coordinator under any membership view, "
              "messages delivered in any order any number of times or never, late replies, catch-up, confirmations, time-outs, crash/restart).")
LEVEL_NOTE = ("PARTIAL tie. Executed against the real code: the replica side of a node (ReplicateWrite incl. sender/staleness checks and the "
              "ordered buffer, ConfirmTransaction, serving and applying PartitionSync), crash/restart of its memory, the rf=1 coordinator end to "
              "end, and (family co) the coordinator itself - transaction::spawn / run / set_confirmations_with_retry on two coordinator "
              "databases with divergent logs, the real node answering as their replica (Ok, StaleWrite, SequenceConflict, no answer). NOT "
              "executable here (one ClusterActor per process, mDNS-only discovery): a coordinator with MORE THAN ONE real remote replica (late "
              "replies, the count + 1 confirmations), resolve_write_destination / forwarding under gossipsub membership divergence; those stay "
              "tied by source pins.")
TECHNIQUE = "Coq proof of a hand-written Gallina protocol model + differential correspondence check (extracted OCaml node handlers vs the real node) + source pins"
