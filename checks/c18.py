"""C18 seglog readers never serve stale or unflushed data: K2 history differential (one writer, long-lived readers)
+ a direct monitor of the property statement: an abstract log (offset -> record) replayed from the operations,
against which every read / iteration result of the implementation is checked."""
from checks.sllib import expand, spec_len, spec_digest, coq_list

PROP = "C18"
COQ_IMPORTS = "From SV Require Import Model.Crc32 Model.Seglog."
READY = True
XCHECK = 12
RULE = ("a case is ONE history `h <H> <size> <start> op ; op ; ...` run on a real segment: first 4 (thorough 16) fixed-shape `window-tail` histories (segment > 64 KiB; a record "
        "straddling a 64 KiB read-ahead window boundary is read sequentially / by iteration so the buffer grows past the window end; replace_header on a record inside that <= 4 KiB cached tail "
        "through the SAME reader; then Sequential read, iteration, Random read of it through that reader, a second replace + iteration, and a read through a reader opened afterwards; H in {1,8,16,32}, one or two windows, "
        "with/without a compressed target record), then 316 (thorough 2400) histories of 20..90 (..160) generated operations "
        "+ a closing sweep (sync; every reader reads the last live records with both hints and iterates from the start; raw file digest). "
        "Ops: append 30% (sizes 0..60, 120..320 around the compression threshold, in 1/8 of the histories also 2040..70000 around the 2048/4096/16K/64K buffers), "
        "sync 12%, flush_writer 4%, set_len 7% (to a record start at or above everything a reader can have cached; in 1/5 of the histories anywhere below; in 1/6 also mid-record), "
        "compression toggle 4%, Reader::open 4%, try_clone 3%, read_record 22% (2/3 Sequential; offsets: live record starts 65%, old/other boundaries 20%, +-4 around, random, u64::MAX-k), "
        "iterate 6%, replace_header 5% (through a reader that is the only one with a filled read-ahead, in 1/7 of the histories through any), file digest 3%. "
        "H in {0,1,8,16,32}, segment sizes {300,1000,5000,70000,140000,400000} (small ones exercise SegmentFull), start in {0,16,64}. "
        "Known-finding classes are assigned only when the failing bytes meet a range of THAT reader's cache made stale by a set_len below it or by a replace_header through a DIFFERENT reader; a stale read through the reader that did the replace is a violation. "
        "non-trivial = histories with at least one successful read after a later sync/set_len through a reader opened earlier; distinct = distinct case strings.")
ASSUMPTIONS = ["Model/Seglog.v (writer with std's BufWriter made explicit, ReadAheadBuf, replace_header) is hand-written from crates/seglog/src/{write,read}.rs after the fix commits; tie = this differential run, which also compares the raw file bytes",
               "operations are atomic and sequential: the instant inside set_len where flushed is raised by sync() before being lowered is not observable in the model; real reader threads could observe it",
               "zstd is not modelled (oracle stored bytes recorded from seglog itself)"]

def parse_case(c):
    t = c.split(" ", 4)
    H, size, start = int(t[1]), int(t[2]), int(t[3])
    ops = [o.split() for o in t[4].split(";")] if len(t) > 4 else []
    return H, size, start, [o for o in ops if o]

def model_case(c): return c
def agree(c, o, e): return e is not None and o == e.replace("!", "")

def rec_str(hdr_hex, data_spec, compressed, total):
    return f"ok:{hdr_hex}:{spec_digest(data_spec)}:{'c' if compressed else 'u'}:{total}"

def hexof(spec): return spec[1:] if spec[0] == "x" else expand(spec).hex()

def monitor(c, o):
    if o in ("PANIC", "BADCASE"): return ("panic", f"history run failed: {o}")
    H, size, start, ops = parse_case(c)
    outs = o.split(";")
    if len(outs) != len(ops): return ("harness", f"{len(outs)} results for {len(ops)} operations")
    woff = flushed = start
    comp = False
    live = {}            # offset -> dict(hdr, data, compressed, total)
    # per reader: `hi` = highest offset it may have cached (flushed at its last sequential read / iteration);
    # `stale` = byte ranges [a, b) of ITS cache that may hold outdated bytes, each with the cause:
    #   'set_len'  : the writer truncated to a < hi (the reader cached [.., hi) before)
    #   'replace'  : ANOTHER reader replaced a header inside what this reader may have cached
    # a replace through the reader itself never adds a range: its own cache must be invalidated by the code.
    readers = []
    def expect_read(off):
        r = live.get(off)
        if r is None: return None
        if flushed - off < 8: return "oob:8"
        if off + r["total"] > flushed: return f"oob:{r['total']}"
        return rec_str(r["hdr"], r["data"], r["compressed"], r["total"])
    def known(rd, lo, hi_, what):
        """the failure concerns bytes [lo, hi_) read through reader rd: known only if that range meets a stale range of rd"""
        for (a, b, cause, by) in readers[rd]["stale"]:
            if a < hi_ and lo < b:
                if cause == "set_len":
                    return ("stale-cache-after-set_len", what + f" [reader {rd} cached up to {b} before set_len({a})]")
                if cause == "replace" and by != rd:
                    return ("stale-cache-after-foreign-replace_header", what + f" [reader {rd} had [{a},{b}) cached when reader {by} replaced the header]")
        return None
    for i, (op, out) in enumerate(zip(ops, outs)):
        k = op[0]
        if "PANIC" in out: return ("panic", f"op #{i} `{' '.join(op)[:60]}` panicked")
        if k == "a":
            n = spec_len(op[2]); compressed = comp and n >= 128
            total = 8 + H + ((4 + spec_len(op[3])) if compressed else n)
            if woff + total > size:
                if out != "a=full": return ("append-result", f"op #{i}: append of {total} bytes at {woff} in a {size}-byte segment returned {out}, expected full")
            else:
                if out != f"a={woff},{total}": return ("append-result", f"op #{i}: append returned {out}, expected a={woff},{total}")
                live[woff] = dict(hdr=hexof(op[1]), data=op[2], compressed=compressed, total=total); woff += total
        elif k == "s":
            flushed = woff
            if out != f"s={woff}": return ("sync-result", f"op #{i}: sync returned {out}, expected s={woff}")
        elif k == "l":
            o_ = int(op[1])
            if o_ < woff:
                for off in [x for x in live if x + live[x]["total"] > o_]: del live[off]
                for r in readers:
                    if r["hi"] > o_: r["stale"].append((o_, r["hi"], "set_len", None))
                woff = flushed = o_
        elif k == "c": comp = op[1] == "1"
        elif k == "n":
            if out != f"n={len(readers)}": return ("harness", f"op #{i}: {out}")
            readers.append(dict(hi=0, stale=[]))
        elif k == "k":
            if int(op[1]) < len(readers):
                if out != f"k={len(readers)}": return ("harness", f"op #{i}: {out}")
                readers.append(dict(hi=0, stale=[]))
        elif k == "r":
            rd, off, seq = int(op[1]), int(op[2]), op[3] == "1"
            if rd >= len(readers): continue
            got = out[2:]
            want = expect_read(off)
            bad = None
            if want is not None and got != want:
                bad = f"op #{i}: read_record({off}, {'Sequential' if seq else 'Random'}) through reader {rd} returned {got[:80]}, the log has {want[:80]} there (flushed={flushed})"
            elif want is None and got.startswith("ok:") and off + int(got.rsplit(":", 1)[1]) > flushed:
                bad = f"op #{i}: read_record({off}) returned {got[:60]} which extends beyond flushed={flushed}"
            if bad:
                ln = live[off]["total"] if off in live else 8
                kn = known(rd, off, off + ln, bad) if seq else None
                return kn or ("stale-or-wrong-read", bad)
            if seq: readers[rd]["hi"] = max(readers[rd]["hi"], flushed)
        elif k == "i":
            rd, off = int(op[1]), int(op[2])
            if rd >= len(readers): continue
            body, _, term = out[2:].rpartition("^")
            got = body.split(",") if body else []
            exp, cur = [], off
            while cur in live and cur + live[cur]["total"] <= flushed:
                r = live[cur]; exp.append(f"{cur}@{rec_str(r['hdr'], r['data'], r['compressed'], r['total'])}"); cur += r["total"]
            clean = off in live and (flushed - cur < 8 or cur in live)
            bad = None
            if off in live:
                if got[:len(exp)] != exp: bad = f"op #{i}: iteration from {off} through reader {rd} yielded {len(got)} records {[g[:24] for g in got[:4]]}, the flushed log from there is {[e[:24] for e in exp[:4]]} ({len(exp)} records)"
                elif clean and (len(got) != len(exp) or term != "end"): bad = f"op #{i}: iteration from {off} yielded {len(got)} records and ended with {term}; the flushed log has exactly {len(exp)} (flushed={flushed})"
            if not bad:
                for g in got:
                    o2, _, rs = g.partition("@")
                    if int(o2) + int(rs.rsplit(":", 1)[1]) > flushed: bad = f"op #{i}: iteration returned a record at {o2} that extends beyond flushed={flushed}"; break
            if bad:
                # where the iteration first departs from the flushed log
                k2 = 0
                while k2 < len(exp) and k2 < len(got) and got[k2] == exp[k2]: k2 += 1
                p0 = int(exp[k2].split("@")[0]) if k2 < len(exp) else cur
                if off not in live: p0 = off
                ln = live[p0]["total"] if p0 in live else 8
                return known(rd, p0, p0 + ln, bad) or ("stale-or-wrong-iteration", bad)
            readers[rd]["hi"] = max(readers[rd]["hi"], flushed)
        elif k == "p":
            rd, off = int(op[1]), int(op[2])
            if rd >= len(readers): continue
            want = expect_read(off)
            if want is None:
                if out == "p=ok": return None      # bytes inside some record looked like a record: outside the property's domain
                continue
            if want.startswith("ok:"):
                if out != "p=ok": return ("replace-result", f"op #{i}: replace_header at live flushed record {off} returned {out}")
                live[off]["hdr"] = hexof(op[3])
                for j, r in enumerate(readers):
                    if j != rd and r["hi"] > off + 4: r["stale"].append((off, off + live[off]["total"], "replace", rd))
            elif out != "p=" + want: return ("replace-result", f"op #{i}: replace_header at {off} returned {out}, expected {want}")
    return None

def coq_goal(c, e):
    """extraction cross-check: the write offset and flushed offset after the first sync of a short uncompressed prefix,
    evaluated inside Coq by vm_compute on the same model"""
    if e is None: return None
    H, size, start, ops = parse_case(c)
    outs = e.replace("!", "").split(";")
    if len(outs) != len(ops): return None
    terms, total = [], 0
    for i, op in enumerate(ops):
        k = op[0]
        if k == "a":
            if op[3] != "-": return None
            total += spec_len(op[2])
            if total > 500: return None
            terms.append(f"OAppend {coq_list(expand(op[1]))} {coq_list(expand(op[2]))}")
        elif k == "f": terms.append("OFlush")
        elif k == "l":
            if int(op[1]) >= 2**62: return None
            terms.append(f"OSetLen {op[1]}")
        elif k == "c": terms.append("OComp " + ("true" if op[1] == "1" else "false"))
        elif k == "n": terms.append("ONewReader")
        elif k == "k": terms.append(f"OClone {op[1]}%nat")
        elif k in ("r", "i", "p", "d"): continue      # reads do not change the writer; replace_header is skipped with its history
        elif k == "s":
            terms.append("OSync")
            if not outs[i].startswith("s="): return None
            v = outs[i][2:]
            if any(o[0] == "p" for o in ops[:i]): return None
            run = f"(s_w (fst (sl_run {H} (fun x => x) (fun x => Some x) (sl_init {size} {start}) [{'; '.join(terms)}])))"
            return f"(w_off {run}, w_flushed {run}) = ({v}, {v})"
    return None

def nontrivial(c, o):
    return ";r=ok:" in o or ";i=" in o
def shrink_key(c): return (len(c), c)

def shrink(v, rerun):
    """drop operations from the end / one at a time while the same class is still reported"""
    c, o, cls, msg = v
    t = c.split(" ", 4)
    ops = [x.strip() for x in t[4].split(";")]
    def attempt(ops2):
        c2 = " ".join(t[:4]) + " " + " ; ".join(ops2)
        pairs = rerun([c2])
        if not pairs: return None
        m = monitor(pairs[0][0], pairs[0][1])
        return (pairs[0][0], pairs[0][1], m[0], m[1]) if m and m[0] == cls else None
    best = v
    # cut the tail after the failing op
    import re
    mm = re.search(r"op #(\d+)", msg)
    if mm:
        r = attempt(ops[:int(mm.group(1)) + 1])
        if r: best, ops = r, ops[:int(mm.group(1)) + 1]
    i, budget = 0, 120
    while i < len(ops) - 1 and budget > 0:
        budget -= 1
        if ops[i].split()[0] in ("n",): i += 1; continue       # keep reader numbering stable
        r = attempt(ops[:i] + ops[i+1:])
        if r: best, ops = r, ops[:i] + ops[i+1:]
        else: i += 1
    return best

def distribution(pairs):
    d = {"histories": len(pairs), "ops": 0}
    for c, o in pairs:
        for op in c.split(" ", 4)[4].split(";"):
            k = op.split()[0] if op.split() else "?"
            d["op-" + k] = d.get("op-" + k, 0) + 1; d["ops"] += 1
        for r in o.split(";"):
            if r.startswith("r="):
                kk = "read-" + r[2:].split(":")[0]; d[kk] = d.get(kk, 0) + 1
    return d

LEVEL_TEXT = ("Machine-checked proofs (Coq): for EVERY history of append / flush_writer / sync / set_len / compression toggles / Reader::open / try_clone / "
              "read_record(Random|Sequential) / iterate / replace_header on one writer and any number of long-lived readers (byte-level model with std's BufWriter and the "
              "ReadAheadBuf explicit), an invariant (every cached byte agrees with the file and, unless the buffer is empty, lies below flushed; live records are intact and disjoint; "
              "cursor + buffered = write_offset) gives: a read at the start of a live record returns exactly the record most recently written there when it is fully flushed, "
              "a bounds error otherwise (C18_read_exact); every read is a function of the first `flushed` bytes of the file only (C18_no_unflushed); iteration yields exactly the "
              "flushed live records (C18_iter_exact). Two situations are excluded as known findings and shown to violate the property on the model (C18_known_refuted) and on the code "
              "(corpus): set_len below a reader's cached window; replace_header through another reader. Tie to the code: history differential (incl. raw file bytes) + direct monitor.")
LEVEL_NOTE = ("Operations are sequential in the model (reader threads racing a set_len are not modelled). Trusted: Coq kernel, extraction, OCaml/Rust/Python glue. "
              "The theorems are about Model/Seglog.v; the correspondence is differential testing bounded by the generators in `rule`.")
TECHNIQUE = "Coq invariant proof over operation histories of a hand-written Gallina model + history differential (extracted OCaml model vs real seglog) + abstract-log monitor"
