"""Shared parts of the storage-engine checks (C01-C06, C15, C16, C19, C20): the case is a history
(harness/cstore/src/hist.rs), the observed value is ' ; '-joined per-op results of the REAL Database,
the model value is '<concrete model results> ## <abstract spec results>'."""
import re
CRATE = "cstore"
DRIVER = "store"
EXTRACT = "Store"
COQ_IMPORTS = "From SV Require Import Model.StoreIter."

def model_case(c): return c
def split_ops(c): return c.split(" ; ")[1:]
def split_res(o): return o.split(" ; ")
def conc_of(e): return e.split(" ## ")[0] if e else e
def spec_of(e): return e.split(" ## ")[1] if e and " ## " in e else ""
_DUR = re.compile(r" !(unsynced=\d+|unwritten)")
def agree(c, o, e):
    # the durability markers are the monitor's business (and are re-checked before they are believed)
    return _DUR.sub("", o) == conc_of(e)

EV = re.compile(r"e(\d+):q(\d+):v(\d+)([^,)\s]*)")
def groups(s):
    """'g(e1:q..,e2..) g(..)' -> list of lists of (eid, seq, ver, flags)"""
    out = []
    for g in re.findall(r"g\(([^)]*)\)", s):
        out.append([(int(a), int(b), int(c), d) for a, b, c, d in EV.findall(g)])
    return out

def cmp_op(op, obs, spec):
    """direct comparison of one observed result with the abstract spec's; returns None or message"""
    kind = op.split()[0]
    if "!" in obs and kind in ("RE", "RT", "SS", "SP"):
        return f"{op}: event content differs from what was appended: {obs[:200]}"
    if kind in ("SS", "SP"):
        if obs.startswith("err") or " err " in (" " + obs):
            return f"{op}: scan failed: {obs[:200]}"
        rev = op.split()[-2] == "r"
        og = groups(obs)
        if not rev:
            if og != groups(spec): return f"{op}: forward scan returned {obs[:300]} but the store holds {spec[:300]}"
            return None
        sset, _, sgroups = spec.partition(" | ")
        want = {(int(a), int(b), int(c)) for a, b, c, d in EV.findall(sset)}
        pos = 2 if kind == "SS" else 1
        frm = int(op.split()[-3])
        got = {(a, b, c) for g in og for a, b, c, _ in g}
        if {x for x in got if x[pos] <= frm} != want:
            return f"{op}: reverse scan returned the events {sorted(got)}; at or before {frm} the store holds exactly {sorted(want)}"
        txns = [[(a, b, c) for a, b, c, _ in g] for g in groups(sgroups)]
        for g in og:
            gg = [(a, b, c) for a, b, c, _ in g]
            if not gg or gg[0][pos] > frm or not any(t[len(t) - len(gg):] == gg for t in txns if len(t) >= len(gg)):
                return f"{op}: reverse scan group {gg} is not a suffix (starting at or before {frm}) of a stored transaction"
        firsts = [g[0][pos] for g in og if g]
        if any(firsts[i] <= firsts[i + 1] for i in range(len(firsts) - 1)):
            return f"{op}: reverse scan groups are not in decreasing order: {obs[:300]}"
        return None
    if obs != spec:
        return f"{op}: returned '{obs[:200]}' but the reference event store prescribes '{spec[:200]}'"
    return None

import os
SVIO = os.path.join(os.path.dirname(os.path.dirname(os.path.abspath(__file__))), "harness", "target", "libsvio.so")
def ensure_svio():
    src = os.path.join(os.path.dirname(SVIO), "..", "svio", "svio.c")
    if not os.path.exists(SVIO) or os.path.getmtime(SVIO) < os.path.getmtime(src):
        import subprocess
        os.makedirs(os.path.dirname(SVIO), exist_ok=True)
        subprocess.run(["cc", "-O1", "-shared", "-fPIC", "-o", SVIO, src, "-ldl", "-lpthread"], check=True)
    return SVIO

def monitor_kinds(kinds, cls, after_crash_all=False, durable=False):
    def mon(c, o, e):
        ops, obs, spec = split_ops(c), split_res(o), split_res(spec_of(e))
        if o.startswith("open-err"): return (cls + ":open", f"database did not open: {o[:200]}")
        if len(obs) != len(ops): return (cls + ":short", f"history stopped after {len(obs)} of {len(ops)} operations: last result {obs[-1][:200] if obs else ''}")
        crashed = False
        for i, (op, ob) in enumerate(zip(ops, obs)):
            k = op.split()[0]
            sp = spec[i] if i < len(spec) else ""
            if ob == "TIMEOUT": return (cls + ":timeout", f"op {i} {op[:80]} did not complete within 20 s")
            if k == "CR": crashed = True
            if durable and k == "A" and ("!unsynced" in ob or "!unwritten" in ob):
                return (cls + ":fsync", f"op {i} {op[:80]}: the append was acknowledged ({ob[:80]}) while bytes of the transaction were not yet covered by an fdatasync of the segment file")
            if k in kinds or (after_crash_all and crashed):
                m = cmp_op(op, ob, sp)
                if m: return (cls + ":" + k, f"op {i}: {m}")
        return None
    return mon

def RECHECK(cls): return cls.endswith(":fsync") or cls.endswith(":timeout")

def nontrivial(c, o):
    ops = split_ops(c)
    return sum(1 for x in ops if x.startswith("A ")) >= 2 and any(r.startswith("ok ") for r in split_res(o))

def shrink_key(c): return (len(split_ops(c)), len(c))

def shrink_candidates(c):
    """smaller histories: drop one operation (later ones first; appends last), or shrink a big payload"""
    parts = c.split(" ; ")
    head, ops = parts[0], parts[1:]
    out = []
    idx = list(range(len(ops) - 1, -1, -1))
    idx.sort(key=lambda i: ops[i].startswith("A "))      # reads first, appends last
    for i in idx:
        if len(ops) > 1: out.append(" ; ".join([head] + ops[:i] + ops[i + 1:]))
    return out
SHRINK_BUDGET = 120

def distribution(pairs):
    d = {}
    for c, o in pairs:
        ops, obs = split_ops(c), split_res(o)
        for op, ob in zip(ops, obs):
            k = op.split()[0]
            d[k] = d.get(k, 0) + 1
            if k == "A":
                kk = "A:" + (ob.split()[0] + (":" + ob.split()[1] if ob.startswith("err") and len(ob.split()) > 1 else ""))
                d[kk] = d.get(kk, 0) + 1
                if " r=1 " in op: d["A:rollover"] = d.get("A:rollover", 0) + 1
                if op.count(",") >= 1: d["A:multi-event"] = d.get("A:multi-event", 0) + 1
    return d

ASSUMPTIONS = [
    "Model/Store.v + StoreIter.v are hand-written from writer_thread_pool.rs, bucket/segment/reader.rs, bucket/iter.rs, bucket/segment/iter.rs, database.rs; tie = this differential run on histories executed by the real Database",
    "record granularity: byte layout/CRC is C17/C18's; the rollover decision and crash cuts are inputs (oracles) of the model",
    "zstd, moka block cache, rayon/tokio scheduling, MPHF/bloom internals are not modelled (covered only through observable results)",
    "each successful append is followed by a sync before the next operation (the API waits for it); concurrent clients are C15/C16",
]
