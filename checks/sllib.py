"""Shared by checks/c17.py and checks/c18.py: data-spec expansion and the digest used in harness output."""

def expand(spec):
    k, body = spec[0], spec[1:]
    if k == "x": return bytes.fromhex(body)
    if k == "z": return bytes(int(body))
    a, b = body.split(":"); seed, n = int(a), int(b)
    if k == "r":
        out = bytearray(n); st = seed
        for i in range(n):
            st = (st * 6364136223846793005 + 1442695040888963407) & 0xFFFFFFFFFFFFFFFF
            out[i] = st >> 56
        return bytes(out)
    if k == "t":
        return bytes(32 + (((seed + (i >> 4)) * 31) & 63) for i in range(n))
    raise ValueError(spec)

def spec_len(spec):
    k, body = spec[0], spec[1:]
    if k == "x": return len(body) // 2
    if k == "z": return int(body)
    return int(body.split(":")[1])

def digest(b):
    h = 0xcbf29ce484222325
    for x in b:
        h = ((h ^ x) * 0x100000001b3) & 0xFFFFFFFFFFFFFFFF
    return "%d#%016x" % (len(b), h)

_dcache = {}
def spec_digest(spec):
    d = _dcache.get(spec)
    if d is None:
        d = digest(expand(spec))
        if len(_dcache) < 20000: _dcache[spec] = d
    return d

def coq_list(b):
    return "[" + "; ".join(str(x) for x in b) + "]"
