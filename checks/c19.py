"""C19 appends that fit an empty segment never fail for lack of space: K2 differential on (segment size, compression,
fill level, transaction with its REAL stored lengths) + direct monitor of the property statement."""
import os, re
PROP = "C19"
CRATE = "c19"
COQ_IMPORTS = "From SV Require Import Model.ByteLayout."
READY = True
# scratch databases on tmpfs when there is one: the property is about sizes, not about the disk (fdatasync on a loaded
# disk costs 10..100 ms per append and every case needs ~8 appends)
ENV = {"TMPDIR": "/dev/shm"} if os.path.isdir("/dev/shm") and os.access("/dev/shm", os.W_OK) else {}
XCHECK = 30
RULE = ("cases = (segment size in {128 KiB, 256 KiB}, compression on/off, transaction shape, fill level): the live segment of a REAL Database is "
        "filled to exactly segment_size - k for every k in [min(estimate,stored) - 64, max(estimate,stored) + 64] (sampled when that range exceeds 400; "
        "the 5 offsets around each of the two decision boundaries and the empty segment are always kept), then the transaction is appended and "
        "retried up to 3x after a failure, the accepted events are read back, and a probe event reveals the final write offset / segment. "
        "Shapes: 1..4 events, incompressible (stored larger than raw) / compressible / below the compression threshold, sizes up to the segment, "
        "the classes (b) estimate fits but stored does not and (c) estimate exceeds the segment but stored fits, plus random shapes from the seed. "
        "The stored length of every record is recorded from the real writer and is the model's oracle. "
        "non-trivial = the live segment was not empty or the transaction has several events. Cases exactly on a decision boundary run first. The run stops at a time budget (45 s quick, 14 min thorough).")
ASSUMPTIONS = [
    "Model/ByteLayout.v is hand-written from writer_thread_pool.rs handle_append_events / rollover, bucket/segment.rs constants and seglog write.rs append / prepare_data / set_len; tie = this differential run",
    "zstd is not modelled: the stored length of each compressed record is an oracle field recorded by the harness (same RawEvent appended to a scratch BucketSegmentWriter); the theorems quantify over every value of it",
    "record contents, versions and sequences are layer L1 (Model/Store.v, C01-C05); this layer only decides accept / rollover / refuse and the offsets",
    "one writer per bucket (the code serialises appends of a bucket on one thread); a transaction is 1..n events, single-event transactions carry the flag and no commit record",
]
EH, CS, SH = 93, 37, 48

def model_case(c): return c
def parse(c):
    f = dict(t.split("=", 1) for t in c.split()[1:])
    evs = []
    for e in f["ev"].split(","):
        k, var, st = e.split(":")
        evs.append((k[0], int(k[1:]), int(var), int(st)))
    return int(f["seg"]), f["comp"] == "1", int(f["off"]), evs
def sizes(c):
    seg, comp, off, evs = parse(c)
    extra = 0 if len(evs) == 1 else CS
    return seg, comp, off, evs, sum(EH + v for _, _, v, _ in evs) + extra, sum(s for _, _, _, s in evs) + extra
def attempts(o):
    """[(tag, result)] e.g. [('a0','full'), ('a1','ok:1:48'), ('rd','ok'), ('p','ok:1:5157')]"""
    return [tuple(t.split("=", 1)) for t in o.split() if "=" in t]

def monitor(c, o):
    seg, comp, off, evs, est, act = sizes(c)
    what = f"segment_size {seg}, compression {'on' if comp else 'off'}, write offset {off} (free {seg - off}), {len(evs)} event(s): estimate {est}, stored {act}"
    if o.startswith("HARNESS-ERR"):
        return ("fill", f"a filler append (a single small event that fits an empty segment) misbehaved while positioning the live segment: {o[:200]} [{what}]")
    at = attempts(o)
    tries = [(t, r) for t, r in at if t.startswith("a")]
    if not tries: return ("malformed", f"no attempt recorded: {o[:200]}")
    fits = SH + act <= seg
    first = tries[0][1]
    oks = [r for _, r in tries if r.startswith("ok:")]
    if fits:
        cls = "estimate_exceeds_segment" if est + SH > seg else ("segment_full" if first == "full" else "rejected")
        if not first.startswith("ok:"):
            tail = "and every one of the 3 retries failed too" if not oks else f"a retry succeeded after {len(tries) - 1} failure(s)"
            return (cls, f"a transaction whose stored size ({act} + {SH} header bytes) fits an empty segment was refused with '{first}', {tail} [{what}]")
    else:
        if oks: return ("accepted_unfit", f"a transaction whose stored size does not fit an empty segment was accepted: {oks[0]} [{what}]")
    if oks:
        _, rolled, offs = oks[0].split(":")
        offs = [int(x) for x in offs.split(",")]
        start = off if rolled == "0" else SH
        want, p = [], start
        for _, _, _, s in evs: want.append(p); p += s
        if offs != want: return ("offsets", f"accepted at offsets {offs} (after {rolled} rollover(s)), expected {want} [{what}]")
        if p + (0 if len(evs) == 1 else CS) > seg: return ("overflow", f"the transaction ends beyond the segment size [{what}]")
        rd = dict(at).get("rd")
        if rd != "ok": return ("content", f"the acknowledged events could not be read back intact: rd={rd} [{what}]")
    pr = dict(at).get("p", "")
    if not pr.startswith("ok:"): return ("probe", f"a 107-byte single-event append after the transaction failed with '{pr}' [{what}]")
    return None

def nontrivial(c, o):
    seg, comp, off, evs = parse(c); return off != SH or len(evs) > 1
def shrink_key(c):
    seg, comp, off, evs = parse(c); return (len(evs), sum(p for _, p, _, _ in evs), seg, off)
def coq_goal(c, e):
    if not e or not e.startswith("a0="): return None
    seg, comp, off, evs = parse(c)
    r = e.split()[0][3:]
    if r.startswith("ok:"):
        _, k, offs = r.split(":"); res = f"BOk {k} [{'; '.join(offs.split(','))}]"
    else: res = {"full": "BFull", "big": "BTooBig"}.get(r)
    if res is None: return None
    l = "; ".join(f"mkBev {v} {s - 9}" for _, _, v, s in evs)
    return f"snd (bl_append (mkBL {seg} {'true' if comp else 'false'} [] {off}) [{l}]) = {res}"
def distribution(pairs):
    d = {"fits": 0, "unfit": 0, "known(c) est>seg, stored fits": 0, "(b) est fits, stored does not": 0, "stored>estimate": 0, "free in [estimate, stored) -> second write": 0,
         "rollover by estimate": 0, "in place": 0, "refused": 0, "comp on": 0, "multi-event": 0, "seg 256K": 0}
    for c, o in pairs:
        seg, comp, off, evs, est, act = sizes(c)
        fits = SH + act <= seg
        d["fits" if fits else "unfit"] += 1
        if fits and est + SH > seg: d["known(c) est>seg, stored fits"] += 1
        if not fits and est + SH <= seg: d["(b) est fits, stored does not"] += 1
        if act > est: d["stored>estimate"] += 1
        if fits and est + SH <= seg and est <= seg - off < act: d["free in [estimate, stored) -> second write"] += 1
        a0 = o.split()[0] if o else ""
        if a0.startswith("a0=ok:0"): d["in place"] += 1
        elif a0.startswith("a0=ok:"):
            if off + est > seg: d["rollover by estimate"] += 1
        else: d["refused"] += 1
        if comp: d["comp on"] += 1
        if len(evs) > 1: d["multi-event"] += 1
        if seg > 131072: d["seg 256K"] += 1
    return d
LEVEL_TEXT = ("Machine-checked proof (Coq) about the size layer of the writer (record sizes from the code's constants, every compressed record's stored length an "
              "oracle): for every fill level, segment size and stored-length oracle, a transaction whose stored size fits an empty segment and whose uncompressed "
              "estimate passes the EventsExceedSegmentSize check is accepted at the first attempt -- in place, after the estimate-based rollover, or (the repair) by a "
              "second write into a new segment after SegmentFull -- from every reachable state and after any history (C19_fits, C19_fits_after_any_history, C19_retry, "
              "C19_wf_invariant); without compression the estimate is exact and nothing is excluded (C19_estimate_exact_nocomp, C19_fits_nocomp, C19_fits_no_growth); the "
              "excluded class is exactly the EventsExceedSegmentSize refusals and contains transactions that fit (C19_known_exact, C19_known_refuted: known finding); "
              "what does not fit is never accepted and wastes no segment on retries (C19_unfit_refused, C19_refused_in_empty_segment_is_noop); the code before the repair "
              "answered SegmentFull forever (C19_v0_refuted). Tie to the code: the real Database is positioned at every fill level around both decision boundaries, "
              "with the real stored lengths fed to the extracted model; results, offsets and segments are diffed, and a direct monitor checks the statement.")
LEVEL_NOTE = ("Trusted: Coq kernel, extraction, OCaml driver, Rust harness (its fill procedure: offsets are read back from the segment file and every filler offset is checked). "
              "The theorem is about Model/ByteLayout.v; zstd, bincode and the file system are outside the model (their only contribution, the stored record length, is measured on the real writer). "
              "Known finding 'estimate_exceeds_segment': a compressible transaction whose uncompressed estimate exceeds the segment is refused although its stored size fits.")
TECHNIQUE = "Coq proof (case analysis on the two size decisions, induction over records and histories) of a hand-written Gallina model + boundary sweep against the real Database with recorded stored lengths"
