"""C21 documented and client-emitted commands parse as intended.
K1 differential: the REAL server parsers (`<Cmd>::parser().skip(eof())`) vs the extracted Coq model on generated argument
lists, plus a DIRECT monitor: an independent recogniser of the documented grammar written here in Python (it shares no
code with the model) decides for every case what the documentation says - the request the argument list denotes, or
"not a documented form" - and the real parser's answer must be exactly that.  Client cases carry the request the client
call asks for (printed from the call's arguments by the harness); the real parser's answer must be that request."""
import re

PROP = "C21"
COQ_IMPORTS = "From SV Require Import Model.Parser."
READY = True
XCHECK = 60
RULE = ("cases = argument lists (tokens = RESP bulk strings) for ESUB, EPSUB, EAPPEND, EMAPPEND, ESCAN, EPSCAN, EGET, ESVER, EPSEQ, EACK: "
        "(fixed) ~200 hand-picked lists incl. every example of the doc comments/README and the confirmed defects; "
        "(doc) documented shapes with optional clauses present/absent, option clauses in random order, 1..6 streams / 1..5 partitions / 1..4 events, "
        "keywords in random letter case incl. the non-ASCII letters that upper-case to ASCII, values from boundary pools "
        "(u64: 0,1,2^63,2^64-1,+n,leading zeros; u16: 0,65535; stream ids of 1 and 64 bytes, multi-byte UTF-8; uuids in every text form, with white space); "
        "(mixed) the same with 1/6 of the values from pools of invalid/odd values (2^64, -1, empty, 65-byte and NUL-containing and non-UTF-8 stream ids, keywords in value slots, near-miss uuids); "
        "(near) a documented shape with 1-2 edits: token dropped, clause duplicated, keyword put in a slot, clauses swapped, token replaced, truncated, trailing/inserted token; "
        "(client) the real Rust client on random arguments - commands.rs/options.rs/types.rs through CmdExt, subscription.rs through the real SubscriptionManager methods talking to a recording loopback server - each also as a CALL case "
        "that compares the tokens the client emitted with the model's client_tokens for the same call; "
        "(tables) Rust's to_uppercase / is_whitespace over every char, from_utf8 on random byte strings, decimal printing. "
        "quick = 9000 generated + 3000 client cases, thorough = 120000 + 30000. A case is non-trivial when it has at least two tokens; distinct = distinct case strings.")
ASSUMPTIONS = [
    "Model/Parser.v is hand-written from parser.rs, request.rs:66-94, request/*.rs and combine 4.6.7's combinators; tie = this differential run",
    "requests arrive as arrays of bulk strings (BlobString frames); Number/BigNumber/Null frames in argument position are not generated",
    "the uuid crate's parse_str is an oracle: the harness lists, per case, which trimmed token texts it reads and as what",
    "a missing PARTITION_KEY is printed as 'd' when the request carries the v5 uuid derived from the stream id (the derivation itself is not checked)",
    "subscription.rs builds its commands inside async methods: the harness runs the real SubscriptionManager against an in-process loopback RESP3 server that records the argument lists (cases tagged sub:); only if that server cannot start are transcribed builders used (tagged sub~:)",
    "HashSet/HashMap results are compared as sorted listings",
]
LEVEL_TEXT = ("Machine-checked proof (Coq) that the model of the command parsers accepts exactly the documented grammar: C21_roundtrip (every documented form of "
              "ESUB/EPSUB/EAPPEND/EMAPPEND/ESCAN/EPSCAN/EGET/ESVER/EPSEQ/EACK - any clause order the documentation allows, keywords in any case, all identifiers and numbers - "
              "parses into the request it denotes), C21_sound (nothing else is accepted), C21_unambiguous, C21_*_no_keyword_stream (no clause keyword is ever a stream id of an "
              "accepted ESUB/EMAPPEND), C21_client (every command the client prints for a well-formed call is a documented form of the request asked for), with the two "
              "client/server gaps stated as theorems. Tie to the code: differential run of the real parsers and the real client printers against the extracted model, "
              "and a direct monitor (independent Python recogniser of the documented grammar).")
LEVEL_NOTE = ("Trusted: Coq kernel, extraction, OCaml driver glue, Rust harness, the Python recogniser. The theorems are about Model/Parser.v; the correspondence is "
              "sampled (structured generators, not exhaustive). All theorems closed under the global context. [uo]/[uprint] (uuid crate) are universally quantified.")
TECHNIQUE = "Coq proof of a hand-written Gallina model + differential correspondence check (extracted OCaml model vs real Rust parsers and client printers)"

CMDS = ("ESUB", "EPSUB", "EAPPEND", "EMAPPEND", "ESCAN", "EPSCAN", "EGET", "ESVER", "EPSEQ", "EACK")
# ---------------------------------------------------------------- case lines
def model_case(c):
    return c.split(" ## ")[0]

def dec_tok(s):
    if s == "%_": return b""
    out = bytearray(); i = 0
    while i < len(s):
        if s[i] == "%": out.append(int(s[i+1:i+3], 16)); i += 3
        else: out.append(ord(s[i])); i += 1
    return bytes(out)
def enc_tok(b):
    if not b: return "%_"
    return "".join(chr(c) if 0x21 <= c <= 0x7e and chr(c) not in "%@|#" else "%%%02X" % c for c in b)

def parse_case(c):
    """-> (cmd, tokens[bytes], oracle{bytes->hex}, tag, extra)"""
    parts = c.split(" ## ")
    body = parts[0]
    tag = parts[1] if len(parts) > 1 else ""
    extra = parts[2] if len(parts) > 2 else None
    left, _, orc = body.partition("|")
    t = left.split()
    cmd = t[1] if len(t) > 1 else ""
    if cmd not in CMDS: return cmd, [], {}, tag, extra          # table / CALL cases: not argument lists
    toks = [dec_tok(x) for x in t[2:]]
    table = {}
    for e in orc.split():
        s, _, u = e.partition("@")
        table[dec_tok(s)] = u
    return cmd, toks, table, tag, extra

# ---------------------------------------------------------------- the documented grammar, independently
RUST_WS = "\t\n\x0b\x0c\r \x85\xa0\u1680\u2000\u2001\u2002\u2003\u2004\u2005\u2006\u2007\u2008\u2009\u200a\u2028\u2029\u202f\u205f\u3000"
class NotDoc(Exception): pass

def text(b):
    try: return b.decode("utf-8")
    except UnicodeDecodeError: return None
def is_kw(k, b):
    s = text(b)
    return s is not None and s.upper() == k
def uint(b, bound):
    s = text(b)
    if s is None or not re.fullmatch(r"\+?[0-9]+", s): return None
    n = int(s)
    return n if n < bound else None
U64, U16 = 1 << 64, 1 << 16
def uuid_of(b, table):
    s = text(b)
    if s is None: return None
    return table.get(s.strip(RUST_WS).encode("utf-8"))
def stream_ok(b):
    return text(b) is not None and 1 <= len(b) <= 64 and 0 not in b

class Toks:
    def __init__(self, toks, table): self.t, self.i, self.table = toks, 0, table
    def more(self): return self.i < len(self.t)
    def peek(self): return self.t[self.i] if self.more() else None
    def next(self):
        if not self.more(): raise NotDoc("missing token")
        x = self.t[self.i]; self.i += 1; return x
    def kw(self, k): return self.more() and is_kw(k, self.t[self.i])
    def u64(self):
        n = uint(self.next(), U64)
        if n is None: raise NotDoc("not a u64")
        return n
    def uuid(self):
        u = uuid_of(self.next(), self.table)
        if u is None: raise NotDoc("not a uuid")
        return u
    def end(self):
        if self.more(): raise NotDoc("trailing token")

def on(x): return "-" if x is None else str(x)
def window(p):
    if p.kw("WINDOW"):
        p.next(); n = p.u64()
        if n < 1: raise NotDoc("window 0")
        return n
    return None

def doc_esub(p):
    words = ("PARTITION_KEY", "FROM", "WINDOW")
    streams = []
    while p.more() and not any(is_kw(k, p.peek()) for k in words):
        s = p.next()
        if not stream_ok(s): raise NotDoc("bad stream id")
        pk = None
        if p.kw("PARTITION_KEY"): p.next(); pk = p.uuid()
        streams.append((s, pk))
    if not streams: raise NotDoc("no stream")
    frm = None
    if p.kw("FROM"):
        p.next()
        if p.kw("LATEST"): p.next(); frm = ("latest",)
        elif p.more() and uint(p.peek(), U64) is not None: frm = ("all", p.u64())
        elif p.kw("MAP"):
            p.next(); m = {}; k = 0
            while p.more():
                s = text(p.peek())
                if s is None or "=" not in s: break
                a, b = s.split("=", 1)
                n = uint(b.encode(), U64)
                if not stream_ok(a.encode()) or n is None: break
                m[a.encode()] = n; k += 1; p.next()
            if k == 0: raise NotDoc("empty map")
            frm = ("map", m)
        else: raise NotDoc("bad FROM")
    win = window(p)
    p.end()
    ids = []
    for x in streams:
        if x not in ids: ids.append(x)
    pkd = lambda k: "d" if k is None else k
    if len(ids) == 1:
        s, pk = ids[0]
        f = None
        if frm and frm[0] == "all": f = frm[1]
        if frm and frm[0] == "map": f = frm[1].get(s)
        return "ESUB stream sid=%s pk=%s from=%s win=%s" % (enc_tok(s), pkd(pk), on(f), on(win))
    ids2 = sorted((s, pkd(pk)) for s, pk in ids)
    if not frm or frm[0] == "latest": f = "latest"
    elif frm[0] == "all": f = "all:%d" % frm[1]
    else: f = "map[%s]" % ",".join("%s:%s=%d" % (enc_tok(s), k, frm[1][s]) for s, k in ids2 if s in frm[1])
    return "ESUB streams [%s] from=%s win=%s" % (",".join("%s:%s" % (enc_tok(s), k) for s, k in ids2), f, on(win))

def doc_epsub(p):
    t = p.next()
    if is_kw("*", t): sel = ("all",)
    elif uint(t, U16) is not None: sel = ("one", uint(t, U16))
    else:
        s = text(t)
        if s is None: raise NotDoc("selector")
        ps = [uint(x.strip(RUST_WS).encode(), U16) for x in s.split(",")]
        if any(x is None for x in ps): raise NotDoc("selector")
        sel = ("list", ps)
    frm = None
    if p.kw("FROM"):
        p.next()
        if p.kw("LATEST"): p.next(); frm = ("latest",)
        elif p.more() and uint(p.peek(), U64) is not None: frm = ("all", p.u64())
        elif p.kw("MAP"):
            p.next(); m = {}; k = 0
            while p.more():
                s = text(p.peek())
                if s is None or "=" not in s: break
                a, b = s.split("=", 1)
                x, y = uint(a.encode(), U16), uint(b.encode(), U64)
                if x is None or y is None: break
                m[x] = y; k += 1; p.next()
            if k == 0: raise NotDoc("empty map")
            d = None
            if p.kw("DEFAULT"): p.next(); d = p.u64()
            frm = ("map", m, d)
        else: raise NotDoc("bad FROM")
    win = window(p)
    p.end()
    def fs():
        if not frm or frm[0] == "latest": return "latest"
        if frm[0] == "all": return "all:%d" % frm[1]
        return "map[%s]default=%s" % (",".join("%d=%d" % kv for kv in sorted(frm[1].items())), on(frm[2]))
    if sel[0] == "all": return "EPSUB all from=%s win=%s" % (fs(), on(win))
    if sel[0] == "list": return "EPSUB parts [%s] from=%s win=%s" % (",".join(str(x) for x in sorted(set(sel[1]))), fs(), on(win))
    f = None
    if frm and frm[0] == "all": f = frm[1]
    if frm and frm[0] == "map": f = frm[1].get(sel[1], frm[2])
    return "EPSUB part %d from=%s win=%s" % (sel[1], on(f), on(win))

def expected_version(b):
    n = uint(b, U64)
    if n is not None: return str(n)
    for k in ("ANY", "EXISTS", "EMPTY"):
        if is_kw(k, b): return k.lower()
    raise NotDoc("expected version")

def append_opts(p, allowed, stop):
    """option clauses in any order, each at most once; stops at end of input or (stop=True) at a non-keyword"""
    o = {}
    while p.more():
        k = next((k for k in allowed if is_kw(k, p.peek())), None)
        if k is None:
            if stop: break
            raise NotDoc("not an option")
        p.next()
        if k in o: raise NotDoc("option repeated")
        if k in ("EVENT_ID", "PARTITION_KEY"): o[k] = p.uuid()
        elif k == "EXPECTED_VERSION": o[k] = expected_version(p.next())
        elif k == "TIMESTAMP": o[k] = p.u64()
        else: o[k] = enc_tok(p.next())
    return o

def doc_eappend(p):
    s = p.next()
    if not stream_ok(s): raise NotDoc("stream")
    n = p.next()
    if text(n) is None: raise NotDoc("name")
    o = append_opts(p, ("EVENT_ID", "PARTITION_KEY", "EXPECTED_VERSION", "TIMESTAMP", "PAYLOAD", "METADATA"), False)
    return "EAPPEND sid=%s name=%s id=%s pk=%s ev=%s ts=%s payload=%s meta=%s" % (enc_tok(s), enc_tok(n), on(o.get("EVENT_ID")), on(o.get("PARTITION_KEY")),
        o.get("EXPECTED_VERSION", "any"), on(o.get("TIMESTAMP")), o.get("PAYLOAD", "%_"), o.get("METADATA", "%_"))

def doc_emappend(p):
    words = ("EVENT_ID", "EXPECTED_VERSION", "TIMESTAMP", "PAYLOAD", "METADATA")
    pk = p.uuid()
    evs = []
    while p.more():
        s = p.next()
        if any(is_kw(k, s) for k in words): raise NotDoc("keyword as stream id")
        if not stream_ok(s): raise NotDoc("stream")
        n = p.next()
        if text(n) is None: raise NotDoc("name")
        o = append_opts(p, words, True)
        evs.append("sid=%s name=%s id=%s ev=%s ts=%s payload=%s meta=%s" % (enc_tok(s), enc_tok(n), on(o.get("EVENT_ID")),
            o.get("EXPECTED_VERSION", "any"), on(o.get("TIMESTAMP")), o.get("PAYLOAD", "%_"), o.get("METADATA", "%_")))
    if not evs: raise NotDoc("no event")
    return "EMAPPEND pk=%s [%s]" % (pk, ";".join(evs))

def rng(b):
    if is_kw("-", b): return "-"
    if is_kw("+", b): return "+"
    n = uint(b, U64)
    if n is None: raise NotDoc("range")
    return str(n)
def psel(p):
    t = p.next()
    u = uuid_of(t, p.table)
    if u is not None: return "key:" + u
    n = uint(t, U16)
    if n is None: raise NotDoc("partition")
    return "id:%d" % n

def doc_escan(p):
    s = p.next()
    if not stream_ok(s): raise NotDoc("stream")
    a, b = rng(p.next()), rng(p.next())
    o = {}
    while p.more():
        if p.kw("PARTITION_KEY"): k = "pk"; p.next(); v = p.uuid()
        elif p.kw("COUNT"): k = "count"; p.next(); v = p.u64()
        else: raise NotDoc("option")
        if k in o: raise NotDoc("repeated")
        o[k] = v
    return "ESCAN sid=%s start=%s end=%s pk=%s count=%s" % (enc_tok(s), a, b, on(o.get("pk")), on(o.get("count")))
def doc_epscan(p):
    s = psel(p); a, b = rng(p.next()), rng(p.next()); c = None
    while p.more():
        if not p.kw("COUNT"): raise NotDoc("option")
        p.next(); v = p.u64()
        if c is not None: raise NotDoc("repeated")
        c = v
    return "EPSCAN part=%s start=%s end=%s count=%s" % (s, a, b, on(c))
def doc_eget(p):
    u = p.uuid(); p.end(); return "EGET id=" + u
def doc_esver(p):
    s = p.next()
    if not stream_ok(s): raise NotDoc("stream")
    pk = None
    if p.kw("PARTITION_KEY"): p.next(); pk = p.uuid()
    p.end()
    return "ESVER sid=%s pk=%s" % (enc_tok(s), on(pk))
def doc_epseq(p):
    s = psel(p); p.end(); return "EPSEQ part=" + s
def doc_eack(p):
    u = p.uuid(); n = p.u64(); p.end(); return "EACK id=%s cursor=%d" % (u, n)

DOC = {"ESUB": doc_esub, "EPSUB": doc_epsub, "EAPPEND": doc_eappend, "EMAPPEND": doc_emappend, "ESCAN": doc_escan,
       "EPSCAN": doc_epscan, "EGET": doc_eget, "ESVER": doc_esver, "EPSEQ": doc_epseq, "EACK": doc_eack}
TABLES = ("UPPERTABLE", "WSTABLE", "UTF8", "DEC", "CALL")

def documented(cmd, toks, table):
    try:
        return "OK " + DOC[cmd](Toks(toks, table))
    except NotDoc:
        return "ERR"

def show(cmd, toks):
    return cmd + " " + " ".join(enc_tok(t) for t in toks)

def monitor(c, o):
    cmd, toks, table, tag, extra = parse_case(c)
    if cmd in TABLES or cmd not in DOC: return None
    if o == "PANIC": return ("panic", f"the parser of `{show(cmd, toks)}` panicked")
    if tag.startswith("client"):
        fn = tag.split()[1] if len(tag.split()) > 1 else "?"
        want = "OK " + extra if extra is not None else None
        if o == "ERR":
            if cmd == "EPSUB" and toks and uuid_of(toks[0], table) is not None:
                return ("client-epsub-key", f"the client's {fn} emits `{show(cmd, toks)}` and the server rejects it (no `EPSUB <uuid>` form)")
            if cmd == "EPSUB" and toks and re.fullmatch(rb"[0-9]+-[0-9]+", toks[0]):
                return ("client-epsub-range", f"the client's {fn} emits `{show(cmd, toks)}` and the server rejects it (no `<a>-<b>` partition range form)")
            return ("client-rejected", f"the client's {fn} emits `{show(cmd, toks)}` and the server rejects it; the call asks for: {extra}")
        if want is not None and o != want:
            return ("client-misparsed", f"the client's {fn} emits `{show(cmd, toks)}`; the call asks for [{extra}] but the server reads [{o[3:]}]")
    want = documented(cmd, toks, table)
    if o == want: return None
    if want == "ERR": return ("accepts-undocumented", f"`{show(cmd, toks)}` is not a documented form but is accepted as [{o[3:]}]")
    if o == "ERR": return ("rejects-documented", f"`{show(cmd, toks)}` is a documented form of [{want[3:]}] but is rejected")
    return ("misparsed", f"`{show(cmd, toks)}` denotes [{want[3:]}] but is read as [{o[3:]}]")

def nontrivial(c, o):
    cmd, toks, _, _, _ = parse_case(c)
    return cmd in DOC and len(toks) >= 2
def shrink_key(c):
    cmd, toks, _, _, _ = parse_case(c)
    return (len(toks), sum(len(t) for t in toks), c)

def shrink(v, rerun):
    """drop tokens one at a time while the same class of violation remains"""
    c, o, cls, msg = v
    cmd, toks, table, tag, extra = parse_case(c)
    if tag.startswith("client") or cmd not in DOC: return v
    best = v
    changed = True
    while changed and len(toks) > 1:
        changed = False
        cands = []
        for i in range(len(toks)):
            t2 = toks[:i] + toks[i+1:]
            line = "c21 %s %s" % (cmd, " ".join(enc_tok(t) for t in t2))
            orc = " ".join("%s@%s" % (enc_tok(k), u) for k, u in table.items())
            if orc: line += " | " + orc
            cands.append((t2, line + " ## shrunk"))
        res = rerun([l for _, l in cands])
        for (t2, _), (c2, o2) in zip(cands, res):
            m = monitor(c2, o2)
            if m and m[0] == cls:
                best = (c2, o2, m[0], m[1]); toks = t2; changed = True
                break
    return best

# ---------------------------------------------------------------- extraction cross-check inside Coq
def coq_str(b): return "(str_of_bytes [%s])" % "; ".join(str(x) for x in b)
CMDC = {"ESUB": "CESub", "EPSUB": "CEPSub", "EAPPEND": "CEAppend", "EMAPPEND": "CEMAppend", "ESCAN": "CEScan", "EPSCAN": "CEPScan",
        "EGET": "CEGet", "ESVER": "CESVer", "EPSEQ": "CEPSeq", "EACK": "CEAck"}
def kv(s):
    return dict(x.split("=", 1) for x in s.split(" ") if "=" in x)
def c_opt(v, f): return "None" if v == "-" else "(Some %s)" % f(v)
def c_hex(v): return coq_str(v.encode())
def c_n(v): return "%s%%N" % v
def c_tok(v): return coq_str(dec_tok(v))
def c_ev(v): return {"any": "(Some EvAny)", "exists": "(Some EvExists)", "empty": "(Some EvEmpty)"}.get(v) or "(Some (EvExact %s))" % c_n(v)
def c_rng(v): return {"-": "RStart", "+": "REnd"}.get(v) or "(RVal %s)" % c_n(v)
def c_psel(v): return "(ById %s)" % c_n(v[3:]) if v.startswith("id:") else "(ByKey %s)" % c_hex(v[4:])
def coq_request(e):
    """Coq term for a canonical request text, where the text determines it (no set/map listings)"""
    body = e[3:]
    cmd, _, rest = body.partition(" ")
    d = kv(rest)
    if cmd == "EGET": return "REGet %s" % c_hex(d["id"])
    if cmd == "EACK": return "REAck %s %s" % (c_hex(d["id"]), c_n(d["cursor"]))
    if cmd == "ESVER": return "RESVer %s %s" % (c_tok(d["sid"]), c_opt(d["pk"], c_hex))
    if cmd == "EPSEQ": return "REPSeq %s" % c_psel(d["part"])
    if cmd == "ESCAN":
        return "REScan {| sc_stream := %s; sc_start := %s; sc_end := %s; sc_pk := %s; sc_count := %s |}" % (
            c_tok(d["sid"]), c_rng(d["start"]), c_rng(d["end"]), c_opt(d["pk"], c_hex), c_opt(d["count"], c_n))
    if cmd == "EPSCAN":
        return "REPScan {| ps_part := %s; ps_start := %s; ps_end := %s; ps_count := %s |}" % (
            c_psel(d["part"]), c_rng(d["start"]), c_rng(d["end"]), c_opt(d["count"], c_n))
    if cmd == "ESUB" and rest.startswith("stream "):
        return "RESub (EsStream %s %s %s %s)" % (c_tok(d["sid"]), "None" if d["pk"] == "d" else "(Some %s)" % c_hex(d["pk"]), c_opt(d["from"], c_n), c_opt(d["win"], c_n))
    if cmd == "EPSUB" and rest.startswith("part "):
        return "REPSub (EpPart %s %s %s)" % (c_n(rest.split()[1]), c_opt(d["from"], c_n), c_opt(d["win"], c_n))
    return None
def coq_goal(c, e):
    cmd, toks, table, tag, extra = parse_case(c)
    if cmd not in CMDC or e is None or e in ("BADCASE",) or e.startswith("MODEL-EXN"): return None
    if sum(len(t) for t in toks) > 400: return None
    uo = "(fun s => assoc String.eqb s [%s])" % "; ".join("(%s, %s)" % (coq_str(k), coq_str(u.encode())) for k, u in table.items())
    call = "parse_command %s %s [%s]" % (uo, CMDC[cmd], "; ".join(coq_str(t) for t in toks))
    if e == "ERR": return "%s = None" % call
    r = coq_request(e)
    if r is not None: return "%s = Some (%s)" % (call, r)
    return "match %s with Some _ => true | None => false end = true" % call

def distribution(pairs):
    d = {}
    for c, o in pairs:
        cmd, toks, table, tag, extra = parse_case(c)
        kind = (tag.split() or ["corpus"])[0] if cmd in DOC else "table/call"
        for k in ("cmd:" + cmd, "kind:" + kind, "result:" + (o.split(" ")[0] if cmd in DOC else "table")):
            d[k] = d.get(k, 0) + 1
        if cmd in DOC:
            n = len(toks)
            b = "tokens:" + ("0-1" if n < 2 else "2-4" if n < 5 else "5-9" if n < 10 else "10+")
            d[b] = d.get(b, 0) + 1
    return dict(sorted(d.items()))
