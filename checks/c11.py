"""C11 acknowledged replicated writes persist on a quorum. Same protocol model, harness crate, driver and monitor as C10
(checks/c10.py); the generator puts more weight on the coordinator path (ExecuteTransaction) for this property."""
from checks.c10 import (COQ_IMPORTS, XCHECK, ASSUMPTIONS, TRUSTED, TECHNIQUE, LEVEL_TEXT, LEVEL_NOTE, model_case, nontrivial, shrink_key,
                        coq_goal, distribution, agree, pin_status, parse, _mon, RULE as _RULE)
import checks.c10 as _c10
PROP = "C11"
CRATE = "c10"
DRIVER = "C10"
READY = True
RULE = _RULE + " For C11 the exec family is enlarged (rf=1: 40 cases quick / 300 thorough)."
def monitor(c, o):
    if c == "pins": return None
    try: return _mon(c, o, PROP)
    except (ValueError, IndexError, KeyError) as e: return ("malformed", f"cannot read the observation: {e!r}")
def shrink(v, runner): return _c10.shrink(v, runner)
