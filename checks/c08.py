"""C08 the confirmed watermark: K1 differential on update_confirmation histories + K3 crash states of the
persist/load/rescan cycle, each with a direct monitor of the property statement."""
PROP = "C08"
COQ_IMPORTS = "From SV Require Import Model.Watermark."
READY = True
XCHECK = 30
RULE = ("upd cases = report sequences for a fresh PartitionConfirmationState: rf in {1..12,0,13,255}, 1..10 (quick) / 1..16 (thorough) versions, "
        "per version a chain of counts (final count: 0, quorum-1, quorum, random >= quorum, or no report at all = gap), stale lower counts and exact duplicates, "
        "multi-event transactions (runs of versions reported with one count), reports for version 0, u64::MAX and beyond a gap; every report multiset is run in 4 (quick) / 6 (thorough) "
        "orders (ascending, descending, best-count-first, random shuffles); plus 255/256/300/600 duplicates of one sub-quorum report. "
        "persist cases = a real database whose events carry the on-disk counts, a real BucketConfirmationManager fed reports and explicit persists, then the final persist; "
        "from the files before/after it the directory state of every crash point (pre, temp empty, temp half, temp full, previous removed, current renamed, done) and three damaged states "
        "(current bit-flipped, current truncated, all files missing) is installed and a fresh manager is initialised on it. "
        "A case is non-trivial when the watermark moves (upd) or the watermark before the crash is > 0 (persist). distinct = distinct case strings.")
ASSUMPTIONS = [
    "Model/Watermark.v is hand-written from crates/sierradb-cluster/src/confirmation.rs:83-156, 250-300, 336-375, 378-462; tie = this differential run",
    "C08_restart_* assume the on-disk confirmation counts cover the in-memory watermark (wm_disk_covers); C08_restart_history derives that from two facts read off the code: "
    "every on-disk rewrite uses a quorum count (transaction.rs:75-84 confirmed_replicas.len() >= required_quorum, confirm.rs:88-94 relays that count) and a report is sent only after "
    "the on-disk write it describes (transaction.rs:78-110, confirm.rs:88-105, replicate.rs:288-336, confirmation.rs:281-296). Those call sites are not executed by this check (multi-node paths).",
    "u64 version / u8 count overflow is not modelled (2^64 events unreachable); the 5 s auto-persist timer is not modelled (the harness re-runs a case that took longer than 3.5 s)",
    "file-system model: a file is missing / undecodable / a valid snapshot; rename is atomic; nothing about power loss beyond what write+sync_all+rename give a process crash",
]
TRUSTED = ["bincode + crc32fast detect a truncated or bit-flipped state file (exercised by the 'tH', 'cc', 'ct' crash states on the real loader)"]

def _kv(o):
    d = {}
    for t in o.split():
        k, _, v = t.partition("=")
        d[k] = v
    return d
def _list(s):
    s = s.strip()
    return [x for x in s[1:-1].split(",") if x]

def parse_upd(c):
    t = c.split()
    rf = int(t[1]); reps = []
    for tok in t[2:]:
        vc, _, n = tok.partition("*")
        v, _, cc = vc.partition(":")
        reps += [(int(v), int(cc))] * (int(n) if n else 1)
    return rf, reps
def quorum(rf): return (rf // 2) + 1          # u8 arithmetic: rf <= 255, no overflow
def prefix(q, best):
    k = 0
    while best.get(k + 1, 0) >= q: k += 1
    return k
def parse_persist(c):
    t = c.split()
    rf = int(t[1])
    disk = []
    d = t[2][2:]
    if d != "-":
        for x in d.split(","):
            cc, _, k = x.partition("x")
            disk += [int(cc)] * (int(k) if k else 1)
    return rf, disk, t[3][4:]

def model_case(c): return c

def monitor(c, o):
    if o == "PANIC": return ("panic", f"{c[:120]}: the real code panicked")
    if o.startswith("ERR"): return ("error", f"{c[:120]}: {o}")
    if c.startswith("upd "):
        rf, reps = parse_upd(c)
        q = quorum(rf)
        d = _kv(o)
        ws = [int(x) for x in _list(d["ws"])]
        if len(ws) != len(reps): return ("shape", f"{c[:120]}: {len(ws)} watermark samples for {len(reps)} reports")
        best, prev = {}, 0
        for i, ((v, cc), w) in enumerate(zip(reps, ws)):
            best[v] = max(best.get(v, 0), cc)
            if w < prev: return ("monotone", f"{c[:200]}: watermark went from {prev} to {w} at report #{i + 1} ({v}:{cc})")
            p = prefix(q, best)
            if w > p: return ("sound", f"{c[:200]}: watermark {w} after report #{i + 1} exceeds the longest quorum-confirmed prefix {p} of the best reported counts")
            prev = w
        if reps and int(d["w"]) != prev: return ("shape", f"{c[:120]}: final watermark {d['w']} differs from the last sample {prev}")
        p = prefix(q, best)
        if int(d["w"]) != p:
            return ("complete", f"{c[:200]}: final watermark {d['w']}, but the longest quorum-confirmed prefix of the best reported counts is {p} (order dependence / lost report)")
        return None
    if c.startswith("persist "):
        rf, disk, _ = parse_persist(c)
        q = quorum(rf)
        d = _kv(o)
        wb = int(d["wb"])
        covers = wb <= len(disk) and all(x >= q for x in disk[:wb])
        for cp in _list(d["cps"]):
            name, w, gap = cp.split(":")
            if covers and int(w) < wb:
                return ("restart", f"{c[:200]}: watermark {wb} before the crash, {w} after restarting from crash state '{name}' although the on-disk counts cover {wb}")
        return None
    return ("shape", "unknown case kind")

def nontrivial(c, o):
    d = _kv(o) if "=" in o else {}
    if c.startswith("upd "): return d.get("w", "0") != "0"
    return d.get("wb", "0") != "0"

def shrink_key(c): return (len(c.split()), len(c), c)

def coq_goal(c, e):
    if e is None or not c.startswith("upd ") or "*" in c: return None
    rf, reps = parse_upd(c)
    if len(reps) > 40: return None
    d = _kv(e)
    u = "; ".join("(%s, %s)" % tuple(x.split(":")) for x in _list(d["u"]))
    rs = "; ".join(f"({v}, {cc})" for v, cc in reps)
    return (f"let s := wm_run {rf} [{rs}] in (wm_mark s, wm_high s, wm_unconf s) = ({d['w']}, {d['hv']}, [{u}])")

def distribution(pairs):
    d = {"upd": 0, "persist": 0, "upd.moved": 0, "upd.stale_lower": 0, "upd.dups": 0, "persist.wb>0": 0, "persist.covered": 0, "crash_states": 0, "panic": 0}
    for c, o in pairs:
        if o == "PANIC": d["panic"] += 1; continue
        if c.startswith("upd "):
            d["upd"] += 1
            rf, reps = parse_upd(c)
            if nontrivial(c, o): d["upd.moved"] += 1
            seen, stale = {}, False
            for v, cc in reps:
                if v in seen and cc < seen[v]: stale = True
                seen[v] = max(seen.get(v, 0), cc)
            if stale: d["upd.stale_lower"] += 1
            if len(set(reps)) < len(reps): d["upd.dups"] += 1
        elif c.startswith("persist ") and o.startswith("wb="):
            d["persist"] += 1
            rf, disk, _ = parse_persist(c)
            k = _kv(o); wb = int(k["wb"])
            if wb > 0: d["persist.wb>0"] += 1
            if wb <= len(disk) and all(x >= quorum(rf) for x in disk[:wb]): d["persist.covered"] += 1
            d["crash_states"] += len(_list(k["cps"]))
    return d

LEVEL_TEXT = ("Machine-checked proof (Coq) about the model of PartitionConfirmationState::update_confirmation and of the persist/load/rescan cycle: the watermark never decreases "
              "(C08_monotone_step for any state, C08_monotone along histories), never exceeds the quorum prefix of the best reported counts (C08_sound), and for EVERY report sequence "
              "- any order, duplicates, stale lower counts, gaps - equals that prefix (C08_exact), hence depends only on the set of reports (C08_order_independent, "
              "C08_permutation_independent); the pre-repair code is shown order dependent (C08_original_order_dependent). Restart: for every crash point of persist_bucket_state and "
              "in fact every directory content, load + rescan reaches at least the pre-crash watermark when the on-disk counts cover it (C08_restart_crash, C08_restart_any_dir), that "
              "coverage is an invariant of every history obeying the code's write-then-report discipline (C08_restart_history), the rename sequence is atomic for the loader "
              "(C08_persist_atomic), and a start without a state file yields exactly the quorum prefix of the on-disk counts (C08_fresh_start_exact). "
              "Tie to the code: differential run of the real type / real manager (real files, real database) against the extracted model, plus a direct monitor.")
LEVEL_NOTE = ("Trusted: Coq kernel, extraction (ExtrOcamlBasic), OCaml driver glue, Rust harness, the Python monitor. Theorems are about Model/Watermark.v; the restart theorems "
              "rest on the stated on-disk-coverage discipline of the multi-node write path, which is read off the code but not executed here. All theorems closed under the global context.")
TECHNIQUE = "Coq proof of a hand-written Gallina model + differential correspondence check (extracted OCaml model vs real Rust code, incl. crash directory states)"
