"""C13 storage placement vs cluster routing: K1 differential on (N, idx, B, P, rf) + direct monitor."""
PROP = "C13"
COQ_IMPORTS = "From SV Require Import Model.Topology Model.Placement."
READY = True
XCHECK = 40
RULE = ("cases = (N,idx,B,P,rf): every configuration accepted by validate() with N<=8, idx<N, B<=16, rf<=N and P every value in max(N,B)..32 (thorough, about 76k) "
        "or P in {max(N,B), +1, 2max+1, 31, 32} (quick, about 16k); all combinations around the validation edges for N<=8 (N=0, idx>=N, rf in {0,N+1}, B=0, P<B, P<N); "
        "boundary cluster sizes N in {9,12,13,14,16,17,64,100,254..258,300,320,321,511..513,1000 (+4096, 65535 thorough)} with idx in {0,1,N/2,N-2,N-1,rnd}, "
        "rf in {1,2,3,5,11,12,13,255,min(N,255),rnd}, B in {1,2,3,N-1,N,N+1,2N-1,2N,2N+1,1000,4096,65535,rnd}, P in {max,max+1,2max+3,65535,max+rnd} "
        "(36 candidates per N quick, 260 thorough; candidates with P>2000 are kept while a per-N partition budget lasts), the largest counts once each "
        "(N=256 B=P=65535; N=300 P=65535 rf=12; thorough also N=65535 and N=4096), and 500/4000 random configurations with B,P up to 65535 (same budget rule). "
        "Observed per case: validate() verdict, assigned_buckets, assigned_partitions, TopologyManager.assigned_partitions and, for N<=320, the "
        "partitions whose replica list contains the node once all N nodes are known. "
        "A case is non-trivial when the configuration is accepted and the node stores a proper subset of the buckets. distinct = distinct case strings.")
ASSUMPTIONS = [
    "Model/Placement.v is hand-written from config.rs:271-455 / manager.rs:102-161; tie = this differential run",
    "bucket.ids / partition.ids overrides are not given (they replace the computed sets verbatim and are outside the property's quantifier)",
    "all settings of AppConfig that do not involve node count/index, bucket/partition count or replication factor are valid",
    "for N > 320 no routing table is built (only the node's own claim is compared)",
]

def model_case(c): return c
def parse(c):
    t = c.split(); return tuple(int(x) for x in t[1:6])
def plist(s):
    s = s.strip()
    if not (s.startswith("[") and s.endswith("]")): return None
    return [int(x) for x in s[1:-1].split(",") if x]
def fields(o):
    d = {}
    for tok in o.split():
        k, _, v = tok.partition("=")
        d[k] = v
    return d

def monitor(c, o):
    n, idx, b, p, rf = parse(c)
    if o in ("INVALID", "INVALID-ERR"): return None          # not an accepted configuration
    if o.startswith("PANIC") or o == "CONFIG-ERR":
        return ("panic", f"configuration N={n} idx={idx} B={b} P={p} rf={rf} is accepted by validate() but {o}")
    f = fields(o)
    cb, cp, tp = plist(f["cb"]), plist(f["cp"]), plist(f["tp"])
    claimed = sorted({q % b for q in tp})
    if sorted(cb) != claimed:
        return ("buckets", f"N={n} idx={idx} B={b} P={p} rf={rf}: node opens buckets {cb[:12]} but the topology claims partitions of buckets {claimed[:12]}")
    if cp != tp:
        return ("partitions", f"N={n} idx={idx} B={b} P={p} rf={rf}: server passes partitions {cp[:12]} to the cluster, topology claims {tp[:12]}")
    if f["rt"] != "skip":
        rt = plist(f["rt"])
        sb = set(cb)
        bad = [q for q in rt if q % b not in sb]
        if bad:
            return ("routing", f"N={n} idx={idx} B={b} P={p} rf={rf}: partition {bad[0]} (bucket {bad[0] % b}) is routed to the node, which does not store that bucket")
        if sorted({q % b for q in rt}) != sorted(cb):
            return ("routing", f"N={n} idx={idx} B={b} P={p} rf={rf}: node opens buckets {cb[:12]} but is routed buckets {sorted({q % b for q in rt})[:12]}")
        if rt != tp:
            return ("claim-route", f"N={n} idx={idx} B={b} P={p} rf={rf}: topology claims {tp[:12]} but routes {rt[:12]} to the node")
    return None

def nontrivial(c, o):
    if not o.startswith("cb="): return False
    n, idx, b, p, rf = parse(c)
    return len(plist(fields(o)["cb"])) < b
def shrink_key(c):
    n, idx, b, p, rf = parse(c); return (n, b, p, rf, idx)
def coq_list(l): return "[" + "; ".join(str(x) for x in l) + "]"
def coq_goal(c, e):
    if e is None: return None
    n, idx, b, p, rf = parse(c)
    if e == "INVALID": return f"cfg_validate {n} {idx} {b} {p} {rf} = false"
    if not e.startswith("cb=") or p > 600: return None
    f = fields(e)
    lhs = [f"cfg_validate {n} {idx} {b} {p} {rf}", f"cfg_buckets {n} {idx} {b} {rf}", f"cfg_partitions {n} {idx} {b} {p} {rf}",
           f"topo_assigned_gen RfWide {n} {b} {p} {rf} {idx}"]
    rhs = ["true", coq_list(plist(f['cb'])), coq_list(plist(f['cp'])), "Some " + coq_list(plist(f['tp']))]
    if f["rt"] != "skip":
        lhs.append(f"topo_routed RfWide {n} {b} {p} {rf} {idx}"); rhs.append(coq_list(plist(f['rt'])))
    g = "(" + ", ".join(lhs) + ") = (" + ", ".join(rhs) + ")"
    return g
def distribution(pairs):
    d = {"accepted": 0, "rejected": 0, "panic": 0, "N<=8": 0, "8<N<256": 0, "N>=256": 0, "N>320 (no routing table)": 0,
         "rf=N (stores everything)": 0, "proper subset of buckets": 0, "B>N": 0, "P>=20000": 0}
    for c, o in pairs:
        n, idx, b, p, rf = parse(c)
        if o.startswith("cb="):
            d["accepted"] += 1
            if len(plist(fields(o)["cb"])) < b: d["proper subset of buckets"] += 1
        elif o.startswith("INVALID"): d["rejected"] += 1
        else: d["panic"] += 1
        d["N<=8" if n <= 8 else "8<N<256" if n < 256 else "N>=256"] += 1
        if n > 320: d["N>320 (no routing table)"] += 1
        if rf == n: d["rf=N (stores everything)"] += 1
        if b > n: d["B>N"] += 1
        if p >= 20000: d["P>=20000"] += 1
    return d
LEVEL_TEXT = ("Machine-checked proof (Coq) that for every (N, idx, B, P, rf) accepted by the model of AppConfig::validate the buckets the server opens are exactly "
              "the buckets of the partitions the topology claims, the partitions it hands to the cluster are the claimed ones, and the replica walk of a partition "
              "reaches the node iff the node stores the partition's bucket (C13_agree; no bound on any parameter), plus the two historical refutations "
              "(contiguous bucket ranges: C13_contiguous_refuted; u8-truncated replication factor at N=256: C13_u8_refuted). Tie to the code: differential run of the "
              "real AppConfig and the real TopologyManager against the extracted model, exhaustive over the accepted configurations with N<=8, B<=16, P<=32 and "
              "boundary/sampled beyond, and a direct monitor of the property statement on the implementation's outputs.")
LEVEL_NOTE = ("Trusted: Coq kernel, extraction (ExtrOcamlBasic), OCaml driver glue, Rust harness, the Python monitor. The theorem is about Model/Placement.v; the "
              "correspondence is exhaustive only for the small box and sampled above it; bucket.ids/partition.ids overrides are not covered. All theorems closed under the global context.")
TECHNIQUE = "Coq proof of a hand-written Gallina model + differential correspondence check (extracted OCaml model vs real AppConfig / TopologyManager)"
