from checks.storelib import *
from checks import storelib
PROP = "C01"
READY = False
LEVEL_TEXT = "pending"; LEVEL_NOTE = "pending"; TECHNIQUE = "Coq proof + history differential"
RULE = ("histories in which every append (single/multi-event, valid, rejected for version/key/sequence, failing half-way on a bad timestamp, too big) is followed at once by "
        "event lookup / partition scan / stream scan of the acknowledged events, with rollovers (128 KiB segments) and reopen; non-trivial = >=2 appends, one succeeded")
monitor_e = storelib.monitor_kinds({"RE", "RT", "SS", "SP", "RO"}, "acked")
