from checks.storelib import *
from checks import storelib
PROP = "C01"
READY = True
LEVEL_TEXT = ("Machine-checked proof (Coq): once an append succeeded and was published by the sync that precedes its acknowledgement, its events are in the visible abstract log, event lookup returns exactly them and "
              "read_transaction the whole transaction, and this stays true after any further operations: failed/rejected appends, syncs, rollovers, reopen, crashes that keep the acknowledged prefix "
              "(C01_ack_visible, C01_visible_monotone, C01_read_visible); the ack itself is tied to the sync by C20's SyncWatch theorems. Tie to the code: every append of generated histories is followed at once by lookups "
              "and scans on the real Database and again after reopen; byte-identical content is checked by the harness; 'was fsynced' is observed independently of the Rust source by an LD_PRELOAD interposer that tracks "
              "written-but-unsynced byte ranges of every data.evts file at acknowledgement time.")
LEVEL_NOTE = ("Trusted: Coq kernel, extraction, OCaml driver, Rust harness, the libsvio.so interposer (fdatasync/fsync = durable; what the OS/disk do below that is not modelled). Scans of acknowledged events rely on C03. "
              "Event-id uniqueness is a hypothesis of the lookup theorems (the code does not enforce it).")
TECHNIQUE = "Coq proof (visibility invariant over operation lists) of a hand-written Gallina model + read-after-ack history differential + LD_PRELOAD fsync observation on the real Database"
RULE = ("histories in which every append (single/multi-event, valid, rejected for version/key/sequence, failing half-way on a bad timestamp, too big) is followed at once by "
        "event lookup / partition scan / stream scan of the acknowledged events, with rollovers (128 KiB segments) and reopen; non-trivial = >=2 appends, one succeeded")
monitor_e = storelib.monitor_kinds({"RE", "RT", "SS", "SP", "RO"}, "acked", durable=True)
ENV = {"LD_PRELOAD": storelib.ensure_svio(), "SV_SYNC_MS": "50", "SV_HISTORIES_QUICK": "70", "SV_HISTORIES_THOROUGH": "400"}
