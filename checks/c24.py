"""C24 distribute_partition: K1 differential on (h, n, rf) + direct monitor of the property statement."""
PROP = "C24"
COQ_IMPORTS = "From SV Require Import Model.Topology."
READY = True
RULE = ("cases = (h,n,rf): quick = every n in 0..1200, boundary n (4095..4097, 21844/5, 32767..32769, 43688..43691, 65521, 65533..65535) and 1500 random n; "
        "thorough = every n in 0..65535; h in {0,n-2,n-1,n,65535,2 random}; rf in {0,1,2,3,11,12,13,255}. "
        "c24p = pairs rf1<rf2 (all pairs in 0..14, and {1,2,5,12} x 255) on one (h,n), n in 0..40 (thorough 0..300), boundary n and 60 (2000) random n, 6-7 h each: the smaller result must be a prefix of the larger. "
        "A case is non-trivial when n>0, rf>1 (the jump loop runs). distinct = distinct case strings.")
ASSUMPTIONS = ["Model/Topology.v is hand-written from crates/sierradb-topology/src/lib.rs:56-114; tie = this differential run",
               "ArrayVec capacity 12 = MAX_REPLICATION_FACTOR is modelled as the constant MAX_RF"]
def model_case(c): return c
def parse(c):
    t = c.split(); return int(t[1]), int(t[2]), int(t[3])
def parse_list(o):
    o = o.strip()
    if not (o.startswith("[") and o.endswith("]")): return None
    return [int(x) for x in o[1:-1].split(",") if x]
def monitor(c, o):
    if c.startswith("c24p "):
        t = c.split(); h, n, r1, r2 = int(t[1]), int(t[2]), int(t[3]), int(t[4])
        o1, o2 = o.split("|")
        for rf, oo in ((r1, o1), (r2, o2)):
            m = monitor(f"c24 {h} {n} {rf}", oo)
            if m: return m
        a, b = parse_list(o1), parse_list(o2)
        if b[:len(a)] != a:
            return ("prefix", f"distribute_partition({h},{n},{r1}) = {a} is not a prefix of distribute_partition({h},{n},{r2}) = {b}")
        return None
    h, n, rf = parse(c)
    if o == "PANIC": return ("panic", f"distribute_partition({h},{n},{rf}) panicked")
    r = parse_list(o)
    want = min(rf, n, 12)
    if len(r) != want: return ("length", f"distribute_partition({h},{n},{rf}) returned {len(r)} partitions, expected min(rf,n,12)={want}")
    if len(set(r)) != len(r): return ("distinct", f"distribute_partition({h},{n},{rf}) = {r} has duplicates")
    if any(p >= n for p in r): return ("range", f"distribute_partition({h},{n},{rf}) = {r} has an id >= n")
    if r and r[0] != h % n: return ("first", f"distribute_partition({h},{n},{rf}) first is {r[0]}, expected {h % n}")
    return None
def nontrivial(c, o):
    if c.startswith("c24p "): t = c.split(); return int(t[2]) > 0 and int(t[4]) > 1
    h, n, rf = parse(c); return n > 0 and rf > 1
def shrink_key(c):
    if c.startswith("c24p "): t = c.split(); return (int(t[2]), int(t[4]), int(t[1]), int(t[3]))
    h, n, rf = parse(c); return (n, rf, h)
def coq_goal(c, e):
    if e is None or e == "PANIC": return None
    if c.startswith("c24p "): return None
    h, n, rf = parse(c)
    return f"distribute {h} {n} {rf} = [{'; '.join(str(x) for x in parse_list(e))}]"
def distribution(pairs):
    d = {"n=0": 0, "n<=2": 0, "n<=43689": 0, "n>43689": 0, "rf<=1": 0, "rf>=12": 0, "panic": 0}
    d["prefix-pairs"] = 0
    for c, o in pairs:
        if c.startswith("c24p "): d["prefix-pairs"] += 1; continue
        h, n, rf = parse(c)
        d["n=0" if n == 0 else "n<=2" if n <= 2 else "n<=43689" if n <= 43689 else "n>43689"] += 1
        if rf <= 1: d["rf<=1"] += 1
        if rf >= 12: d["rf>=12"] += 1
        if o == "PANIC": d["panic"] += 1
    return d
LEVEL_TEXT = ("Machine-checked proof (Coq) that the model of distribute_partition returns min(rf,n,12) pairwise distinct ids below n, first = h mod n, "
              "prefix-monotone in rf, for every h, n, rf (C24_spec, via gcd(jump n, n)=1 and Gauss' lemma), that its loop never panics (C24_total), "
              "plus what the original u16 addition did (C24_u16_ok_small / C24_u16_refuted). Tie to the code: differential run of the real function "
              "against the extracted model on every n (thorough) or a boundary-heavy subset (quick), and a direct monitor of the property statement.")
LEVEL_NOTE = ("Trusted: Coq kernel, extraction (ExtrOcamlBasic), OCaml driver glue, Rust harness. The theorem is about Model/Topology.v; "
              "the correspondence is exhaustive over n (thorough tier) but samples h. All theorems closed under the global context (no axioms).")
TECHNIQUE = "Coq proof of a hand-written Gallina model + differential correspondence check (extracted OCaml model vs real Rust function)"
