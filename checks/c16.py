"""C16 concurrent conflicting appends are serialised: trace validation of the REAL Database under racing clients
(harness/cconc) against the extracted reference store, plus a K1 comparison of the bucket -> writer-thread routing."""
from checks.conclib import *
from checks import conclib
PROP = "C16"
READY = True
XCHECK = 40
LEVEL_TEXT = ("Machine-checked proof (Coq) about the interleaving model Model/Interleave.v: clients send requests into one FIFO per writer thread "
              "(bucket_of pid = pid mod nb, thread_of = the arithmetic of bucket_id_to_thread_id, proved a total, onto, balanced function of the bucket: "
              "C16_thread_of_total/onto/balanced); each worker pops its FIFO and runs the sequential append of Model/Store.v. For EVERY interleaving of "
              "sends, worker steps (any rollover decision) and syncs, every bucket's answers equal folding the reference spec_append over the bucket's "
              "arrival order and its abstract state is that execution's log (C16_serial, C16_serial_final; via C02's simulation C02_accept_iff_step); in such "
              "a serial execution no two accepted requests carry the same Exact v / Empty expectation on a stream (C16_no_double_success). "
              "Tie to the code: traces of the real Database with 2-10 racing clients on shared streams over 1-4 buckets and 1-4 writer threads with "
              "frequent rollovers; the successes, ordered by the worker's reply (hook stamp), are replayed on the extracted spec_append and must "
              "reproduce exactly, every rejected append must be the reference's answer at an admissible position; thread routing compared value by value.")
LEVEL_NOTE = ("PARTIAL: the proof is about the model; that the code has the model's structure (one mpsc FIFO and ONE thread per worker, a WriterSet touched "
              "only by its worker, a stream's state confined to its partition's bucket) is read off the code and tested, not proved about Rust. tokio scheduling "
              "is not modelled; the free-running races explore only the interleavings the scheduler produces. Trusted: Coq kernel, extraction, ocaml/d_conc.ml, "
              "the harness and the hook stamps.")
TECHNIQUE = "Coq proof of an interleaving (FIFO-per-worker) model by invariant over step lists, reusing C02's simulation; trace validation of the real Database against the extracted reference; differential test of the routing function"
RULE = ("stress runs: B in {1,2,3,4} buckets x T writer threads (T | B), 2-6 (thorough 2-10) client tasks x 8-20 (thorough 8-40) appends of 1-3 events "
        "(payloads 3-30 KB, 128 KiB segments) on S shared streams with Exact(last seen +0/+1/-1) / Empty / Any / Exists expectations and occasional "
        "expected partition sequences, 1-4 reader tasks; every choice from the seed. route cases: all (nb<=10 (24), nt<=nb) positions plus random nb up to 65535 "
        "with boundary positions. non-trivial = a run with at least one accepted and one rejected append (a conflict), or a route case")
ASSUMPTIONS = conclib.ASSUMPTIONS_COMMON + [
    "each stream is used with one partition (the harness derives the partition from the stream), as the cluster layer does; the reference store is per bucket",
]

def agree(c, o, e):
    if is_route(c): return o == e
    return field(e, "a") in ("ok", "skip")

def nontrivial(c, o):
    if is_route(c): return True
    s = summary(o)
    return int(s.get("ok", "0")) >= 1 and int(s.get("err", "0")) >= 1

def coq_goal(c, expected):
    if not is_route(c) or not expected or "none" in expected: return None
    d = cfg_of(c)
    pos = [p for p in d.get("pos", "").split(",") if p]
    if not pos or len(pos) > 40: return None
    return "map (thread_of %s %s) [%s] = [%s]" % (d["nb"], d["nt"], "; ".join(pos), "; ".join(expected.split(",")))

def monitor(c, o):
    if is_route(c):
        d = cfg_of(c); nb, nt = int(d["nb"]), int(d["nt"])
        vals = o.split(",") if o else []
        for p, v in zip([int(x) for x in d.get("pos", "").split(",") if x], vals):
            if p >= nb: continue
            if not v.isdigit(): return ("c16:route", f"bucket position {p} of {nb} has no writer thread ({v}) with {nt} threads")
            if int(v) >= nt: return ("c16:route", f"bucket position {p} of {nb} is routed to thread {v} >= {nt}")
        return None
    if o.startswith("open-err"): return ("c16:open", f"database did not open: {o[:200]}")
    tr = Trace(c)
    if any(a["res"] == "PANIC" for a in tr.odd): return ("c16:panic", "an append panicked")
    if tr.odd: return None      # a timed-out append may or may not have been applied: C20's business
    if tr.problems: return ("c16:result", "; ".join(tr.problems[:3]))
    # per partition: the accepted transactions' sequences tile 0..n
    bypid = {}
    for a in tr.succ: bypid.setdefault(a["pid"], []).append(a)
    for pid, l in bypid.items():
        nxt = 0
        for a in sorted(l, key=lambda a: a["first"]):
            if a["first"] != nxt:
                return ("c16:sequence", f"partition {pid}: accepted appends do not form a serial order: #{a['op']} got sequences {a['first']}..{a['last']} where {nxt} was next (two successes claim the same sequence, or a gap)")
            nxt = a["last"] + 1
    # an accepted expected partition sequence was true
    for a in tr.succ:
        x = a["xseq"]
        if (x == "n" and a["first"] != 0) or (x == "e" and a["first"] == 0) or (x.startswith("x") and a["first"] != int(x[1:]) + 1):
            return ("c16:expect", f"#{a['op']} was accepted with expected partition sequence {x} but got sequence {a['first']}")
    # per stream: versions 0,1,2,... each assigned once
    bysid = {}
    for eid, e in tr.events.items(): bysid.setdefault(e["sid"], []).append(e)
    for sid, l in bysid.items():
        vs = sorted(e["ver"] for e in l)
        if vs != list(range(len(vs))):
            return ("c16:version", f"stream {sid}: the accepted events' versions are {vs[:30]}, not 0..{len(vs)-1} each once")
    # an accepted expectation was true, and no two accepted appends share an Exact/Empty expectation on a stream
    claimed = {}
    for eid, e in tr.events.items():
        if not e["first"]: continue
        xv, ver = e["xv"], e["ver"]
        if xv == "n" and ver != 0: return ("c16:expect", f"#{e['op']} was accepted with expectation Empty on stream {e['sid']} but its event got version {ver}")
        if xv.startswith("x") and ver != int(xv[1:]) + 1: return ("c16:expect", f"#{e['op']} was accepted with expectation Exact({xv[1:]}) on stream {e['sid']} but its event got version {ver}")
        if xv == "e" and ver == 0: return ("c16:expect", f"#{e['op']} was accepted with expectation Exists on the empty stream {e['sid']}")
        if xv == "n" or xv.startswith("x"):
            k = (e["sid"], xv)
            if k in claimed: return ("c16:double", f"two accepted appends (#{claimed[k]} and #{e['op']}) both carried expectation {xv} for stream {e['sid']}")
            claimed[k] = e["op"]
    # a rejection reports a current version/sequence that really violates the expectation and that the stream/partition really had
    for a in tr.fail:
        t = a["res"].split()
        if t[1] == "ver" and len(t) >= 5:
            sid = int(t[2][1:]); cur = None if t[3][4:] == "none" else int(t[3][4:]); exp = t[4][4:]
            if not XV.match(exp): continue
            if holds(exp, cur): return ("c16:reject", f"#{a['op']} was rejected with current version {cur} although its expectation {exp} holds for it")
            intx = sum(1 for s, _, _ in a["evs"] if s == sid) - 1
            acked = [e["ver"] for e in bysid.get(sid, []) if e["ack"] < a["b"]]
            started = [e["ver"] for e in bysid.get(sid, []) if e["start"] < a["e"]]
            lo = max(acked) if acked else None
            hi = (max(started) if started else -1) + intx
            if cur is None and lo is not None: return ("c16:reject", f"#{a['op']} was rejected with 'stream {sid} is empty' after version {lo} had been acknowledged")
            if cur is not None and (cur > hi or (lo is not None and cur < lo)):
                return ("c16:reject", f"#{a['op']} was rejected with current version {cur} of stream {sid}, which the stream did not have while the request was in flight (acknowledged before: {lo}, started before its end: {hi})")
        elif t[1] == "seq" and len(t) >= 4:
            cur = None if t[2][4:] == "none" else int(t[2][4:]); exp = t[3][4:]
            if not XV.match(exp): continue
            if holds(exp, cur): return ("c16:reject", f"#{a['op']} was rejected with current sequence {cur} although its expectation {exp} holds for it")
            acked = [s["last"] for s in bypid.get(a["pid"], []) if s["e"] < a["b"]]
            started = [s["last"] for s in bypid.get(a["pid"], []) if s["b"] < a["e"]]
            lo = max(acked) if acked else None
            hi = max(started) if started else None
            if (cur is None and lo is not None) or (cur is not None and (hi is None or cur > hi or (lo is not None and cur < lo))):
                return ("c16:reject", f"#{a['op']} was rejected with current sequence {cur} of partition {a['pid']}, which it did not have while the request was in flight (acknowledged before: {lo}, started before its end: {hi})")
    return None
