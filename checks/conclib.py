"""Shared parts of the concurrency checks C15 / C16 / C20.
The case is `cc <config> | <trace>` printed by harness/cconc (grammar in its main.rs): the configuration of a run
of the REAL Database with concurrent appenders and readers, plus the recorded trace (every operation stamped
from one global atomic counter at start and completion; worker-side hook events for replies, publications and
rollovers).  The observed column is a summary (counts, slowest append, the 3-attempts result for the latency
bound).  The model column comes from ocaml/d_conc.ml (extracted spec_append / SyncWatch / thread_of):
`a=<verdict> | r=<verdict> | w=<verdict>`.
The monitors below check the property text directly on the trace and use neither the model nor its verdicts.
They only demand what holds for EVERY schedule (the runs are nondeterministic)."""
import re
CRATE = "cconc"
DRIVER = "conc"
EXTRACT = "Conc"
COQ_IMPORTS = "From SV Require Import Model.Interleave Model.SyncWatch."

def model_case(c): return c

def is_route(c): return c.startswith("route ")

def cfg_of(c):
    head = c.split(" | ", 1)[0]
    d = {}
    for t in head.split()[1:]:
        if "=" in t:
            a, b = t.split("=", 1); d[a] = b
    return d

def field(e, name):
    """verdict of one section of the model's answer"""
    if not e: return ""
    for part in e.split(" | "):
        if part.startswith(name + "="): return part[len(name) + 1:]
    return ""

def summary(o):
    d = {}
    for t in (o or "").split():
        if "=" in t:
            a, b = t.split("=", 1); d[a] = b
    return d

XV = re.compile(r"^(a|e|n|x\d+)$")
def parse_items(c):
    """-> list of dicts; kinds A V Q E S P R"""
    body = c.split(" | ", 1)[1] if " | " in c else ""
    out = []
    for raw in body.split(" ; "):
        raw = raw.strip()
        if not raw: continue
        lhs, _, res = raw.partition(" = ")
        t = lhs.split()
        k = t[0]
        if k == "A":
            evs = []
            for e in t[8].split(","):
                sid, xv, eid = e.split(":")
                evs.append((int(sid), xv, int(eid)))
            out.append(dict(kind="A", op=int(t[1][1:]), c=int(t[2][1:]), b=int(t[3]), e=int(t[4]), k=int(t[5][1:]), pid=int(t[6][1:]),
                            xseq=t[7][1:], evs=evs, o=int(t[9][1:]), g=int(t[10][1:]), t=int(t[11][1:]), res=res.strip()))
        elif k in "VQES":
            d = dict(kind=k, r=int(t[1][1:]), b=int(t[2]), e=int(t[3]), pid=int(t[4][1:]), res=res.strip())
            if k in "VS": d["sid"] = int(t[5][1:])
            if k == "E": d["eid"] = int(t[5][1:])
            if k == "S": d["frm"] = int(t[6][1:])
            out.append(d)
        elif k == "P":
            out.append(dict(kind="P", bucket=int(t[1][1:]), g=int(t[2][1:]), v=int(t[3][1:]), at=int(t[4][1:])))
        elif k == "R":
            out.append(dict(kind="R", bucket=int(t[1][1:]), g=int(t[2][1:]), at=int(t[3][1:]), at2=int(t[4][1:])))
    return out

def ok_result(res):
    """'ok first last s1:3,s2:0' -> (first, last, {sid: last version})"""
    t = res.split()
    sv = {}
    if len(t) > 3:
        for x in t[3].split(","):
            a, b = x.split(":"); sv[int(a[1:])] = int(b)
    return int(t[1]), int(t[2]), sv

def holds(xv, cur):
    """does expectation xv hold for a stream/partition whose latest position is cur (None = empty)?"""
    if xv == "a": return True
    if xv == "e": return cur is not None
    if xv == "n": return cur is None
    return cur is not None and cur == int(xv[1:])

class Trace:
    """what the acknowledged appends of a trace assigned: per event its (partition, sequence, stream, version)"""
    def __init__(self, c):
        self.cfg = cfg_of(c)
        self.items = parse_items(c)
        self.nb = int(self.cfg.get("B", "1"))
        self.apps = [i for i in self.items if i["kind"] == "A"]
        self.succ = [a for a in self.apps if a["res"].startswith("ok")]
        self.fail = [a for a in self.apps if a["res"].startswith("err ")]
        self.odd = [a for a in self.apps if not (a["res"].startswith("ok") or a["res"].startswith("err "))]
        self.reads = [i for i in self.items if i["kind"] in "VQES"]
        self.events = {}      # eid -> dict(pid, seq, sid, ver, ack=end stamp, start)
        self.problems = []    # internal inconsistencies of successful results (C16)
        for a in self.succ:
            first, last, sv = ok_result(a["res"])
            a["first"], a["last"], a["sv"] = first, last, sv
            if last - first + 1 != len(a["evs"]):
                self.problems.append(f"#{a['op']}: {len(a['evs'])} events but sequences {first}..{last}")
            cnt = {}
            for sid, _, _ in a["evs"]: cnt[sid] = cnt.get(sid, 0) + 1
            seen = {}
            for j, (sid, xv, eid) in enumerate(a["evs"]):
                if sid not in sv:
                    self.problems.append(f"#{a['op']}: no version reported for stream {sid}"); continue
                ver = sv[sid] - cnt[sid] + 1 + seen.get(sid, 0)
                seen[sid] = seen.get(sid, 0) + 1
                self.events[eid] = dict(pid=a["pid"], seq=first + j, sid=sid, ver=ver, ack=a["e"], start=a["b"], op=a["op"], first=(seen[sid] == 1), xv=xv)

def distribution(pairs):
    d = {}
    for c, o in pairs:
        if is_route(c):
            d["route"] = d.get("route", 0) + 1; continue
        kind = cfg_of(c).get("kind", "?")
        d["run:" + kind] = d.get("run:" + kind, 0) + 1
        s = summary(o)
        for k in ("ok", "err", "timeout", "reads", "roll"):
            try: d[k] = d.get(k, 0) + int(s.get(k, "0"))
            except ValueError: pass
        try: d["maxms"] = max(d.get("maxms", 0), int(s.get("maxms", "0")))
        except ValueError: pass
        cfg = cfg_of(c)
        key = "B%s/T%s" % (cfg.get("B"), cfg.get("T"))
        d[key] = d.get(key, 0) + 1
    return d

def shrink_key(c): return (len(c), c)

ASSUMPTIONS_COMMON = [
    "Model/Interleave.v and Model/SyncWatch.v are hand-written from writer_thread_pool.rs, reader_thread_pool.rs and database.rs; the atomicity of the model's steps is ASSUMED to match the code's lock scopes / the single writer thread per bucket / the mpsc FIFO (read off the code, not proved about Rust)",
    "tokio and rayon scheduling, the OS scheduler and fsync latency are not modelled; the tie to the code is the validation of traces of the real Database (free-running stress + schedules forced through the cfg(sierradb_verif) pause points of hook commits dbbccfb, f516bff)",
    "the trace's clock is one global atomic counter; an operation's start stamp is taken before it is issued and its end stamp after it returned, worker-side events are stamped by the worker thread itself ('wtp.published' just before the watch value is replaced)",
    "the sequential behaviour of one bucket (append/publish/rollover vs spec_append) is C02's simulation proof (Proofs/StoreSimProofs.v), reused unchanged",
]
