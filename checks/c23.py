"""C23 identifiers: K1 differential of sierradb::id and Transaction::new against the extracted model + direct monitors."""
PROP = "C23"
COQ_IMPORTS = "From SV Require Import Model.Ids."
READY = True
XCHECK = 60
RULE = ("gen: every partition hash 0..65535 with 1 (quick) / 8 (thorough) ids from the real generator (+4 for 8 boundary hashes), each id re-composed by the model "
        "from its extracted fields; flag: set_uuid_flag/get_uuid_flag with both flag values on 0, all-ones, all 128 single-bit patterns, their complements, "
        "single bit + bit 63, layout boundaries, 15000 / 200000 random u128 (random bit lengths, two-bit, all-but-one-bit), 2000 v4-shaped and 2000 generated ids; "
        "route: 10000 / 100000 ids x partition/bucket counts from {0,1,2,65535,powers of two,...,random<=2000} plus a divisible pair; "
        "samekey: 6000 / 60000 partition keys (v5 of a stream name or random) with 1..4 generated event ids (flag set/cleared/untouched); "
        "txnew: 6000 / 60000 Transaction::new calls with 0..5 ids (valid generated, right-hash arbitrary, non-hash bits flipped, one hash bit flipped, foreign hash, random). "
        "non-trivial = all. distinct = distinct case strings.")
ASSUMPTIONS = ["Model/Ids.v is hand-written from crates/sierradb/src/id.rs and database.rs:867-896; tie = this differential run",
               "a UUID is identified with the u128 of its big-endian bytes (Uuid::from_bytes(x.to_be_bytes()))",
               "generated ids depend on the wall clock and the thread RNG; the recorded id is part of the case and the model re-composes it from its fields"]

def model_case(c): return c
H = lambda u: (u >> 46) & 0xFFFF
def kv(o): return dict(x.split("=", 1) for x in o.split() if "=" in x)

def monitor(c, o):
    if o == "BADCASE": return None      # malformed corpus line: the harness did not run it (the model diff reports it)
    t = c.split(); k = t[0]
    if o == "PANIC" or o.startswith("err "): return ("panic", f"{c[:80]} -> {o}")
    if k == "gen":
        h = int(t[1]); d = kv(o)
        if d.get("hash") != str(h): return ("hash", f"id generated for hash {h} yields hash {d.get('hash')} (id {o.split()[0]})")
        if d.get("valid") != "true": return ("validate", f"id generated for hash {h} does not validate for it (id {o.split()[0]})")
    elif k == "flag":
        u, b = int(t[1]), t[2] == "1"; d = kv(o)
        s = int(d["set"])
        if d["get"] != str(b).lower(): return ("flag-get", f"get_uuid_flag(set_uuid_flag({u:#x}, {b})) = {d['get']}")
        if (s ^ u) & ~(1 << 63): return ("flag-frame", f"set_uuid_flag({u:#x}, {b}) changed bits {(s ^ u) & ~(1 << 63):#x} other than bit 63")
        if d["hash"] != str(H(u)) or H(s) != H(u): return ("flag-hash", f"set_uuid_flag({u:#x}, {b}) changed the embedded hash {H(u)} -> {d['hash']}")
    elif k == "samekey":
        d = kv(o); evs = d["ev"].split(",")
        if any(e != d["key"] for e in evs):
            return ("routing", f"partition key routes to partition/bucket {d['key']} but its events route to {d['ev']} (np={t[2]}, nb={t[3]})")
    elif k == "route":
        # every component (Database, cluster, server config, data on disk) places partition p in bucket p mod nb
        d = kv(o); nb = int(t[3])
        if nb > 0 and "pbucket" in d and "part" in d and d["part"].isdigit() and d["pbucket"].isdigit():
            if int(d["pbucket"]) != int(d["part"]) % nb:
                return ("routing-bucket", f"partition {d['part']} is routed to bucket {d['pbucket']} with {nb} buckets, but the bucket of a partition is {int(d['part']) % nb} (partition mod buckets): events, streams and partitions of one key no longer meet in one bucket")
    elif k == "txnew":
        key = int(t[1]); evs = [] if t[2] == "-" else [int(x) for x in t[2].split(",")]
        want = "empty" if not evs else ("ok flag=" + str(len(evs) == 1).lower() if all(H(e) == H(key) for e in evs) else "invalid")
        if o != want: return ("tx-new", f"Transaction::new with {len(evs)} ids ({sum(H(e) != H(key) for e in evs)} not validating) returned '{o}', expected '{want}'")
    return None

def nontrivial(c, o): return True
def shrink_key(c): return (len(c), c)

def coq_goal(c, e):
    if e is None or "PANIC" in e or e == "BADCASE": return None
    t = c.split(); k = t[0]
    if k == "gen": return f"mk_id (ts_of {t[2]}) (r12_of {t[2]}) {t[1]} (r46_of {t[2]}) = {e.split()[0]}"
    if k == "flag": return f"set_flag {t[1]} {'true' if t[2] == '1' else 'false'} = {kv(e)['set']}"
    if k == "route":
        d = kv(e)
        return f"extract_event_id_bucket {t[1]} {t[3]} = Some {d['ebucket']}"
    if k == "txnew":
        evs = "[" + "; ".join([] if t[2] == "-" else t[2].split(",")) + "]"
        r = {"empty": "TxNewEmpty", "invalid": "TxNewInvalidEventId"}.get(e) or f"TxNewOk (set_flag 0 {e.split('=')[1]})"
        return f"tx_new {t[1]} {evs} 0 = {r}"
    return None

def distribution(pairs):
    d = {}
    for c, o in pairs:
        k = c.split()[0]; d[k] = d.get(k, 0) + 1
        if k == "txnew": kk = "txnew:" + o.split()[0]
        elif "PANIC" in o: kk = k + ":PANIC"
        else: continue
        d[kk] = d.get(kk, 0) + 1
    return d

LEVEL_TEXT = ("Machine-checked proofs (Coq) over the bit-level model of id.rs: for every hash < 2^16 and ALL clock/random inputs hash_of (mk_id ..) = h and the id "
              "validates for h and for no other hash (C23_hash_roundtrip, C23_generated_validates); the layout is a bijection on version-7/variant-10 u128s "
              "(C23_layout, C23_recompose); set_flag changes bit 63 only, reads back, keeps the hash and every other field, stays below 2^128, for every u "
              "(C23_flag_frame, _other_fields, _idempotent, _noop); routing depends on the hash only and an id generated for a key routes to the key's partition "
              "and bucket for all counts (C23_routing_hash_only, C23_routing_same_key, C23_bucket_via_partition + counterexample without divisibility); "
              "Transaction::new accepts exactly the non-empty lists whose ids validate (C23_tx_new, C23_tx_new_generated). Tie to the code: differential run "
              "against the extracted model on every hash, all single-bit patterns and seeded random ids, plus direct monitors of the property statement.")
LEVEL_NOTE = ("Trusted: Coq kernel, extraction, OCaml driver glue, the Rust harness (u128 <-> Uuid via big-endian bytes). The theorems are about Model/Ids.v; "
              "correspondence is exhaustive over the 2^16 hashes but samples clock/random fields and u128 patterns. All theorems closed under the global context.")
TECHNIQUE = "Coq proof (N.testbit-level) of a hand-written Gallina model + differential correspondence check (extracted OCaml model vs real Rust functions)"
