"""C17 seglog records round-trip and corruption is detected: K1 differential on the record codec
(crc, round trips through every read path, corruption / truncation families, malformed buffers) + a direct
monitor of the property statement that does not use the model (zlib's CRC-32 is the independent oracle)."""
import zlib
from checks.sllib import expand, spec_len, spec_digest, digest, coq_list

PROP = "C17"
COQ_IMPORTS = "From SV Require Import Model.Crc32 Model.Seglog."
READY = True
XCHECK = 30
RULE = ("cases: `crc` = CRC model vs crc32fast through seglog::calculate_crc32c (lengths 4..140 dense (thorough 4..600), 1023..65537, split feeds); "
        "`rt` = create/append/sync then read back by Random read, Sequential read, Iter, parse_record and Writer::open: data sizes 0..300 dense "
        "(thorough 0..4200 dense), every size within 9 (thorough 40) of 128 / 2048 / 4096 and within 1 (thorough 40) of 16 KiB / 64 KiB, 200000 (thorough 1 MiB, 1 MiB+3), "
        "H in {0,1,8,16,32}, compression on/off, compressible / incompressible / zero data, start offsets {0,16,48,64}, slack {0,1,7,8,9,64,4096,70000}; "
        "`cor .. bits|burst|trunc` = EVERY single bit flip / every burst start x lengths 2..32 / every truncation length of a record, through parse_record, "
        "decided by model and implementation (records up to 48 (thorough 200) data bytes for bits/trunc, 14 (56) for bursts, plus compressed 128..300); "
        "`cor .. bitsx|burstx|truncx` = the same exhaustive enumeration on the implementation alone (monitor only) for records up to 2049 (thorough: 201..1024 dense, ..4200); "
        "`cor .. fbits|ftrunc` = flips / cuts applied to the FILE and read through fresh Readers (both hints), Iter and Writer::open; "
        "`seq` = 40 (thorough 240) sequences of 2..7 records through ONE writer (sizes <64, 100..500, 16 KiB+-40, 16 KiB..21 KiB, 64 KiB+-40, 20000..80000; a record larger than the "
        "16 KiB write buffer first in every other sequence), one sync, every record read back by Random/Sequential reads, parse_record and Iter, writer reopened (implementation alone, monitor decides); "
        "`raw` = arbitrary bytes, arbitrary length words around H, arbitrary offsets (incl. usize::MAX) to parse_record. "
        "non-trivial = every case except `skip`; distinct = distinct case strings. Stated limit: flips in the low 31 bits of the length word and bursts that "
        "straddle the crc field are detected with probability 1-2^-32 per case (a CRC-32 collision would be reported as a violation); "
        "about 2e5 (quick) / 3e6 (thorough) such corrupted variants are enumerated per run, all detected.")
ASSUMPTIONS = ["Model/Seglog.v is hand-written from crates/seglog/src/{lib,write,read,parse}.rs (after fix commits ca96f8d 140c4e4 461b593 64fd9e7); tie = this differential run",
               "zstd is not modelled: compress/decompress are universally quantified with decompress (compress x) = Some x; the stored bytes of compressed records are oracle values recorded from seglog itself (a throw-away Writer<0>)",
               "crc32fast is modelled as bit-serial reflected CRC-32 (Model/Crc32.v); tied by the `crc` cases and by every record read; the monitor checks it against zlib.crc32",
               "a decompression allocation failure (reserve(original_size) on a record with a valid CRC but bogus size field) is outside the model"]
TRUSTED = ["checks/c17.py monitor uses Python's zlib.crc32 as an independent CRC-32 oracle"]

IMPL_ONLY = ("bitsx", "burstx", "truncx")

def toks(c): return c.split()

def model_case(c):
    t = toks(c)
    if t[0] == "cor" and len(t) > 8 and t[8] in IMPL_ONLY: return "skip"
    if t[0] == "seq": return "skip"
    return c

def agree(c, o, e):
    return e == "skip" or o == e

def rec_fields(t):
    """t = tokens after the kind: H comp start slack hdr data stored"""
    H, comp, start, slack = int(t[0]), t[1] == "1", int(t[2]), int(t[3])
    hdr, data, stored = t[4], t[5], t[6]
    n = spec_len(data)
    compressed = comp and n >= 128
    stored_len = (4 + spec_len(stored)) if compressed else n
    size = start + 8 + H + n + slack
    total = 8 + H + stored_len
    fits = start + total <= size
    return H, start, hdr, data, compressed, total, fits, size

GOOD = set("COTI")

def monitor(c, o):
    t = toks(c)
    kind = t[0]
    if "PANIC" in o: return ("panic", f"{kind}: the implementation panicked: {c[:160]} -> {o[:120]}")
    if o == "BADCASE": return ("harness", f"harness could not run {c[:120]}")
    if kind == "crc":
        data = b"".join(expand(x) for x in t[1:])
        want = zlib.crc32(data) & 0xFFFFFFFF
        if o != str(want): return ("crc-value", f"calculate_crc32c gives {o}, CRC-32 of the bytes is {want} ({c[:80]})")
        return None
    if kind == "rt":
        H, start, hdr, data, compressed, total, fits, size = rec_fields(t[1:])
        f = dict(x.split("=", 1) for x in o.split("|"))
        if not fits:
            want = {"app": "full", "sync": str(start), "rnd": "oob:8", "seq": "oob:8", "iter": "^end", "open": str(start)}
            for k, v in want.items():
                if f.get(k) != v: return ("roundtrip", f"record does not fit: {k}={f.get(k)} expected {v} ({c[:100]})")
            return None
        hx = hdr[1:] if hdr[0] == "x" else expand(hdr).hex()
        dg = spec_digest(data)
        rec = f"ok:{hx}:{dg}:{'c' if compressed else 'u'}:{total}"
        want = {"app": f"{start},{total}", "sync": str(start + total), "rnd": rec, "seq": rec,
                "iter": f"{start}@{rec}^end", "parse": f"ok:{hx}:{dg}:{total}", "open": str(start + total)}
        for k, v in want.items():
            if f.get(k) != v:
                return ("roundtrip", f"{k} returned {str(f.get(k))[:90]} expected {v[:90]} for H={H} data={data[:40]} ({'compressed' if compressed else 'plain'})")
        return None
    if kind == "cor":
        H, start, hdr, data, compressed, total, fits, size = rec_fields(t[1:])
        mode = t[8]
        if o == "full": return None if not fits else ("roundtrip", f"append reported full although the record fits: {c[:100]}")
        if mode in ("bits", "bitsx", "burst", "burstx", "trunc", "truncx"):
            for i, ch in enumerate(o):
                if ch not in GOOD:
                    what = {"bits": "bit flip", "bitsx": "bit flip", "burst": "burst", "burstx": "burst", "trunc": "truncation", "truncx": "truncation"}[mode]
                    cls = "undetected-corruption" if ch in "=X" else "panic"
                    return (cls, f"parse_record returned {'the record' if ch == '=' else 'other data' if ch == 'X' else ch} for {what} #{i} of a {total}-byte record (H={H}, data={data[:40]})")
            if mode.startswith("trunc") and set(o) - {"O"}:
                # a shorter buffer must be a bounds outcome
                return ("truncation-outcome", f"truncated buffer gave outcomes {sorted(set(o))} (expected only bounds) for {c[:100]}")
            return None
        if mode in ("fbits", "ftrunc"):
            for part in o.split():
                c1, c2, rest = part[0], part[1], part[2:]
                if c1 not in GOOD or c2 not in GOOD:
                    return ("undetected-corruption", f"{mode}: read_record returned data for a corrupted/truncated record: {part} ({c[:120]})")
                if mode == "ftrunc":
                    it, op = rest.split("/")
                    if not it.startswith("0") or op != str(start):
                        return ("resume", f"ftrunc: iteration/open on a cut record gave {part}, expected no record and write offset {start} ({c[:100]})")
                elif rest != str(start):
                    return ("resume", f"fbits: Writer::open resumed at {rest} over a corrupted record, expected {start} ({c[:100]})")
            return None
    if kind == "seq":
        H, comp, start, specs = int(t[1]), t[2] == "1", int(t[3]), t[4:]
        f = dict(x.split("=", 1) for x in o.split("|"))
        lens = [spec_len(x) for x in specs]
        if f["bad"] != "-":
            return ("roundtrip-sequence", f"{len(specs)} records appended back to back (H={H}, data sizes {lens}, start {start}): {f['bad']} is not returned byte-identical at its offset")
        if f["n"] != str(len(specs)) or f["iter"] != f["n"]:
            return ("roundtrip-sequence", f"{len(specs)} records appended (sizes {lens}): {f['n']} accepted, iteration returned {f['iter']}")
        if f["sync"] != f["end"] or f["open"] != f["end"]:
            return ("resume", f"{len(specs)} records (sizes {lens}) end at {f['end']}: sync returned {f['sync']}, a reopened writer resumes at {f['open']}")
        if not comp and int(f["end"]) != start + sum(8 + H + n for n in lens):
            return ("roundtrip-sequence", f"{len(specs)} uncompressed records (sizes {lens}) from {start} end at {f['end']}, expected {start + sum(8 + H + n for n in lens)}")
        return None
    if kind == "raw":
        if o.startswith("ok:"):
            H, off, b = int(t[1]), int(t[2]), expand(t[3])
            _, hx, dg, ln = o.split(":")
            ln = int(ln)
            if off + ln > len(b) or ln < 8 + H: return ("malformed-accepted", f"parse_record accepted a record of {ln} bytes at {off} in a {len(b)}-byte buffer")
            lw = int.from_bytes(b[off:off+4], "little")
            if lw & 0x80000000: return None       # compressed: zstd is outside the monitor
            crc = int.from_bytes(b[off+4:off+8], "little")
            if (lw & 0x7FFFFFFF) + 8 != ln or zlib.crc32(b[off:off+4] + b[off+8:off+ln]) & 0xFFFFFFFF != crc:
                return ("malformed-accepted", f"parse_record accepted bytes whose CRC does not match ({c[:100]})")
            if hx != b[off+8:off+8+H].hex() or dg != digest(b[off+8+H:off+ln]):
                return ("malformed-accepted", f"parse_record returned other bytes than the buffer holds ({c[:100]})")
        return None
    return None

def nontrivial(c, o): return True
def shrink_key(c): return (len(c), c)

def coq_goal(c, e):
    if e is None: return None
    t = toks(c)
    if t[0] == "crc" and len(t) == 2 and spec_len(t[1]) <= 48:
        return f"crc32 {coq_list(expand(t[1]))} = {e}"
    if t[0] == "raw" and spec_len(t[3]) <= 40 and int(t[2]) < 2**64:
        res = {"crc": "RErr ECrc", "trunc": "RErr ETrunc", "io": "RErr EIo"}.get(e)
        if e.startswith("oob:"): res = f"RErr (EOob {e[4:]})"
        if res is None: return None
        return f"parse_record {t[1]} (fun _ => None) {coq_list(expand(t[3]))} {t[2]} = {res}"
    return None

def distribution(pairs):
    d = {}
    flips = 0
    for c, o in pairs:
        t = toks(c)
        k = t[0] if t[0] != "cor" else "cor-" + t[8]
        d[k] = d.get(k, 0) + 1
        if t[0] == "cor" and t[8] in ("bits", "bitsx", "burst", "burstx", "trunc", "truncx"): flips += len(o)
        if t[0] == "rt":
            n = spec_len(t[6])
            b = "rt-size<=2048" if n + int(t[1]) <= 2048 else "rt-size<=4096" if n + int(t[1]) <= 4096 else "rt-size>4096"
            d[b] = d.get(b, 0) + 1
            if t[2] == "1" and n >= 128: d["rt-compressed"] = d.get("rt-compressed", 0) + 1
    d["corrupted-variants-enumerated"] = flips
    return d

LEVEL_TEXT = ("Machine-checked proofs (Coq) about a byte-level model of seglog's record codec: every read path (parse_record, the optimistic/fallback/large "
              "random paths, sequential reads through a coherent read-ahead buffer) computes one function of the visible bytes (C17_*_is_decode, C17_path_*); "
              "what append stores is returned byte-identical by each of them, by iteration and the reopen scan resumes after the last intact record "
              "(C17_roundtrip_*, C17_resume), for every header/data/compression flag and ANY compress/decompress with decompress(compress x)=x; "
              "any non-zero error confined to <=32 consecutive bits of header+stored data, any change of the crc field alone, and a compression-flag flip are "
              "reported (C17_burst, C17_crc_field, C17_flag_flip; via C17_crc_burst: every <=32-bit burst changes CRC-32, all message lengths); truncation gives a bounds outcome "
              "(C17_truncation); no input makes parse_record/read_record panic (C17_total_*). Length-word flips and bursts straddling the crc field are NOT provable "
              "(C17_full_partial states what is) and are decided by exhaustive enumeration on the implementation.")
LEVEL_NOTE = ("Trusted: Coq kernel, extraction, OCaml driver glue (data expansion, enumeration loops), Rust harness, Python monitor. zstd and crc32fast are modelled/oracled, not verified. "
              "The theorems are about Model/Seglog.v; the correspondence is differential testing bounded by the generators listed in `rule`.")
TECHNIQUE = "Coq proof of a hand-written Gallina model + differential correspondence check (extracted OCaml model vs real seglog) + exhaustive corruption enumeration on the implementation"
