from checks.storelib import *
from checks import storelib
PROP = "C05"
READY = True
LEVEL_TEXT = ("Machine-checked proof (Coq): for every reachable store and every record-level crash cut at or above the published (acknowledged) prefix, reopen succeeds in the model, the store invariant holds, "
              "the recovered abstract log is a whole-transaction prefix of the attempted log that contains every acknowledged transaction, everything in it is visible to all reads, and the next append is decided "
              "by the reference spec on that prefix, so sequences and versions continue without gap or reuse (C05_recover_prefix, C05_recover_any_cut, C05_continue_gapless, C05_reopen_lossless, C05_history_refines). "
              "Tie to the code: the harness tears the last transaction of real histories at every record boundary and inside records (zero-filling the rest), reopens the real Database, reads through every API and appends again; "
              "compared with the extracted model and the spec.")
LEVEL_NOTE = ("Trusted: Coq kernel, extraction, OCaml driver, Rust harness (its file tearing). Byte-level cuts reduce to record cuts by seglog's recovery scan: proved as C05_byte_cut_is_record_cut_partial / C05_byte_crash_is_record_crash_partial "
              "under the exact side condition cut_detected (= the torn bytes followed by zeros are not accepted by the decoder), which is proved for the deterministic classes (nothing written, zeroed head, file end, "
              "lost bytes within a 32-bit burst, zero tail = record intact) and is otherwise a CRC-32 coincidence (C05_byte_cut_unconditional_refuted gives the witness). Power-loss reordering of un-fsynced pages is not modelled (a process crash keeps written bytes). Sealed-segment index files are C06's subject.")
TECHNIQUE = "Coq proof (invariant preserved by crash+reopen, prefix refinement) of a hand-written Gallina model + crash-state enumeration against the real Database"
RULE = ("histories with crashes during the last acknowledged-or-not append: only the first k records of the transaction (k = 0..n) plus a torn prefix of the next record survive (rest zero-filled); "
        "then reopen, all read APIs, further appends; non-trivial = >=2 appends, one succeeded")
ENV = {"LD_PRELOAD": storelib.ensure_svio(), "SV_SYNC_MS": "40", "SV_HISTORIES_QUICK": "90", "SV_HISTORIES_THOROUGH": "450"}
monitor_e = storelib.monitor_kinds({"CR", "RO"}, "recover", after_crash_all=True, durable=True)
