from checks.storelib import *
from checks import storelib
PROP = "C05"
READY = False
LEVEL_TEXT = "pending"; LEVEL_NOTE = "pending"; TECHNIQUE = "Coq proof + history differential"
RULE = ("histories with crashes during the last acknowledged-or-not append: only the first k records of the transaction (k = 0..n) plus a torn prefix of the next record survive (rest zero-filled); "
        "then reopen, all read APIs, further appends; non-trivial = >=2 appends, one succeeded")
monitor_e = storelib.monitor_kinds({"CR", "RO"}, "recover", after_crash_all=True)
