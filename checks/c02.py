from checks.storelib import *
from checks import storelib
PROP = "C02"
READY = True
LEVEL_TEXT = ("Machine-checked simulation proof (Coq): for every operation list (appends with any rollover/too-big oracle, syncs, reopens, crashes) the concrete record-level model of the writer "
              "(validate_event_versions' lookup chain pending -> live index -> sealed indexes, partition-sequence cache, handle_write) answers every append exactly as the abstract event store "
              "spec_append does on the abstract log: same assigned sequences/versions or the same reject reason (C02_accept_iff), a reject leaves the abstract log and every read unchanged "
              "(C02_reject_unchanged*, with the one visible exception that a rollover triggered by the rejected append syncs earlier accepted appends: C02_reject_unchanged_rollover_refuted), accepted "
              "appends get the next gapless numbers which the latest-version/sequence queries return once synced (C02_accept_numbers, C02_latest_queries). Tie to the code: histories executed on the real "
              "Database, compared op by op with the extracted model and the spec.")
LEVEL_NOTE = ("Trusted: Coq kernel, extraction, OCaml driver, Rust harness. Hypothesis wf_txn (non-empty, flag => single event) is what Transaction::new guarantees. Size-based decisions (rollover, too big) "
              "are oracle inputs here and are C19's subject. 'Changes nothing observable' is read modulo a sync of earlier ACCEPTED appends (rollover happens before the sequence/timestamp checks).")
TECHNIQUE = "Coq refinement proof (invariant + simulation by induction over operation lists) of a hand-written Gallina model + history differential against the real Database"
RULE = ("histories of appends with Any/Exists/Empty/Exact expectations (right and wrong, repeated streams inside a transaction, foreign partition keys, expected partition sequences, bad timestamps), "
        "each followed by latest-version / latest-sequence queries; rollovers and reopens in between; non-trivial = >=2 appends, one succeeded")
monitor_e = storelib.monitor_kinds({"A", "SV", "PS"}, "accept")
