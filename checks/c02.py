from checks.storelib import *
from checks import storelib
PROP = "C02"
READY = False
LEVEL_TEXT = "pending"; LEVEL_NOTE = "pending"; TECHNIQUE = "Coq proof + history differential"
RULE = ("histories of appends with Any/Exists/Empty/Exact expectations (right and wrong, repeated streams inside a transaction, foreign partition keys, expected partition sequences, bad timestamps), "
        "each followed by latest-version / latest-sequence queries; rollovers and reopens in between; non-trivial = >=2 appends, one succeeded")
monitor_e = storelib.monitor_kinds({"A", "SV", "PS"}, "accept")
