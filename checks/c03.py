from checks.storelib import *
from checks import storelib
PROP = "C03"
READY = True
RULE = ("histories of single/multi-event, multi-stream appends over 1-2 buckets with 128 KiB segments (big payloads force rollovers), reopen, "
        "then stream and partition scans from {0, mid, last, last+1, u64::MAX, random} x {forward, reverse} x batch {1,2,3,50}; "
        "non-trivial = at least two appends of which one succeeded; distinct = distinct history strings")
monitor_e = storelib.monitor_kinds({"SS", "SP", "SX"}, "scan")
LEVEL_TEXT = ("Machine-checked proof (Coq, ~3300 lines) about the faithful model of the scan iterators (BucketIter::new_inner / next_batch / rollover, SegmentIter::new / next, advance_offsets_index, "
              "filter_commit): for every reachable store (any operation list: appends, syncs, rollovers at any point, reopen, crashes), every key, start position and batch size, the forward scan never errors "
              "and returns exactly the stored events of the key at or after the position, once each, gapless and strictly increasing, grouped as the stored transactions (C03_reachable_forward_exact/groups/positions, "
              "C03_forward_no_foreign, C03_forward_group_shape); the reverse scan returns one group per key event at or before the position, newest first, each a suffix of its transaction "
              "(C03_reverse_groups/exact/group_shape/heads/all); results depend only on the visible abstract log, not on which segments are sealed or reopened (C03_independent_of_sealing, C03_same_after_rollover/reopen). "
              "Tie to the code: scans from every kind of start position x both directions x batch sizes 1/2/3/50 on the real Database across rollovers and reopen, compared with the extracted model and the spec filter.")
LEVEL_NOTE = ("Trusted: Coq kernel, extraction, OCaml driver, Rust harness. The block cache, reader thread pool, MPHF/bloom lookups of sealed indexes are not modelled: they are exercised by the runs (both the cache and the "
              "pool read paths occur) but their equivalence to the modelled lookups is tested, not proved. Reverse scans assume positions <= u64::MAX (U64ok). The reverse-scan reading 'a group may repeat its own events' "
              "admits later siblings of the transaction that contains the start position.")
TECHNIQUE = "Coq proof (refinement of the iterator model to the spec filter, by induction over segments/offsets) + history differential against the real Database"
