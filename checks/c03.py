from checks.storelib import *
from checks import storelib
PROP = "C03"
READY = False
RULE = ("histories of single/multi-event, multi-stream appends over 1-2 buckets with 128 KiB segments (big payloads force rollovers), reopen, "
        "then stream and partition scans from {0, mid, last, last+1, u64::MAX, random} x {forward, reverse} x batch {1,2,3,50}; "
        "non-trivial = at least two appends of which one succeeded; distinct = distinct history strings")
monitor_e = storelib.monitor_kinds({"SS", "SP"}, "scan")
LEVEL_TEXT = "pending"; LEVEL_NOTE = "pending"; TECHNIQUE = "Coq proof + history differential"
