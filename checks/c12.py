"""C12 replicas apply replicated writes in sequence order, each at most once.
K1: the real OrderedQueue / TimeoutOrderedQueue step by step against the extracted model; K2: the real
PartitionReplicatorActor on a real Database against the model's run; plus a direct monitor of the property."""
from collections import Counter
PROP = "C12"
COQ_IMPORTS = "From SV Require Import Model.Replicator."
READY = True
XCHECK = 40
RULE = ("cases = operation sequences. family q (real OrderedQueue) and tq (real TimeoutOrderedQueue under tokio's paused clock): "
        "3..36 ops (thorough ..60) of insert/pop/progress_to(/advance/handle_timeout), limit 1..4 (every 7th case 5..8), keys around next "
        "(at next, 1..9 ahead, below, on occupied slots), transaction id per key with a 1-in-5 variant (duplicate vs conflict), "
        "the replicator's pattern insert-at-next/progress past a c-event write/pop; compared after EVERY op (result, next, whole map, timer deadline). "
        "family rep (real PartitionReplicatorActor + real Database, ReplicateWrite in a chosen delivery order): a coordinator history of 2..8 "
        "(thorough ..12) transactions of 1..4 events from n0 in {0,1,3,5}, window-shuffled, with duplicates, other transactions at the same "
        "sequence, sequences inside multi-event writes, far-ahead writes, stale ones, database-rejected ones, buffer_size 1..4; a few cases let the "
        "catch-up timer fire (detect_and_handle_gaps). quick = 700 q + 500 tq + 228 rep, thorough = 6000 + 4000 + 2460. "
        "non-trivial = a queue case with a buffered insert and a progress_to, a rep case with an applied write; distinct = distinct case strings.")
ASSUMPTIONS = [
    "Model/Replicator.v is hand-written from ordered_queue.rs, timeout_ordered_queue.rs, replicate.rs (after fix commits 4f5a324, 5c0162e and the C10 fix 28b51ee); tie = this differential run",
    "the database is modelled as (log, next sequence) with an oracle bit for its other checks; replicated writes carry the coordinator's expected sequence and catch-up commits the sequence they have on the source (28b51ee), so the database's sequence check guards both paths",
    "executed on the real replicator: ReplicateWrite in every order, and detect_and_handle_gaps + an EMPTY PartitionSyncResponse (single node: the coordinator has nothing confirmed); the PartitionSyncResponse path WITH commits and reply-sender expiry in the replicator are covered by the proofs over the model and by the tq family (expiry at queue level), not executed end to end",
    "a dropped reply sender counts as the answer 'expired'; liveness (that the armed timer eventually fires) is tokio's",
]
def model_case(c): return c

# ---------------------------------------------------------------- parsing
def _entry(s):
    tx, _, r = s.partition("/")
    return int(tx), [int(x.split("@")[0]) for x in r.split(".") if x]
def _kv(s):
    k, _, e = s.partition("=")
    return int(k), _entry(e)
def _kvs(s):
    return [] if s in ("-", "") else [_kv(x) for x in s.split(",")]
def _parse_q(c, o):
    t = c.split()
    timed = t[0] == "tq"
    next0, limit = int(t[1]), int(t[2])
    ops = t[4:] if timed else t[3:]
    toks = o.split(" ")
    if len(toks) != len(ops): return None
    steps = []
    for op, tok in zip(ops, toks):
        f = tok.split("|")
        if len(f) < 3: return None
        steps.append((op.split(","), f[0], int(f[1]), _kvs(f[2])))
    return next0, limit, steps

def _mon_q(c, o):
    p = _parse_q(c, o)
    if p is None: return ("malformed", f"cannot read the observation of {c!r}")
    next0, limit, steps = p
    inserted, returned = {}, Counter()
    pnext, pmap = next0, []
    for i, (op, res, nxt, mp) in enumerate(steps):
        kind, _, rest = res.partition(":")
        pm = dict(pmap)
        if op[0] == "i":
            key, tx, rid = int(op[1]), int(op[2]), int(op[3])
            inserted[rid] = key
            if kind == "R":
                parts = rest.split(":")
                returned.update(_entry(parts[1])[1])
                if len(parts) > 2: returned.update(_kv(parts[2])[1][1])
            elif kind == "B":
                ev = rest.split(":", 1)[1]
                if ev != "-": returned.update(_kv(ev)[1][1])
            elif kind == "C": returned.update(_entry(rest)[1])
            elif kind in ("F", "S"): returned.update(_kv(rest)[1][1])
            # what the property says about stale / conflicting / duplicate writes
            if key < pnext:
                if kind != "S" or mp != pmap or nxt != pnext:
                    return ("stale-not-rejected", f"op {i}: insert of key {key} below next {pnext} gave {res}, buffer {pmap}->{mp}")
            elif key in pm:
                ptx, prids = pm[key]
                if ptx != tx:
                    if kind != "C" or mp != pmap or nxt != pnext:
                        return ("conflict-changed", f"op {i}: a different transaction at occupied key {key} gave {res}; buffer {pmap} -> {mp}")
                else:
                    if key == pnext:
                        ok = kind == "R" and rest.split(":")[0] == "m" and _entry(rest.split(":")[1])[1] == prids + [rid]
                    else:
                        ok = kind == "B" and rest.split(":")[0] == "m" and dict(mp).get(key) == (tx, prids + [rid])
                    if not ok:
                        return ("dup-not-merged", f"op {i}: duplicate of the buffered write at key {key} was not merged: {res}; buffer {pmap} -> {mp}")
        elif op[0] == "p":
            if rest != "-": returned.update(_entry(rest)[1])
            if pnext in pm and (rest == "-" or _entry(rest) != pm[pnext]):
                return ("pop-missed", f"op {i}: the entry at next={pnext} was not handed out: {res}")
        elif op[0] in ("g", "h"):
            for k, e in _kvs(rest): returned.update(e[1])
        # none pending below next
        low = [k for k, _ in mp if k < nxt]
        if low:
            return ("stale-pending", f"op {i} ({','.join(op)}): keys {low} stay buffered below next={nxt}; they can never be popped or answered")
        # every inserted value is in the buffer or was handed back, exactly once
        inbuf = Counter(r for _, e in mp for r in e[1])
        for rid in inserted:
            n = inbuf[rid] + returned[rid]
            if n == 0: return ("lost", f"op {i} ({','.join(op)}): reply id {rid} (key {inserted[rid]}) is neither buffered nor handed back: silently dropped")
            if n > 1: return ("duplicated", f"op {i}: reply id {rid} is accounted for {n} times")
        pnext, pmap = nxt, mp
    return None

def _parse_rep(c, o):
    t = c.split()
    n0, limit = int(t[1]), int(t[2])
    dl = [tuple(int(x) for x in op.split(",")[1:]) for op in t[4:] if op.startswith("d,")]   # key, tx, cnt, ok
    f = dict(x.split("=", 1) for x in o.split(" ") if "=" in x)
    if not {"alive", "ans", "log", "next"} <= set(f): return None
    ans = {}
    if f["ans"] != "-":
        for x in f["ans"].split(","):
            r, _, v = x.partition(":"); ans[int(r)] = v
    log = [] if f["log"] == "-" else [tuple(x.split(":")) for x in f["log"].split(",")]
    return n0, limit, dl, f["alive"], ans, log, int(f["next"])

def _mon_rep(c, o):
    p = _parse_rep(c, o)
    if p is None: return ("malformed", f"cannot read the observation {o!r}")
    n0, limit, dl, alive, ans, log, nxt = p
    if alive != "1": return ("replicator-panic", "the PartitionReplicatorActor died (panic) while handling the deliveries / its catch-up timer")
    if len(ans) != len(dl): return ("malformed", "an answer is missing")
    pos = n0
    for (lp, ltx, lc) in log:
        lp, lc = int(lp), int(lc)
        if lp != pos: return ("log-gap", f"log entry at {lp}, expected {pos}: {log}")
        if ltx == "?" or not any(k == lp and t == int(ltx) and max(cn, 1) == lc for (k, t, cn, _) in dl):
            return ("applied-unassigned", f"log entry {lp}:{ltx}:{lc} is no delivered write for sequence {lp}")
        pos += lc
    if pos != nxt: return ("log-gap", f"log ends at {pos} but the partition's next sequence is {nxt}")
    for rid, v in ans.items():
        key, tx, cnt, ok = dl[rid]
        if v.startswith("ok"):
            if int(v[2:]) != key: return ("applied-at-wrong-seq", f"reply {rid} for sequence {key} was acknowledged as applied at {v[2:]}")
            if (str(key), str(tx), str(max(cnt, 1))) not in log: return ("ack-without-append", f"reply {rid} acknowledged at {key} but the log has no such entry")
        elif v == "unanswered":
            return ("never-answered", f"reply {rid} (sequence {key}) was neither answered nor dropped: its sender never hears back")
        elif v == "pending":
            if key < nxt: return ("stale-pending", f"reply {rid} (sequence {key}) is still unanswered although the next expected sequence is {nxt}: it can never be applied or answered")
            if key == nxt: return ("not-drained", f"reply {rid} (sequence {key} = next) is buffered although its predecessor is applied")
    for (lp, ltx, lc) in log:
        rs = [r for r, d in enumerate(dl) if d[0] == int(lp) and d[1] == int(ltx)]
        if rs and not any(ans[r].startswith("ok") for r in rs):
            return ("rejected-but-applied", f"log entry {lp}:{ltx} although every delivery of it was answered {[ans[r] for r in rs]}")
    return None

def monitor(c, o):
    if o == "PANIC": return ("panic", "the queue operation sequence panicked")
    if o.startswith("HARNESS-ERROR") or o in ("BADCASE", "TODO"): return ("malformed", o[:200])
    try:
        return _mon_rep(c, o) if c.startswith("rep ") else _mon_q(c, o)
    except (ValueError, IndexError, KeyError) as e:
        return ("malformed", f"cannot read the observation: {e!r}")

def nontrivial(c, o):
    if c.startswith("rep "): return ":ok" in o
    return " g," in c and "B:" in o

def _ops(c):
    t = c.split()
    h = 4 if t[0] in ("tq", "rep") else 3
    return t[:h], t[h:]
def shrink_key(c): return (len(c.split()), len(c), c)
def shrink(v, runner):
    """greedy delta-debugging of the op list: drop ops while the monitor still reports the same class"""
    case, obs, cls, msg = v
    head, ops = _ops(case)
    changed, budget = True, 120
    while changed and budget > 0:
        changed = False
        for i in range(len(ops) - 1, -1, -1):
            cand = ops[:i] + ops[i + 1:]
            if not cand: continue
            cc = " ".join(head + cand)
            budget -= 1
            pairs = runner([cc])
            if pairs:
                m = monitor(pairs[0][0], pairs[0][1])
                if m and m[0] == cls:
                    ops, obs, msg, changed = cand, pairs[0][1], m[1], True
            if budget <= 0: break
    return (" ".join(head + ops), obs, cls, msg)

def coq_goal(c, e):
    """cross-check the extraction on rep cases without timer ops: final log, next sequence, number of buffered replies"""
    if not c.startswith("rep ") or " w," in c or e is None or not e.startswith("alive="): return None
    t = c.split()
    n0, limit = int(t[1]), int(t[2])
    ops = []
    for rid, op in enumerate(t[4:]):
        k, tx, cnt, ok = (int(x) for x in op.split(",")[1:])
        ops.append(f"OpDeliver 0 {rid} {k} {tx} {max(cnt, 1) - 1} {'true' if ok else 'false'}")
    f = dict(x.split("=", 1) for x in e.split(" "))
    log = [] if f["log"] == "-" else [x.split(":") for x in f["log"].split(",")]
    pend = 0 if f["ans"] == "-" else sum(1 for x in f["ans"].split(",") if x.endswith(":pending"))
    run = f"(fst (r_run0 {n0} {limit} 3600000 3600000 [{'; '.join(ops)}]))"
    return (f"(map (fun le => (l_pos le, l_tx le, l_cnt le)) (r_log {run}), r_dbnext {run}, List.length (m_rids (r_map {run}))) = "
            f"([{'; '.join('(%s, %s, %s)' % tuple(x) for x in log)}], {f['next']}, {pend}%nat)")

def distribution(pairs):
    d = Counter()
    for c, o in pairs:
        fam = c.split(" ", 1)[0]
        d["family:" + fam] += 1
        if fam == "rep":
            p = _parse_rep(c, o)
            if p:
                for v in p[4].values(): d["rep:" + ("ok" if v.startswith("ok") else v)] += 1
                if " w," in c: d["rep:timer-cases"] += 1
                if any(x[2] > 1 for x in p[2]): d["rep:multi-event"] += 1
        else:
            for tok in o.split(" "):
                r = tok.split("|")[0]
                k = r[:1]
                if k in "RBCFS": d["insert:" + k + (":merged" if r[2:3] == "m" else "")] += 1
                if k == "B" and not r.endswith(":-"): d["insert:evicted"] += 1
                if k == "P": d["pop:" + ("none" if r == "P:-" else "some")] += 1
                if k == "G": d["progress:" + ("none-stale" if r == "G:-" else "stale-drained")] += 1
                if k == "H" and r != "H:-": d["timeout:expired"] += 1
    return dict(d)

LEVEL_TEXT = ("Machine-checked proof (Coq) over a model of OrderedQueue, TimeoutOrderedQueue and the PartitionReplicatorActor, for EVERY operation list "
              "(deliveries in any order with any duplicates/conflicts, single and multi-event writes, any buffer limit, clock and time-outs, catch-up ticks and "
              "answers, any database verdict): no buffered key below next (C12_no_stale_pending), nothing left at next once its predecessor is applied "
              "(C12_buffer_drain, _step), appends only at the assigned sequence = next with a gap-free log and acknowledgements only for the sequence sent "
              "(C12_apply_at_assigned), stale/conflicting/overflowing writes rejected with the state unchanged and duplicates merged also at a full buffer "
              "(C12_reject_unchanged, C12_dup_merge, _at_next), every reply id answered exactly once or still buffered (C12_answered, _once), no underflow in "
              "detect_and_handle_gaps, timer armed iff buffer non-empty, buffer well-formed; plus what the original code did (C12_orig_*_refuted). "
              "Tie to the code: step-by-step differential run of the real queues and an end-to-end run of the real replicator actor on a real database "
              "against the extracted model, and a direct monitor of the property statement.")
LEVEL_NOTE = ("Trusted: Coq kernel, extraction (ExtrOcamlBasic), OCaml driver glue, Rust harness. Theorems are about Model/Replicator.v; the correspondence "
              "is sampled (bounded op sequences). Not executed end to end: PartitionSyncResponse with commits, reply expiry inside the replicator (real time). "
              "Observation, not a violation of the text: a catch-up answer aborted by a database error returns without draining, so an entry can wait AT next "
              "until the next accepted write (C12_aborted_sync_example); the drain theorems therefore assume run_clean (no PartitionSyncResponse of the history was aborted half way).")
TECHNIQUE = "Coq proof of a hand-written Gallina model + differential correspondence check (extracted OCaml model vs real Rust queues and replicator actor)"
