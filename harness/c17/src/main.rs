//! C17 harness: runs seglog's real record codec (Writer/Reader/parse_record/Writer::open, crc via
//! calculate_crc32c) on generated records, corruptions and truncations. One line per case: `<case>\t<observed>`.
mod sl;
use common::{Args, Out, Rng, catch};
use seglog::parse::parse_record;
use seglog::read::{ReadError, ReadHint, Reader};
use seglog::write::{WriteError, Writer};
use sl::*;
use std::os::unix::fs::FileExt;
use std::path::Path;

fn p<T>(r: Option<T>, f: impl FnOnce(T) -> String) -> String { match r { Some(x) => f(x), None => "PANIC".into() } }

fn parse_str<const H: usize>(r: &Result<([u8; H], Vec<u8>, usize), ReadError>) -> String {
    match r { Ok((h, d, l)) => format!("ok:{}:{}:{}", hex(h), digest(d), l), Err(e) => err_str(e) }
}
fn iter_str<const H: usize>(rd: &mut Reader<H>, start: u64) -> String {
    let mut it = rd.iter(start);
    let mut parts: Vec<String> = vec![];
    let term;
    loop {
        match it.next_record() {
            Ok(Some(r)) => parts.push(format!("{}@{}", r.offset, rec_str(&r))),
            Ok(None) => { term = "end".to_string(); break; }
            Err(e) => { term = err_str(&e); break; }
        }
    }
    format!("{}^{}", parts.join(","), term)
}
fn open_str<const H: usize>(path: &Path, size: usize, start: u64) -> String {
    p(catch(|| Writer::<H>::open(path, size, start).map(|w| w.write_offset())), |r| match r { Ok(o) => o.to_string(), Err(e) => werr_str(&e) })
}

struct Built { size: usize, app: Option<(u64, usize)>, file: Vec<u8> }
/// create, (enable compression), append, sync; returns the segment bytes
fn build<const H: usize>(path: &Path, comp: bool, start: u64, slack: usize, hdr: &[u8], data: &[u8]) -> (Built, String, Writer<H>) {
    let size = start as usize + 8 + H + data.len() + slack;
    let mut w = Writer::<H>::create(path, size, start).expect("create");
    if comp { w.enable_compression(); }
    let app = match w.append(&hdr_arr::<H>(hdr), data) {
        Ok(x) => Some(x), Err(WriteError::SegmentFull { .. }) => None, Err(e) => panic!("append: {e}") };
    let sync = w.sync().expect("sync");
    let mut file = vec![0u8; size];
    w.file().read_exact_at(&mut file, 0).expect("read file");
    (Built { size, app, file }, sync.to_string(), w)
}

fn rt<const H: usize>(dir: &Path, comp: bool, start: u64, slack: usize, hdr: &[u8], data: &[u8]) -> String {
    let path = dir.join("rt.seg");
    let _ = std::fs::remove_file(&path);
    let (b, sync, w) = build::<H>(&path, comp, start, slack, hdr, data);
    let fl = w.flushed_offset();
    let rnd = p(catch(|| { let mut r = Reader::<H>::open(&path, Some(fl.clone())).unwrap(); res_str(&r.read_record(start, ReadHint::Random)) }), |s| s);
    let seq = p(catch(|| { let mut r = Reader::<H>::open(&path, Some(fl.clone())).unwrap(); res_str(&r.read_record(start, ReadHint::Sequential)) }), |s| s);
    let it = p(catch(|| { let mut r = Reader::<H>::open(&path, Some(fl.clone())).unwrap(); iter_str(&mut r, start) }), |s| s);
    let pr = p(catch(|| parse_str(&parse_record::<H>(&b.file, start as usize))), |s| s);
    drop(w);
    let op = open_str::<H>(&path, b.size, start);
    format!("app={}|sync={}|rnd={}|seq={}|iter={}|parse={}|open={}",
        match b.app { Some((o, l)) => format!("{o},{l}"), None => "full".into() }, sync, rnd, seq, it, pr, op)
}

/// several records appended back to back (one writer, one sync), then every record read back through every path and
/// the writer reopened: `n=|end=|sync=|bad=|iter=|open=` (implementation alone; the plugin's monitor decides)
fn seq<const H: usize>(dir: &Path, comp: bool, start: u64, specs: &[&str]) -> String {
    let path = dir.join("seq.seg");
    let _ = std::fs::remove_file(&path);
    let datas: Vec<Vec<u8>> = specs.iter().map(|s| expand(s)).collect();
    // room for zstd expanding incompressible data (a few dozen bytes per record)
    let size = start as usize + datas.iter().map(|d| 8 + H + d.len() + d.len() / 100 + 128).sum::<usize>() + 64;
    let mut w = Writer::<H>::create(&path, size, start).expect("create");
    if comp { w.enable_compression(); }
    let mut end = start; let mut recs: Vec<(u64, usize)> = vec![]; let mut bad = String::from("-");
    for (i, d) in datas.iter().enumerate() {
        let h = [(i as u8).wrapping_mul(37).wrapping_add(1); H];
        match w.append(&h, d) {
            Ok((o, l)) => { if o != end && bad == "-" { bad = format!("append#{i}@{o}!={end}"); } recs.push((o, l)); end = o + l as u64; }
            Err(e) => { if bad == "-" { bad = format!("append#{i}:{}", werr_str(&e)); } break; }
        }
    }
    let sync = w.sync().expect("sync");
    let fl = w.flushed_offset();
    let mut file = vec![0u8; size];
    w.file().read_exact_at(&mut file, 0).expect("read file");
    let same = |i: usize, hd: &[u8], dt: &[u8]| hd == &[(i as u8).wrapping_mul(37).wrapping_add(1); H][..] && dt == &datas[i][..];
    let chk = catch(|| {
        let mut first = String::from("-");
        let mut r1 = Reader::<H>::open(&path, Some(fl.clone())).unwrap();
        let mut r2 = Reader::<H>::open(&path, Some(fl.clone())).unwrap();
        for (i, &(o, l)) in recs.iter().enumerate() {
            let a = match r1.read_record(o, ReadHint::Random) { Ok(r) => same(i, &r.header, &r.data) && r.len == l, Err(_) => false };
            let b = match r2.read_record(o, ReadHint::Sequential) { Ok(r) => same(i, &r.header, &r.data) && r.len == l, Err(_) => false };
            let c = match parse_record::<H>(&file, o as usize) { Ok((h, d, n)) => same(i, &h, &d) && n == l, Err(_) => false };
            if !(a && b && c) && first == "-" { first = format!("rec#{i}@{o}:{}{}{}", if a { "" } else { "rnd" }, if b { "" } else { "seq" }, if c { "" } else { "parse" }); }
        }
        let mut r3 = Reader::<H>::open(&path, Some(fl.clone())).unwrap();
        let mut it = r3.iter(start); let mut n = 0usize;
        loop { match it.next_record() {
            Ok(Some(r)) => { if n >= recs.len() || r.offset != recs[n].0 || !same(n, &r.header, &r.data) { if first == "-" { first = format!("iter#{n}@{}", r.offset); } } n += 1; }
            Ok(None) => break,
            Err(e) => { if first == "-" { first = format!("iter#{n}:{}", err_str(&e)); } break; } } }
        (first, n)
    });
    let (first, n) = chk.unwrap_or(("PANIC".into(), 0));
    if bad == "-" { bad = first; }
    drop(w);
    let op = open_str::<H>(&path, size, start);
    format!("n={}|end={}|sync={}|bad={}|iter={}|open={}", recs.len(), end, sync, bad, n, op)
}

fn cls<const H: usize>(hdr: &[u8], data: &[u8], r: Option<Result<(Vec<u8>, Vec<u8>), ReadError>>) -> char {
    match r {
        None => 'P',
        Some(Ok((h, d))) => if h == hdr && d == data { '=' } else { 'X' },
        Some(Err(ReadError::OutOfBounds { .. })) => 'O',
        Some(Err(ReadError::TruncationMarker { .. })) => 'T',
        Some(Err(ReadError::Crc32cMismatch { .. })) => 'C',
        Some(Err(_)) => 'I',
    }
}
fn parse_cls<const H: usize>(hdr: &[u8], data: &[u8], bytes: &[u8], off: usize) -> char {
    cls::<H>(hdr, data, catch(|| parse_record::<H>(bytes, off).map(|(h, d, _)| (h.to_vec(), d))))
}
fn read_cls<const H: usize>(hdr: &[u8], data: &[u8], path: &Path, off: u64, hint: ReadHint) -> char {
    cls::<H>(hdr, data, catch(|| { let mut r = Reader::<H>::open(path, None).unwrap();
        r.read_record(off, hint).map(|r| (r.header.to_vec(), r.data.to_vec())) }))
}
fn burst_bits(seed: u64, s: usize, l: usize) -> Vec<bool> {
    let mut st = (seed as i64).wrapping_mul(1000003).wrapping_add((s * 64 + l) as i64) as u64;
    (0..l).map(|k| if k == 0 || k == l - 1 { true } else {
        st = st.wrapping_mul(6364136223846793005).wrapping_add(1442695040888963407); (st >> 63) == 1 }).collect()
}
fn flip(b: &mut [u8], bit: usize) { b[bit >> 3] ^= 1 << (bit & 7); }

fn cor<const H: usize>(dir: &Path, comp: bool, start: u64, slack: usize, hdr: &[u8], data: &[u8], mode: &str, args: &[&str]) -> String {
    let path = dir.join("cor.seg");
    let path2 = dir.join("cor2.seg");
    let _ = std::fs::remove_file(&path);
    let (b, _, w) = build::<H>(&path, comp, start, slack, hdr, data);
    drop(w);
    let Some((_, rl)) = b.app else { return "full".into() };
    let st = start as usize;
    let mut out = String::new();
    match mode {
        "bits" | "bitsx" => {
            let mut f = b.file.clone();
            for bit in 0..8 * rl { flip(&mut f, 8 * st + bit); out.push(parse_cls::<H>(hdr, data, &f, st)); flip(&mut f, 8 * st + bit); }
        }
        "burst" | "burstx" => {
            let seed: u64 = args[0].parse().unwrap();
            let mut f = b.file.clone();
            for s in 0..8 * rl { for l in 2..=32usize { if s + l <= 8 * rl {
                let pat = burst_bits(seed, s, l);
                for (k, on) in pat.iter().enumerate() { if *on { flip(&mut f, 8 * st + s + k); } }
                out.push(parse_cls::<H>(hdr, data, &f, st));
                for (k, on) in pat.iter().enumerate() { if *on { flip(&mut f, 8 * st + s + k); } }
            } } }
        }
        "trunc" | "truncx" => { for k in 0..rl { out.push(parse_cls::<H>(hdr, data, &b.file[..st + k], st)); } }
        "ftrunc" => {
            let mut parts = vec![];
            for k in args { let k: usize = k.parse().unwrap();
                std::fs::write(&path2, &b.file[..st + k]).unwrap();
                let c1 = read_cls::<H>(hdr, data, &path2, start, ReadHint::Random);
                let c2 = read_cls::<H>(hdr, data, &path2, start, ReadHint::Sequential);
                let it = p(catch(|| { let mut r = Reader::<H>::open(&path2, None).unwrap(); iter_str(&mut r, start) }), |s| s);
                let (recs, term) = it.rsplit_once('^').unwrap_or(("", "PANIC"));
                let n = if recs.is_empty() { 0 } else { recs.split(',').count() };
                parts.push(format!("{c1}{c2}{n}{term}/{}", open_str::<H>(&path2, b.size, start)));
            }
            out = parts.join(" ");
        }
        "fbits" => {
            let mut parts = vec![];
            for bit in args { let bit: usize = bit.parse().unwrap();
                let mut f = b.file.clone(); flip(&mut f, 8 * st + bit);
                std::fs::write(&path2, &f).unwrap();
                let c1 = read_cls::<H>(hdr, data, &path2, start, ReadHint::Random);
                let c2 = read_cls::<H>(hdr, data, &path2, start, ReadHint::Sequential);
                parts.push(format!("{c1}{c2}{}", open_str::<H>(&path2, b.size, start)));
            }
            out = parts.join(" ");
        }
        _ => return "BADCASE".into(),
    }
    out
}

fn raw<const H: usize>(off: u64, bytes: &[u8]) -> String {
    p(catch(|| parse_str(&parse_record::<H>(bytes, off as usize))), |s| s)
}

fn run_case(dir: &Path, line: &str) -> String {
    let t: Vec<&str> = line.split_whitespace().collect();
    match t[0] {
        "crc" => {
            if t.len() == 2 { let d = expand(t[1]); let mut lb = [0u8; 4]; lb.copy_from_slice(&d[..4]);
                // crc32 of the whole string, fed as (first 4 bytes, empty header, rest)
                seglog::calculate_crc32c(&lb, &[], &d[4..]).to_string() }
            else { let a = expand(t[1]); let mut lb = [0u8; 4]; lb.copy_from_slice(&a[..4]);
                seglog::calculate_crc32c(&lb, &expand(t[2]), &expand(t[3])).to_string() }
        }
        "rt" => { let h: usize = t[1].parse().unwrap();
            let (comp, start, slack) = (t[2] == "1", t[3].parse::<u64>().unwrap(), t[4].parse::<usize>().unwrap());
            let (hdr, data) = (expand(t[5]), expand(t[6]));
            with_h!(h, rt(dir, comp, start, slack, &hdr, &data)) }
        "cor" => { let h: usize = t[1].parse().unwrap();
            let (comp, start, slack) = (t[2] == "1", t[3].parse::<u64>().unwrap(), t[4].parse::<usize>().unwrap());
            let (hdr, data) = (expand(t[5]), expand(t[6]));
            with_h!(h, cor(dir, comp, start, slack, &hdr, &data, t[8], &t[9..])) }
        "seq" => { let h: usize = t[1].parse().unwrap();
            let (comp, start) = (t[2] == "1", t[3].parse::<u64>().unwrap());
            with_h!(h, seq(dir, comp, start, &t[4..])) }
        "raw" => { let h: usize = t[1].parse().unwrap(); let off: u64 = t[2].parse().unwrap(); let b = expand(t[3]);
            with_h!(h, raw(off, &b)) }
        _ => "BADCASE".into(),
    }
}

// ------------------------------------------------------------------ generators
const HS: [usize; 5] = [0, 1, 8, 16, 32];
struct Gen<'a> { rng: Rng, dir: &'a Path, cases: Vec<String> }
impl Gen<'_> {
    fn hdr(&mut self, h: usize) -> String { let v: Vec<u8> = (0..h).map(|_| if self.rng.chance(1, 8) { 0 } else { self.rng.below(256) as u8 }).collect(); format!("x{}", hex(&v)) }
    fn data(&mut self, n: usize, compressible: bool) -> String {
        if n <= 24 { let v: Vec<u8> = (0..n).map(|_| if self.rng.chance(1, 6) { 0 } else { self.rng.below(256) as u8 }).collect(); return format!("x{}", hex(&v)); }
        if self.rng.chance(1, 40) { return format!("z{n}"); }
        let seed = self.rng.below(1 << 30);
        if compressible { format!("t{seed}:{n}") } else { format!("r{seed}:{n}") }
    }
    /// "<H> <comp> <start> <slack> <hdr> <data> <stored>"
    fn record(&mut self, h: usize, n: usize, comp: bool, compressible: bool) -> String { self.record_s(h, n, comp, compressible, 70000) }
    fn record_s(&mut self, h: usize, n: usize, comp: bool, compressible: bool, max_slack: usize) -> String {
        let hdr = self.hdr(h);
        let data = self.data(n, compressible);
        let start = *self.rng.pick(&[0u64, 0, 16, 64, 48]);
        let mut slack = *self.rng.pick(&[0usize, 0, 1, 7, 8, 9, 64, 4096, 70000]);
        if slack > max_slack { slack = max_slack; }
        let stored = if comp && n >= 128 { format!("x{}", hex(&compress_oracle(self.dir, &expand(&data)))) } else { "-".into() };
        format!("{h} {} {start} {slack} {hdr} {data} {stored}", comp as u8)
    }
    fn push(&mut self, s: String) { self.cases.push(s); }
}

fn generate(g: &mut Gen, thorough: bool) {
    // --- CRC model vs crc32fast (through seglog::calculate_crc32c)
    for n in 4..(if thorough { 600 } else { 140 }) { let seed = g.rng.below(1 << 30); g.push(format!("crc r{seed}:{n}")); }
    for &n in &[1023usize, 1024, 4096, 16384, 65537] { let seed = g.rng.below(1 << 30); g.push(format!("crc r{seed}:{n}")); g.push(format!("crc z{n}")); }
    for _ in 0..(if thorough { 300 } else { 60 }) {
        let (a, b, c) = (g.rng.below(1 << 30), g.rng.below(40), g.rng.below(300));
        g.push(format!("crc r{a}:4 r{}:{b} r{}:{c}", a + 1, a + 2));
    }
    g.push("crc x313233343536373839".into());
    // --- round trips: sizes dense from 0, the buffer boundaries, compression threshold, large records
    let dense = if thorough { 4200 } else { 300 };
    for n in 0..=dense {
        let h = HS[n % 5];
        let comp = n % 3 == 0;
        let r = g.record(h, n, comp, n % 2 == 0); g.push(format!("rt {r}"));
    }
    let mut bounds: Vec<usize> = vec![];
    for c in [128usize, 2048, 4096, 16384, 65536] {
        let dmax = if c >= 16384 { if thorough { 8 } else { 1 } } else if thorough { 40 } else { 9 };
        for d in 0..=dmax { bounds.push(c + d); if c >= d + 1 { bounds.push(c - d - 1); } } }
    if thorough { bounds.push(1 << 20); bounds.push((1 << 20) + 3); } else { bounds.push(200_000); }
    for (i, &n) in bounds.iter().enumerate() {
        let hs: Vec<usize> = if thorough && n < 5000 { HS.to_vec() } else { vec![HS[i % 5]] };
        for h in hs {
            // sizes counted so that the payload (H + data) straddles the buffer boundary as well
            let nn = if i % 2 == 0 { n.saturating_sub(h) } else { n };
            let big = nn > 70000;
            let r = g.record(h, nn, i % 3 == 1 && !big, i % 4 < 2); g.push(format!("rt {r}"));
            if n < 70000 && (thorough || i % 4 == 0) { let r = g.record(h, nn, true, true); g.push(format!("rt {r}")); }
        }
    }
    // --- corruption families, decided by the model as well (small records)
    let nb = if thorough { 200 } else { 48 };
    for n in 0..=nb { for &h in &HS { if thorough || (n + h) % 2 == 0 || n < 6 {
        let r = g.record_s(h, n, false, true, 64); g.push(format!("cor {r} bits")); g.push(format!("cor {r} trunc")); } } }
    let nbu = if thorough { 56 } else { 14 };
    for n in 0..=nbu { let h = HS[n % 5]; let r = g.record_s(h, n, false, true, 64); let s = g.rng.below(1000); g.push(format!("cor {r} burst {s}")); }
    for &n in &[128usize, 129, 200, 300] { for &h in &[0usize, 8] {
        let r = g.record_s(h, n, true, true, 64); g.push(format!("cor {r} bits")); g.push(format!("cor {r} trunc"));
        if thorough { let s = g.rng.below(1000); g.push(format!("cor {r} burst {s}")); } } }
    // --- file-level: flips and truncations through Reader (both hints), Iter and Writer::open
    let nf = if thorough { 160 } else { 28 };
    for i in 0..nf {
        let h = HS[i % 5];
        let n = match i % 4 { 0 => g.rng.below(40) as usize, 1 => 100 + g.rng.below(300) as usize, 2 => 2040 + g.rng.below(30) as usize, _ => 4090 + g.rng.below(30) as usize };
        let comp = i % 3 == 0;
        let r = g.record_s(h, n, comp, true, 4096);
        let rl_guess = 8 + h + n;    // upper bound unless compressed; positions beyond the record are clamped by `min`
        let stored_len = { let t: Vec<&str> = r.split_whitespace().collect(); if t[6] == "-" { n } else { 4 + (t[6].len() - 1) / 2 } };
        let rl = 8 + h + stored_len; let _ = rl_guess;
        let mut bits: Vec<usize> = (0..64.min(8 * rl)).collect();
        for _ in 0..12 { bits.push(g.rng.below(8 * rl as u64) as usize); }
        bits.push(8 * rl - 1);
        g.push(format!("cor {r} fbits {}", bits.iter().map(|b| b.to_string()).collect::<Vec<_>>().join(" ")));
        let mut ks: Vec<usize> = vec![0, 1, 7, 8, 9, rl - 1, rl.saturating_sub(2), rl / 2];
        ks.retain(|&k| k < rl); ks.sort(); ks.dedup();
        g.push(format!("cor {r} ftrunc {}", ks.iter().map(|b| b.to_string()).collect::<Vec<_>>().join(" ")));
    }
    // --- exhaustive enumeration on the implementation alone (monitor only): larger records
    let sizes: Vec<usize> = if thorough { (201..=1024).step_by(1).chain([1500, 2040, 2048, 2049, 2056, 3000, 4088, 4096, 4097, 4200]).collect() }
                            else { vec![49, 64, 100, 127, 128, 129, 255, 256, 300, 511, 700, 1024, 2047, 2048, 2049] };
    for (i, &n) in sizes.iter().enumerate() {
        let h = HS[i % 5];
        let r = g.record(h, n, i % 3 == 0, true);
        g.push(format!("cor {r} bitsx")); g.push(format!("cor {r} truncx"));
        if n <= 130 || (thorough && n <= 330 && n % 7 == 0) { let s = g.rng.below(1000); g.push(format!("cor {r} burstx {s}")); }
    }
    // --- sequences of records through one writer (implementation alone): sizes around the 16 KiB write buffer and the
    //     64 KiB read window mixed with small records, so that a record written past the buffer is followed by buffered ones
    let nseq = if thorough { 240 } else { 40 };
    for i in 0..nseq {
        let h = HS[i % 5];
        let k = 2 + g.rng.below(6) as usize;
        let mut specs: Vec<String> = vec![];
        for j in 0..k {
            let n = match g.rng.below(8) { 0 | 1 => g.rng.below(64) as usize, 2 => 100 + g.rng.below(400) as usize,
                3 => 16384 - 40 + g.rng.below(80) as usize, 4 => 16385 + g.rng.below(5000) as usize, 5 => 65536 - 40 + g.rng.below(80) as usize,
                6 => 2000 + g.rng.below(3000) as usize, _ => 20000 + g.rng.below(60000) as usize };
            // at least one large record in front of a small one in every other sequence
            let n = if i % 2 == 0 && j == 0 { 16385 + g.rng.below(40000) as usize } else { n };
            specs.push(g.data(n, i % 3 != 0));
        }
        let start = *g.rng.pick(&[0u64, 16, 48, 64]);
        g.push(format!("seq {h} {} {start} {}", (i % 4 == 1) as u8, specs.join(" ")));
    }
    // --- malformed stream: arbitrary bytes / arbitrary length words / arbitrary offsets
    let nraw = if thorough { 6000 } else { 1200 };
    for i in 0..nraw {
        let h = HS[i % 5];
        let mut len = g.rng.below(48) as usize;
        if g.rng.chance(1, 10) { len = g.rng.below(300) as usize; }
        let mut b: Vec<u8> = (0..len).map(|_| if g.rng.chance(1, 3) { 0 } else { g.rng.below(256) as u8 }).collect();
        let off = match g.rng.below(10) { 0 => g.rng.below(len as u64 + 12), 1 => u64::MAX - g.rng.below(12), 2 => (1u64 << 63) + g.rng.below(3), 3 => u32::MAX as u64 + g.rng.below(3), _ => g.rng.below(4) };
        if len >= off.min(1000) as usize + 4 && g.rng.chance(2, 3) {
            // a plausible length word: small payload lengths around H, with or without the compression flag
            let o = off as usize; let pl = g.rng.below(h as u64 + 6) as u32 | if g.rng.chance(1, 4) { 0x8000_0000 } else { 0 };
            b[o..o + 4].copy_from_slice(&pl.to_le_bytes());
        }
        g.push(format!("raw {h} {off} x{}", hex(&b)));
    }
}

fn main() {
    common::silence_panics();
    let a: Args = common::args();
    let mut out = Out::new();
    let dir = tempfile::tempdir().expect("tempdir");
    let cases: Vec<String> = if a.tier == "cases" {
        std::fs::read_to_string(&a.rest[0]).expect("cases file").lines().filter(|l| !l.trim().is_empty()).map(|s| s.to_string()).collect()
    } else {
        let mut g = Gen { rng: Rng::new(a.seed), dir: dir.path(), cases: vec![] };
        // the generator runs the real compressor (oracle): a panic there is reported, not a crash
        if catch(|| generate(&mut g, a.tier == "thorough")).is_none() { g.cases.push("rt 0 1 0 64 x z255 x00".into()); }
        g.cases
    };
    for c in &cases {
        let o = catch(|| run_case(dir.path(), c)).unwrap_or_else(|| "PANIC".into());
        out.case(c, &o);
    }
    out.flush();
}
