//! Helpers shared by the C17 and C18 harnesses (c18 includes this file by path):
//! data-spec expansion, hex, FNV digest, result canonicalisation, the zstd oracle.
#![allow(dead_code)]
use seglog::read::{ReadError, Record};
use seglog::write::{WriteError, Writer};
use std::os::unix::fs::FileExt;

pub fn hex(b: &[u8]) -> String {
    let mut s = String::with_capacity(2 * b.len());
    for x in b { s.push_str(&format!("{:02x}", x)); }
    s
}
pub fn unhex(s: &str) -> Vec<u8> {
    (0..s.len() / 2).map(|i| u8::from_str_radix(&s[2 * i..2 * i + 2], 16).unwrap()).collect()
}
/// data specs: x<hex> | r<seed>:<len> (LCG bytes) | t<seed>:<len> (runs of 16, compressible) | z<len>
pub fn expand(spec: &str) -> Vec<u8> {
    let body = &spec[1..];
    let two = || { let mut it = body.split(':'); (it.next().unwrap().parse::<u64>().unwrap(), it.next().unwrap().parse::<usize>().unwrap()) };
    match spec.as_bytes()[0] {
        b'x' => unhex(body),
        b'z' => vec![0u8; body.parse().unwrap()],
        b'r' => { let (seed, len) = two(); let mut st = seed;
            (0..len).map(|_| { st = st.wrapping_mul(6364136223846793005).wrapping_add(1442695040888963407); (st >> 56) as u8 }).collect() }
        b't' => { let (seed, len) = two(); (0..len).map(|i| 32 + ((((seed as usize).wrapping_add(i >> 4)).wrapping_mul(31)) & 63) as u8).collect() }
        _ => panic!("bad data spec {spec}"),
    }
}
/// FNV-1a 64 with the length in front
pub fn digest(b: &[u8]) -> String {
    let mut h: u64 = 0xcbf29ce484222325;
    for &x in b { h = (h ^ x as u64).wrapping_mul(0x100000001b3); }
    format!("{}#{:016x}", b.len(), h)
}
pub fn err_str(e: &ReadError) -> String {
    match e {
        ReadError::OutOfBounds { length, .. } => format!("oob:{length}"),
        ReadError::TruncationMarker { .. } => "trunc".into(),
        ReadError::Crc32cMismatch { .. } => "crc".into(),
        ReadError::ReplaceLengthMismatch { .. } => "replen".into(),
        ReadError::Io(_) => "io".into(),
    }
}
pub fn rec_str<const H: usize>(r: &Record<'_, H>) -> String {
    format!("ok:{}:{}:{}:{}", hex(&r.header), digest(&r.data), if r.compressed_data.is_some() { "c" } else { "u" }, r.len)
}
pub fn res_str<const H: usize>(r: &Result<Record<'_, H>, ReadError>) -> String {
    match r { Ok(r) => rec_str(r), Err(e) => err_str(e) }
}
pub fn werr_str(e: &WriteError) -> String {
    match e {
        WriteError::SegmentFull { .. } => "full".into(),
        WriteError::Read(e) => err_str(e),
        WriteError::Io(_) => "io".into(),
        #[allow(unreachable_patterns)]
        _ => "io".into(),
    }
}
/// What seglog stores for `data` when compression applies: the 4-byte original size is NOT included
/// (the model adds it). Obtained through seglog's own public API: a throw-away Writer<0>.
pub fn compress_oracle(dir: &std::path::Path, data: &[u8]) -> Vec<u8> {
    let p = dir.join(format!("oracle-{}.seg", std::process::id()));
    let _ = std::fs::remove_file(&p);
    let size = 64 + 2 * data.len() + 4096;
    let mut w = Writer::<0>::create(&p, size, 0).expect("oracle create");
    w.enable_compression();
    let (_, len) = w.append(&[], data).expect("oracle append");
    w.flush_writer().expect("oracle flush");
    let mut buf = vec![0u8; len];
    w.file().read_exact_at(&mut buf, 0).expect("oracle read");
    drop(w);
    let _ = std::fs::remove_file(&p);
    assert!(buf[3] & 0x80 != 0, "oracle record not compressed");
    buf[12..].to_vec()
}
pub fn hdr_arr<const H: usize>(h: &[u8]) -> [u8; H] {
    let mut a = [0u8; H];
    a.copy_from_slice(&h[..H]);
    a
}
#[macro_export]
macro_rules! with_h {
    ($h:expr, $f:ident ( $($a:expr),* )) => {
        match $h { 0 => $f::<0>($($a),*), 1 => $f::<1>($($a),*), 8 => $f::<8>($($a),*), 16 => $f::<16>($($a),*), 32 => $f::<32>($($a),*),
                   _ => panic!("unsupported H") }
    };
}
