//! Concurrency harness for C15 / C16 / C20: drives the REAL `sierradb::Database` with concurrent
//! appenders and readers and prints the trace.
//!
//! A case line is `cc kind=.. B=.. T=.. R=.. C=.. M=.. S=.. K=.. N=.. pay=.. sync=.. hold=.. tsync=.. seed=.. | <item> ; <item> ...`
//! (the part before ` | ` is the schedule/configuration, everything random derives from `seed`; the part
//! after it is the recorded trace, which is what the model driver and the monitors validate), or
//! `route nb=.. nt=.. pos=a,b,..` for the bucket -> writer-thread routing function.
//!
//! Every operation is stamped from one global atomic counter when it starts and when it completes.
//! Items (sorted by start stamp):
//!   A #<op> c<client> <b> <e> k<key> p<pid> x<xseq> <sid>:<xv>:<eid>,.. o<reply stamp> g<segment> t<target> = <result>
//!   V r<reader> <b> <e> p<pid> s<sid> = k<key>:v<version> | none          (get_stream_version)
//!   Q r<reader> <b> <e> p<pid> = q<sequence> | none                      (get_partition_sequence)
//!   E r<reader> <b> <e> p<pid> i<eid> = e<eid>:q<seq>:v<ver> | none      (read_event)
//!   S r<reader> <b> <e> p<pid> s<sid> f<from> = e..:q..:v.. e.. ..       (forward stream scan)
//!   P b<bucket> g<segment> v<offset> @<stamp>                            (hook: sync published the offset)
//!   R b<bucket> g<new segment> @<swapped stamp> @<installed stamp>       (hook: rollover)
use std::collections::HashMap;
use std::sync::atomic::{AtomicBool, AtomicI64, AtomicU64, Ordering};
use std::sync::{Arc, Condvar, Mutex};
use std::time::{Duration, Instant};

use common::Rng;
use sierradb::bucket::segment::{CommittedEvents, EventRecord, COMMIT_SIZE, EVENT_HEADER_SIZE};
use sierradb::database::{Database, DatabaseBuilder, ExpectedVersion, NewEvent, Transaction};
use sierradb::error::{EventValidationError, WriteError};
use sierradb::id::uuid_to_partition_hash;
use sierradb::writer_thread_pool::verif_hooks;
use sierradb::{IterDirection, StreamId};
use smallvec::SmallVec;
use uuid::Uuid;

const SEG: usize = 128 * 1024;
const GOOD_TS: u64 = 1_700_000_000_000_000_000;

static CLOCK: AtomicU64 = AtomicU64::new(0);
/// total time (ns) the harness itself held a thread of the system at a pause point: not the database's latency
/// a writer thread of a finished run may still be alive: its hook events would pollute the next run's trace
static STUCK: AtomicBool = AtomicBool::new(false);
static HELD_NS: AtomicU64 = AtomicU64::new(0);
static HOLDING: AtomicU64 = AtomicU64::new(0);      // number of holds in progress
static HOLD_START_NS: AtomicU64 = AtomicU64::new(0);
fn now_ns() -> u64 { use std::sync::OnceLock; static T0: OnceLock<Instant> = OnceLock::new(); T0.get_or_init(Instant::now).elapsed().as_nanos() as u64 }
fn hold_begin() -> u64 { HOLDING.fetch_add(1, Ordering::SeqCst); now_ns() }
fn hold_end(t0: u64) { HELD_NS.fetch_add(now_ns().saturating_sub(t0), Ordering::SeqCst); HOLDING.fetch_sub(1, Ordering::SeqCst); }
/// harness-induced delay accumulated so far, including a hold still in progress
fn held_now() -> u64 { let _ = &HOLD_START_NS; HELD_NS.load(Ordering::SeqCst) }
fn tick() -> u64 { CLOCK.fetch_add(1, Ordering::SeqCst) + 1 }

#[derive(Clone, Copy, Debug, PartialEq)]
enum Xv { Any, Exists, Empty, Exact(u64) }
impl Xv {
    fn show(&self) -> String {
        match self { Xv::Any => "a".into(), Xv::Exists => "e".into(), Xv::Empty => "n".into(), Xv::Exact(v) => format!("x{v}") }
    }
    fn real(&self) -> ExpectedVersion {
        match self { Xv::Any => ExpectedVersion::Any, Xv::Exists => ExpectedVersion::Exists, Xv::Empty => ExpectedVersion::Empty, Xv::Exact(v) => ExpectedVersion::Exact(*v) }
    }
}
fn show_xv(x: ExpectedVersion) -> String {
    match x { ExpectedVersion::Any => "a".into(), ExpectedVersion::Exists => "e".into(), ExpectedVersion::Empty => "n".into(), ExpectedVersion::Exact(v) => format!("x{v}") }
}

fn key_uuid(k: usize) -> Uuid {
    let hash = 100 + k as u128;
    Uuid::from_u128((0x0190u128 << 112) | (0x7u128 << 76) | (0x2u128 << 62) | (hash << 46) | (k as u128 + 1))
}
fn event_uuid(eid: u64, k: usize) -> Uuid {
    let hash = uuid_to_partition_hash(key_uuid(k)) as u128;
    Uuid::from_u128((0x0191u128 << 112) | (0x7u128 << 76) | (0x2u128 << 62) | (hash << 46) | (1u128 << 40) | eid as u128)
}
fn eid_of(u: Uuid) -> u64 { (u.as_u128() & ((1u128 << 40) - 1)) as u64 }
fn stream_name(sid: u64) -> String { format!("stream-{sid}") }
fn payload(eid: u64, len: usize) -> Vec<u8> {
    let mut r = Rng::new(eid ^ 0xABCD);
    (0..len).map(|_| (r.next() as u8) | 1).collect()
}

#[derive(Clone, Debug)]
struct Cfg {
    kind: String, b: u16, t: u16, r: u16, c: usize, m: usize, s: u64, k: usize, n: usize,
    pay: usize, sync: u64, hold: u64, tsync: u64, seed: u64,
}
impl Cfg {
    fn show(&self) -> String {
        format!("cc kind={} B={} T={} R={} C={} M={} S={} K={} N={} pay={} sync={} hold={} tsync={} seed={}",
            self.kind, self.b, self.t, self.r, self.c, self.m, self.s, self.k, self.n, self.pay, self.sync, self.hold, self.tsync, self.seed)
    }
    fn parse(line: &str) -> Option<Cfg> {
        let head = line.split(" | ").next()?;
        let mut it = head.split_whitespace();
        if it.next()? != "cc" { return None; }
        let mut c = Cfg { kind: "stress".into(), b: 1, t: 1, r: 2, c: 2, m: 1, s: 2, k: 1, n: 10, pay: 9000, sync: 5, hold: 0, tsync: 0, seed: 1 };
        for f in it {
            let (a, v) = f.split_once('=')?;
            match a {
                "kind" => c.kind = v.to_string(),
                "B" => c.b = v.parse().ok()?, "T" => c.t = v.parse().ok()?, "R" => c.r = v.parse().ok()?,
                "C" => c.c = v.parse().ok()?, "M" => c.m = v.parse().ok()?, "S" => c.s = v.parse().ok()?,
                "K" => c.k = v.parse().ok()?, "N" => c.n = v.parse().ok()?, "pay" => c.pay = v.parse().ok()?,
                "sync" => c.sync = v.parse().ok()?, "hold" => c.hold = v.parse().ok()?, "tsync" => c.tsync = v.parse().ok()?, "seed" => c.seed = v.parse().ok()?,
                _ => {}
            }
        }
        if c.b == 0 || c.t == 0 || c.b % c.t != 0 || c.k == 0 || c.s == 0 { return None; }
        Some(c)
    }
    fn idle_ms(&self) -> u64 { self.sync * 2 }
    /// the latency bound of C20: 10 x sync_idle_interval + 2 s
    fn bound(&self) -> Duration { Duration::from_millis(10 * self.idle_ms() + 2000) }
    fn pid(&self, k: usize) -> u16 { k as u16 }
    fn key_of_stream(&self, sid: u64) -> usize { (sid % self.k as u64) as usize }
}

#[derive(Clone, Debug)]
enum Item {
    A { op: u64, c: usize, b: u64, e: u64, k: usize, pid: u16, xseq: Xv, evs: Vec<(u64, Xv, u64)>, o: u64, g: u32, t: u64, res: String },
    V { r: usize, b: u64, e: u64, pid: u16, sid: u64, res: String },
    Q { r: usize, b: u64, e: u64, pid: u16, res: String },
    E { r: usize, b: u64, e: u64, pid: u16, eid: u64, res: String },
    S { r: usize, b: u64, e: u64, pid: u16, sid: u64, from: u64, res: String },
    P { bucket: u16, g: u32, v: u64, at: u64 },
    R { bucket: u16, g: u32, at: u64, at2: u64 },
}
impl Item {
    fn start(&self) -> u64 {
        match self { Item::A { b, .. } | Item::V { b, .. } | Item::Q { b, .. } | Item::E { b, .. } | Item::S { b, .. } => *b, Item::P { at, .. } | Item::R { at, .. } => *at }
    }
    fn show(&self) -> String {
        match self {
            Item::A { op, c, b, e, k, pid, xseq, evs, o, g, t, res } => format!("A #{op} c{c} {b} {e} k{k} p{pid} x{} {} o{o} g{g} t{t} = {res}", xseq.show(),
                evs.iter().map(|(sid, xv, eid)| format!("{sid}:{}:{eid}", xv.show())).collect::<Vec<_>>().join(",")),
            Item::V { r, b, e, pid, sid, res } => format!("V r{r} {b} {e} p{pid} s{sid} = {res}"),
            Item::Q { r, b, e, pid, res } => format!("Q r{r} {b} {e} p{pid} = {res}"),
            Item::E { r, b, e, pid, eid, res } => format!("E r{r} {b} {e} p{pid} i{eid} = {res}"),
            Item::S { r, b, e, pid, sid, from, res } => format!("S r{r} {b} {e} p{pid} s{sid} f{from} = {res}"),
            Item::P { bucket, g, v, at } => format!("P b{bucket} g{g} v{v} @{at}"),
            Item::R { bucket, g, at, at2 } => format!("R b{bucket} g{g} @{at} @{at2}"),
        }
    }
}

/// a one-shot pause point: the hooked thread arrives and waits until the harness opens the gate
struct Gate { armed: AtomicBool, arrived: AtomicBool, open: Mutex<bool>, cv: Condvar }
impl Gate {
    fn new() -> Gate { Gate { armed: AtomicBool::new(false), arrived: AtomicBool::new(false), open: Mutex::new(false), cv: Condvar::new() } }
    fn arm(&self) { *self.open.lock().unwrap() = false; self.arrived.store(false, Ordering::SeqCst); self.armed.store(true, Ordering::SeqCst); }
    /// called from the hook; holds the caller (at most 20 s: a stuck harness must not hang the process)
    fn pass(&self) {
        if !self.armed.swap(false, Ordering::SeqCst) { return; }
        self.arrived.store(true, Ordering::SeqCst);
        let t0 = hold_begin();
        {
            let g = self.open.lock().unwrap();
            let _ = self.cv.wait_timeout_while(g, Duration::from_secs(20), |o| !*o);
        }
        hold_end(t0);
    }
    fn release(&self) { self.armed.store(false, Ordering::SeqCst); *self.open.lock().unwrap() = true; self.cv.notify_all(); }
    async fn wait_arrived(&self, max: Duration) -> bool {
        let t0 = Instant::now();
        while !self.arrived.load(Ordering::SeqCst) {
            if t0.elapsed() > max { return false; }
            tokio::time::sleep(Duration::from_micros(300)).await;
        }
        true
    }
}

struct Shared {
    cfg: Cfg,
    db: Database,
    log: Mutex<Vec<Item>>,
    /// (pid, first sequence) -> (reply stamp, segment, target)
    replies: Mutex<HashMap<(u16, u64), (u64, u32, u64)>>,
    last_pub: Mutex<HashMap<u16, (u32, u64)>>,
    roll_open: Mutex<HashMap<u16, (u32, u64)>>,
    gate_swapped: Gate,
    gate_replied: Gate,
    /// acknowledged events: (eid, key, sid)
    acked: Mutex<Vec<(u64, usize, u64)>>,
    known_ver: Vec<AtomicI64>,
    known_seq: Vec<AtomicI64>,
    clients_done: AtomicBool,
    max_ms: AtomicU64,
    slow: AtomicBool,
    rollovers: AtomicU64,
}

fn install_hooks(sh: &Arc<Shared>) {
    let s = sh.clone();
    verif_hooks::set_point(Some(Arc::new(move |name: &'static str, a: u64, b: u64, c: u64| {
        let bucket = (a >> 32) as u16;
        let seg = (a & 0xFFFF_FFFF) as u32;
        match name {
            "wtp.reply" => {
                let at = tick();
                s.replies.lock().unwrap().insert(((c >> 48) as u16, c & ((1 << 48) - 1)), (at, seg, b));
            }
            "wtp.published" => {
                let at = tick();
                let mut lp = s.last_pub.lock().unwrap();
                if lp.get(&bucket) != Some(&(seg, b)) {
                    lp.insert(bucket, (seg, b));
                    s.log.lock().unwrap().push(Item::P { bucket, g: seg, v: b, at });
                }
            }
            "wtp.rollover.swapped" => {
                let at = tick();
                s.roll_open.lock().unwrap().insert(bucket, (seg, at));
                s.rollovers.fetch_add(1, Ordering::SeqCst);
                if s.cfg.hold > 0 { let t0 = hold_begin(); std::thread::sleep(Duration::from_millis(s.cfg.hold)); hold_end(t0); }
                s.gate_swapped.pass();
            }
            "wtp.rollover.installed" => {
                let at2 = tick();
                if let Some((g, at)) = s.roll_open.lock().unwrap().remove(&bucket) {
                    s.log.lock().unwrap().push(Item::R { bucket, g, at, at2 });
                }
            }
            "wtp.append.replied" => { s.gate_replied.pass(); }
            _ => {}
        }
    })));
}

fn open_db(cfg: &Cfg, dir: &std::path::Path) -> Result<Database, String> {
    let mut b = DatabaseBuilder::new();
    b.segment_size_bytes(SEG)
        .total_buckets(cfg.b)
        .bucket_ids_from_range(0..cfg.b)
        .reader_threads(cfg.r)
        .writer_threads(cfg.t)
        .sync_interval(Duration::from_millis(cfg.sync))
        .sync_idle_interval(Duration::from_millis(cfg.idle_ms()))
        .cache_capacity_bytes(4 * 1024 * 1024)
        .compression(false);
    if cfg.tsync != 0 {
        // timer-driven syncs only: appended data stays pending until the syncer's FlushPoll (or the interval check at the
        // end of a later write), so rollovers and acknowledgements meet unsynced data
        b.min_sync_bytes(usize::MAX / 2).max_batch_size(1_000_000);
    }
    match common::catch(|| b.open(dir)) {
        Some(Ok(db)) => Ok(db),
        Some(Err(e)) => Err(format!("{e}")),
        None => Err("PANIC".into()),
    }
}

fn render_event(e: &EventRecord) -> String { format!("e{}:q{}:v{}", eid_of(e.event_id), e.partition_sequence, e.stream_version) }
fn short(s: &str) -> String { s.chars().map(|c| if c == ';' || c == '\t' || c == '\n' || c == '=' || c == '|' { ',' } else { c }).take(80).collect() }
fn show_cur(c: sierradb::database::CurrentVersion) -> String {
    match c { sierradb::database::CurrentVersion::Empty => "none".into(), sierradb::database::CurrentVersion::Current(v) => v.to_string() }
}
fn render_werr(cfg: &Cfg, e: &WriteError) -> String {
    match e {
        WriteError::WrongExpectedVersion { stream_id, current, expected, .. } => {
            let sid = stream_id.to_string().trim_start_matches("stream-").to_string();
            format!("ver s{} cur:{} exp:{}", sid, show_cur(*current), show_xv(*expected))
        }
        WriteError::WrongExpectedSequence { current, expected, .. } => format!("seq cur:{} exp:{}", show_cur(*current), show_xv(*expected)),
        WriteError::Validation(EventValidationError::PartitionKeyMismatch { existing_partition_key, .. }) => {
            let k = (0..cfg.k).find(|k| key_uuid(*k) == *existing_partition_key).map(|k| k.to_string()).unwrap_or("?".into());
            format!("key existing:k{k}")
        }
        WriteError::EventsExceedSegmentSize => "big".into(),
        other => format!("other {}", short(&other.to_string())),
    }
}

fn est_size(evs: &[(u64, Xv, u64, usize)]) -> usize {
    evs.iter().map(|(sid, _, eid, len)| EVENT_HEADER_SIZE + stream_name(*sid).len() + format!("Ev{}", eid % 3).len() + format!("m{eid}").len() + len).sum::<usize>()
        + if evs.len() == 1 { 0 } else { COMMIT_SIZE }
}

/// one append by client `c`: events = (sid, expectation, eid, payload length)
async fn do_append(sh: &Arc<Shared>, c: usize, op: u64, k: usize, xseq: Xv, evs: Vec<(u64, Xv, u64, usize)>) -> bool {
    let cfg = &sh.cfg;
    let pid = cfg.pid(k);
    let mut news: SmallVec<[NewEvent; 4]> = SmallVec::new();
    for (sid, xv, eid, len) in &evs {
        news.push(NewEvent {
            event_id: event_uuid(*eid, k),
            stream_id: StreamId::new(stream_name(*sid)).unwrap(),
            stream_version: xv.real(),
            event_name: format!("Ev{}", eid % 3),
            timestamp: GOOD_TS + eid,
            metadata: format!("m{eid}").into_bytes(),
            payload: payload(*eid, *len),
        });
    }
    let tx = Transaction::new(key_uuid(k), pid, news).unwrap().expected_partition_sequence(xseq.real());
    let b = tick();
    let held0 = held_now();
    let t0 = Instant::now();
    let res = {
        use futures::FutureExt;
        // the time the harness itself holds the system at a pause point is not the database's latency: the hard limit
        // leaves room for it, the bound is applied to the elapsed time minus the holds
        std::panic::AssertUnwindSafe(tokio::time::timeout(cfg.bound() + Duration::from_millis(1500), sh.db.append_events(tx))).catch_unwind().await
    };
    let held = held_now().saturating_sub(held0) / 1_000_000;
    let ms = (t0.elapsed().as_millis() as u64).saturating_sub(held);
    let e = tick();
    sh.max_ms.fetch_max(ms, Ordering::SeqCst);
    let (mut o, mut g, mut t) = (0, 0, 0);
    let mut ok = false;
    let res = match res {
        Err(_) => "PANIC".to_string(),
        Ok(Err(_)) => { sh.slow.store(true, Ordering::SeqCst); "TIMEOUT".to_string() }
        Ok(Ok(Ok(ar))) => {
            ok = true;
            if let Some(x) = sh.replies.lock().unwrap().get(&(pid, ar.first_partition_sequence)) { (o, g, t) = *x; }
            let mut sv: Vec<(u64, u64)> = ar.stream_versions.iter().map(|(s, v)| (s.to_string().trim_start_matches("stream-").parse().unwrap_or(u64::MAX), *v)).collect();
            sv.sort();
            for (s, v) in &sv { if let Some(a) = sh.known_ver.get(*s as usize) { a.fetch_max(*v as i64, Ordering::SeqCst); } }
            sh.known_seq[k].fetch_max(ar.last_partition_sequence as i64, Ordering::SeqCst);
            let mut ack = sh.acked.lock().unwrap();
            for (sid, _, eid, _) in &evs { ack.push((*eid, k, *sid)); }
            format!("ok {} {} {}", ar.first_partition_sequence, ar.last_partition_sequence,
                sv.iter().map(|(s, v)| format!("s{s}:{v}")).collect::<Vec<_>>().join(","))
        }
        Ok(Ok(Err(er))) => {
            // what the error reports is a fresh observation of the stream: remember it
            if let WriteError::WrongExpectedVersion { stream_id, current: sierradb::database::CurrentVersion::Current(v), .. } = &er {
                if let Ok(s) = stream_id.to_string().trim_start_matches("stream-").parse::<usize>() { if let Some(a) = sh.known_ver.get(s) { a.fetch_max(*v as i64, Ordering::SeqCst); } }
            }
            format!("err {}", render_werr(cfg, &er))
        }
    };
    if ms as u128 > cfg.bound().as_millis() { sh.slow.store(true, Ordering::SeqCst); }
    sh.log.lock().unwrap().push(Item::A { op, c, b, e, k, pid, xseq, evs: evs.iter().map(|(s, x, i, _)| (*s, *x, *i)).collect(), o, g, t, res });
    ok
}

async fn do_read(sh: &Arc<Shared>, r: usize, kind: u8, sid: u64, eid_k: (u64, usize), from: u64) {
    let cfg = &sh.cfg;
    let b = tick();
    let item = match kind {
        0 => {
            let pid = cfg.pid(cfg.key_of_stream(sid));
            let res = match sh.db.get_stream_version(pid, &StreamId::new(stream_name(sid)).unwrap()).await {
                Ok(Some(v)) => {
                    let k = (0..cfg.k).find(|k| key_uuid(*k) == v.partition_key).map(|k| k.to_string()).unwrap_or("?".into());
                    format!("k{}:v{}", k, v.version)
                }
                Ok(None) => "none".into(),
                Err(e) => format!("err {}", short(&e.to_string())),
            };
            Item::V { r, b, e: tick(), pid, sid, res }
        }
        1 => {
            let pid = cfg.pid(eid_k.1);
            let res = match sh.db.get_partition_sequence(pid).await {
                Ok(Some(v)) => format!("q{}", v.sequence),
                Ok(None) => "none".into(),
                Err(e) => format!("err {}", short(&e.to_string())),
            };
            Item::Q { r, b, e: tick(), pid, res }
        }
        2 => {
            let pid = cfg.pid(eid_k.1);
            let res = match sh.db.read_event(pid, event_uuid(eid_k.0, eid_k.1)).await {
                Ok(Some(e)) => render_event(&e),
                Ok(None) => "none".into(),
                Err(e) => format!("err {}", short(&e.to_string())),
            };
            Item::E { r, b, e: tick(), pid, eid: eid_k.0, res }
        }
        _ => {
            let pid = cfg.pid(cfg.key_of_stream(sid));
            let stream = StreamId::new(stream_name(sid)).unwrap();
            let res = match sh.db.read_stream(pid, stream.clone(), from, IterDirection::Forward).await {
                Err(e) => format!("err {}", short(&e.to_string())),
                Ok(mut it) => {
                    let mut out = Vec::new();
                    for _ in 0..10000 {
                        match it.next_batch(8).await {
                            Ok(Some(batch)) => for c in &batch {
                                match c {
                                    CommittedEvents::Single(e) => out.push(render_event(e)),
                                    CommittedEvents::Transaction { events, .. } => for e in events.iter() { if e.stream_id == stream { out.push(render_event(e)); } },
                                }
                            },
                            Ok(None) => break,
                            Err(e) => { out.push(format!("err {}", short(&e.to_string()))); break; }
                        }
                    }
                    if out.is_empty() { "none".into() } else { out.join(" ") }
                }
            };
            Item::S { r, b, e: tick(), pid, sid, from, res }
        }
    };
    sh.log.lock().unwrap().push(item);
}

fn pick_xv(rng: &mut Rng, known: i64) -> Xv {
    match rng.below(100) {
        0..=49 => if known < 0 { Xv::Empty } else { Xv::Exact((known as u64 + rng.below(8).saturating_sub(6)).saturating_sub(if rng.chance(1, 12) { 1 } else { 0 })) },
        50..=61 => Xv::Empty,
        62..=89 => Xv::Any,
        _ => Xv::Exists,
    }
}

async fn client(sh: Arc<Shared>, c: usize, mut rng: Rng) {
    let cfg = sh.cfg.clone();
    for i in 0..cfg.n {
        let op = (c as u64) * 1000 + i as u64 + 1;
        let sid = rng.below(cfg.s);
        let k = cfg.key_of_stream(sid);
        let nev = match rng.below(10) { 0..=5 => 1, 6..=8 => 2, _ => 3 };
        let mut evs = Vec::new();
        let mut local: HashMap<u64, i64> = HashMap::new();
        for j in 0..nev {
            // further events: same stream or another stream of the same key
            let s2 = if j == 0 || rng.chance(1, 2) { sid } else { let x = rng.below(cfg.s); x - (x % cfg.k as u64) + k as u64 };
            let s2 = if s2 >= cfg.s { sid } else { s2 };
            let known = *local.get(&s2).unwrap_or(&sh.known_ver[s2 as usize].load(Ordering::SeqCst));
            let xv = pick_xv(&mut rng, known);
            local.insert(s2, known + 1);
            let len = (cfg.pay / nev as usize).max(16) + rng.below(512) as usize;
            evs.push((s2, xv, op * 4 + j, len));
        }
        let xseq = match rng.below(20) {
            0 => Xv::Empty,
            1 | 2 => { let q = sh.known_seq[k].load(Ordering::SeqCst); if q < 0 { Xv::Empty } else { Xv::Exact(q as u64) } }
            3 => Xv::Exists,
            _ => Xv::Any,
        };
        do_append(&sh, c, op, k, xseq, evs).await;
        if rng.chance(1, 4) { tokio::task::yield_now().await; }
    }
}

async fn reader(sh: Arc<Shared>, r: usize, mut rng: Rng, max_ops: usize) {
    let cfg = sh.cfg.clone();
    let mut n = 0;
    while n < max_ops && !sh.clients_done.load(Ordering::SeqCst) {
        n += 1;
        let acked: Option<(u64, usize, u64)> = { let a = sh.acked.lock().unwrap(); if a.is_empty() { None } else { Some(a[a.len() - 1 - (rng.below(a.len().min(24) as u64) as usize)]) } };
        match rng.below(10) {
            0..=3 => do_read(&sh, r, 0, rng.below(cfg.s), (0, 0), 0).await,
            4 => do_read(&sh, r, 1, 0, (0, rng.below(cfg.k as u64) as usize), 0).await,
            5..=7 => match acked { Some((eid, k, _)) => do_read(&sh, r, 2, 0, (eid, k), 0).await, None => do_read(&sh, r, 0, rng.below(cfg.s), (0, 0), 0).await },
            _ => {
                let sid = match acked { Some((_, _, s)) => s, None => rng.below(cfg.s) };
                let kv = sh.known_ver[sid as usize].load(Ordering::SeqCst);
                let from = if kv > 6 && rng.chance(2, 3) { kv as u64 - rng.below(6) } else { 0 };
                do_read(&sh, r, 3, sid, (0, 0), from).await
            }
        }
        if rng.chance(1, 3) { tokio::time::sleep(Duration::from_micros(200 + rng.below(1500))).await; } else { tokio::task::yield_now().await; }
    }
}

/// read everything that was acknowledged so far (used by the scheduled scenarios), concurrently
async fn read_all_acked(sh: &Arc<Shared>, base_r: usize) -> Vec<tokio::task::JoinHandle<()>> {
    let cfg = sh.cfg.clone();
    let acked: Vec<(u64, usize, u64)> = sh.acked.lock().unwrap().clone();
    let mut hs = Vec::new();
    let mut r = base_r;
    for sid in 0..cfg.s {
        let s = sh.clone(); let rr = r; r += 1;
        hs.push(tokio::spawn(async move { do_read(&s, rr, 0, sid, (0, 0), 0).await; do_read(&s, rr, 3, sid, (0, 0), 0).await; }));
    }
    for k in 0..cfg.k {
        let s = sh.clone(); let rr = r; r += 1;
        hs.push(tokio::spawn(async move { do_read(&s, rr, 1, 0, (0, k), 0).await; }));
    }
    for (eid, k, _) in acked.iter().rev().take(10).cloned() {
        let s = sh.clone(); let rr = r; r += 1;
        hs.push(tokio::spawn(async move { do_read(&s, rr, 2, 0, (eid, k), 0).await; }));
    }
    hs
}

fn last_published(sh: &Arc<Shared>, bucket: u16) -> Option<(u32, u64)> { sh.last_pub.lock().unwrap().get(&bucket).cloned() }

async fn scenario(sh: &Arc<Shared>) {
    let cfg = sh.cfg.clone();
    let mut rng = Rng::new(cfg.seed ^ 0x5EED);
    match cfg.kind.as_str() {
        "stress" => {
            let mut hs = Vec::new();
            for c in 0..cfg.c { hs.push(tokio::spawn(client(sh.clone(), c, rng.fork()))); }
            let mut rs = Vec::new();
            for r in 0..cfg.m { rs.push(tokio::spawn(reader(sh.clone(), r, rng.fork(), cfg.n * 12))); }
            for h in hs { let _ = h.await; }
            sh.clients_done.store(true, Ordering::SeqCst);
            for h in rs { let _ = h.await; }
            // quiescent reads of everything
            for h in read_all_acked(sh, 9000).await { let _ = h.await; }
        }
        // C20: more concurrent clients on ONE writer thread than its request queue holds (the queue is
        // max(1000 / writer_threads, 16) requests), with timer-driven syncs only, followed by quiet probe appends:
        // every append must still return (the periodic FlushPoll is what bounds the wait of a quiet append)
        "burst" => {
            // the burst: every client appends in a loop for cfg.n x 100 ms, so the queue is full across many syncer ticks
            let deadline = Instant::now() + Duration::from_millis(cfg.n as u64 * 100);
            let mut hs = Vec::new();
            for c in 0..cfg.c {
                let s2 = sh.clone();
                hs.push(tokio::spawn(async move {
                    for i in 0..900u64 {
                        if Instant::now() >= deadline { break; }
                        let op = (c as u64) * 1000 + i + 1;
                        let sid = (c as u64) % s2.cfg.s;
                        do_append(&s2, c, op, 0, Xv::Any, vec![(sid, Xv::Any, op * 4, 40)]).await;
                    }
                }));
            }
            for h in hs { let _ = h.await; }
            // quiet probes: pairs of back-to-back appends; the first syncs itself (the interval has elapsed), the second
            // arrives right after that sync and has to wait for the syncer's FlushPoll
            for i in 0..3u64 {
                tokio::time::sleep(Duration::from_millis(cfg.sync * 2)).await;
                for j in 0..2u64 {
                    let op = 900_000 + i * 2 + j;
                    do_append(sh, 9999, op, 0, Xv::Any, vec![(0, Xv::Any, op * 4, 40)]).await;
                }
            }
        }
        // C15 witness: hold the writer between the index swap and the reader-pool installation of a
        // rollover and read every acknowledged event / version meanwhile
        "window" => {
            let mut op = 0u64;
            let mut windows = 0;
            for _ in 0..400 {
                op += 1;
                let sid = rng.below(cfg.s);
                let k = cfg.key_of_stream(sid);
                let nev = 1 + rng.below(2);
                let evs: Vec<_> = (0..nev).map(|j| (sid, Xv::Any, op * 4 + j, cfg.pay / nev as usize + rng.below(300) as usize)).collect();
                sh.gate_swapped.arm();
                let s2 = sh.clone();
                let h = tokio::spawn(async move { do_append(&s2, 0, op, k, Xv::Any, evs).await });
                // either the append completes or its rollover reaches the pause point
                let mut in_window = false;
                loop {
                    if h.is_finished() { break; }
                    if sh.gate_swapped.arrived.load(Ordering::SeqCst) { in_window = true; break; }
                    tokio::time::sleep(Duration::from_micros(200)).await;
                }
                if in_window {
                    windows += 1;
                    let reads = read_all_acked(sh, 100 * windows).await;
                    tokio::time::sleep(Duration::from_millis(120)).await;
                    sh.gate_swapped.release();
                    for r in reads { let _ = r.await; }
                } else {
                    sh.gate_swapped.release();
                }
                let _ = h.await;
                if windows >= cfg.n.max(1) { break; }
            }
            for h in read_all_acked(sh, 9000).await { let _ = h.await; }
        }
        // C20 witness: a client is held between the worker's reply and its wait for the sync while the segment
        // rolls over and the new segment is synced; released afterwards, it must still complete
        "latepoll" => {
            let est1 = |len: usize| est_size(&[(0, Xv::Any, 1, len)]);
            let mut op = 0u64;
            for _round in 0..cfg.n.max(1) {
                // fill the live segment until less than ~60 KB remain
                let mut remaining;
                loop {
                    let (_, v) = last_published(sh, 0).unwrap_or((0, 48));
                    remaining = SEG.saturating_sub(v as usize);
                    if remaining < 60_000 && remaining > 6_000 { break; }
                    op += 1;
                    let len = if remaining >= 60_000 { (remaining - 30_000).min(20_000 + rng.below(3000) as usize) } else { 8000 };
                    do_append(sh, 0, op, 0, Xv::Any, vec![(0, Xv::Any, op * 4, len)]).await;
                    if op > 300 { return; }
                }
                let (g_old, _) = last_published(sh, 0).unwrap_or((0, 48));
                // X fits into the old segment, Y does not fit after X
                let len_x = remaining / 2 - 600;
                let len_y = remaining / 2 + 2500;
                debug_assert!(est1(len_x) < remaining && est1(len_x) + est1(len_y) > remaining);
                sh.gate_replied.arm();
                op += 1; let opx = op;
                let s2 = sh.clone();
                let hx = tokio::spawn(async move { do_append(&s2, 1, opx, 0, Xv::Any, vec![(0, Xv::Any, opx * 4, len_x)]).await });
                if !sh.gate_replied.wait_arrived(Duration::from_secs(5)).await { sh.gate_replied.release(); let _ = hx.await; continue; }
                op += 1; let opy = op;
                do_append(sh, 2, opy, 0, Xv::Any, vec![(1 % cfg.s, Xv::Any, opy * 4, len_y)]).await;
                // the new segment has been synced at least once (Y was acknowledged); give the syncer one more period
                let t0 = Instant::now();
                while t0.elapsed() < Duration::from_millis(300) {
                    if let Some((g, _)) = last_published(sh, 0) { if g > g_old { break; } }
                    tokio::time::sleep(Duration::from_millis(1)).await;
                }
                tokio::time::sleep(Duration::from_millis(2 * cfg.idle_ms())).await;
                sh.gate_replied.release();
                let _ = hx.await;
                for h in read_all_acked(sh, 100 * (_round + 1)).await { let _ = h.await; }
            }
        }
        _ => {}
    }
}

struct RunOut { items: Vec<Item>, summary: String, slow: bool }

fn run_once(rt: &tokio::runtime::Runtime, cfg: &Cfg) -> RunOut {
    let root = tempfile::Builder::new().prefix("sv-conc-").tempdir().unwrap();
    let db = match open_db(cfg, &root.path().join("db")) {
        Ok(db) => db,
        Err(e) => return RunOut { items: vec![], summary: format!("open-err:{e}"), slow: false },
    };
    let sh = Arc::new(Shared {
        cfg: cfg.clone(), db, log: Mutex::new(Vec::new()), replies: Mutex::new(HashMap::new()), last_pub: Mutex::new(HashMap::new()),
        roll_open: Mutex::new(HashMap::new()), gate_swapped: Gate::new(), gate_replied: Gate::new(), acked: Mutex::new(Vec::new()),
        known_ver: (0..cfg.s).map(|_| AtomicI64::new(-1)).collect(), known_seq: (0..cfg.k).map(|_| AtomicI64::new(-1)).collect(),
        clients_done: AtomicBool::new(false), max_ms: AtomicU64::new(0), slow: AtomicBool::new(false), rollovers: AtomicU64::new(0),
    });
    install_hooks(&sh);
    rt.block_on(async {
        scenario(&sh).await;
        sh.gate_swapped.release(); sh.gate_replied.release();
        if tokio::time::timeout(Duration::from_secs(15), sh.db.shutdown()).await.is_err() { STUCK.store(true, Ordering::SeqCst); }
    });
    verif_hooks::set_point(None);
    let mut items = sh.log.lock().unwrap().clone();
    items.sort_by_key(|i| i.start());
    let (mut ok, mut err, mut to, mut reads) = (0, 0, 0, 0);
    for i in &items {
        match i {
            Item::A { res, .. } => if res.starts_with("ok") { ok += 1 } else if res == "TIMEOUT" { to += 1 } else { err += 1 },
            Item::P { .. } | Item::R { .. } => {}
            _ => reads += 1,
        }
    }
    let summary = format!("ok={ok} err={err} timeout={to} reads={reads} roll={} maxms={} bound={}", sh.rollovers.load(Ordering::SeqCst), sh.max_ms.load(Ordering::SeqCst), cfg.bound().as_millis());
    let slow = sh.slow.load(Ordering::SeqCst);
    RunOut { items, summary, slow }
}

/// C20: an append slower than the bound fails the schedule only if it does so on 3 consecutive attempts
fn run_cfg(rt: &tokio::runtime::Runtime, cfg: &Cfg, out: &mut common::Out) {
    let mut attempts = 0;
    let mut slow_n = 0;
    let mut last;
    loop {
        attempts += 1;
        last = run_once(rt, cfg);
        if last.slow { slow_n += 1; } else { break; }
        if attempts >= 3 { break; }
    }
    let case = format!("{} | {}", cfg.show(), last.items.iter().map(|i| i.show()).collect::<Vec<_>>().join(" ; "));
    out.case(&case, &format!("{} slow={}/{}", last.summary, if last.slow { slow_n } else { 0 }, attempts));
    out.flush();
    if STUCK.load(Ordering::SeqCst) {
        eprintln!("cconc: a database did not shut down within 15 s; stopping here (remaining cases are not run)");
        std::process::exit(0);
    }
}

fn run_route(line: &str, out: &mut common::Out) {
    let mut nb = 1u32; let mut nt = 1u32; let mut pos: Vec<u32> = vec![];
    for f in line.split_whitespace().skip(1) {
        if let Some((a, v)) = f.split_once('=') {
            match a { "nb" => nb = v.parse().unwrap_or(1), "nt" => nt = v.parse().unwrap_or(1), "pos" => pos = v.split(',').filter_map(|x| x.parse().ok()).collect(), _ => {} }
        }
    }
    // bucket ids need not be 0..nb: the routing goes by position
    let ids: Vec<u16> = (0..nb).map(|i| ((i as u64 * 7 + 3) % 65536) as u16).collect();
    let distinct = { let mut s = ids.clone(); s.sort(); s.dedup(); s.len() == ids.len() };
    let ids: Vec<u16> = if distinct { ids } else { (0..nb).map(|i| i as u16).collect() };
    let obs: Vec<String> = pos.iter().map(|p| {
        match common::catch(|| if (*p as usize) < ids.len() { verif_hooks::bucket_id_to_thread_id(ids[*p as usize], &ids, nt as u16) } else { None }) {
            Some(Some(t)) => t.to_string(),
            Some(None) => "none".into(),
            None => "PANIC".into(),
        }
    }).collect();
    out.case(line, &obs.join(","));
}

fn gen_route(rng: &mut Rng, thorough: bool, out: &mut common::Out) {
    let mut lines = Vec::new();
    for nb in 1..=(if thorough { 24 } else { 10 }) { for nt in 1..=nb {
        lines.push(format!("route nb={nb} nt={nt} pos={}", (0..nb).map(|p| p.to_string()).collect::<Vec<_>>().join(",")));
    } }
    for _ in 0..(if thorough { 300 } else { 60 }) {
        let nb = match rng.below(4) { 0 => rng.range(1, 40), 1 => rng.range(40, 2000), 2 => rng.range(2000, 65535), _ => *rng.pick(&[255u64, 256, 257, 32767, 32768, 65534, 65535]) };
        let nt = match rng.below(4) { 0 => 1, 1 => nb, 2 => rng.range(1, nb), _ => rng.range(1, nb.min(64)) };
        let per = nb / nt; let extra = nb % nt; let edge = (per + 1) * extra;
        let mut pos: Vec<u64> = vec![0, nb - 1, edge.min(nb - 1), edge.saturating_sub(1), (edge + 1).min(nb - 1), (edge + per).min(nb - 1)];
        for _ in 0..10 { pos.push(rng.below(nb)); }
        lines.push(format!("route nb={nb} nt={nt} pos={}", pos.iter().map(|p| p.to_string()).collect::<Vec<_>>().join(",")));
    }
    for l in lines { run_route(&l, out); }
}

fn gen_cfg(rng: &mut Rng, kind: &str, thorough: bool) -> Cfg {
    let (b, t) = *rng.pick(&[(1u16, 1u16), (1, 1), (2, 1), (2, 2), (3, 1), (3, 3), (4, 1), (4, 2), (4, 4)]);
    let k = match kind { "latepoll" => 1, "window" => rng.range(1, 2) as usize, _ => rng.range(b as u64, (b as u64 * 2).min(6)) as usize };
    let s = match kind { "latepoll" => 2, _ => k as u64 * rng.range(1, 2) + rng.below(2) };
    let (b, t) = if kind == "stress" { (b, t) } else { (1, 1) };
    Cfg {
        kind: kind.into(), b, t, r: rng.range(1, 4) as u16, c: rng.range(2, if thorough { 10 } else { 6 }) as usize, m: rng.range(1, 4) as usize,
        s: s.max(k as u64), k, n: match kind { "stress" => rng.range(8, if thorough { 40 } else { 20 }) as usize, "window" => rng.range(1, 2) as usize, _ => 1 },
        pay: match kind { "window" => rng.range(9000, 24000) as usize, _ => *rng.pick(&[3000usize, 9000, 16000, 30000]) },
        sync: *rng.pick(&[2u64, 5, 5, 10]), hold: if kind == "stress" { *rng.pick(&[0u64, 0, 1, 3]) } else { 0 },
        tsync: match kind { "latepoll" => rng.chance(2, 3) as u64, _ => rng.chance(1, 3) as u64 }, seed: rng.next() % 1_000_000,
    }
}

fn main() {
    if std::env::var("SV_PANICS").is_err() { common::silence_panics(); }
    let a = common::args();
    let mut out = common::Out::new();
    let rt = tokio::runtime::Builder::new_multi_thread().worker_threads(6).enable_all().build().unwrap();
    if a.tier == "cases" {
        for line in std::fs::read_to_string(&a.rest[0]).unwrap().lines() {
            if line.starts_with("route ") { run_route(line, &mut out); }
            else if let Some(c) = Cfg::parse(line) { run_cfg(&rt, &c, &mut out); }
        }
        return;
    }
    let thorough = a.tier == "thorough";
    let mut rng = Rng::new(a.seed ^ (a.prop.bytes().fold(0u64, |x, b| x * 131 + b as u64)));
    let env_n = |name: &str, d: usize| std::env::var(name).ok().and_then(|x| x.parse().ok()).unwrap_or(d);
    // every property gets the scheduled witnesses and free-running stress; the mix differs
    let (n_stress, n_window, n_late) = match a.prop.as_str() {
        "C15" => (env_n("SV_STRESS", if thorough { 60 } else { 10 }), if thorough { 12 } else { 3 }, 0),
        "C16" => (env_n("SV_STRESS", if thorough { 90 } else { 14 }), 0, 0),
        _ => (env_n("SV_STRESS", if thorough { 50 } else { 8 }), if thorough { 3 } else { 1 }, if thorough { 10 } else { 3 }),
    };
    if a.prop == "C16" { let mut r = rng.fork(); gen_route(&mut r, thorough, &mut out); }
    if a.prop == "C20" {
        for _ in 0..(if thorough { 3 } else { 1 }) {
            let mut r = rng.fork();
            let c = Cfg { kind: "burst".into(), b: 64, t: 64, r: 2, c: r.range(150, 260) as usize, m: 0, s: 64, k: 1, n: r.range(3, 5) as usize,
                          pay: 40, sync: *r.pick(&[30u64, 40, 60]), hold: 0, tsync: 0, seed: r.next() % 1_000_000 };
            run_cfg(&rt, &c, &mut out);
        }
    }
    for _ in 0..n_window { let mut r = rng.fork(); let c = gen_cfg(&mut r, "window", thorough); run_cfg(&rt, &c, &mut out); }
    for _ in 0..n_late { let mut r = rng.fork(); let c = gen_cfg(&mut r, "latepoll", thorough); run_cfg(&rt, &c, &mut out); }
    for _ in 0..n_stress { let mut r = rng.fork(); let c = gen_cfg(&mut r, "stress", thorough); run_cfg(&rt, &c, &mut out); }
}
