/* LD_PRELOAD interposer used by the C01 check: observes, independently of the Rust source,
 * which byte ranges of every data.evts file have been written and which were covered by an
 * fdatasync/fsync.  svio_synced_end(path) = highest written end offset that a later sync covered. */
#define _GNU_SOURCE
#include <dlfcn.h>
#include <pthread.h>
#include <stdio.h>
#include <string.h>
#include <unistd.h>
#include <sys/types.h>
#include <stdint.h>
#include <limits.h>

#define MAXFD 1048576
static volatile int unreliable = 0;   /* a descriptor beyond the table was used: answers would be guesses */
#define MAXP 16384
static pthread_mutex_t mu = PTHREAD_MUTEX_INITIALIZER;
static int tracked[MAXFD];          /* 0 unknown, 1 tracked, 2 not a data.evts file */
static int64_t written_end[MAXFD];  /* end of the highest byte written since open */
static int pidx[MAXFD];
#define MAXR 64
struct pent { char path[512]; int64_t synced_end; int64_t written_end; long syncs; int nr; int64_t lo[MAXR], hi[MAXR]; };
static struct pent ptab[MAXP];
static int np = 0;

static ssize_t (*real_write)(int, const void *, size_t);
static ssize_t (*real_pwrite64)(int, const void *, size_t, off64_t);
static int (*real_fdatasync)(int);
static int (*real_fsync)(int);
static int (*real_close)(int);

static void init(void) {
  if (real_write) return;
  real_write = dlsym(RTLD_NEXT, "write");
  real_pwrite64 = dlsym(RTLD_NEXT, "pwrite64");
  real_fdatasync = dlsym(RTLD_NEXT, "fdatasync");
  real_fsync = dlsym(RTLD_NEXT, "fsync");
  real_close = dlsym(RTLD_NEXT, "close");
}

static int classify(int fd) { /* with mu held */
  if (fd < 0) return 2;
  if (fd >= MAXFD) { unreliable = 1; return 2; }
  if (tracked[fd]) return tracked[fd];
  char link[64], path[512];
  snprintf(link, sizeof link, "/proc/self/fd/%d", fd);
  ssize_t n = readlink(link, path, sizeof path - 1);
  if (n <= 0) { tracked[fd] = 2; return 2; }
  path[n] = 0;
  size_t l = strlen(path);
  if (l < 9 || strcmp(path + l - 9, "data.evts") != 0) { tracked[fd] = 2; return 2; }
  int i;
  for (i = 0; i < np; i++) if (strcmp(ptab[i].path, path) == 0) break;
  if (i == np) { if (np >= MAXP) { tracked[fd] = 2; return 2; } strcpy(ptab[np].path, path); ptab[np].synced_end = 0; ptab[np].written_end = 0; ptab[np].syncs = 0; ptab[np].nr = 0; np++; }
  pidx[fd] = i; written_end[fd] = 0; tracked[fd] = 1;
  return 1;
}

static void note_write(int fd, int64_t off, ssize_t n) {
  if (n <= 0) return;
  pthread_mutex_lock(&mu);
  if (classify(fd) == 1) {
    if (off + n > written_end[fd]) written_end[fd] = off + n;
    struct pent *p = &ptab[pidx[fd]];
    if (off + n > p->written_end) p->written_end = off + n;
    /* dirty range [off, off+n): extend the last range when contiguous, else add; on overflow merge all */
    if (p->nr > 0 && p->hi[p->nr - 1] == off) p->hi[p->nr - 1] = off + n;
    else if (p->nr < MAXR) { p->lo[p->nr] = off; p->hi[p->nr] = off + n; p->nr++; }
    else { int64_t lo = off, hi = off + n; for (int i = 0; i < p->nr; i++) { if (p->lo[i] < lo) lo = p->lo[i]; if (p->hi[i] > hi) hi = p->hi[i]; } p->lo[0] = lo; p->hi[0] = hi; p->nr = 1; }
  }
  pthread_mutex_unlock(&mu);
}
static void note_sync(int fd) {
  pthread_mutex_lock(&mu);
  if (classify(fd) == 1) {
    /* a sync through any descriptor of the file persists everything written to the file so far */
    struct pent *p = &ptab[pidx[fd]];
    if (p->written_end > p->synced_end) p->synced_end = p->written_end;
    p->syncs++;
    p->nr = 0;
  }
  pthread_mutex_unlock(&mu);
}

ssize_t write(int fd, const void *buf, size_t n) {
  init();
  if (fd >= MAXFD) unreliable = 1;
  off_t off = (fd > 2 && fd < MAXFD && tracked[fd] != 2) ? lseek(fd, 0, SEEK_CUR) : -1;
  ssize_t r = real_write(fd, buf, n);
  if (off >= 0) note_write(fd, off, r);
  return r;
}
ssize_t pwrite64(int fd, const void *buf, size_t n, off64_t off) {
  init();
  ssize_t r = real_pwrite64(fd, buf, n, off);
  if (fd >= MAXFD) unreliable = 1;
  if (fd > 2 && fd < MAXFD && tracked[fd] != 2) note_write(fd, off, r);
  return r;
}
ssize_t pwrite(int fd, const void *buf, size_t n, off_t off) { return pwrite64(fd, buf, n, off); }
int fdatasync(int fd) { init(); int r = real_fdatasync(fd); if (r == 0) note_sync(fd); return r; }
int fsync(int fd) { init(); int r = real_fsync(fd); if (r == 0) note_sync(fd); return r; }
int close(int fd) {
  init();
  if (fd >= 0 && fd < MAXFD) { pthread_mutex_lock(&mu); tracked[fd] = 0; pthread_mutex_unlock(&mu); }
  return real_close(fd);
}

/* queries used by the harness (found with dlsym) */
int64_t svio_synced_end(const char *path) {
  int64_t r = -1;
  pthread_mutex_lock(&mu);
  for (int i = 0; i < np; i++) if (strcmp(ptab[i].path, path) == 0) r = ptab[i].synced_end;
  pthread_mutex_unlock(&mu);
  return r;
}
int64_t svio_written_end(const char *path) {
  int64_t r = -1;
  pthread_mutex_lock(&mu);
  for (int i = 0; i < np; i++) if (strcmp(ptab[i].path, path) == 0) r = ptab[i].written_end;
  pthread_mutex_unlock(&mu);
  return r;
}
long svio_syncs(const char *path) {
  long r = -1;
  pthread_mutex_lock(&mu);
  for (int i = 0; i < np; i++) if (strcmp(ptab[i].path, path) == 0) r = ptab[i].syncs;
  pthread_mutex_unlock(&mu);
  return r;
}

/* number of bytes in [a,b) written since the last successful sync of the file (not yet persisted) */
int64_t svio_dirty_in(const char *path, int64_t a, int64_t b) {
  int64_t r = -1;
  if (unreliable) return -1;
  pthread_mutex_lock(&mu);
  for (int i = 0; i < np; i++) if (strcmp(ptab[i].path, path) == 0) {
    r = 0;
    for (int j = 0; j < ptab[i].nr; j++) {
      int64_t lo = ptab[i].lo[j] > a ? ptab[i].lo[j] : a, hi = ptab[i].hi[j] < b ? ptab[i].hi[j] : b;
      if (hi > lo) r += hi - lo;
    }
  }
  pthread_mutex_unlock(&mu);
  return r;
}
