mod c24;
fn main() {
    common::silence_panics();
    let a = common::args();
    let mut out = common::Out::new();
    match a.prop.as_str() {
        "C24" => c24::run(&a, &mut out),
        p => { eprintln!("hfull: unknown property {p}"); std::process::exit(2); }
    }
    out.flush();
}
