mod c07;
fn main() {
    common::silence_panics();
    let a = common::args();
    let mut out = common::Out::new();
    c07::run(&a, &mut out);
    out.flush();
}
