//! C07: what the cluster read paths reveal, on the real ClusterActor (single node, in-process).
//!
//! A layout is one partition's log: transactions `<counts>:<streams>` separated by ','.
//!   `2:010`      one transaction of three events (streams 0,1,0), all with on-disk confirmation count 2
//!   `2.0.2:010`  the same with per-event counts (as left by an interrupted set_confirmations)
//! case lines (rf = replication factor of the node; quorum = rf/2+1)
//!   rp <rf> <layout> <start> <end|-> <count>             ReadPartition      -> [seq,..] more=0|1
//!   rs <rf> <layout> <stream> <start> <end|-> <count>    ReadStream         -> [ver@seq,..] more=0|1
//!   re <rf> <layout> <seq>                               ReadEvent (the id of the event at <seq>; unknown id if beyond the log) -> seq | none
//!   sv <rf> <layout> <stream>                            GetStreamVersion   -> ver | none
//!   ps <rf> <layout>                                     GetPartitionSequence -> seq | none
//!   lv <rf> <layout> <deliveries|-> <rp|rs|re|sv|ps> <args as above without rf/layout>
//!        the watermark is built LIVE: the node is started on <layout>, then ConfirmTransaction messages
//!        `<txn index>:<count>,..` are delivered to the running ClusterActor in that order (the path a
//!        coordinator's confirmation takes on a replica: on-disk count, then the report to the
//!        ConfirmationActor); after the last one has settled the read is asked.  Lines whose delivery list
//!        extends that of an earlier line with the same layout continue on the same partition.
//! Only one ClusterActor can live in a process and its replication factor is fixed, so the parent process
//! re-executes itself once per replication factor (`child`); inside a child up to 48 layouts share one
//! database (one partition each) and further databases are swapped in with the ResetCluster message.
use common::{Args, Out, Rng};
use kameo::actor::{ActorRef, Spawn};
use libp2p::identity::Keypair;
use sierradb::StreamId;
use sierradb::database::{Database, DatabaseBuilder, NewEvent, Transaction};
use sierradb::id::{uuid_to_partition_hash, uuid_v7_with_partition_hash};
use sierradb_cluster::read::{GetPartitionSequence, GetStreamVersion, ReadEvent, ReadPartition, ReadStream};
use sierradb_cluster::write::confirm::ConfirmTransaction;
use sierradb_cluster::{ClusterActor, ClusterArgs, ResetCluster};
use sierradb_protocol::ExpectedVersion;
use std::collections::{BTreeMap, HashMap, HashSet};
use std::io::Write;
use std::time::Duration;
use uuid::Uuid;

const PARTITIONS: u16 = 64;
const PER_DB: usize = 48;

#[derive(Clone, Debug)]
struct Txn { counts: Vec<u8>, streams: Vec<u8> }

fn parse_layout(s: &str) -> Option<Vec<Txn>> {
    if s == "-" { return Some(vec![]); }
    s.split(',').map(|t| {
        let (c, st) = t.split_once(':')?;
        let streams: Vec<u8> = st.bytes().map(|b| b.wrapping_sub(b'0')).collect();
        if streams.is_empty() || streams.iter().any(|&d| d > 9) { return None; }
        let mut counts: Vec<u8> = c.split('.').map(|x| x.parse().ok()).collect::<Option<_>>()?;
        if counts.len() == 1 { counts = vec![counts[0]; streams.len()]; }
        if counts.len() != streams.len() { return None; }
        Some(Txn { counts, streams })
    }).collect()
}

fn key_for(p: u16) -> Uuid {
    // partition hash = bits 46..61 of the uuid
    Uuid::from_u128(((p as u128) << 46) | 0x0123_4567_89ab_0000_0000_0000_0000_0000u128 | 0x2a)
}
fn stream_name(p: u16, d: u8) -> StreamId { StreamId::new(format!("p{p}s{d}")).unwrap() }

struct TxInfo { txid: Uuid, ids: Vec<Uuid>, first: u64, counts: Vec<u8> }
struct Loaded { ids: Vec<Uuid>, txs: Vec<TxInfo> }

async fn populate(db: &Database, p: u16, layout: &[Txn]) -> Result<Loaded, String> {
    let key = key_for(p);
    let hash = uuid_to_partition_hash(key);
    if hash % PARTITIONS != p { return Err(format!("key for partition {p} hashes to {}", hash % PARTITIONS)); }
    let mut ids = Vec::new();
    let mut txs = Vec::new();
    let mut next = 0u64;
    for t in layout {
        let evs: smallvec::SmallVec<[NewEvent; 4]> = t.streams.iter().map(|&d| NewEvent {
            event_id: uuid_v7_with_partition_hash(hash),
            stream_id: stream_name(p, d),
            stream_version: ExpectedVersion::Any,
            event_name: "e".into(), timestamp: 1, metadata: vec![], payload: vec![7; 5],
        }).collect();
        for e in &evs { ids.push(e.event_id); }
        let tx_ids: Vec<Uuid> = evs.iter().map(|e| e.event_id).collect();
        let tx = Transaction::new(key, p, evs).map_err(|e| format!("tx: {e}"))?.with_confirmation_count(t.counts[0]);
        let txid = tx.transaction_id();
        let r = db.append_events(tx).await.map_err(|e| format!("append: {e}"))?;
        if r.first_partition_sequence != next { return Err(format!("partition {p}: got sequence {} wanted {next}", r.first_partition_sequence)); }
        for (i, &c) in t.counts.iter().enumerate() {
            if c != t.counts[0] {
                let off = *r.offsets.get(i).ok_or("offsets shorter than the transaction")?;
                db.set_confirmations(p, smallvec::smallvec![off], txid, c).await.map_err(|e| format!("set_confirmations: {e}"))?;
            }
        }
        txs.push(TxInfo { txid, ids: tx_ids, first: next, counts: t.counts.clone() });
        next += t.streams.len() as u64;
    }
    Ok(Loaded { ids, txs })
}

fn opt(s: &str) -> Option<Option<u64>> { if s == "-" { Some(None) } else { s.parse().ok().map(Some) } }

/// `t` = [kind, _, _, args..] (positions 1 and 2 are the replication factor and the layout)
async fn query(cluster: &ActorRef<ClusterActor>, p: u16, ld: &Loaded, t: &[&str]) -> String {
    let short = |e: String| { let e = e.replace(['\n', '\t'], " "); format!("ERR {}", &e[..e.len().min(120)]) };
    match t[0] {
        "rp" if t.len() == 6 => {
            let (Ok(s), Some(e), Ok(c)) = (t[3].parse::<u64>(), opt(t[4]), t[5].parse::<u64>()) else { return "BADCASE".into() };
            match cluster.ask(ReadPartition { partition_id: p, start_sequence: s, end_sequence: e, count: c }).await {
                Ok(r) => format!("{} more={}", common::list(r.events.iter().map(|e| e.partition_sequence)), r.has_more as u8),
                Err(e) => short(e.to_string()),
            }
        }
        "rs" if t.len() == 7 => {
            let (Ok(d), Ok(s), Some(e), Ok(c)) = (t[3].parse::<u8>(), t[4].parse::<u64>(), opt(t[5]), t[6].parse::<u64>()) else { return "BADCASE".into() };
            match cluster.ask(ReadStream { partition_id: p, stream_id: stream_name(p, d), start_version: s, end_version: e, count: c }).await {
                Ok(r) => {
                    if r.events.iter().any(|e| e.stream_id != stream_name(p, d) || e.partition_id != p) { return "ERR foreign event".into(); }
                    format!("{} more={}", common::list(r.events.iter().map(|e| format!("{}@{}", e.stream_version, e.partition_sequence))), r.has_more as u8)
                }
                Err(e) => short(e.to_string()),
            }
        }
        "re" if t.len() == 4 => {
            let Ok(s) = t[3].parse::<usize>() else { return "BADCASE".into() };
            let id = ld.ids.get(s).copied().unwrap_or_else(|| uuid_v7_with_partition_hash(uuid_to_partition_hash(key_for(p))));
            match cluster.ask(ReadEvent::new(id)).await {
                Ok(Some(e)) => if e.event_id == id { format!("{}", e.partition_sequence) } else { "ERR other event".into() },
                Ok(None) => "none".into(),
                Err(e) => short(e.to_string()),
            }
        }
        "sv" if t.len() == 4 => {
            let Ok(d) = t[3].parse::<u8>() else { return "BADCASE".into() };
            match cluster.ask(GetStreamVersion { partition_id: p, stream_id: stream_name(p, d) }).await {
                Ok(Some(v)) => format!("{v}"), Ok(None) => "none".into(), Err(e) => short(e.to_string()),
            }
        }
        "ps" if t.len() == 3 => {
            match cluster.ask(GetPartitionSequence { partition_id: p }).await {
                Ok(Some(v)) => format!("{v}"), Ok(None) => "none".into(), Err(e) => short(e.to_string()),
            }
        }
        _ => "BADCASE".into(),
    }
}

fn parse_deliveries(s: &str) -> Option<Vec<(usize, u8)>> {
    if s == "-" { return Some(vec![]); }
    s.split(',').map(|t| { let (a, b) = t.split_once(':')?; Some((a.parse().ok()?, b.parse().ok()?)) }).collect()
}

/// one partition of one database: a start-up layout (static) or a live scenario (mutated by deliveries)
struct Slot { layout: String, live: bool, deliveries: Vec<(usize, u8)>, applied: usize, loaded: Option<Loaded> }

/// the longest quorum prefix of the best count known per event (on disk at start-up or delivered so far)
fn expected_watermark(rf: u8, ld: &Loaded, delivered: &[(usize, u8)]) -> u64 {
    let q = rf / 2 + 1;
    let mut best: Vec<u8> = ld.txs.iter().flat_map(|t| t.counts.clone()).collect();
    for &(t, c) in delivered {
        if let Some(tx) = ld.txs.get(t) { for k in 0..tx.ids.len() { let i = tx.first as usize + k; best[i] = best[i].max(c); } }
    }
    best.iter().take_while(|&&c| c >= q).count() as u64
}

/// deliver one ConfirmTransaction to the running node and wait until the watermark has settled
async fn deliver(cluster: &ActorRef<ClusterActor>, rf: u8, p: u16, ld: &Loaded, all: &[(usize, u8)], upto: usize) -> Result<(), String> {
    let (t, c) = all[upto];
    let Some(tx) = ld.txs.get(t) else { return Err(format!("no transaction {t}")) };
    let msg = ConfirmTransaction {
        partition_id: p, transaction_id: tx.txid,
        event_ids: tx.ids.iter().copied().collect(),
        confirmation_versions: (0..tx.ids.len() as u64).map(|k| tx.first + k + 1).collect(),
        confirmation_count: c,
    };
    cluster.ask(msg).await.map_err(|e| format!("ConfirmTransaction: {e}"))?;
    // quiescence: the handler only *tells* the ConfirmationActor; poll the published watermark until it has the
    // value the reports delivered so far imply (seen twice), or, failing that, until it stopped moving
    let want = expected_watermark(rf, ld, &all[..=upto]).checked_sub(1);
    let t0 = std::time::Instant::now();
    let (mut last, mut same) = (None, 0u32);
    loop {
        let cur = cluster.ask(GetPartitionSequence { partition_id: p }).await.map_err(|e| format!("poll: {e}"))?;
        if Some(cur) == last { same += 1; } else { same = 0; last = Some(cur); }
        if cur == want && same >= 1 { return Ok(()); }
        if t0.elapsed() > Duration::from_millis(2500) && same >= 10 { return Ok(()); }
        if t0.elapsed() > Duration::from_secs(20) { return Ok(()); }
        tokio::time::sleep(Duration::from_millis(if cur == want { 3 } else { 25 })).await;
    }
}

async fn child_run(rf: u8, lines: Vec<String>) -> Result<Vec<(String, String)>, String> {
    let mut out = Vec::new();
    // assign every line to a slot
    let mut slots: Vec<Slot> = Vec::new();
    let mut static_slot: HashMap<String, usize> = HashMap::new();
    let mut plan: Vec<Option<(usize, usize)>> = Vec::new(); // per line: (slot, number of deliveries that must have been applied)
    for l in &lines {
        let t: Vec<&str> = l.split_whitespace().collect();
        if t.len() < 3 || parse_layout(t[2]).is_none() { plan.push(None); continue; }
        if t[0] == "lv" {
            let Some(d) = (if t.len() >= 5 { parse_deliveries(t[3]) } else { None }) else { plan.push(None); continue };
            let found = slots.iter().rposition(|s| s.live && s.layout == t[2] && s.deliveries.len() <= d.len() && d[..s.deliveries.len()] == s.deliveries[..]);
            let k = match found { Some(k) => { slots[k].deliveries = d.clone(); k }
                                  None => { slots.push(Slot { layout: t[2].into(), live: true, deliveries: d.clone(), applied: 0, loaded: None }); slots.len() - 1 } };
            plan.push(Some((k, d.len())));
        } else {
            let k = *static_slot.entry(t[2].to_string()).or_insert_with(|| { slots.push(Slot { layout: t[2].into(), live: false, deliveries: vec![], applied: 0, loaded: None }); slots.len() - 1 });
            plan.push(Some((k, 0)));
        }
    }
    for (l, pl) in lines.iter().zip(&plan) { if pl.is_none() { out.push((l.clone(), "BADCASE".to_string())); } }
    let mut cluster: Option<ActorRef<ClusterActor>> = None;
    let mut dirs = Vec::new();
    let nslots = slots.len();
    for base in (0..nslots).step_by(PER_DB) {
        let end = (base + PER_DB).min(nslots);
        let dir = tempfile::tempdir().map_err(|e| e.to_string())?;
        let db = DatabaseBuilder::new().segment_size_bytes(1024 * 1024).total_buckets(4).bucket_ids_from_range(0..4)
            .open(dir.path()).map_err(|e| format!("open: {e}"))?;
        for k in base..end {
            let layout = parse_layout(&slots[k].layout).unwrap();
            slots[k].loaded = Some(populate(&db, (k - base) as u16, &layout).await?);
        }
        match &cluster {
            None => {
                let c = ClusterActor::spawn(ClusterArgs {
                    keypair: Keypair::generate_ed25519(), database: db.clone(), listen_addrs: vec![],
                    node_count: 1, node_index: 0, bucket_count: 4, partition_count: PARTITIONS, replication_factor: rf,
                    assigned_partitions: HashSet::from_iter(0..PARTITIONS),
                    heartbeat_timeout: Duration::from_millis(1_000), heartbeat_interval: Duration::from_millis(6_000),
                    replication_buffer_size: 1_000, replication_buffer_timeout: Duration::from_millis(8_000),
                    replication_catchup_timeout: Duration::from_millis(2_000), mdns: false,
                });
                c.wait_for_startup().await;
                cluster = Some(c);
            }
            Some(c) => { c.ask(ResetCluster { database: db.clone() }).await.map_err(|e| format!("reset: {e}"))?; }
        }
        let c = cluster.as_ref().unwrap();
        for (l, pl) in lines.iter().zip(&plan) {
            let Some((k, need)) = *pl else { continue };
            if k < base || k >= end { continue; }
            let p = (k - base) as u16;
            let t: Vec<&str> = l.split_whitespace().collect();
            let mut failed: Option<String> = None;
            if slots[k].live {
                if slots[k].applied > need { failed = Some("ERR deliveries out of order".into()); }
                while failed.is_none() && slots[k].applied < need {
                    let upto = slots[k].applied;
                    let sl = &slots[k];
                    match deliver(c, rf, p, sl.loaded.as_ref().unwrap(), &sl.deliveries, upto).await {
                        Ok(()) => { slots[k].applied += 1; }
                        Err(e) => { let e = e.replace(['\n', '\t'], " "); failed = Some(format!("ERR {}", &e[..e.len().min(120)])); }
                    }
                }
            }
            let o = match failed {
                Some(e) => e,
                None => {
                    let ld = slots[k].loaded.as_ref().unwrap();
                    // a live line carries the read behind the delivery list: [lv rf layout D kind args..] -> [kind rf layout args..]
                    let tt: Vec<&str> = if slots[k].live { let mut v = vec![t[4], t[1], t[2]]; v.extend_from_slice(&t[5..]); v } else { t.clone() };
                    match tokio::time::timeout(Duration::from_secs(30), query(c, p, ld, &tt)).await { Ok(o) => o, Err(_) => "TIMEOUT".to_string() }
                }
            };
            out.push((l.clone(), o));
        }
        dirs.push((dir, db));
    }
    Ok(out)
}

fn child(a: &Args, out: &mut Out) {
    let lines: Vec<String> = std::fs::read_to_string(&a.rest[0]).unwrap().lines().map(|l| l.trim().to_string()).filter(|l| !l.is_empty()).collect();
    let Some(rf) = lines.first().and_then(|l| l.split_whitespace().nth(1)).and_then(|x| x.parse::<u8>().ok()) else { return };
    let rt = tokio::runtime::Builder::new_multi_thread().worker_threads(4).enable_all().build().unwrap();
    match rt.block_on(child_run(rf, lines)) {
        Ok(v) => { for (c, o) in v { out.case(&c, &o); } }
        Err(e) => { eprintln!("c07 child rf={rf}: {e}"); out.flush(); std::process::exit(3); }
    }
    out.flush();
    // the actor system has no orderly shutdown for a swarm-less node; leave at once
    std::process::exit(0);
}

/// run the lines (any mix of replication factors): one child process per replication factor, in parallel
fn run_lines(a: &Args, lines: &[String], out: &mut Out) {
    let mut by_rf: BTreeMap<u8, Vec<&String>> = BTreeMap::new();
    for l in lines {
        let t: Vec<&str> = l.split_whitespace().collect();
        if t.len() < 3 { continue; }
        if let Ok(rf) = t[1].parse::<u8>() { by_rf.entry(rf).or_default().push(l); }
    }
    let exe = std::env::current_exe().unwrap();
    let tmp = tempfile::tempdir().unwrap();
    let mut kids = Vec::new();
    for (rf, ls) in &by_rf {
        let f = tmp.path().join(format!("rf{rf}.cases"));
        let mut w = std::fs::File::create(&f).unwrap();
        for l in ls { writeln!(w, "{l}").unwrap(); }
        let k = std::process::Command::new(&exe).args([&a.prop, "child", &a.seed.to_string()]).arg(&f)
            .stdout(std::process::Stdio::piped()).stderr(std::process::Stdio::piped()).spawn().unwrap();
        kids.push((*rf, k));
    }
    let mut failed = false;
    for (rf, k) in kids {
        let o = k.wait_with_output().unwrap();
        if !o.status.success() {
            eprintln!("c07: child for rf={rf} failed: {}", String::from_utf8_lossy(&o.stderr).chars().rev().take(1500).collect::<String>().chars().rev().collect::<String>());
            failed = true;
            continue;
        }
        for line in String::from_utf8_lossy(&o.stdout).lines() {
            if let Some((c, ob)) = line.split_once('\t') { out.case(c, ob); }
        }
    }
    if failed { out.flush(); std::process::exit(3); }
}

// ------------------------------------------------------------------ generators
fn gen_layout(rng: &mut Rng, rf: u8, big: bool) -> String {
    let q = rf / 2 + 1;
    let ntx = if big { rng.range(40, 70) } else { rng.range(0, 9) };
    let healthy = match rng.below(5) { 0 => 0, 1 => ntx, _ => rng.range(0, ntx) };
    let nstreams = rng.range(1, 3) as u8;
    let mut txs = Vec::new();
    for i in 0..ntx {
        let k = if rng.chance(2, 5) { rng.range(2, 4) as usize } else { 1 };
        let streams: String = (0..k).map(|_| (b'0' + rng.below(nstreams as u64) as u8) as char).collect();
        let good = i < healthy || rng.chance(1, 4);
        let c = if good { rng.range(q as u64, (rf.max(q)).min(12) as u64) as u8 } else { rng.below(q as u64) as u8 };
        if k > 1 && rng.chance(1, 4) {
            // per-event counts: the bound may fall inside the transaction
            let cs: Vec<String> = (0..k).map(|j| {
                let g = if i < healthy { j + 1 < k || rng.chance(1, 2) } else { rng.chance(1, 2) };
                (if g { rng.range(q as u64, rf.max(q).min(12) as u64) } else { rng.below(q as u64) }).to_string()
            }).collect();
            txs.push(format!("{}:{streams}", cs.join(".")));
        } else {
            txs.push(format!("{c}:{streams}"));
        }
    }
    if txs.is_empty() { "-".into() } else { txs.join(",") }
}

fn layout_len(l: &str) -> u64 { parse_layout(l).map(|t| t.iter().map(|x| x.streams.len() as u64).sum()).unwrap_or(0) }

fn gen_queries(rng: &mut Rng, rf: u8, l: &str, dense: bool, v: &mut Vec<String>) {
    let n = layout_len(l);
    v.push(format!("ps {rf} {l}"));
    for d in 0..3u8 { v.push(format!("sv {rf} {l} {d}")); }
    let res: Vec<u64> = if n <= 12 { (0..=n).collect() } else { let mut x: Vec<u64> = (0..8).map(|_| rng.below(n + 1)).collect(); x.push(n); x };
    for s in res { v.push(format!("re {rf} {l} {s}")); }
    let nq = if dense { 40 } else { 14 };
    // the watermark of this layout: most requests are aimed at the region around it
    let q = rf / 2 + 1;
    let counts: Vec<u8> = parse_layout(l).map(|t| t.iter().flat_map(|x| x.counts.clone()).collect()).unwrap_or_default();
    let w = counts.iter().take_while(|&&c| c >= q).count() as u64;
    let pick_pos = |rng: &mut Rng| -> u64 { match rng.below(12) { 0 => 0, 1 => n, 2 => n + 1, 3 => u64::MAX, 4 => w, 5 => w.saturating_sub(1), 6 => w + 1, 7 | 8 => rng.below(w + 1), _ => rng.below(n + 2) } };
    let pick_cnt = |rng: &mut Rng| -> u64 { match rng.below(8) { 0 => 0, 1 => 1, 2 => u64::MAX, 3 => 1000, _ => rng.range(1, n.max(1) + 1) } };
    for _ in 0..nq {
        let s = if rng.chance(1, 2) { rng.below(w + 1) } else { pick_pos(rng) };
        let e = if rng.chance(1, 3) { "-".to_string() } else { match rng.below(6) { 0 => s.to_string(), 1 => u64::MAX.to_string(), 2 => s.saturating_add(rng.below(5)).to_string(), _ => pick_pos(rng).to_string() } };
        v.push(format!("rp {rf} {l} {s} {e} {}", pick_cnt(rng)));
    }
    for _ in 0..nq {
        let d = rng.below(3);
        let sn = parse_layout(l).map(|t| t.iter().flat_map(|x| x.streams.clone()).filter(|&x| x as u64 == d).count() as u64).unwrap_or(0);
        let s = if rng.chance(2, 3) { rng.below(sn + 1) } else { pick_pos(rng) };
        let e = if rng.chance(1, 3) { "-".to_string() } else { match rng.below(6) { 0 => s.to_string(), 1 => u64::MAX.to_string(), 2 => (s.saturating_add(rng.below(4))).to_string(), _ => rng.below(sn + 2).to_string() } };
        v.push(format!("rs {rf} {l} {d} {s} {e} {}", pick_cnt(rng)));
    }
}

fn shuffle<T>(rng: &mut Rng, v: &mut Vec<T>) {
    for i in (1..v.len()).rev() { let j = rng.below(i as u64 + 1) as usize; v.swap(i, j); }
}

/// a live scenario: a log of (mostly) unconfirmed events, and confirmations delivered to the running node late,
/// out of order and duplicated, with some transactions never reaching quorum and confirmed ones behind them;
/// after every delivery all five reads
fn gen_live(rng: &mut Rng, rf: u8, long: bool, dense: bool, v: &mut Vec<String>) {
    let q = rf / 2 + 1;
    let top = rf.max(q).min(12);
    let ntx = if long { rng.range(52, 60) } else { rng.range(2, 8) } as usize;
    let nstreams = rng.range(1, 3) as u8;
    let pre = if rng.chance(1, 3) { rng.below(ntx as u64 / 2 + 1) as usize } else { 0 }; // confirmed on disk before the node starts
    let mut txs: Vec<String> = Vec::new();
    let mut sizes: Vec<usize> = Vec::new();
    for i in 0..ntx {
        let k = if rng.chance(2, 5) { rng.range(2, 4) as usize } else { 1 };
        let streams: String = (0..k).map(|_| (b'0' + rng.below(nstreams as u64) as u8) as char).collect();
        let c0 = if i < pre { rng.range(q as u64, top as u64) as u8 } else if rng.chance(1, 8) { rng.below(q as u64) as u8 } else { 0 };
        txs.push(format!("{c0}:{streams}"));
        sizes.push(k);
    }
    let l = txs.join(",");
    // what is delivered for each transaction
    let mut ds: Vec<(usize, u8)> = Vec::new();
    for t in 0..ntx {
        match rng.below(10) {
            0 | 1 => {}                                                                   // the write failed quorum: never confirmed
            2 => { if q > 1 { ds.push((t, rng.range(0, q as u64 - 1) as u8)); } }         // only ever a sub-quorum count
            3 => { let c = rng.range(q as u64, top as u64) as u8; ds.push((t, c)); ds.push((t, c)); }   // duplicate
            4 => { ds.push((t, top)); ds.push((t, q)); }                                  // a later, higher count may arrive first
            5 | 6 => { ds.push((t, rng.range(q as u64, top as u64) as u8)); if q > 1 { ds.push((t, rng.below(q as u64) as u8)); } } // stale lower count
            _ => { ds.push((t, rng.range(q as u64, top as u64) as u8)); }
        }
    }
    match rng.below(4) { 0 => {}, 1 => ds.reverse(), _ => shuffle(rng, &mut ds) }
    let maxd = if long { 5 } else if dense { 14 } else { 8 };
    if !long && rng.chance(1, 2) {
        // the first unconfirmed transaction is confirmed LAST: everything behind it (stale counts included) is first
        // recorded above the watermark and released in one step
        let (mut rest, mut own): (Vec<_>, Vec<_>) = ds.iter().copied().partition(|&(t, _)| t != pre);
        own.retain(|&(_, c)| c >= q);
        if own.is_empty() { own.push((pre, q)); }
        own.truncate(2);
        rest.truncate(maxd - own.len());
        rest.extend(own);
        ds = rest;
    }
    if long {
        // confirm a long run in one go first so that more than one batch of 50 commits lies below the watermark
        let head: Vec<(usize, u8)> = (0..ntx.min(54)).map(|t| (t, q)).collect();
        ds.truncate(maxd);
        let mut all = head.clone(); all.extend(ds.iter().copied());
        emit_live(rng, rf, &l, &sizes, &all, head.len(), v);
        return;
    }
    ds.truncate(maxd);
    emit_live(rng, rf, &l, &sizes, &ds, 0, v);
}

/// reads after the first `from` deliveries and after every further one
fn emit_live(rng: &mut Rng, rf: u8, l: &str, sizes: &[usize], ds: &[(usize, u8)], from: usize, v: &mut Vec<String>) {
    let n: u64 = sizes.iter().sum::<usize>() as u64;
    let q = rf / 2 + 1;
    let init: Vec<u8> = parse_layout(l).map(|t| t.iter().flat_map(|x| x.counts.clone()).collect()).unwrap_or_default();
    let firsts: Vec<usize> = sizes.iter().scan(0usize, |a, &k| { let f = *a; *a += k; Some(f) }).collect();
    for upto in from..=ds.len() {
        let d: String = if upto == 0 { "-".into() } else { ds[..upto].iter().map(|(t, c)| format!("{t}:{c}")).collect::<Vec<_>>().join(",") };
        let mut best = init.clone();
        for &(t, c) in &ds[..upto] { for k in 0..sizes[t] { let i = firsts[t] + k; best[i] = best[i].max(c); } }
        let w = best.iter().take_while(|&&c| c >= q).count() as u64;
        let pre = format!("lv {rf} {l} {d}");
        v.push(format!("{pre} ps"));
        for x in 0..3 { v.push(format!("{pre} sv {x}")); }
        let res: Vec<u64> = if n <= 7 { (0..=n).collect() } else { let mut r: Vec<u64> = vec![w.saturating_sub(1), w, (w + 1).min(n), n]; for _ in 0..4 { r.push(rng.below(n + 1)); } r };
        for s in res { v.push(format!("{pre} re {s}")); }
        v.push(format!("{pre} rp 0 - 1000"));
        v.push(format!("{pre} rp {} - {}", rng.below(w + 1), u64::MAX));
        v.push(format!("{pre} rp {} {} {}", rng.below(w + 2), rng.below(n + 2), rng.range(1, n + 1)));
        v.push(format!("{pre} rp {w} - 5"));
        v.push(format!("{pre} rp {} {} 1000", w.saturating_sub(1), w));
        for x in 0..3u64 { v.push(format!("{pre} rs {x} 0 - 1000")); }
        v.push(format!("{pre} rs {} {} {} {}", rng.below(3), rng.below(3), rng.below(n + 1), rng.range(1, n + 1)));
        v.push(format!("{pre} rs {} {} - {}", rng.below(3), rng.below(n + 1), rng.range(0, 3)));
    }
}

pub fn run(a: &Args, out: &mut Out) {
    if a.tier == "child" { return child(a, out); }
    if a.tier == "cases" {
        let lines: Vec<String> = std::fs::read_to_string(&a.rest[0]).unwrap().lines().map(|l| l.trim().to_string()).filter(|l| !l.is_empty() && !l.starts_with('#')).collect();
        return run_lines(a, &lines, out);
    }
    let thorough = a.tier == "thorough";
    let mut rng = Rng::new(a.seed);
    let mut lines = Vec::new();
    let rfs: &[u8] = if thorough { &[1, 2, 3, 4, 5, 7, 12] } else { &[1, 2, 3, 5] };
    for &rf in rfs {
        let nl = if thorough { 140 } else { 30 };
        for i in 0..nl {
            let big = i % 10 == 9; // long logs: more than one batch of 50 commits
            let l = gen_layout(&mut rng, rf, big);
            gen_queries(&mut rng, rf, &l, thorough, &mut lines);
        }
        // the watermark built live on the running node
        let ns = if thorough { 40 } else { 6 };
        for i in 0..ns { gen_live(&mut rng, rf, i % 8 == 5, thorough, &mut lines); }
        // the probe of the design: rf 3, counts [2,2],2,0,2
        if rf == 3 { let l = "2:00,2:0,0:1,2:0".to_string(); gen_queries(&mut rng, rf, &l, true, &mut lines); }
    }
    run_lines(a, &lines, out);
}
