mod client;
mod enc;
mod capture;
mod cases;
mod obs;
use common::{Out, Rng};

/// Rust's own tables, for the model's upper_ascii / trim / utf8_valid / dec
fn tables(out: &mut Out, r: &mut Rng, n: usize) {
    let mut up = Vec::new();
    let mut ws = Vec::new();
    for cp in 0..=0x10FFFFu32 {
        if let Some(c) = char::from_u32(cp) {
            let s: String = c.to_uppercase().collect();
            if s.is_ascii() && (cp >= 0x80 || s != c.to_string()) { up.push(format!("{:X}={}", cp, s)); }
            if c.to_string().trim().is_empty() { ws.push(format!("{:X}", cp)); }
        }
    }
    out.case("c21 UPPERTABLE", &up.join(","));
    out.case("c21 WSTABLE", &ws.join(","));
    for _ in 0..n {
        let toks: Vec<Vec<u8>> = (0..16).map(|_| {
            if r.chance(1, 3) {
                // random bytes biased to lead/continuation boundaries
                let len = r.range(1, 6) as usize;
                (0..len).map(|_| match r.below(4) { 0 => r.below(128) as u8, 1 => r.range(0x80, 0xBF) as u8, 2 => *r.pick(&[0xC0u8, 0xC1, 0xC2, 0xDF, 0xE0, 0xE1, 0xEC, 0xED, 0xEE, 0xEF, 0xF0, 0xF1, 0xF3, 0xF4, 0xF5, 0xFF]), _ => *r.pick(&[0x80u8, 0x8F, 0x90, 0x9F, 0xA0, 0xBF]) }).collect()
            } else {
                // a well-formed string of boundary scalars, then (half the time) one byte changed, dropped or added
                let n = r.range(1, 4);
                let mut s = String::new();
                for _ in 0..n { s.push(char::from_u32(*r.pick(&[0x24u32, 0x7F, 0x80, 0x7FF, 0x800, 0xFFF, 0x1000, 0xCFFF, 0xD000, 0xD7FF, 0xE000, 0xFFFF, 0x10000, 0x3FFFF, 0x40000, 0xFFFFF, 0x100000, 0x10FFFF, 0xE9, 0x131, 0xFB01])).unwrap()); }
                let mut b = s.into_bytes();
                if r.chance(1, 2) {
                    let i = r.below(b.len() as u64) as usize;
                    match r.below(4) {
                        0 => b[i] = b[i].wrapping_add(*r.pick(&[1u8, 0x10, 0x40, 0x80, 0xFF])),
                        1 => { b.remove(i); }
                        2 => b.insert(i, *r.pick(&[0x80u8, 0xBF, 0xC0, 0xED, 0xA0, 0xF4, 0x90])),
                        _ => b[i] = *r.pick(&[0xEDu8, 0xA0, 0xE0, 0x9F, 0xF0, 0x8F, 0xF4, 0x90, 0xC1, 0xF5]),
                    }
                }
                b
            }
        }).collect();
        let case = format!("c21 UTF8 {}", toks.iter().map(|t| enc::enc(t)).collect::<Vec<_>>().join(" "));
        let o = toks.iter().map(|t| if std::str::from_utf8(t).is_ok() { "1" } else { "0" }).collect::<Vec<_>>().join(",");
        out.case(&case, &o);
        let ns: Vec<u64> = (0..16).map(|_| match r.below(4) { 0 => r.below(200), 1 => 10u64.pow(r.below(20) as u32), 2 => u64::MAX - r.below(3), _ => r.next() >> r.below(64) }).collect();
        out.case(&format!("c21 DEC {}", ns.iter().map(|x| x.to_string()).collect::<Vec<_>>().join(" ")), &ns.iter().map(|x| x.to_string()).collect::<Vec<_>>().join(","));
    }
}

fn emit(out: &mut Out, cmd: &str, toks: &[Vec<u8>], tag: &str) {
    let line = obs::case_line(cmd, toks);
    out.case(&format!("{line} ## {tag}"), &obs::observe(cmd, toks));
}

fn main() {
    common::silence_panics();
    let a = common::args();
    let mut out = Out::new();
    if a.tier == "cases" {
        for line in std::fs::read_to_string(&a.rest[0]).unwrap().lines() {
            let (body, tag) = match line.split_once(" ## ") { Some((b, t)) => (b, Some(t)), None => (line, None) };
            let t: Vec<&str> = body.split_whitespace().collect();
            if t.len() >= 2 && t[0] == "c21" && ["UPPERTABLE", "WSTABLE", "UTF8", "DEC", "CALL"].contains(&t[1]) {
                // table cases are regenerated as a whole
                if t[1] == "UPPERTABLE" { let mut r = Rng::new(a.seed); tables(&mut out, &mut r, 0); }
                continue;
            }
            if let Some((case, o)) = obs::run_case_line(body) {
                match tag { Some(t) => out.case(&format!("{case} ## {t}"), &o), None => out.case(&case, &o) }
            }
        }
        out.flush();
        return;
    }
    let thorough = a.tier == "thorough";
    let mut r = Rng::new(a.seed);
    tables(&mut out, &mut r, if thorough { 400 } else { 60 });
    for (cmd, toks) in cases::fixed() { emit(&mut out, cmd, &toks, "fixed"); }
    let n = if thorough { 120_000 } else { 9_000 };
    for i in 0..n {
        let (cmd, g) = cases::pick_command(&mut r);
        match i % 3 {
            0 => { let toks = g(&mut r, true); emit(&mut out, cmd, &toks, "doc"); }
            1 => { let toks = g(&mut r, false); emit(&mut out, cmd, &toks, "mixed"); }
            _ => {
                let mut toks = g(&mut r, true);
                let mut m = vec![cases::mutate(&mut r, &mut toks)];
                if r.chance(1, 4) { m.push(cases::mutate(&mut r, &mut toks)); }
                emit(&mut out, cmd, &toks, &format!("near {}", m.join("+")));
            }
        }
    }
    let mut cap = capture::Capture::new();
    for _ in 0..(if thorough { 30_000 } else { 3_000 }) {
        let e = client::emit(&mut r, &mut cap);
        emit(&mut out, &e.cmd, &e.tokens, &format!("client {} ## {}", e.func, e.expect));
        // the same call through the model's printers: what the client really put on the wire
        out.case(&format!("c21 CALL {}", e.call), &format!("{} {}", e.cmd, e.tokens.iter().map(|t| enc::enc(t)).collect::<Vec<_>>().join(" ")).trim_end().to_string());
    }
    out.flush();
}
