//! The REAL subscription.rs: `SubscriptionManager` is connected to a tiny in-process RESP3 server (loopback TCP)
//! that answers the connection handshake, records the argument list of every other command and answers it with an
//! error.  So the commands the real async methods build are observed exactly as they go on the wire.
use std::sync::mpsc;
use std::time::Duration;
use tokio::io::{AsyncReadExt, AsyncWriteExt};
use tokio::net::TcpListener;

pub struct Capture { pub rt: tokio::runtime::Runtime, pub mgr: sierradb_client::SubscriptionManager, rx: mpsc::Receiver<Vec<Vec<u8>>> }

/// parse as many complete `*N $len data` requests as `buf` holds; returns them and the bytes consumed
fn requests(buf: &[u8]) -> (Vec<Vec<Vec<u8>>>, usize) {
    fn line(b: &[u8], at: usize) -> Option<(&[u8], usize)> {
        let e = b[at..].windows(2).position(|w| w == b"\r\n")?;
        Some((&b[at..at + e], at + e + 2))
    }
    let mut out = Vec::new();
    let mut pos = 0;
    'outer: loop {
        let start = pos;
        let Some((l, mut p)) = line(buf, pos) else { break };
        if l.first() != Some(&b'*') { pos = p; continue; }
        let n: usize = std::str::from_utf8(&l[1..]).ok().and_then(|s| s.parse().ok()).unwrap_or(0);
        let mut args = Vec::with_capacity(n);
        for _ in 0..n {
            let Some((l, q)) = line(buf, p) else { pos = start; break 'outer };
            let len: usize = std::str::from_utf8(&l[1..]).ok().and_then(|s| s.parse().ok()).unwrap_or(0);
            if buf.len() < q + len + 2 { pos = start; break 'outer; }
            args.push(buf[q..q + len].to_vec());
            p = q + len + 2;
        }
        out.push(args);
        pos = p;
    }
    (out, pos)
}

impl Capture {
    pub fn new() -> Option<Capture> {
        let rt = tokio::runtime::Builder::new_multi_thread().worker_threads(2).enable_all().build().ok()?;
        let (tx, rx) = mpsc::channel::<Vec<Vec<u8>>>();
        let mgr = rt.block_on(async move {
            let listener = TcpListener::bind("127.0.0.1:0").await.ok()?;
            let port = listener.local_addr().ok()?.port();
            tokio::spawn(async move {
                loop {
                    let Ok((mut sock, _)) = listener.accept().await else { break };
                    let tx = tx.clone();
                    tokio::spawn(async move {
                        let mut buf: Vec<u8> = Vec::new();
                        let mut chunk = [0u8; 65536];
                        loop {
                            let n = match sock.read(&mut chunk).await { Ok(0) | Err(_) => break, Ok(n) => n };
                            buf.extend_from_slice(&chunk[..n]);
                            let (reqs, used) = requests(&buf);
                            buf.drain(..used);
                            for args in reqs {
                                let name = args.first().map(|a| String::from_utf8_lossy(a).to_uppercase()).unwrap_or_default();
                                let reply: &[u8] = match name.as_str() {
                                    "HELLO" => b"%1\r\n$6\r\nserver\r\n$8\r\nsierradb\r\n",
                                    "CLIENT" | "SELECT" | "AUTH" | "PING" => b"+OK\r\n",
                                    _ => { let _ = tx.send(args); b"-CAPTURED recorded\r\n" }
                                };
                                if sock.write_all(reply).await.is_err() { return; }
                            }
                        }
                    });
                }
            });
            let client = redis::Client::open(format!("redis://127.0.0.1:{port}/?protocol=resp3")).ok()?;
            tokio::time::timeout(Duration::from_secs(10), sierradb_client::SubscriptionManager::new(&client)).await.ok()?.ok()
        })?;
        Some(Capture { rt, mgr, rx })
    }
    /// the argument list (command name first) sent by the last call
    pub fn take(&mut self) -> Option<Vec<Vec<u8>>> {
        let mut last = None;
        while let Ok(a) = self.rx.recv_timeout(Duration::from_millis(if last.is_none() { 2000 } else { 0 })) { last = Some(a); }
        last
    }
}
