//! Case generators: documented command shapes (keywords in any case, identifiers and numbers from boundary
//! sets), near-miss variants, and byte-level table cases.  Every choice comes from the seed.
use common::Rng;

pub type Tok = Vec<u8>;
fn t(s: &str) -> Tok { s.as_bytes().to_vec() }

// ---------------------------------------------------------------- pools
pub const ALL_KEYWORDS: &[&str] = &["PARTITION_KEY", "FROM", "WINDOW", "LATEST", "MAP", "DEFAULT", "EVENT_ID", "EXPECTED_VERSION",
    "TIMESTAMP", "PAYLOAD", "METADATA", "COUNT", "ANY", "EXISTS", "EMPTY", "*", "-", "+"];

/// a keyword in some letter case; sometimes with the non-ASCII characters whose upper-case is ASCII
pub fn kw(r: &mut Rng, k: &str) -> Tok {
    match r.below(10) {
        0..=3 => t(k),
        4..=5 => t(&k.to_lowercase()),
        6..=8 => k.chars().map(|c| if r.chance(1, 2) { c.to_ascii_lowercase() } else { c }).collect::<String>().into_bytes(),
        _ => {
            // unicode look-alikes: i -> U+0131, s -> U+017F, ST -> U+FB06, SS -> U+00DF
            let mut s = k.to_lowercase();
            match r.below(4) {
                0 => s = s.replacen('i', "\u{131}", 1),
                1 => s = s.replacen('s', "\u{17f}", 1),
                2 => s = s.replacen("st", "\u{fb06}", 1),
                _ => s = s.replacen("ss", "\u{df}", 1),
            }
            s.into_bytes()
        }
    }
}

pub fn good_stream(r: &mut Rng) -> Tok {
    let pool: [&str; 14] = ["user-1", "user-2", "user-3", "orders", "a", "b", "my-stream", "str\u{f8}m-\u{e9}", "s:1/x", "A", "stream1",
        "0123456789012345678901234567890123456789012345678901234567890123", "acct=7", "x y"];
    match r.below(12) {
        0 => { let n = r.range(1, 64) as usize; (0..n).map(|_| b"abcdefghijklmnopqrstuvwxyz0123456789-_"[r.below(38) as usize]).collect() }
        _ => t(pool[r.below(pool.len() as u64) as usize]),
    }
}
/// things that are not stream ids, or that are keywords / numbers / pairs
pub fn odd_stream(r: &mut Rng) -> Tok {
    match r.below(14) {
        0 => vec![],
        1 => vec![b'x'; 65],
        2 => vec![b'a', 0, b'b'],
        3 => vec![0xff, 0xfe],
        4 => vec![0xc3],
        5 => { let k = *r.pick(ALL_KEYWORDS); kw(r, k) }
        6 => { let k = *r.pick(&["FROM", "WINDOW", "PARTITION_KEY", "EXPECTED_VERSION", "PAYLOAD", "METADATA", "TIMESTAMP", "EVENT_ID"]); kw(r, k) }
        7 => t("5"),
        8 => t("a=1"),
        9 => t("1,2"),
        10 => "\u{e9}".repeat(32).into_bytes(),        // 64 bytes, 32 chars
        11 => "\u{e9}".repeat(33).into_bytes(),        // 66 bytes
        12 => t("w\u{131}ndow"),
        _ => vec![b'y'; 64],
    }
}
pub fn stream(r: &mut Rng) -> Tok { if r.chance(1, 9) { odd_stream(r) } else { good_stream(r) } }

pub fn name(r: &mut Rng) -> Tok {
    match r.below(12) {
        0 => vec![],
        1 => vec![0xff],
        2 => { let k = *r.pick(ALL_KEYWORDS); kw(r, k) }
        3 => "\u{dc}ber".as_bytes().to_vec(),
        _ => t(*r.pick(&["UserCreated", "E1", "E2", "EventA", "OrderPlaced", "x"])),
    }
}

pub fn u64_text(r: &mut Rng) -> Tok {
    match r.below(24) {
        0 => t("0"), 1 => t("1"), 2 => t("9"), 3 => t("10"), 4 => t("9223372036854775808"),
        5 => t("18446744073709551615"), 6 => t("18446744073709551616"), 7 => t("+7"), 8 => t("007"),
        9 => t("-1"), 10 => t("1.5"), 11 => t(""), 12 => t(" 1"), 13 => "\u{ff11}".as_bytes().to_vec(), 14 => t("0x10"),
        15 => t("+"), 16 => t("99999999999999999999999999"), 17 => t("+0"), 18 => t("1_000"), 19 => t("1e3"),
        20 => t("00000000000000000000000018446744073709551615"),
        _ => r.next().to_string().into_bytes(),
    }
}
pub fn good_u64(r: &mut Rng) -> Tok {
    match r.below(8) {
        0 => t("0"), 1 => t("1"), 2 => t("18446744073709551615"), 3 => t("+42"), 4 => t("0100"),
        5 => r.below(1000).to_string().into_bytes(),
        _ => r.next().to_string().into_bytes(),
    }
}
pub fn u16_text(r: &mut Rng) -> Tok {
    match r.below(14) {
        0 => t("0"), 1 => t("65535"), 2 => t("65536"), 3 => t("+5"), 4 => t("007"), 5 => t("-1"), 6 => t(""), 7 => t("70000"),
        8 => t(" 5"), 9 => t("5 "),
        _ => r.below(65536).to_string().into_bytes(),
    }
}
pub fn good_u16(r: &mut Rng) -> Tok {
    match r.below(6) { 0 => t("0"), 1 => t("65535"), 2 => t("+5"), 3 => t("042"), _ => r.below(1024).to_string().into_bytes() }
}

pub fn uuid_value(r: &mut Rng) -> uuid::Uuid {
    let mut b = [0u8; 16];
    for i in 0..16 { b[i] = r.next() as u8; }
    if r.chance(1, 3) { b = *uuid::Uuid::parse_str("550e8400-e29b-41d4-a716-446655440000").unwrap().as_bytes(); b[15] = r.below(4) as u8; }
    uuid::Uuid::from_bytes(b)
}
/// some text of a uuid (all forms the uuid crate reads, optional surrounding white space) or a near-miss
pub fn uuid_text(r: &mut Rng) -> Tok {
    let u = uuid_value(r);
    let s = match r.below(16) {
        0 => u.simple().to_string(),
        1 => u.hyphenated().to_string().to_uppercase(),
        2 => u.braced().to_string(),
        3 => u.urn().to_string(),
        4 => format!(" {} ", u),
        5 => format!("\u{a0}{}\u{2003}\t", u),
        6 => format!("\u{3000}{}\u{85}", u.simple()),
        7 => u.to_string()[1..].to_string(),
        8 => u.to_string().replace('-', "_"),
        9 => format!("{}0", u),
        10 => format!("{}\u{1c}", u),       // U+001C is white space for Python/Java, not for Rust
        11 => format!("{}\u{200b}", u),     // zero width space: not White_Space
        _ => u.to_string(),
    };
    s.into_bytes()
}
pub fn good_uuid(r: &mut Rng) -> Tok {
    let u = uuid_value(r);
    match r.below(8) { 0 => u.simple().to_string(), 1 => u.to_string().to_uppercase(), 2 => format!(" {}\n", u), _ => u.to_string() }.into_bytes()
}
pub fn bytes_value(r: &mut Rng) -> Tok {
    match r.below(10) {
        0 => vec![],
        1 => vec![0, 159, 146, 150],
        2 => { let k = *r.pick(ALL_KEYWORDS); kw(r, k) }
        3 => t("{\"data\":\"value1\"}"),
        4 => (0..r.below(40)).map(|_| r.next() as u8).collect(),
        _ => t(*r.pick(&["{}", "x", "hello world", "{\"name\":\"john\"}", "PAYLOAD"])),
    }
}
pub fn range_text(r: &mut Rng) -> Tok {
    match r.below(6) { 0 => t("-"), 1 => t("+"), 2 => t("*"), _ => u64_text(r) }
}
pub fn good_range(r: &mut Rng) -> Tok {
    match r.below(4) { 0 => t("-"), 1 => t("+"), _ => good_u64(r) }
}

// ---------------------------------------------------------------- documented shapes (mostly valid)
/// `strict`: only values that the documentation allows; otherwise values come from the mixed pools
fn v(r: &mut Rng, strict: bool, good: fn(&mut Rng) -> Tok, any: fn(&mut Rng) -> Tok) -> Tok {
    if strict || r.chance(5, 6) { good(r) } else { any(r) }
}

pub fn esub(r: &mut Rng, strict: bool) -> Vec<Tok> {
    let mut o = Vec::new();
    let n = match r.below(6) { 0..=2 => 1, 3 => 2, 4 => 3, _ => r.range(1, 6) } as usize;
    let mut sids: Vec<Tok> = Vec::new();
    for _ in 0..n {
        // a stream id already used keeps its partition key (one stream under two keys is left to the near-miss set)
        let s = v(r, strict, good_stream, stream);
        let dup = sids.contains(&s);
        o.push(s.clone());
        if !dup && r.chance(1, 3) { o.push(kw(r, "PARTITION_KEY")); o.push(v(r, strict, good_uuid, uuid_text)); }
        sids.push(s);
    }
    match r.below(6) {
        0 | 1 => {}
        2 => { o.push(kw(r, "FROM")); o.push(kw(r, "LATEST")); }
        3 => { o.push(kw(r, "FROM")); o.push(v(r, strict, good_u64, u64_text)); }
        _ => {
            o.push(kw(r, "FROM")); o.push(kw(r, "MAP"));
            let m = r.range(1, 4);
            for _ in 0..m {
                let s = if r.chance(4, 5) { r.pick(&sids).clone() } else { good_stream(r) };
                let mut p = s; p.push(b'='); p.extend(v(r, strict, good_u64, u64_text));
                o.push(p);
            }
        }
    }
    if r.chance(1, 2) { o.push(kw(r, "WINDOW")); o.push(if strict || r.chance(4, 5) { let mut x = good_u64(r); if x == b"0" || x == b"+0" { x = t("1"); } x } else { u64_text(r) }); }
    o
}

pub fn epsub(r: &mut Rng, strict: bool) -> Vec<Tok> {
    let mut o = Vec::new();
    let mut parts: Vec<Tok> = Vec::new();
    match r.below(4) {
        0 => o.push(t("*")),
        1 => { let p = v(r, strict, good_u16, u16_text); parts.push(p.clone()); o.push(p); }
        _ => {
            let n = r.range(1, 5);
            let mut s = Vec::new();
            for i in 0..n {
                if i > 0 { s.push(b','); if !strict && r.chance(1, 8) { s.push(b' '); } }
                let p = v(r, strict, good_u16, u16_text); parts.push(p.clone()); s.extend(p);
            }
            if !strict && r.chance(1, 12) { s.push(b','); }
            o.push(s);
        }
    }
    match r.below(6) {
        0 | 1 => {}
        2 => { o.push(kw(r, "FROM")); o.push(kw(r, "LATEST")); }
        3 => { o.push(kw(r, "FROM")); o.push(v(r, strict, good_u64, u64_text)); }
        _ => {
            o.push(kw(r, "FROM")); o.push(kw(r, "MAP"));
            for _ in 0..r.range(1, 4) {
                let mut p = if !parts.is_empty() && r.chance(3, 4) { r.pick(&parts).clone() } else { v(r, strict, good_u16, u16_text) };
                p.push(b'='); p.extend(v(r, strict, good_u64, u64_text));
                o.push(p);
            }
            if r.chance(1, 2) { o.push(kw(r, "DEFAULT")); o.push(v(r, strict, good_u64, u64_text)); }
        }
    }
    if r.chance(1, 2) { o.push(kw(r, "WINDOW")); o.push(if strict || r.chance(4, 5) { let mut x = good_u64(r); if x == b"0" || x == b"+0" { x = t("1"); } x } else { u64_text(r) }); }
    o
}

fn expected_text(r: &mut Rng, strict: bool) -> Tok {
    match r.below(5) { 0 => kw(r, "ANY"), 1 => kw(r, "EXISTS"), 2 => kw(r, "EMPTY"), _ => v(r, strict, good_u64, u64_text) }
}
/// the option clauses of EAPPEND (with PARTITION_KEY) / EMAPPEND (without), each at most once, in any order
fn append_opts(r: &mut Rng, strict: bool, with_pk: bool) -> Vec<Vec<Tok>> {
    let mut cl: Vec<Vec<Tok>> = Vec::new();
    if r.chance(1, 3) { cl.push(vec![kw(r, "EVENT_ID"), v(r, strict, good_uuid, uuid_text)]); }
    if with_pk && r.chance(1, 3) { cl.push(vec![kw(r, "PARTITION_KEY"), v(r, strict, good_uuid, uuid_text)]); }
    if r.chance(1, 2) { cl.push(vec![kw(r, "EXPECTED_VERSION"), expected_text(r, strict)]); }
    if r.chance(1, 3) { cl.push(vec![kw(r, "TIMESTAMP"), v(r, strict, good_u64, u64_text)]); }
    if r.chance(1, 2) { cl.push(vec![kw(r, "PAYLOAD"), bytes_value(r)]); }
    if r.chance(1, 3) { cl.push(vec![kw(r, "METADATA"), bytes_value(r)]); }
    // any order
    for i in (1..cl.len()).rev() { let j = r.below(i as u64 + 1) as usize; cl.swap(i, j); }
    cl
}
pub fn eappend(r: &mut Rng, strict: bool) -> Vec<Tok> {
    let mut o = vec![v(r, strict, good_stream, stream), if strict { t("UserCreated") } else { name(r) }];
    for c in append_opts(r, strict, true) { o.extend(c); }
    o
}
pub fn emappend(r: &mut Rng, strict: bool) -> Vec<Tok> {
    let mut o = vec![v(r, strict, good_uuid, uuid_text)];
    for _ in 0..r.range(1, 4) {
        o.push(v(r, strict, good_stream, stream));
        o.push(if strict { t("EventA") } else { name(r) });
        for c in append_opts(r, strict, false) { o.extend(c); }
    }
    o
}
pub fn escan(r: &mut Rng, strict: bool) -> Vec<Tok> {
    let mut o = vec![v(r, strict, good_stream, stream), v(r, strict, good_range, range_text), v(r, strict, good_range, range_text)];
    let mut cl: Vec<Vec<Tok>> = Vec::new();
    if r.chance(1, 2) { cl.push(vec![kw(r, "PARTITION_KEY"), v(r, strict, good_uuid, uuid_text)]); }
    if r.chance(1, 2) { cl.push(vec![kw(r, "COUNT"), v(r, strict, good_u64, u64_text)]); }
    if cl.len() == 2 && r.chance(1, 2) { cl.swap(0, 1); }
    for c in cl { o.extend(c); }
    o
}
fn partition_sel(r: &mut Rng, strict: bool) -> Tok {
    if r.chance(1, 2) { v(r, strict, good_uuid, uuid_text) } else { v(r, strict, good_u16, u16_text) }
}
pub fn epscan(r: &mut Rng, strict: bool) -> Vec<Tok> {
    let mut o = vec![partition_sel(r, strict), v(r, strict, good_range, range_text), v(r, strict, good_range, range_text)];
    if r.chance(1, 2) { o.push(kw(r, "COUNT")); o.push(v(r, strict, good_u64, u64_text)); }
    o
}
pub fn eget(r: &mut Rng, strict: bool) -> Vec<Tok> { vec![v(r, strict, good_uuid, uuid_text)] }
pub fn esver(r: &mut Rng, strict: bool) -> Vec<Tok> {
    let mut o = vec![v(r, strict, good_stream, stream)];
    if r.chance(1, 2) { o.push(kw(r, "PARTITION_KEY")); o.push(v(r, strict, good_uuid, uuid_text)); }
    o
}
pub fn epseq(r: &mut Rng, strict: bool) -> Vec<Tok> { vec![partition_sel(r, strict)] }
pub fn eack(r: &mut Rng, strict: bool) -> Vec<Tok> { vec![v(r, strict, good_uuid, uuid_text), v(r, strict, good_u64, u64_text)] }

pub const COMMANDS: &[(&str, fn(&mut Rng, bool) -> Vec<Tok>, u64)] = &[
    ("ESUB", esub, 6), ("EPSUB", epsub, 5), ("EAPPEND", eappend, 5), ("EMAPPEND", emappend, 5), ("ESCAN", escan, 3),
    ("EPSCAN", epscan, 2), ("EGET", eget, 1), ("ESVER", esver, 1), ("EPSEQ", epseq, 1), ("EACK", eack, 1)];

pub fn pick_command(r: &mut Rng) -> (&'static str, fn(&mut Rng, bool) -> Vec<Tok>) {
    let total: u64 = COMMANDS.iter().map(|c| c.2).sum();
    let mut x = r.below(total);
    for c in COMMANDS { if x < c.2 { return (c.0, c.1); } x -= c.2; }
    (COMMANDS[0].0, COMMANDS[0].1)
}

// ---------------------------------------------------------------- near misses
fn any_token(r: &mut Rng) -> Tok {
    match r.below(9) {
        0 => { let k = *r.pick(ALL_KEYWORDS); kw(r, k) }
        1 => u64_text(r), 2 => u16_text(r), 3 => uuid_text(r), 4 => stream(r), 5 => bytes_value(r), 6 => odd_stream(r),
        7 => { let mut p = good_stream(r); p.push(b'='); p.extend(u64_text(r)); p }
        _ => { let mut p = u16_text(r); p.push(b'='); p.extend(u64_text(r)); p }
    }
}
/// one edit of a token list: missing value, duplicated clause, keyword in a positional slot, wrong clause order,
/// value out of range, truncation, trailing garbage
pub fn mutate(r: &mut Rng, toks: &mut Vec<Tok>) -> &'static str {
    let n = toks.len();
    match r.below(9) {
        0 if n > 0 => { let i = r.below(n as u64) as usize; toks.remove(i); "drop" }
        1 if n > 1 => { let i = r.below(n as u64 - 1) as usize; let a = toks[i].clone(); let b = toks[i + 1].clone(); let at = r.below(n as u64 + 1) as usize; toks.insert(at, b); toks.insert(at, a); "dupclause" }
        2 if n > 0 => { let i = r.below(n as u64) as usize; let k = *r.pick(ALL_KEYWORDS); toks[i] = kw(r, k); "kwslot" }
        3 if n > 3 => { let i = r.below(n as u64 - 3) as usize; toks.swap(i, i + 2); toks.swap(i + 1, i + 3); "swapclauses" }
        4 if n > 0 => { let i = r.below(n as u64) as usize; toks[i] = any_token(r); "replace" }
        5 if n > 0 => { let k = r.below(n as u64) as usize; toks.truncate(k); "truncate" }
        6 => { toks.push(any_token(r)); "trailing" }
        7 => { let i = r.below(n as u64 + 1) as usize; toks.insert(i, any_token(r)); "insert" }
        _ if n > 1 => { let i = r.below(n as u64 - 1) as usize; toks.swap(i, i + 1); "swap" }
        _ => { toks.push(any_token(r)); "trailing" }
    }
}

/// hand-picked boundary cases (run on every seed)
pub fn fixed() -> Vec<(&'static str, Vec<Tok>)> {
    let l = |s: &str| -> Vec<Tok> { s.split(' ').filter(|x| !x.is_empty()).map(|x| if x == "\"\"" { vec![] } else { t(x) }).collect() };
    let u = "550e8400-e29b-41d4-a716-446655440000";
    let u2 = "550e8400-e29b-41d4-a716-446655440001";
    let mut v: Vec<(&'static str, Vec<Tok>)> = Vec::new();
    for s in ["user-123", "user-123 WINDOW 100", "user-123 FROM 50 WINDOW 100", &format!("user-123 PARTITION_KEY {u} FROM 50"),
              &format!("user-123 PARTITION_KEY {u} FROM 50 WINDOW 100"), "user-1 user-2 user-3", "user-1 user-2 user-3 WINDOW 500",
              "user-1 user-2 user-3 FROM LATEST WINDOW 500", "user-1 user-2 user-3 FROM 100 WINDOW 500",
              &format!("user-1 PARTITION_KEY {u} user-2 PARTITION_KEY {u2} user-3 PARTITION_KEY {u} FROM LATEST WINDOW 100"),
              &format!("user-1 PARTITION_KEY {u} user-2 user-3 PARTITION_KEY {u2} FROM LATEST WINDOW 100"),
              "user-1 user-2 user-3 FROM MAP user-1=10 user-2=20 user-3=30 WINDOW 50",
              &format!("stream1 PARTITION_KEY {u} stream2 stream3 PARTITION_KEY {u2} FROM MAP stream1=10 stream2=20 stream3=30 WINDOW 50"),
              "user-123 FROM LATEST", "orders FROM LATEST",
              // the confirmed defect and relatives
              "user-1 FROM 5 WINDOW 10", "FROM 5", "WINDOW 5", "a WINDOW", "a FROM", "a FROM MAP", "a FROM MAP WINDOW 5", "a WINDOW 0", "a WINDOW 1",
              "a window 18446744073709551615", "a WINDOW 18446744073709551616", "a PARTITION_KEY", "a PARTITION_KEY FROM 5", "PARTITION_KEY a",
              "a a", "a b a", "a FROM MAP a=1 a=2", "a FROM MAP b=1", "a b FROM MAP a=1 c=3", "a FROM MAP a=b=1", "a FROM MAP =1", "a FROM MAP a=",
              "a WINDOW 5 FROM 3", "a FROM 3 FROM 4", "a WINDOW 5 WINDOW 6", "a from latest window 5", "a From Map a=1 Window 5", "a map", "a latest 5",
              "a FROM MAP a=1 b", "a FROM MAP a=1 WINDOW=5 WINDOW 5"] {
        v.push(("ESUB", l(s)));
    }
    for s in ["*", "* WINDOW 100", "* FROM 1000 WINDOW 100", "5 FROM 100 WINDOW 50", "1,2,3 FROM MAP 1=100 2=200 DEFAULT 0 WINDOW 500",
              "* FROM LATEST", "* FROM MAP 1=5", "* FROM MAP 1=5 DEFAULT 7", "* FROM MAP DEFAULT 7", "* FROM MAP 1=5 1=6", "5 FROM MAP 5=9", "5 FROM MAP 6=9 DEFAULT 2",
              "5 FROM MAP 6=9", "5 FROM LATEST", "1,1,2", "1, 2", " 5", "1,,2", "1,2,", "65535", "65536", "0-127", u, "* DEFAULT 5", "* FROM MAP 1=5 WINDOW 2",
              "* FROM MAP 1=5 DEFAULT", "* FROM MAP 65536=1", "* FROM MAP 1=18446744073709551616", "* WINDOW 0", "* FROM", "** ", "+5", "* FROM +5"] {
        v.push(("EPSUB", l(s)));
    }
    for s in ["my-stream UserCreated EXPECTED_VERSION empty PAYLOAD {\"name\":\"john\"} METADATA {\"source\":\"api\"}",
              "orders OrderPlaced EXPECTED_VERSION 5 PAYLOAD {\"order_id\":\"12345\"}", "s E", "s", "s E EXPECTED_VERSION any EXPECTED_VERSION 5",
              "s E PAYLOAD \"\" PAYLOAD x", "s E METADATA \"\" METADATA x", "s E PAYLOAD x PAYLOAD y", "s E EXPECTED_VERSION foo", "s E EXPECTED_VERSION",
              "s PAYLOAD", "s PAYLOAD x", "PAYLOAD E", "s E TIMESTAMP 5 TIMESTAMP 5", &format!("s E EVENT_ID {u} EVENT_ID {u}"), &format!("s E PARTITION_KEY {u} partition_key {u2}"),
              "s E PAYLOAD METADATA", "s E PAYLOAD METADATA METADATA PAYLOAD", "s E COUNT 5", "s E EXPECTED_VERSION ex\u{131}\u{17f}ts", "s E expected_version +3"] {
        v.push(("EAPPEND", l(s)));
    }
    for s in [&format!("{u} stream1 EventA EXPECTED_VERSION empty PAYLOAD {{\"data\":\"value1\"}} stream2 EventB EXPECTED_VERSION 0 PAYLOAD {{\"data\":\"value2\"}}") as &str,
              &format!("{u} s1 E1 EXPECTED_VERSION foo"), &format!("{u} s1 E1 TIMESTAMP abc"), &format!("{u} s1 E1 PAYLOAD"), &format!("{u} s1 E1 EVENT_ID x"),
              &format!("{u} s1 E1 metadata"), &format!("{u} s1 E1"), &format!("{u} s1"), u, &format!("{u} s1 E1 s2 E2 s3 E3"), &format!("{u} PAYLOAD E1"),
              &format!("{u} s1 PAYLOAD x"), &format!("{u} s1 E1 PARTITION_KEY {u}"), &format!("{u} s1 E1 EXPECTED_VERSION any EXPECTED_VERSION 3"),
              &format!("{u} s1 E1 PAYLOAD \"\" s2 E2 PAYLOAD y"), &format!("{u} s1 E1 PAYLOAD \"\" PAYLOAD y"), "s1 E1", &format!("{u} s1 E1 expected_version 1 s1 E2 expected_version 2")] {
        v.push(("EMAPPEND", l(s)));
    }
    for s in ["my-stream 0 100 COUNT 50", &format!("my-stream - + PARTITION_KEY {u}") as &str, "my-stream - +", "s + -", "s 0", "s 0 1 COUNT", "s 0 1 COUNT 5 COUNT 5",
              &format!("s 0 1 COUNT 5 PARTITION_KEY {u}"), &format!("s 0 1 PARTITION_KEY {u} PARTITION_KEY {u}"), "count 0 1", "s COUNT 5", "s - + count 0"] {
        v.push(("ESCAN", l(s)));
    }
    for s in ["42 100 200 COUNT 50", &format!("{u} - + COUNT 100") as &str, "42 - +", "65536 - +", "42 - + COUNT 1 COUNT 2", "* - +", "42 -", "42 - + COUNT"] { v.push(("EPSCAN", l(s))); }
    for s in [u, "x", "", &format!("{u} {u}") as &str] { v.push(("EGET", l(s))); }
    for s in ["my-stream", &format!("my-stream PARTITION_KEY {u}") as &str, "my-stream PARTITION_KEY", "my-stream PARTITION_KEY x", "PARTITION_KEY", "a b"] { v.push(("ESVER", l(s))); }
    for s in ["42", u, "65535", "65536", "+42", "-1", "", "42 43"] { v.push(("EPSEQ", l(s))); }
    for s in [&format!("{u} 1000") as &str, u, "x 1", &format!("{u} -1")] { v.push(("EACK", l(s))); }
    v
}

/// a well-formed event name (for client calls)
pub fn t_name(r: &mut Rng) -> Tok {
    t(*r.pick(&["UserCreated", "E1", "EventA", "OrderPlaced", "x", "\u{dc}ber", "PAYLOAD", "with space"]))
}
