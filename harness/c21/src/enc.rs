//! Token text encoding shared with the model driver: bytes 0x21..=0x7e except '%', '@', '|', '#' are literal,
//! every other byte is %XX (upper-case hex); the empty token is `%_`.
pub fn enc(b: &[u8]) -> String {
    if b.is_empty() { return "%_".into(); }
    let mut s = String::with_capacity(b.len());
    for &c in b {
        if (0x21..=0x7e).contains(&c) && c != b'%' && c != b'@' && c != b'|' && c != b'#' { s.push(c as char); }
        else { s.push_str(&format!("%{:02X}", c)); }
    }
    s
}
pub fn dec(s: &str) -> Option<Vec<u8>> {
    if s == "%_" { return Some(vec![]); }
    let b = s.as_bytes();
    let mut out = Vec::with_capacity(b.len());
    let mut i = 0;
    while i < b.len() {
        if b[i] == b'%' {
            let h = std::str::from_utf8(b.get(i + 1..i + 3)?).ok()?;
            out.push(u8::from_str_radix(h, 16).ok()?);
            i += 3;
        } else { out.push(b[i]); i += 1; }
    }
    Some(out)
}
