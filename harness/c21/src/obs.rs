//! Run the REAL server parsers (`<Cmd>::parser().skip(eof())`, exactly as request.rs dispatches) on a token
//! list and print the parsed request in a canonical text form.
use crate::enc::{dec, enc};
use bytes::Bytes;
use combine::{Parser, eof};
use redis_protocol::resp3::types::BytesFrame;
use sierradb::id::NAMESPACE_PARTITION_KEY;
use sierradb_cluster::subscription::{FromSequences, FromVersions, SubscriptionMatcher};
use sierradb_protocol::ExpectedVersion;
use sierradb_server::parser::frame_stream;
use sierradb_server::request::{PartitionSelector, RangeValue};
use sierradb_server::request::{eack::EAck, eappend::EAppend, eget::EGet, emappend::EMAppend, epscan::EPScan,
    epseq::EPSeq, epsub::EPSub, escan::EScan, esub::ESub, esver::ESVer};
use uuid::Uuid;

pub fn frames(tokens: &[Vec<u8>]) -> Vec<BytesFrame> {
    tokens.iter().map(|t| BytesFrame::BlobString { data: Bytes::from(t.clone()), attributes: None }).collect()
}
fn u(x: &Uuid) -> String { x.simple().to_string() }
fn ou(x: &Option<Uuid>) -> String { x.as_ref().map(u).unwrap_or_else(|| "-".into()) }
fn on(x: &Option<u64>) -> String { x.map(|v| v.to_string()).unwrap_or_else(|| "-".into()) }
fn pk_of(pk: &Uuid, sid: &str) -> String {
    if *pk == Uuid::new_v5(&NAMESPACE_PARTITION_KEY, sid.as_bytes()) { "d".into() } else { u(pk) }
}
fn ev(e: &ExpectedVersion) -> String {
    match e { ExpectedVersion::Any => "any".into(), ExpectedVersion::Exists => "exists".into(),
              ExpectedVersion::Empty => "empty".into(), ExpectedVersion::Exact(n) => n.to_string() }
}
fn rv(r: &RangeValue) -> String {
    match r { RangeValue::Start => "-".into(), RangeValue::End => "+".into(), RangeValue::Value(n) => n.to_string() }
}
fn ps(p: &PartitionSelector) -> String {
    match p { PartitionSelector::ById(i) => format!("id:{i}"), PartitionSelector::ByKey(k) => format!("key:{}", u(k)) }
}
fn fseq(f: &FromSequences) -> String {
    match f {
        FromSequences::Latest => "latest".into(),
        FromSequences::AllPartitions(n) => format!("all:{n}"),
        FromSequences::Partitions { from_sequences, fallback } => {
            let mut v: Vec<(u16, u64)> = from_sequences.iter().map(|(a, b)| (*a, *b)).collect();
            v.sort();
            format!("map[{}]default={}", v.iter().map(|(a, b)| format!("{a}={b}")).collect::<Vec<_>>().join(","), on(fallback))
        }
    }
}
fn matcher(m: &SubscriptionMatcher) -> String {
    match m {
        SubscriptionMatcher::AllPartitions { from_sequences } => format!("all from={}", fseq(from_sequences)),
        SubscriptionMatcher::Partition { partition_id, from_sequence } => format!("part {partition_id} from={}", on(from_sequence)),
        SubscriptionMatcher::Partitions { partition_ids, from_sequences } => {
            let mut v: Vec<u16> = partition_ids.iter().copied().collect();
            v.sort();
            format!("parts [{}] from={}", v.iter().map(|p| p.to_string()).collect::<Vec<_>>().join(","), fseq(from_sequences))
        }
        SubscriptionMatcher::Stream { partition_key, stream_id, from_version } =>
            format!("stream sid={} pk={} from={}", enc(stream_id.as_bytes()), pk_of(partition_key, stream_id), on(from_version)),
        SubscriptionMatcher::Streams { stream_ids, from_versions } => {
            // sorted by (stream id bytes, partition key text)
            let mut v: Vec<(Vec<u8>, String)> = stream_ids.iter().map(|(pk, sid)| (sid.as_bytes().to_vec(), pk_of(pk, sid))).collect();
            v.sort();
            let f = match from_versions {
                FromVersions::Latest => "latest".to_string(),
                FromVersions::AllStreams(n) => format!("all:{n}"),
                FromVersions::Streams(m) => {
                    // keys are (partition key, stream id); printed sorted by (stream id, partition key)
                    let mut w: Vec<(Vec<u8>, String, u64)> = m.iter().map(|((pk, sid), n)| (sid.as_bytes().to_vec(), pk_of(pk, sid), *n)).collect();
                    w.sort();
                    format!("map[{}]", w.iter().map(|(s, p, n)| format!("{}:{}={}", enc(s), p, n)).collect::<Vec<_>>().join(","))
                }
            };
            format!("streams [{}] from={}", v.iter().map(|(s, p)| format!("{}:{}", enc(s), p)).collect::<Vec<_>>().join(","), f)
        }
    }
}

/// canonical observation of one command on the real parser
pub fn observe(cmd: &str, tokens: &[Vec<u8>]) -> String {
    let fr = frames(tokens);
    macro_rules! run { ($t:ty, $f:expr) => {{
        match common::catch(|| <$t>::parser().skip(eof()).parse(frame_stream(&fr)).map(|(c, _)| $f(c)).map_err(|_| ())) {
            None => "PANIC".to_string(), Some(Err(())) => "ERR".to_string(), Some(Ok(s)) => format!("OK {}", s),
        }
    }}; }
    match cmd {
        "ESUB" => run!(ESub, |c: ESub| format!("ESUB {} win={}", matcher(&c.matcher), on(&c.window_size))),
        "EPSUB" => run!(EPSub, |c: EPSub| format!("EPSUB {} win={}", matcher(&c.matcher), on(&c.window_size))),
        "EAPPEND" => run!(EAppend, |c: EAppend| format!("EAPPEND sid={} name={} id={} pk={} ev={} ts={} payload={} meta={}",
            enc(c.stream_id.as_bytes()), enc(c.event_name.as_bytes()), ou(&c.event_id), ou(&c.partition_key), ev(&c.expected_version),
            on(&c.timestamp), enc(&c.payload), enc(&c.metadata))),
        "EMAPPEND" => run!(EMAppend, |c: EMAppend| format!("EMAPPEND pk={} [{}]", u(&c.partition_key),
            c.events.iter().map(|e| format!("sid={} name={} id={} ev={} ts={} payload={} meta={}", enc(e.stream_id.as_bytes()),
                enc(e.event_name.as_bytes()), ou(&e.event_id), ev(&e.expected_version), on(&e.timestamp), enc(&e.payload), enc(&e.metadata)))
                .collect::<Vec<_>>().join(";"))),
        "ESCAN" => run!(EScan, |c: EScan| format!("ESCAN sid={} start={} end={} pk={} count={}", enc(c.stream_id.as_bytes()),
            rv(&c.start_version), rv(&c.end_version), ou(&c.partition_key), on(&c.count))),
        "EPSCAN" => run!(EPScan, |c: EPScan| format!("EPSCAN part={} start={} end={} count={}", ps(&c.partition),
            rv(&c.start_sequence), rv(&c.end_sequence), on(&c.count))),
        "EGET" => run!(EGet, |c: EGet| format!("EGET id={}", u(&c.event_id))),
        "ESVER" => run!(ESVer, |c: ESVer| format!("ESVER sid={} pk={}", enc(c.stream_id.as_bytes()), ou(&c.partition_key))),
        "EPSEQ" => run!(EPSeq, |c: EPSeq| format!("EPSEQ part={}", ps(&c.partition))),
        "EACK" => run!(EAck, |c: EAck| format!("EACK id={} cursor={}", u(&c.subscription_id), c.cursor)),
        _ => "BADCMD".into(),
    }
}

/// the uuid oracle table of a token list: for every token that is valid UTF-8, the string `s = token.trim()`
/// (Rust's trim) is looked up with the (trusted) uuid crate; hits are listed as `enc(s)@<32 hex>`.
pub fn oracle(tokens: &[Vec<u8>]) -> Vec<String> {
    let mut v = Vec::new();
    for t in tokens {
        if let Ok(s) = std::str::from_utf8(t) {
            let s = s.trim();
            if let Ok(x) = Uuid::parse_str(s) {
                let e = format!("{}@{}", enc(s.as_bytes()), u(&x));
                if !v.contains(&e) { v.push(e); }
            }
        }
    }
    v
}

/// `c21 <CMD> tok tok ... [| oracle...]` -> (normalised case line with a freshly computed oracle, observation)
pub fn case_line(cmd: &str, tokens: &[Vec<u8>]) -> String {
    let mut s = format!("c21 {}", cmd);
    for t in tokens { s.push(' '); s.push_str(&enc(t)); }
    let o = oracle(tokens);
    if !o.is_empty() { s.push_str(" |"); for e in o { s.push(' '); s.push_str(&e); } }
    s
}
pub fn run_case_line(line: &str) -> Option<(String, String)> {
    let body = line.split('|').next().unwrap();
    let mut it = body.split_whitespace();
    if it.next()? != "c21" { return None; }
    let cmd = it.next()?.to_string();
    let tokens: Option<Vec<Vec<u8>>> = it.map(dec).collect();
    let tokens = tokens?;
    Some((case_line(&cmd, &tokens), observe(&cmd, &tokens)))
}
