//! What the Rust client puts on the wire, fed to the real server parsers.
//!  * commands.rs / options.rs / types.rs: the REAL code (`<redis::Cmd as CmdExt>::<fn>(..)`, arguments read back
//!    with `Cmd::args_iter`).
//!  * subscription.rs: the REAL async methods of `SubscriptionManager`, connected to the in-process capture server
//!    of capture.rs, which records the argument list that goes on the wire (tagged `sub:`).  Should the loopback
//!    server be unavailable, the transcribed builders below (`sub_*`, same `cmd(..).arg(..)` calls) are used
//!    instead and the case is tagged `sub~:`.
//! For every call the request it denotes is printed from the call's arguments (not from any parser).
use crate::enc::enc;
use crate::capture::Capture;
use crate::cases::{self, Tok};
use std::collections::HashMap;
use common::Rng;
use redis::{Arg, Cmd, cmd};
use sierradb_client::{CmdExt, EAppendOptions, EMAppendEvent, ExpectedVersion};
use std::time::{Duration, UNIX_EPOCH};
use uuid::Uuid;

/// `call`: the call in the form the model driver reads (`c21 CALL <Kind> k=v ...`), for comparing the model's printers
/// with what the client really emitted
pub struct Emitted { pub func: String, pub cmd: String, pub tokens: Vec<Tok>, pub expect: String, pub call: String }

fn args(c: &Cmd) -> (String, Vec<Tok>) {
    let mut v: Vec<Tok> = c.args_iter().map(|a| match a { Arg::Simple(b) => b.to_vec(), _ => b"0".to_vec() }).collect();
    let name = String::from_utf8_lossy(&v.remove(0)).to_uppercase();
    (name, v)
}
fn u(x: &Uuid) -> String { x.simple().to_string() }
fn ou(x: &Option<Uuid>) -> String { x.as_ref().map(u).unwrap_or_else(|| "-".into()) }
fn on<T: ToString>(x: &Option<T>) -> String { x.as_ref().map(|v| v.to_string()).unwrap_or_else(|| "-".into()) }
fn ev(e: &ExpectedVersion) -> String {
    match e { ExpectedVersion::Any => "any".into(), ExpectedVersion::Exists => "exists".into(),
              ExpectedVersion::Empty => "empty".into(), ExpectedVersion::Exact(n) => n.to_string() }
}
fn s(t: &Tok) -> String { String::from_utf8(t.clone()).unwrap() }

fn pick_ev(r: &mut Rng) -> ExpectedVersion {
    match r.below(5) { 0 => ExpectedVersion::Any, 1 => ExpectedVersion::Exists, 2 => ExpectedVersion::Empty,
        3 => ExpectedVersion::Exact(*r.pick(&[0u64, 1, u64::MAX])), _ => ExpectedVersion::Exact(r.next()) }
}
fn num(r: &mut Rng) -> u64 { match r.below(5) { 0 => 0, 1 => 1, 2 => u64::MAX, 3 => r.below(1000), _ => r.next() } }
fn sid(r: &mut Rng) -> String {
    // stream ids a caller may legitimately use (valid, not a keyword of ESUB/EMAPPEND)
    loop { let t = cases::good_stream(r); if let Ok(x) = String::from_utf8(t) { return x; } }
}
fn payload(r: &mut Rng) -> Vec<u8> { cases::bytes_value(r) }
fn win(r: &mut Rng) -> Option<u32> { match r.below(4) { 0 => None, 1 => Some(1), 2 => Some(u32::MAX), _ => Some(r.range(1, 5000) as u32) } }

// ---- subscription.rs builders, transcribed (line numbers of crates/sierradb-client/src/subscription.rs)
fn sub_stream_with_options(stream_id: &str, partition_key: Option<Uuid>, from_version: Option<u64>, window_size: Option<u32>) -> Cmd { // :118-140
    let mut cmd = cmd("ESUB");
    cmd.arg(stream_id);
    if let Some(key) = partition_key { cmd.arg("PARTITION_KEY").arg(key.to_string()); }
    if let Some(version) = from_version { cmd.arg("FROM").arg(version); }
    if let Some(size) = window_size { cmd.arg("WINDOW").arg(size); }
    cmd
}
enum PSel { Id(u16), Key(Uuid) }
fn sub_partition_with_options(partition: &PSel, from_sequence: Option<u64>, window_size: Option<u32>) -> Cmd { // :341-362
    let mut cmd = cmd("EPSUB");
    match partition { PSel::Id(id) => cmd.arg(*id), PSel::Key(key) => cmd.arg(key.to_string()) };
    if let Some(sequence) = from_sequence { cmd.arg("FROM").arg(sequence); }
    if let Some(size) = window_size { cmd.arg("WINDOW").arg(size); }
    cmd
}
fn sub_partitions(partition_range: &str, from_sequence: u64, window_size: Option<u32>) -> Cmd { // :426-440
    let mut cmd = cmd("EPSUB");
    cmd.arg(partition_range);
    cmd.arg("FROM").arg(from_sequence);
    if let Some(size) = window_size { cmd.arg("WINDOW").arg(size); }
    cmd
}
fn sub_partitions_with_sequences(partition_sequences: &[(u16, u64)], window_size: Option<u32>) -> Cmd { // :484-515 (HashMap iteration order = the slice order here)
    let mut cmd = cmd("EPSUB");
    let partition_list: Vec<String> = partition_sequences.iter().map(|(p, _)| p.to_string()).collect();
    cmd.arg(partition_list.join(","));
    cmd.arg("FROM");
    cmd.arg("MAP");
    for (partition_id, sequence) in partition_sequences { cmd.arg(format!("{partition_id}={sequence}")); }
    if let Some(size) = window_size { cmd.arg("WINDOW").arg(size); }
    cmd
}
fn sub_stream_from_latest(stream_id: &str) -> Cmd { // :583-592
    let mut cmd = cmd("ESUB");
    cmd.arg(stream_id);
    cmd.arg("FROM");
    cmd.arg("LATEST");
    cmd
}
fn sub_all_partitions_from_latest() -> Cmd { // :622-630
    let mut cmd = cmd("EPSUB");
    cmd.arg("*");
    cmd.arg("FROM");
    cmd.arg("LATEST");
    cmd
}
fn sub_all_partitions_flexible(from_map: &[(u16, u64)], fallback_sequence: Option<u64>, window_size: Option<u32>) -> Cmd { // :715-759
    let mut cmd = cmd("EPSUB");
    cmd.arg("*");
    if from_map.is_empty() {
        match fallback_sequence {
            None => { cmd.arg("FROM"); cmd.arg("LATEST"); }
            Some(fallback) => { cmd.arg("FROM"); cmd.arg(fallback); }
        }
    } else {
        cmd.arg("FROM");
        cmd.arg("MAP");
        for (partition_id, sequence) in from_map { cmd.arg(format!("{partition_id}={sequence}")); }
        if let Some(fallback) = fallback_sequence { cmd.arg("DEFAULT"); cmd.arg(fallback); }
    }
    if let Some(size) = window_size { cmd.arg("WINDOW").arg(size); }
    cmd
}
fn sub_ack(subscription_id: Uuid, cursor: u64) -> Cmd { // :395-405, :923-929
    let mut c = cmd("EACK");
    c.arg(subscription_id.to_string()).arg(cursor);
    c
}

fn seq_map(r: &mut Rng) -> Vec<(u16, u64)> {
    let mut m: Vec<(u16, u64)> = Vec::new();
    for _ in 0..r.range(1, 4) { let p = *r.pick(&[0u16, 1, 5, 127, 65535]); if !m.iter().any(|x| x.0 == p) { m.push((p, num(r))); } }
    m
}
fn fmap(m: &[(u16, u64)], d: &Option<u64>) -> String {
    let mut v = m.to_vec(); v.sort();
    format!("map[{}]default={}", v.iter().map(|(a, b)| format!("{a}={b}")).collect::<Vec<_>>().join(","), on(d))
}

fn opt_n(x: &Option<u64>) -> String { on(x) }
fn rend(b: &Option<u64>) -> String { b.map(|x| x.to_string()).unwrap_or("+".into()) }
fn mp(m: &[(u16, u64)]) -> String { if m.is_empty() { "-".into() } else { m.iter().map(|(a, b)| format!("{a}:{b}")).collect::<Vec<_>>().join(",") } }
fn some_num(r: &mut Rng) -> Option<u64> { if r.chance(1, 2) { Some(num(r)) } else { None } }

/// run a real SubscriptionManager method against the capture server; fall back to the transcribed command
macro_rules! real {
    ($cap:expr, $fb:expr, $m:ident => $call:expr) => {{
        let mut got = None;
        if let Some(c) = $cap.as_mut() {
            let mut $m = c.mgr.clone();
            let _ = c.rt.block_on(async { $call.await.map(|_| ()) });
            got = c.take();
        }
        match got {
            Some(mut v) => { let name = String::from_utf8_lossy(&v.remove(0)).to_uppercase(); (name, v, true) }
            None => { let (n, t) = args(&$fb); (n, t, false) }
        }
    }};
}
/// the (partition, sequence) pairs in the order the `p=s` tokens were emitted (HashMap iteration order)
fn emitted_order(tokens: &[Tok], m: &[(u16, u64)]) -> Vec<(u16, u64)> {
    let mut o = Vec::new();
    for t in tokens {
        if let Ok(s) = std::str::from_utf8(t) { if let Some((p, q)) = s.split_once('=') {
            if let (Ok(p), Ok(q)) = (p.parse::<u16>(), q.parse::<u64>()) { if m.contains(&(p, q)) { o.push((p, q)); } } } }
    }
    if o.len() == m.len() { o } else { m.to_vec() }
}

pub fn emit(r: &mut Rng, cap: &mut Option<Capture>) -> Emitted {
    let mk = |func: &str, call: String, c: Cmd, expect: String| { let (cmd, tokens) = args(&c); Emitted { func: func.into(), cmd, tokens, expect, call } };
    match r.below(30) {
        0 | 1 | 2 => {
            let (sd, name) = (sid(r), s(&cases::t_name(r)));
            let mut o = EAppendOptions::new();
            let (mut id, mut pk, mut ts) = (None, None, None);
            if r.chance(1, 2) { let x = cases::uuid_value(r); o = o.event_id(x); id = Some(x); }
            if r.chance(1, 2) { let x = cases::uuid_value(r); o = o.partition_key(x); pk = Some(x); }
            let e = pick_ev(r); o = o.expected_version(e);
            if r.chance(1, 2) { let m = r.below(1 << 45); o = o.timestamp(UNIX_EPOCH + Duration::from_millis(m)); ts = Some(m); }
            let (p, m) = (if r.chance(1, 2) { payload(r) } else { vec![] }, if r.chance(1, 3) { payload(r) } else { vec![] });
            o = o.payload(p.clone()).metadata(m.clone());
            let fields = format!("sid={} name={} id={} pk={} ev={} ts={} payload={} meta={}", enc(sd.as_bytes()), enc(name.as_bytes()), ou(&id), ou(&pk), ev(&e), on(&ts), enc(&p), enc(&m));
            mk("eappend", format!("EAppend {fields}"), <Cmd as CmdExt>::eappend(sd.as_str(), name.as_str(), o), format!("EAPPEND {fields}"))
        }
        3 | 4 | 5 => {
            let pk = cases::uuid_value(r);
            let mut evs = Vec::new(); let mut ex = Vec::new();
            for _ in 0..r.range(1, 3) {
                let (sd, name) = (sid(r), s(&cases::t_name(r)));
                let mut e = EMAppendEvent::new(sd.clone(), name.clone());
                let (mut id, mut ts) = (None, None);
                if r.chance(1, 2) { let x = cases::uuid_value(r); e = e.event_id(x); id = Some(x); }
                let v = pick_ev(r); e = e.expected_version(v);
                if r.chance(1, 3) { let m = r.below(1 << 45); e = e.timestamp(UNIX_EPOCH + Duration::from_millis(m)); ts = Some(m); }
                let (p, m) = (if r.chance(1, 2) { payload(r) } else { vec![] }, if r.chance(1, 3) { payload(r) } else { vec![] });
                e = e.payload(p.clone()).metadata(m.clone());
                ex.push(format!("sid={} name={} id={} ev={} ts={} payload={} meta={}", enc(sd.as_bytes()), enc(name.as_bytes()), ou(&id), ev(&v), on(&ts), enc(&p), enc(&m)));
                evs.push(e);
            }
            mk("emappend", format!("EMAppend pk={} ; {}", u(&pk), ex.join(" ; ")), <Cmd as CmdExt>::emappend(pk, &evs), format!("EMAPPEND pk={} [{}]", u(&pk), ex.join(";")))
        }
        6 => { let x = cases::uuid_value(r); mk("eget", format!("EGet id={}", u(&x)), <Cmd as CmdExt>::eget(x), format!("EGET id={}", u(&x))) }
        7 => { let (k, a, b, c) = (cases::uuid_value(r), num(r), some_num(r), some_num(r));
               mk("epscan_by_key", format!("EPScan sel=key:{} start={a} end={} count={}", u(&k), opt_n(&b), opt_n(&c)), <Cmd as CmdExt>::epscan_by_key(k, a, b, c),
                  format!("EPSCAN part=key:{} start={} end={} count={}", u(&k), a, rend(&b), c.unwrap_or(100))) }
        8 => { let (k, a, b, c) = (*r.pick(&[0u16, 42, 65535]), num(r), some_num(r), some_num(r));
               mk("epscan_by_id", format!("EPScan sel=id:{k} start={a} end={} count={}", opt_n(&b), opt_n(&c)), <Cmd as CmdExt>::epscan_by_id(k, a, b, c),
                  format!("EPSCAN part=id:{} start={} end={} count={}", k, a, rend(&b), c.unwrap_or(100))) }
        9 => { let (sd, a, b, c) = (sid(r), num(r), some_num(r), some_num(r));
               mk("escan", format!("EScan sid={} pk=- start={a} end={} count={}", enc(sd.as_bytes()), opt_n(&b), opt_n(&c)), <Cmd as CmdExt>::escan(&sd, a, b, c),
                  format!("ESCAN sid={} start={} end={} pk=- count={}", enc(sd.as_bytes()), a, rend(&b), c.unwrap_or(100))) }
        10 => { let (sd, k, a, b, c) = (sid(r), cases::uuid_value(r), num(r), some_num(r), some_num(r));
               mk("escan_with_partition_key", format!("EScan sid={} pk={} start={a} end={} count={}", enc(sd.as_bytes()), u(&k), opt_n(&b), opt_n(&c)),
                  <Cmd as CmdExt>::escan_with_partition_key(&sd, k, a, b, c),
                  format!("ESCAN sid={} start={} end={} pk={} count={}", enc(sd.as_bytes()), a, rend(&b), u(&k), c.unwrap_or(100))) }
        11 => { let k = cases::uuid_value(r); mk("epseq_by_key", format!("EPSeq sel=key:{}", u(&k)), <Cmd as CmdExt>::epseq_by_key(k), format!("EPSEQ part=key:{}", u(&k))) }
        12 => { let k = *r.pick(&[0u16, 42, 65535]); mk("epseq_by_id", format!("EPSeq sel=id:{k}"), <Cmd as CmdExt>::epseq_by_id(k), format!("EPSEQ part=id:{k}")) }
        13 => { let sd = sid(r); mk("esver", format!("ESVer sid={} pk=-", enc(sd.as_bytes())), <Cmd as CmdExt>::esver(&sd), format!("ESVER sid={} pk=-", enc(sd.as_bytes()))) }
        14 => { let (sd, k) = (sid(r), cases::uuid_value(r)); mk("esver_with_partition_key", format!("ESVer sid={} pk={}", enc(sd.as_bytes()), u(&k)),
                <Cmd as CmdExt>::esver_with_partition_key(&sd, k), format!("ESVER sid={} pk={}", enc(sd.as_bytes()), u(&k))) }
        15 => { let sd = sid(r); mk("esub", format!("ESub sid={} pk=- from=- win=-", enc(sd.as_bytes())), <Cmd as CmdExt>::esub(sd.as_str()), format!("ESUB stream sid={} pk=d from=- win=-", enc(sd.as_bytes()))) }
        16 => { let (sd, k) = (sid(r), cases::uuid_value(r)); mk("esub_with_partition_key", format!("ESub sid={} pk={} from=- win=-", enc(sd.as_bytes()), u(&k)),
                <Cmd as CmdExt>::esub_with_partition_key(sd.as_str(), k), format!("ESUB stream sid={} pk={} from=- win=-", enc(sd.as_bytes()), u(&k))) }
        17 => { let (sd, n) = (sid(r), num(r)); mk("esub_from_version", format!("ESub sid={} pk=- from={n} win=-", enc(sd.as_bytes())),
                <Cmd as CmdExt>::esub_from_version(sd.as_str(), n), format!("ESUB stream sid={} pk=d from={} win=-", enc(sd.as_bytes()), n)) }
        18 => { let (sd, k, n) = (sid(r), cases::uuid_value(r), num(r)); mk("esub_with_partition_and_version", format!("ESub sid={} pk={} from={n} win=-", enc(sd.as_bytes()), u(&k)),
                <Cmd as CmdExt>::esub_with_partition_and_version(sd.as_str(), k, n), format!("ESUB stream sid={} pk={} from={} win=-", enc(sd.as_bytes()), u(&k), n)) }
        19 => { let k = cases::uuid_value(r);
                if r.chance(1, 2) { mk("epsub_by_key", format!("EPSubKey u={} from=- win=-", u(&k)), <Cmd as CmdExt>::epsub_by_key(k), format!("EPSUB partition-of-key {} from=- win=-", u(&k))) }
                else { let n = num(r); mk("epsub_by_key_from_sequence", format!("EPSubKey u={} from={n} win=-", u(&k)), <Cmd as CmdExt>::epsub_by_key_from_sequence(k, n), format!("EPSUB partition-of-key {} from={} win=-", u(&k), n)) } }
        20 => { let k = *r.pick(&[0u16, 42, 65535]);
                if r.chance(1, 2) { mk("epsub_by_id", format!("EPSubId p={k} from=- win=-"), <Cmd as CmdExt>::epsub_by_id(k), format!("EPSUB part {k} from=- win=-")) }
                else { let n = num(r); mk("epsub_by_id_from_sequence", format!("EPSubId p={k} from={n} win=-"), <Cmd as CmdExt>::epsub_by_id_from_sequence(k, n), format!("EPSUB part {k} from={n} win=-")) } }
        21 => { let (x, n) = (cases::uuid_value(r), num(r)); mk("eack", format!("EAck id={} cursor={n}", u(&x)), <Cmd as CmdExt>::eack(x, n), format!("EACK id={} cursor={}", u(&x), n)) }
        // ---- subscription.rs: the real methods through the capture server
        22 | 23 => { let (sd, k, f, w) = (sid(r), if r.chance(1, 2) { Some(cases::uuid_value(r)) } else { None }, some_num(r), win(r));
                let fb = sub_stream_with_options(&sd, k, f, w);
                let sdr = sd.as_str();
                let (cmd, tokens, real) = match (k, f, w) {
                    (None, None, None) => real!(cap, fb, m => m.subscribe_to_stream(sdr)),
                    (None, None, Some(w)) => real!(cap, fb, m => m.subscribe_to_stream_with_window(sdr, w)),
                    (None, Some(f), None) => real!(cap, fb, m => m.subscribe_to_stream_from_version(sdr, f)),
                    (None, Some(f), Some(w)) => real!(cap, fb, m => m.subscribe_to_stream_from_version_with_window(sdr, f, w)),
                    (Some(k), None, None) => real!(cap, fb, m => m.subscribe_to_stream_with_partition_key(sdr, k)),
                    (Some(k), None, Some(w)) => real!(cap, fb, m => m.subscribe_to_stream_with_partition_key_and_window(sdr, k, w)),
                    (Some(k), Some(f), None) => real!(cap, fb, m => m.subscribe_to_stream_with_partition_and_version(sdr, k, f)),
                    (Some(k), Some(f), Some(w)) => real!(cap, fb, m => m.subscribe_to_stream_with_partition_and_version_and_window(sdr, k, f, w)),
                };
                Emitted { func: format!("{}subscribe_to_stream*", if real { "sub:" } else { "sub~:" }), cmd, tokens,
                    call: format!("ESub sid={} pk={} from={} win={}", enc(sd.as_bytes()), ou(&k), on(&f), on(&w)),
                    expect: format!("ESUB stream sid={} pk={} from={} win={}", enc(sd.as_bytes()), k.map(|x| u(&x)).unwrap_or("d".into()), on(&f), on(&w)) } }
        24 => { let (f, w) = (some_num(r), win(r));
                if r.chance(1, 2) {
                    let k = *r.pick(&[0u16, 42, 65535]);
                    let fb = sub_partition_with_options(&PSel::Id(k), f, w);
                    let (cmd, tokens, real) = match (f, w) {
                        (None, None) => real!(cap, fb, m => m.subscribe_to_partition(k)),
                        (None, Some(w)) => real!(cap, fb, m => m.subscribe_to_partition_with_window(k, w)),
                        (Some(f), None) => real!(cap, fb, m => m.subscribe_to_partition_from_sequence(k, f)),
                        (Some(f), Some(w)) => real!(cap, fb, m => m.subscribe_to_partition_from_sequence_with_window(k, f, w)),
                    };
                    Emitted { func: format!("{}subscribe_to_partition*", if real { "sub:" } else { "sub~:" }), cmd, tokens,
                        call: format!("EPSubId p={k} from={} win={}", on(&f), on(&w)), expect: format!("EPSUB part {k} from={} win={}", on(&f), on(&w)) }
                } else {
                    let k = cases::uuid_value(r);
                    let fb = sub_partition_with_options(&PSel::Key(k), f, w);
                    let (cmd, tokens, real) = match (f, w) {
                        (None, None) => real!(cap, fb, m => m.subscribe_to_partition_key(k)),
                        (None, Some(w)) => real!(cap, fb, m => m.subscribe_to_partition_key_with_window(k, w)),
                        (Some(f), None) => real!(cap, fb, m => m.subscribe_to_partition_key_from_sequence(k, f)),
                        (Some(f), Some(w)) => real!(cap, fb, m => m.subscribe_to_partition_key_from_sequence_with_window(k, f, w)),
                    };
                    Emitted { func: format!("{}subscribe_to_partition_key*", if real { "sub:" } else { "sub~:" }), cmd, tokens,
                        call: format!("EPSubKey u={} from={} win={}", u(&k), on(&f), on(&w)), expect: format!("EPSUB partition-of-key {} from={} win={}", u(&k), on(&f), on(&w)) }
                } }
        25 => { let (n, w) = (num(r), win(r));
                match r.below(4) {
                    0 => { let fb = sub_partitions("*", n, w); let (cmd, tokens, real) = real!(cap, fb, m => m.subscribe_to_all_partitions(n, w));
                           Emitted { func: format!("{}subscribe_to_all_partitions", if real { "sub:" } else { "sub~:" }), cmd, tokens,
                               call: format!("EPSubText sel=* from={n} win={}", on(&w)), expect: format!("EPSUB all from=all:{n} win={}", on(&w)) } }
                    1 => { let fb = sub_partitions("0,1,5", n, w); let (cmd, tokens, real) = real!(cap, fb, m => m.subscribe_to_partitions("0,1,5", n, w));
                           Emitted { func: format!("{}subscribe_to_partitions(list)", if real { "sub:" } else { "sub~:" }), cmd, tokens,
                               call: format!("EPSubText sel=0,1,5 from={n} win={}", on(&w)), expect: format!("EPSUB parts [0,1,5] from=all:{n} win={}", on(&w)) } }
                    2 => { let fb = sub_partitions("42", n, w); let (cmd, tokens, real) = real!(cap, fb, m => m.subscribe_to_partitions("42", n, w));
                           Emitted { func: format!("{}subscribe_to_partitions(one)", if real { "sub:" } else { "sub~:" }), cmd, tokens,
                               call: format!("EPSubText sel=42 from={n} win={}", on(&w)), expect: format!("EPSUB part 42 from={n} win={}", on(&w)) } }
                    _ => { let (a, b) = (r.below(100) as u16, r.range(100, 300) as u16);
                           let fb = sub_partitions(&format!("{a}-{b}"), n, w); let (cmd, tokens, real) = real!(cap, fb, m => m.subscribe_to_partition_range(a, b, n, w));
                           Emitted { func: format!("{}subscribe_to_partition_range", if real { "sub:" } else { "sub~:" }), cmd, tokens,
                               call: format!("EPSubText sel={a}-{b} from={n} win={}", on(&w)), expect: format!("EPSUB partition-range {a}-{b} from=all:{n} win={}", on(&w)) } }
                } }
        26 => { let (m0, w) = (seq_map(r), win(r));
                let fb = sub_partitions_with_sequences(&m0, w);
                let hm: HashMap<u16, u64> = m0.iter().copied().collect();
                let (cmd, tokens, real) = real!(cap, fb, m => m.subscribe_to_partitions_with_sequences(hm, w));
                let mo = emitted_order(&tokens, &m0);
                let mut ps: Vec<u16> = mo.iter().map(|x| x.0).collect(); ps.sort();
                let e = if mo.len() == 1 { format!("EPSUB part {} from={} win={}", mo[0].0, mo[0].1, on(&w)) }
                        else { format!("EPSUB parts [{}] from={} win={}", ps.iter().map(|p| p.to_string()).collect::<Vec<_>>().join(","), fmap(&mo, &None), on(&w)) };
                Emitted { func: format!("{}subscribe_to_partitions_with_sequences", if real { "sub:" } else { "sub~:" }), cmd, tokens,
                    call: format!("EPSubSeqs m={} win={}", mp(&mo), on(&w)), expect: e } }
        27 => { if r.chance(1, 2) { let sd = sid(r); let fb = sub_stream_from_latest(&sd); let sdr = sd.as_str();
                    let (cmd, tokens, real) = real!(cap, fb, m => m.subscribe_to_stream_from_latest(sdr));
                    Emitted { func: format!("{}subscribe_to_stream_from_latest", if real { "sub:" } else { "sub~:" }), cmd, tokens,
                        call: format!("ESubLatest sid={}", enc(sd.as_bytes())), expect: format!("ESUB stream sid={} pk=d from=- win=-", enc(sd.as_bytes())) } }
                else { let fb = sub_all_partitions_from_latest(); let (cmd, tokens, real) = real!(cap, fb, m => m.subscribe_to_all_partitions_from_latest());
                    Emitted { func: format!("{}subscribe_to_all_partitions_from_latest", if real { "sub:" } else { "sub~:" }), cmd, tokens,
                        call: "EPSubAllLatest".into(), expect: "EPSUB all from=latest win=-".into() } } }
        28 => { let (m0, d, w) = (if r.chance(1, 3) { vec![] } else { seq_map(r) }, some_num(r), win(r));
                let fb = sub_all_partitions_flexible(&m0, d, w);
                let hm: HashMap<u16, u64> = m0.iter().copied().collect();
                let (cmd, tokens, real) = match d {
                    Some(dv) if r.chance(1, 2) => real!(cap, fb, m => m.subscribe_to_all_partitions_with_fallback(hm, dv, w)),
                    _ => real!(cap, fb, m => m.subscribe_to_all_partitions_flexible(hm, d, w)),
                };
                let mo = emitted_order(&tokens, &m0);
                let f = if mo.is_empty() { match d { None => "latest".to_string(), Some(x) => format!("all:{x}") } } else { fmap(&mo, &d) };
                Emitted { func: format!("{}subscribe_to_all_partitions_flexible", if real { "sub:" } else { "sub~:" }), cmd, tokens,
                    call: format!("EPSubAll m={} fallback={} win={}", mp(&mo), on(&d), on(&w)), expect: format!("EPSUB all from={f} win={}", on(&w)) } }
        _ => { let (x, n) = (cases::uuid_value(r), num(r)); let fb = sub_ack(x, n);
               let (cmd, tokens, real) = real!(cap, fb, m => m.acknowledge_up_to_cursor(x, n));
               Emitted { func: format!("{}acknowledge_up_to_cursor", if real { "sub:" } else { "sub~:" }), cmd, tokens,
                   call: format!("EAck id={} cursor={n}", u(&x)), expect: format!("EACK id={} cursor={}", u(&x), n) } }
    }
}
