//! C25, store side: does the real database accept an append with a given expectation?
//! Case line:  tx <pnext> <epart> <db> <ev>
//!   pnext  next partition sequence before the tested transaction (number of events already in the partition)
//!   epart  expected partition sequence of the transaction (any|exists|empty|<n>)
//!   db     `-` or `sid:ver,...`  latest version of every stream that already has events (streams not listed are empty)
//!   ev     `sid:exp,...`         the events of the tested transaction, in order (stream index : expected stream version)
//! Each case runs in a fresh partition of a real `Database`: the harness first appends `ver+1` events to every stream in
//! `db` plus fillers so that the partition holds exactly `pnext` events (in 1..3 set-up transactions), then submits the
//! tested transaction through `Database::append_events` and prints what happened:
//!   ok <first_seq> <last_seq> <sid:ver,...>  |  wrongver <sid> <current> <expected>  |  wrongseq <current> <expected>  |  err <..>
//! followed by ` ; sat=<bits> psat=<bit>`: the REAL `ExpectedVersion::is_satisfied_by` evaluated per event against the version
//! its stream has at that point (db version advanced by the earlier events of the same transaction), and for the partition.
use crate::proto::{c_tok, e_tok, read_e, read_u64};
use common::{catch, Args, Out, Rng};
use sierradb::database::{Database, DatabaseBuilder, NewEvent, Transaction};
use sierradb::error::WriteError;
use sierradb::id::{uuid_to_partition_hash, uuid_v7_with_partition_hash};
use sierradb::StreamId;
use sierradb_protocol::{CurrentVersion, ExpectedVersion};
use smallvec::SmallVec;
use std::collections::BTreeMap;
use uuid::Uuid;

struct Env { rt: tokio::runtime::Runtime, db: Option<Database>, dir: Option<tempfile::TempDir>, next_pid: u32 }

impl Env {
    fn new() -> Env {
        let rt = tokio::runtime::Builder::new_current_thread().enable_all().build().expect("tokio runtime");
        Env { rt, db: None, dir: None, next_pid: 0 }
    }
    fn fresh_partition(&mut self) -> u16 {
        if self.db.is_none() || self.next_pid > 65000 {
            self.close();
            let dir = tempfile::Builder::new().prefix("sv-c25-").tempdir().expect("tempdir");
            let db = DatabaseBuilder::new()
                .total_buckets(1)
                .bucket_ids_from_range(0..1)
                .reader_threads(1)
                .writer_threads(1)
                .min_sync_bytes(0)
                .open(dir.path())
                .expect("open database");
            self.db = Some(db);
            self.dir = Some(dir);
            self.next_pid = 0;
        }
        let p = self.next_pid as u16;
        self.next_pid += 1;
        p
    }
    fn close(&mut self) {
        if let Some(db) = self.db.take() { self.rt.block_on(db.shutdown()); drop(db); }
        self.dir.take();
    }
}

fn stream(pid: u16, sid: u64) -> StreamId { StreamId::new(format!("p{pid}s{sid}")).unwrap() }
fn pkey(pid: u16) -> Uuid { Uuid::from_u128(0x219bd637_e279_53e9_9e2b_000000000000u128 ^ ((pid as u128) << 46) ^ (pid as u128)) }
fn event(pkey: Uuid, s: StreamId, e: ExpectedVersion) -> NewEvent {
    NewEvent { event_id: uuid_v7_with_partition_hash(uuid_to_partition_hash(pkey)), stream_id: s, stream_version: e,
               event_name: "E".into(), timestamp: 1, metadata: vec![], payload: vec![] }
}

pub struct Tx { pnext: u64, epart: ExpectedVersion, db: Vec<(u64, u64)>, ev: Vec<(u64, ExpectedVersion)> }

pub fn parse_tx(line: &str) -> Option<Tx> {
    let t: Vec<&str> = line.split_whitespace().collect();
    if t.len() != 5 || t[0] != "tx" { return None; }
    let pnext = read_u64(t[1])?;
    let epart = read_e(t[2])?;
    let mut db = Vec::new();
    if t[3] != "-" { for kv in t[3].split(',') { let (k, v) = kv.split_once(':')?; db.push((read_u64(k)?, read_u64(v)?)); } }
    let mut ev = Vec::new();
    for kv in t[4].split(',') { let (k, v) = kv.split_once(':')?; ev.push((read_u64(k)?, read_e(v)?)); }
    // replayable only if the partition can hold the listed streams, and small enough to set up
    let need: u64 = db.iter().map(|(_, v)| v.checked_add(1)).sum::<Option<u64>>()?;
    if need > pnext || pnext > 5000 || ev.is_empty() || ev.len() > 64 { return None; }
    let mut seen = std::collections::BTreeSet::new();
    for (k, _) in &db { if !seen.insert(*k) { return None; } }
    Some(Tx { pnext, epart, db, ev })
}

fn errstr(pid: u16, e: &WriteError) -> String {
    match e {
        WriteError::WrongExpectedVersion { stream_id, current, expected, .. } => {
            let pre = format!("p{pid}s");
            let sid = stream_id.strip_prefix(&pre).unwrap_or("?").to_string();
            format!("wrongver {} {} {}", sid, c_tok(*current), e_tok(*expected))
        }
        WriteError::WrongExpectedSequence { current, expected, .. } => format!("wrongseq {} {}", c_tok(*current), e_tok(*expected)),
        other => format!("err {:?}", other).replace(['\t', '\n'], " "),
    }
}

fn run_tx(env: &mut Env, tx: &Tx, r: &mut Rng) -> String {
    let pid = env.fresh_partition();
    let key = pkey(pid);
    // set-up: bring the partition to the state described by the case
    let mut setup: Vec<NewEvent> = Vec::new();
    let mut used = 0u64;
    for &(sid, ver) in &tx.db { for _ in 0..=ver { setup.push(event(key, stream(pid, sid), ExpectedVersion::Any)); used += 1; } }
    for _ in used..tx.pnext { setup.push(event(key, StreamId::new(format!("p{pid}fill")).unwrap(), ExpectedVersion::Any)); }
    // interleave streams a little (order within a stream does not matter, all `Any`)
    for i in (1..setup.len()).rev() { let j = r.below(i as u64 + 1) as usize; setup.swap(i, j); }
    let chunks = if setup.is_empty() { 0 } else { r.range(1, 3.min(setup.len() as u64)) as usize };
    let db = env.db.as_ref().unwrap();
    if chunks > 0 {
        let per = setup.len().div_ceil(chunks);
        let mut it = setup.into_iter().peekable();
        while it.peek().is_some() {
            let evs: SmallVec<[NewEvent; 4]> = it.by_ref().take(per).collect();
            let t = Transaction::new(key, pid, evs).expect("setup transaction");
            if let Err(e) = env.rt.block_on(db.append_events(t)) { return format!("SETUP-FAILED {:?}", e).replace(['\t', '\n'], " "); }
        }
    }
    // the real predicate, evaluated against the running versions
    let mut cur: BTreeMap<u64, CurrentVersion> = tx.db.iter().map(|&(s, v)| (s, CurrentVersion::Current(v))).collect();
    let mut sat = String::new();
    for &(sid, e) in &tx.ev {
        let c = *cur.get(&sid).unwrap_or(&CurrentVersion::Empty);
        sat.push(match catch(|| e.is_satisfied_by(c)) { Some(true) => '1', Some(false) => '0', None => 'P' });
        cur.insert(sid, match c { CurrentVersion::Empty => CurrentVersion::Current(0), CurrentVersion::Current(v) => CurrentVersion::Current(v + 1) });
    }
    let pcur = if tx.pnext == 0 { CurrentVersion::Empty } else { CurrentVersion::Current(tx.pnext - 1) };
    let psat = match catch(|| tx.epart.is_satisfied_by(pcur)) { Some(true) => '1', Some(false) => '0', None => 'P' };
    // the tested transaction
    let evs: SmallVec<[NewEvent; 4]> = tx.ev.iter().map(|&(sid, e)| event(key, stream(pid, sid), e)).collect();
    let t = Transaction::new(key, pid, evs).expect("transaction").expected_partition_sequence(tx.epart);
    let res = env.rt.block_on(db.append_events(t));
    let outcome = match res {
        Ok(a) => {
            let pre = format!("p{pid}s");
            let mut sv: Vec<(u64, u64)> = a.stream_versions.iter().map(|(s, v)| (s.strip_prefix(&pre).and_then(|x| x.parse().ok()).unwrap_or(u64::MAX), *v)).collect();
            sv.sort();
            let svs: Vec<String> = sv.iter().map(|(s, v)| format!("{s}:{v}")).collect();
            format!("ok {} {} {}", a.first_partition_sequence, a.last_partition_sequence, svs.join(","))
        }
        Err(e) => errstr(pid, &e),
    };
    format!("{outcome} ; sat={sat} psat={psat}")
}

pub fn replay(lines: &[String], out: &mut Out) {
    if lines.is_empty() { return; }
    let mut env = Env::new();
    let mut r = Rng::new(7);
    for l in lines {
        match parse_tx(l) { Some(tx) => { let o = run_tx(&mut env, &tx, &mut r); out.case(l, &o); } None => out.case(l, "BADCASE") }
    }
    env.close();
}

fn pick_expect(r: &mut Rng, c: CurrentVersion, valid_bias: u64) -> ExpectedVersion {
    if r.chance(valid_bias, 100) {
        // an expectation the current version satisfies
        match (c, r.below(3)) {
            (_, 0) => ExpectedVersion::Any,
            (CurrentVersion::Empty, _) => ExpectedVersion::Empty,
            (CurrentVersion::Current(_), 1) => ExpectedVersion::Exists,
            (CurrentVersion::Current(v), _) => ExpectedVersion::Exact(v),
        }
    } else {
        let v = match c { CurrentVersion::Empty => 0, CurrentVersion::Current(v) => v };
        match r.below(10) {
            0 => ExpectedVersion::Empty,
            1 => ExpectedVersion::Exists,
            2 => ExpectedVersion::Exact(v.wrapping_add(1)),
            3 => ExpectedVersion::Exact(v.wrapping_sub(1)),
            4 => ExpectedVersion::Exact(0),
            5 => ExpectedVersion::Exact(u64::MAX),
            6 => ExpectedVersion::Exact(v),
            7 => ExpectedVersion::Exact(r.below(6)),
            8 => ExpectedVersion::Exact(crate::proto::rnd_u64(r)),
            _ => ExpectedVersion::Any,
        }
    }
}

pub fn generate(a: &Args, out: &mut Out) {
    let mut r = Rng::new(a.seed ^ 0x25_5704E);
    let n = if a.tier == "thorough" { 12000 } else { 1500 };
    let mut env = Env::new();
    for i in 0..n {
        // state of the fresh partition
        let nstreams = r.range(1, 3);
        let mut db: Vec<(u64, u64)> = Vec::new();
        for s in 0..nstreams { if r.chance(2, 3) { db.push((s, if r.chance(1, 2) { r.below(3) } else { r.below(12) })); } }
        let used: u64 = db.iter().map(|(_, v)| v + 1).sum();
        let pnext = used + if r.chance(1, 2) { 0 } else { r.below(5) };
        let bias = if i % 3 == 0 { 95 } else { 70 };
        // events
        let nev = if r.chance(1, 3) { 1 } else { r.range(2, 6) };
        let mut cur: BTreeMap<u64, CurrentVersion> = db.iter().map(|&(s, v)| (s, CurrentVersion::Current(v))).collect();
        let mut ev = Vec::new();
        for _ in 0..nev {
            let sid = r.below(nstreams);
            let c = *cur.get(&sid).unwrap_or(&CurrentVersion::Empty);
            let e = pick_expect(&mut r, c, bias);
            ev.push((sid, e));
            cur.insert(sid, match c { CurrentVersion::Empty => CurrentVersion::Current(0), CurrentVersion::Current(v) => CurrentVersion::Current(v + 1) });
        }
        let pcur = if pnext == 0 { CurrentVersion::Empty } else { CurrentVersion::Current(pnext - 1) };
        let epart = pick_expect(&mut r, pcur, 80);
        let dbs = if db.is_empty() { "-".to_string() } else { db.iter().map(|(s, v)| format!("{s}:{v}")).collect::<Vec<_>>().join(",") };
        let evs = ev.iter().map(|(s, e)| format!("{s}:{}", e_tok(*e))).collect::<Vec<_>>().join(",");
        let line = format!("tx {pnext} {} {dbs} {evs}", e_tok(epart));
        let tx = parse_tx(&line).expect("generated case parses");
        let o = run_tx(&mut env, &tx, &mut r);
        out.case(&line, &o);
    }
    env.close();
}
