mod proto;
mod store;
fn main() {
    common::silence_panics();
    let a = common::args();
    let mut out = common::Out::new();
    if a.tier == "cases" {
        let text = std::fs::read_to_string(&a.rest[0]).unwrap();
        let mut txs: Vec<String> = Vec::new();
        for line in text.lines() {
            let line = line.trim();
            if line.is_empty() { continue; }
            if line.starts_with("tx ") { txs.push(line.to_string()); continue; }
            match proto::run_case(line) {
                Some(o) => out.case(line, &o),
                None => out.case(line, "BADCASE"),
            }
        }
        store::replay(&txs, &mut out);
        out.flush();
        return;
    }
    proto::generate(&a, &mut out);
    store::generate(&a, &mut out);
    out.flush();
}
