//! C25, protocol side: ExpectedVersion / CurrentVersion / VersionGap of sierradb-protocol on the real code.
//! Case lines (first token = kind), values as tokens `any|exists|empty|<decimal>` (expected) and `empty|<decimal>` (current):
//!   sat <e> <c>       -> true|false                      (is_satisfied_by)
//!   gap <e> <c>       -> none|ahead N|behind N|incompatible
//!   fromnext <v>      -> <e>                             (from_next_version)
//!   intonext <e>      -> some N|none|PANIC               (into_next_version)
//!   cnext <c>         -> N|PANIC                          (CurrentVersion::next)
//!   asexp <c>         -> <e>                             (as_expected_version)
//!   cadd <c> <k>      -> <c>|PANIC                        (AddAssign<u64>)
//!   dispe <e> / dispc <c>   -> hex of the Display output
//!   parsee <hex> / parsec <hex> -> ok <e>|err empty|err invalid|err overflow|err other
//!   rnext <v>         -> into_next_version(from_next_version(v))            some N|none|PANIC
//!   rinto <e>         -> from_next_version(into_next_version(e).unwrap())   <e>|none|PANIC
//!   rte <e> / rtc <c> -> parse(display(x))                                  ok <x>|err ..
//!   rse <hex> / rsc <hex> -> display(parse(s)) as hex                       <hex>|err ..
//! The harness never uses the crate's own FromStr/Display to build or print case values.
use common::{catch, Args, Out, Rng};
use sierradb_protocol::{CurrentVersion, ExpectedVersion, VersionGap};
use std::num::IntErrorKind;

pub fn e_tok(e: ExpectedVersion) -> String {
    match e {
        ExpectedVersion::Any => "any".into(),
        ExpectedVersion::Exists => "exists".into(),
        ExpectedVersion::Empty => "empty".into(),
        ExpectedVersion::Exact(v) => fmt_u64(v),
    }
}
pub fn c_tok(c: CurrentVersion) -> String {
    match c {
        CurrentVersion::Empty => "empty".into(),
        CurrentVersion::Current(v) => fmt_u64(v),
    }
}
/// own decimal printer (independent of nothing in /repo; std's u64 Display is what the code under test uses too,
/// so print digit by digit here)
pub fn fmt_u64(mut v: u64) -> String {
    if v == 0 { return "0".into(); }
    let mut d = Vec::new();
    while v > 0 { d.push(b'0' + (v % 10) as u8); v /= 10; }
    d.reverse();
    String::from_utf8(d).unwrap()
}
/// own strict decimal reader for case tokens: digits only, no sign, must fit u64
pub fn read_u64(s: &str) -> Option<u64> {
    if s.is_empty() || s.len() > 20 { return None; }
    let mut acc: u128 = 0;
    for b in s.bytes() {
        if !b.is_ascii_digit() { return None; }
        acc = acc * 10 + (b - b'0') as u128;
    }
    if acc > u64::MAX as u128 { None } else { Some(acc as u64) }
}
pub fn read_e(s: &str) -> Option<ExpectedVersion> {
    Some(match s {
        "any" => ExpectedVersion::Any,
        "exists" => ExpectedVersion::Exists,
        "empty" => ExpectedVersion::Empty,
        _ => ExpectedVersion::Exact(read_u64(s)?),
    })
}
pub fn read_c(s: &str) -> Option<CurrentVersion> {
    Some(match s {
        "empty" => CurrentVersion::Empty,
        _ => CurrentVersion::Current(read_u64(s)?),
    })
}
fn hex(b: &[u8]) -> String {
    if b.is_empty() { return "-".into(); }
    b.iter().map(|x| format!("{:02x}", x)).collect()
}
fn unhex(s: &str) -> Option<Vec<u8>> {
    if s == "-" { return Some(vec![]); }
    if s.len() % 2 != 0 { return None; }
    (0..s.len() / 2).map(|i| u8::from_str_radix(&s[2 * i..2 * i + 2], 16).ok()).collect()
}
fn kind(k: &IntErrorKind) -> &'static str {
    match k {
        IntErrorKind::Empty => "err empty",
        IntErrorKind::InvalidDigit => "err invalid",
        IntErrorKind::PosOverflow => "err overflow",
        _ => "err other",
    }
}

pub fn run_case(line: &str) -> Option<String> {
    let t: Vec<&str> = line.split_whitespace().collect();
    let p = "PANIC".to_string();
    Some(match (t.first().copied()?, t.len()) {
        ("sat", 3) => {
            let (e, c) = (read_e(t[1])?, read_c(t[2])?);
            catch(|| e.is_satisfied_by(c)).map(|b| b.to_string()).unwrap_or(p)
        }
        ("gap", 3) => {
            let (e, c) = (read_e(t[1])?, read_c(t[2])?);
            catch(|| e.gap_from(c)).map(|g| match g {
                VersionGap::None => "none".to_string(),
                VersionGap::Ahead(n) => format!("ahead {}", fmt_u64(n)),
                VersionGap::Behind(n) => format!("behind {}", fmt_u64(n)),
                VersionGap::Incompatible => "incompatible".to_string(),
            }).unwrap_or(p)
        }
        ("fromnext", 2) => {
            let v = read_u64(t[1])?;
            catch(|| ExpectedVersion::from_next_version(v)).map(e_tok).unwrap_or(p)
        }
        ("intonext", 2) => {
            let e = read_e(t[1])?;
            catch(|| e.into_next_version()).map(|r| match r { Some(v) => format!("some {}", fmt_u64(v)), None => "none".into() }).unwrap_or(p)
        }
        ("cnext", 2) => {
            let c = read_c(t[1])?;
            catch(|| c.next()).map(fmt_u64).unwrap_or(p)
        }
        ("asexp", 2) => {
            let c = read_c(t[1])?;
            catch(|| c.as_expected_version()).map(e_tok).unwrap_or(p)
        }
        ("cadd", 3) => {
            let (c, k) = (read_c(t[1])?, read_u64(t[2])?);
            catch(|| { let mut c = c; c += k; c }).map(c_tok).unwrap_or(p)
        }
        ("dispe", 2) => {
            let e = read_e(t[1])?;
            catch(|| e.to_string()).map(|s| hex(s.as_bytes())).unwrap_or(p)
        }
        ("dispc", 2) => {
            let c = read_c(t[1])?;
            catch(|| c.to_string()).map(|s| hex(s.as_bytes())).unwrap_or(p)
        }
        ("parsee", 2) => {
            let b = unhex(t[1])?;
            let s = String::from_utf8(b).ok()?;
            catch(|| s.parse::<ExpectedVersion>()).map(|r| match r { Ok(e) => format!("ok {}", e_tok(e)), Err(x) => kind(x.kind()).to_string() }).unwrap_or(p)
        }
        ("parsec", 2) => {
            let b = unhex(t[1])?;
            let s = String::from_utf8(b).ok()?;
            catch(|| s.parse::<CurrentVersion>()).map(|r| match r { Ok(c) => format!("ok {}", c_tok(c)), Err(x) => kind(x.kind()).to_string() }).unwrap_or(p)
        }
        ("rnext", 2) => {
            let v = read_u64(t[1])?;
            catch(|| ExpectedVersion::from_next_version(v).into_next_version()).map(|r| match r { Some(v) => format!("some {}", fmt_u64(v)), None => "none".into() }).unwrap_or(p)
        }
        ("rinto", 2) => {
            let e = read_e(t[1])?;
            catch(|| e.into_next_version().map(ExpectedVersion::from_next_version)).map(|r| match r { Some(e) => e_tok(e), None => "none".into() }).unwrap_or(p)
        }
        ("rte", 2) => {
            let e = read_e(t[1])?;
            catch(|| e.to_string().parse::<ExpectedVersion>()).map(|r| match r { Ok(e) => format!("ok {}", e_tok(e)), Err(x) => kind(x.kind()).to_string() }).unwrap_or(p)
        }
        ("rtc", 2) => {
            let c = read_c(t[1])?;
            catch(|| c.to_string().parse::<CurrentVersion>()).map(|r| match r { Ok(c) => format!("ok {}", c_tok(c)), Err(x) => kind(x.kind()).to_string() }).unwrap_or(p)
        }
        ("rse", 2) => {
            let s = String::from_utf8(unhex(t[1])?).ok()?;
            catch(|| s.parse::<ExpectedVersion>().map(|e| e.to_string())).map(|r| match r { Ok(s) => hex(s.as_bytes()), Err(x) => kind(x.kind()).to_string() }).unwrap_or(p)
        }
        ("rsc", 2) => {
            let s = String::from_utf8(unhex(t[1])?).ok()?;
            catch(|| s.parse::<CurrentVersion>().map(|c| c.to_string())).map(|r| match r { Ok(s) => hex(s.as_bytes()), Err(x) => kind(x.kind()).to_string() }).unwrap_or(p)
        }
        _ => return None,
    })
}

pub const MAX: u64 = u64::MAX;
pub fn boundary() -> Vec<u64> {
    vec![0, 1, 2, 9, 10, 11, 99, 100, 255, 256, 65535, 65536, (1 << 31) - 1, 1 << 31, u32::MAX as u64, 1 << 32, (1 << 32) + 1,
         (1 << 63) - 1, 1 << 63, (1 << 63) + 1, 9_999_999_999_999_999_999, 10_000_000_000_000_000_000, MAX - 2, MAX - 1, MAX]
}
/// random u64 with a random bit length (so small and huge values are both common)
pub fn rnd_u64(r: &mut Rng) -> u64 {
    match r.below(8) {
        0 => r.below(4),
        1 => r.below(1000),
        2 => MAX - r.below(1000),
        3 => (1u64 << 63).wrapping_add(r.below(2000)).wrapping_sub(1000),
        _ => { let bits = r.range(1, 64); if bits == 64 { r.next() } else { r.next() & ((1u64 << bits) - 1) } }
    }
}
fn near(r: &mut Rng, v: u64) -> u64 {
    match r.below(5) { 0 => v, 1 => v.wrapping_add(1), 2 => v.wrapping_sub(1), 3 => v.wrapping_add(r.below(100)), _ => v.wrapping_sub(r.below(100)) }
}

fn emit(out: &mut Out, line: String) {
    let o = run_case(&line).unwrap_or_else(|| "BADCASE".into());
    out.case(&line, &o);
}

fn mutate_string(r: &mut Rng, base: &str) -> Vec<u8> {
    let b = base.as_bytes().to_vec();
    let alphabet: &[u8] = b"0123456789+- aenyxistmpEAX_.\t";
    match r.below(16) {
        0 => { let mut v = b"+".to_vec(); v.extend(&b); v }
        1 => { let mut v = vec![b'0'; r.range(1, 25) as usize]; v.extend(&b); v }
        2 => { let mut v = b"-".to_vec(); v.extend(&b); v }
        3 => { let mut v = b" ".to_vec(); v.extend(&b); v }
        4 => { let mut v = b.clone(); v.push(b' '); v }
        5 => base.to_uppercase().into_bytes(),
        6 => { let mut v = b.clone(); v.push(*r.pick(b"0123456789")); v }
        7 => { let mut v = b.clone(); if !v.is_empty() { let i = r.below(v.len() as u64) as usize; v[i] = *r.pick(alphabet); } v }
        8 => { let mut v = b.clone(); if !v.is_empty() { let i = r.below(v.len() as u64) as usize; v.remove(i); } v }
        9 => { let mut v = b.clone(); let i = r.below(v.len() as u64 + 1) as usize; v.insert(i, *r.pick(alphabet)); v }
        10 => { let mut v = b"+".to_vec(); v.extend(vec![b'0'; r.range(0, 5) as usize]); v.extend(&b); v }
        11 => { let mut v = b"++".to_vec(); v.extend(&b); v }
        12 => { let mut v = b.clone(); v.extend("\u{0663}".as_bytes()); v }      // arabic-indic digit three
        13 => { let mut v = "\u{ff11}".as_bytes().to_vec(); v.extend(&b); v }    // fullwidth digit one
        14 => { let n = r.range(0, 6) as usize; (0..n).map(|_| *r.pick(alphabet)).collect() }
        _ => { let n = r.range(18, 42) as usize; (0..n).map(|_| *r.pick(b"0123456789")).collect() }
    }
}

pub fn generate(a: &Args, out: &mut Out) {
    let mut r = Rng::new(a.seed ^ 0xC25);
    let thorough = a.tier == "thorough";
    let nrand = if thorough { 60000 } else { 4000 };
    let b = boundary();
    let mut es: Vec<ExpectedVersion> = vec![ExpectedVersion::Any, ExpectedVersion::Exists, ExpectedVersion::Empty];
    es.extend(b.iter().map(|&v| ExpectedVersion::Exact(v)));
    let mut cs: Vec<CurrentVersion> = vec![CurrentVersion::Empty];
    cs.extend(b.iter().map(|&v| CurrentVersion::Current(v)));
    // boundary x boundary
    for &e in &es { for &c in &cs {
        emit(out, format!("sat {} {}", e_tok(e), c_tok(c)));
        emit(out, format!("gap {} {}", e_tok(e), c_tok(c)));
    } }
    // random and correlated pairs
    for _ in 0..nrand {
        let x = rnd_u64(&mut r);
        let e = match r.below(10) { 0 => ExpectedVersion::Any, 1 => ExpectedVersion::Exists, 2 => ExpectedVersion::Empty, _ => ExpectedVersion::Exact(x) };
        let c = match r.below(8) { 0 => CurrentVersion::Empty, 1 | 2 => CurrentVersion::Current(rnd_u64(&mut r)), _ => CurrentVersion::Current(near(&mut r, x)) };
        emit(out, format!("sat {} {}", e_tok(e), c_tok(c)));
        emit(out, format!("gap {} {}", e_tok(e), c_tok(c)));
    }
    // next-version conversions, next, as_expected, add
    let mut vals = b.clone();
    for _ in 0..nrand / 4 { vals.push(rnd_u64(&mut r)); }
    for &v in &vals {
        emit(out, format!("fromnext {}", fmt_u64(v)));
        emit(out, format!("intonext {}", fmt_u64(v)));
        emit(out, format!("cnext {}", fmt_u64(v)));
        emit(out, format!("asexp {}", fmt_u64(v)));
        emit(out, format!("dispe {}", fmt_u64(v)));
        emit(out, format!("dispc {}", fmt_u64(v)));
        emit(out, format!("rnext {}", fmt_u64(v)));
        emit(out, format!("rinto {}", fmt_u64(v)));
        emit(out, format!("rte {}", fmt_u64(v)));
        emit(out, format!("rtc {}", fmt_u64(v)));
        let k = match r.below(4) { 0 => 0, 1 => 1, 2 => MAX - v, _ => near(&mut r, MAX - v) };
        emit(out, format!("cadd {} {}", fmt_u64(v), fmt_u64(k)));
        emit(out, format!("cadd empty {}", fmt_u64(v)));
    }
    for s in ["any", "exists", "empty"] { for k in ["intonext", "dispe", "rinto", "rte"] { emit(out, format!("{k} {s}")); } }
    for k in ["cnext", "asexp", "dispc", "rtc"] { emit(out, format!("{k} empty")); }
    // strings: canonical ones and mutations of them
    let mut strs: Vec<Vec<u8>> = Vec::new();
    for s in ["", "+", "-", "any", "exists", "empty", "Any", "ANY", "Empty", "exist", "emptyy", " any", "0", "00", "+0", "-0", "+5", "007", "+007",
              "18446744073709551615", "18446744073709551616", "18446744073709551614", "+18446744073709551615", "00018446744073709551615",
              "184467440737095516150", "99999999999999999999", "100000000000000000000", "1844674407370955161", "0x10", "1_000", "1e3", "1.0",
              "12a", "a12", "999999999999999999999999x", "x999999999999999999999999", "+-1", "-+1", " 1", "1 ", "1\n", "\u{0661}", "\u{ff15}"] {
        strs.push(s.as_bytes().to_vec());
    }
    for &v in &vals { strs.push(fmt_u64(v).into_bytes()); }
    let n = strs.len();
    for _ in 0..(if thorough { 40000 } else { 4000 }) {
        let base = String::from_utf8(strs[r.below(n as u64) as usize].clone()).unwrap();
        let m = mutate_string(&mut r, &base);
        if String::from_utf8(m.clone()).is_ok() { strs.push(m); }
    }
    for s in &strs {
        emit(out, format!("parsee {}", hex(s)));
        emit(out, format!("parsec {}", hex(s)));
        emit(out, format!("rse {}", hex(s)));
        emit(out, format!("rsc {}", hex(s)));
    }
}
