mod exec;
mod hgen;
mod hist;
use common::Rng;

fn run_hist(rt: &tokio::runtime::Runtime, h: hist::Hist, out: &mut common::Out) {
    let mut w = exec::World::new(h);
    let obs = rt.block_on(w.run());
    if std::env::var("SV_KEEP").is_ok() { eprintln!("kept {:?}", w.keep()); }
    out.case(&w.h.show(), &obs.join(" ; "));
    out.flush();
}

fn main() {
    if std::env::var("SV_PANICS").is_err() { common::silence_panics(); }
    if std::env::var("SV_TRACE").is_ok() { tracing_subscriber::fmt().with_env_filter(tracing_subscriber::EnvFilter::new(std::env::var("SV_TRACE").unwrap())).with_writer(std::io::stderr).init(); }
    let a = common::args();
    let mut out = common::Out::new();
    let rt = tokio::runtime::Builder::new_multi_thread().worker_threads(2).enable_all().build().unwrap();
    if a.tier == "cases" {
        for line in std::fs::read_to_string(&a.rest[0]).unwrap().lines() {
            if let Some(h) = hist::Hist::parse(line) { run_hist(&rt, h, &mut out); }
        }
        return;
    }
    let thorough = a.tier == "thorough";
    let n: usize = std::env::var("SV_HISTORIES").ok().and_then(|x| x.parse().ok())
        .or_else(|| std::env::var(if thorough { "SV_HISTORIES_THOROUGH" } else { "SV_HISTORIES_QUICK" }).ok().and_then(|x| x.parse().ok()))
        .unwrap_or(if thorough { 600 } else { 150 });
    let mut rng = Rng::new(a.seed ^ (a.prop.bytes().fold(0u64, |x, b| x * 131 + b as u64)));
    for _ in 0..n {
        let mut r = rng.fork();
        let h = hgen::Gen::new(&mut r, &a.prop).history(thorough);
        run_hist(&rt, h, &mut out);
    }
}
