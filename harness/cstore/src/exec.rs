//! Executes a history against the REAL sierradb::Database and renders canonical observations.
use std::collections::HashMap;
use std::path::{Path, PathBuf};
use std::time::Duration;

use sierradb::bucket::segment::{CommittedEvents, EventRecord};
use sierradb::database::{Database, DatabaseBuilder, ExpectedVersion, NewEvent, Transaction};
use sierradb::error::{EventValidationError, WriteError};
use sierradb::id::uuid_to_partition_hash;
use sierradb::{IterDirection, StreamId};
use smallvec::SmallVec;
use uuid::Uuid;

use crate::hist::{Hist, Op, Xv};

/// The LD_PRELOAD interposer (harness/svio), when loaded: bytes of [a,b) of `path` written but not yet covered by a sync.
fn svio_dirty_in(path: &Path, a: u64, b: u64) -> Option<i64> {
    use std::ffi::CString;
    unsafe {
        let sym = libc::dlsym(libc::RTLD_DEFAULT, c"svio_dirty_in".as_ptr());
        if sym.is_null() { return None; }
        let f: extern "C" fn(*const libc::c_char, i64, i64) -> i64 = std::mem::transmute(sym);
        let p = CString::new(std::fs::canonicalize(path).ok()?.to_string_lossy().as_bytes()).ok()?;
        Some(f(p.as_ptr(), a as i64, b as i64))
    }
}

pub fn key_uuid(k: usize) -> Uuid {
    let hash = 100 + k as u128;
    Uuid::from_u128((0x0190u128 << 112) | (0x7u128 << 76) | (0x2u128 << 62) | (hash << 46) | (k as u128 + 1))
}
pub fn event_uuid(eid: u64, k: usize) -> Uuid {
    let hash = uuid_to_partition_hash(key_uuid(k)) as u128;
    Uuid::from_u128((0x0191u128 << 112) | (0x7u128 << 76) | (0x2u128 << 62) | (hash << 46) | (1u128 << 40) | eid as u128)
}
pub fn stream_name(sid: u64) -> String { format!("stream-{sid}") }
fn payload(eid: u64, len: usize, rnd: bool) -> Vec<u8> {
    if rnd {
        let mut r = common::Rng::new(eid ^ 0xABCD);
        (0..len).map(|_| r.next() as u8).collect()
    } else {
        (0..len).map(|i| b'a' + ((i / 7) % 3) as u8).collect()
    }
}
fn xv(x: Xv) -> ExpectedVersion {
    match x { Xv::Any => ExpectedVersion::Any, Xv::Exists => ExpectedVersion::Exists, Xv::Empty => ExpectedVersion::Empty, Xv::Exact(v) => ExpectedVersion::Exact(v) }
}
fn show_xv(x: ExpectedVersion) -> String {
    match x { ExpectedVersion::Any => "a".into(), ExpectedVersion::Exists => "e".into(), ExpectedVersion::Empty => "n".into(), ExpectedVersion::Exact(v) => format!("x{v}") }
}

struct Stored { k: usize, sid: u64, len: usize, rnd: bool, ts: u64, tx: Uuid }

pub struct World {
    pub h: Hist,
    root: tempfile::TempDir,
    gen_: u32,
    db: Option<Database>,
    stored: HashMap<u64, Stored>,
    by_uuid: HashMap<Uuid, u64>,
    stream_by_name: HashMap<String, u64>,
    last_append: Option<(u16, Vec<u64>, bool)>, // bucket, event offsets, has commit
    fill_eid: u64,
    fill_target_done: bool,
    pub sync_ms: u64,
    pub max_append_ms: u128,
}

const GOOD_TS: u64 = 1_700_000_000_000_000_000;

impl World {
    pub fn new(h: Hist) -> World {
        let root = tempfile::Builder::new().prefix("sv-store-").tempdir().unwrap();
        World { h, root, gen_: 0, db: None, stored: HashMap::new(), by_uuid: HashMap::new(), stream_by_name: HashMap::new(), last_append: None, fill_eid: 1_000_000, fill_target_done: false, sync_ms: std::env::var("SV_SYNC_MS").ok().and_then(|x| x.parse().ok()).unwrap_or(2), max_append_ms: 0 }
    }
    pub fn keep(&mut self) -> PathBuf { let p = self.root.path().to_path_buf(); let t = std::mem::replace(&mut self.root, tempfile::tempdir().unwrap()); let _ = t.keep(); p }
    fn dir(&self) -> PathBuf { self.root.path().join(format!("db{}", self.gen_)) }

    fn open(&mut self) -> Result<(), String> {
        let mut b = DatabaseBuilder::new();
        b.segment_size_bytes(self.h.seg)
            .total_buckets(self.h.buckets)
            .bucket_ids_from_range(0..self.h.buckets)
            .reader_threads(2)
            .writer_threads(self.h.buckets)
            .sync_interval(Duration::from_millis(self.sync_ms))
            .sync_idle_interval(Duration::from_millis(self.sync_ms * 2))
            .cache_capacity_bytes(4 * 1024 * 1024)
            .compression(self.h.comp);
        if std::env::var("SV_SYNC_MS").is_ok() {
            // timer-driven syncs only: an acknowledgement then has to wait for the syncer thread,
            // which makes "acknowledged before the sync" observable
            b.min_sync_bytes(usize::MAX / 2).max_batch_size(1_000_000);
        }
        match common::catch(|| b.open(self.dir())) {
            Some(Ok(db)) => { self.db = Some(db); Ok(()) }
            Some(Err(e)) => Err(format!("{e}")),
            None => Err("PANIC".into()),
        }
    }

    async fn close(&mut self) {
        if let Some(db) = self.db.take() {
            db.shutdown().await;
            drop(db);
        }
        // background index flushes of sealed segments: wait until every sealed segment has its three index files
        let dir = self.dir();
        for _ in 0..400 {
            if sealed_indexes_complete(&dir) { break; }
            tokio::time::sleep(Duration::from_millis(10)).await;
        }
        tokio::time::sleep(Duration::from_millis(20)).await;
    }

    fn seg_count(&self, bucket: u16) -> usize {
        let d = self.dir().join("buckets").join(format!("{bucket:05}")).join("segments");
        std::fs::read_dir(d).map(|r| r.filter(|e| e.as_ref().map(|e| e.path().join("data.evts").exists()).unwrap_or(false)).count()).unwrap_or(0)
    }

    fn render_event(&self, e: &EventRecord, tx: Option<&Uuid>) -> String {
        let Some(&eid) = self.by_uuid.get(&e.event_id) else { return format!("e?{}", e.event_id); };
        let st = &self.stored[&eid];
        let mut bad = String::new();
        if e.partition_key != key_uuid(st.k) { bad.push_str("!pk"); }
        if e.partition_id != self.h.keys[st.k] { bad.push_str("!pid"); }
        if e.stream_id.as_ref() != stream_name(st.sid) { bad.push_str("!sid"); }
        if e.timestamp != st.ts { bad.push_str("!ts"); }
        if e.event_name != format!("Ev{}", eid % 3) { bad.push_str("!name"); }
        if e.metadata != format!("m{eid}").into_bytes() { bad.push_str("!meta"); }
        if e.payload != payload(eid, st.len, st.rnd) { bad.push_str("!payload"); }
        if e.transaction_id != st.tx { bad.push_str("!tx"); }
        if let Some(t) = tx { if *t != e.transaction_id { bad.push_str("!gtx"); } }
        format!("e{}:q{}:v{}{}", eid, e.partition_sequence, e.stream_version, bad)
    }
    fn render_group(&self, c: &CommittedEvents) -> String {
        match c {
            CommittedEvents::Single(e) => format!("g({})", self.render_event(e, None)),
            CommittedEvents::Transaction { events, commit } => {
                let v: Vec<String> = events.iter().map(|e| self.render_event(e, Some(&commit.transaction_id))).collect();
                format!("g({})", v.join(","))
            }
        }
    }

    pub async fn run(&mut self) -> Vec<String> {
        let mut out = Vec::new();
        if let Err(e) = self.open() { return vec![format!("open-err:{e}")]; }
        let mut i = 0usize;
        while i < self.h.ops.len() {
            if let Op::FillWindow { k, delta, len } = self.h.ops[i].clone() {
                // expand into plain appends (the case line is rewritten accordingly)
                let mut pos = i;
                self.h.ops.remove(i);
                let mut guard = 0;
                loop {
                    guard += 1;
                    let next = self.plan_fill(k, delta, len);
                    let (op, last) = match next { Some(x) if guard < 2000 => x, _ => break };
                    self.h.ops.insert(pos, op.clone());
                    let r = self.step_caught(pos, &op).await;
                    out.push(r);
                    pos += 1;
                    if last || self.db.is_none() { break; }
                }
                i = pos;
                continue;
            }
            let op = self.h.ops[i].clone();
            let op = &op;
            let r = {
                use futures::FutureExt;
                match std::panic::AssertUnwindSafe(self.step(i, op)).catch_unwind().await {
                    Ok(r) => r,
                    Err(_) => "PANIC".to_string(),
                }
            };
            out.push(r);
            if self.db.is_none() { break; }
            i += 1;
        }
        self.close().await;
        out
    }

    async fn step_caught(&mut self, i: usize, op: &Op) -> String {
        use futures::FutureExt;
        match std::panic::AssertUnwindSafe(self.step(i, op)).catch_unwind().await {
            Ok(r) => r,
            Err(_) => "PANIC".to_string(),
        }
    }

    /// end offset of the last record in the live segment of `bucket`
    fn live_end(&self, bucket: u16) -> Option<usize> {
        let bytes = std::fs::read(self.live_path(bucket)?).ok()?;
        let mut o = sierradb::bucket::segment::SEGMENT_HEADER_SIZE;
        while o + 8 <= bytes.len() {
            let len = u32::from_le_bytes(bytes[o..o + 4].try_into().unwrap()) & 0x7FFF_FFFF;
            if len == 0 { break; }
            o += 8 + len as usize;
        }
        Some(o)
    }

    /// next append of a FillWindow expansion: (op, is_the_target_append)
    fn plan_fill(&mut self, k: usize, delta: i64, len: usize) -> Option<(Op, bool)> {
        use sierradb::bucket::segment::EVENT_HEADER_SIZE;
        let bucket = self.h.keys[k] % self.h.buckets;
        let sid = k as u64;
        let eid = self.fill_eid; // next id to use
        let base = |eid: u64| EVENT_HEADER_SIZE + stream_name(sid).len() + 3 + format!("m{eid}").len();
        let wo = self.live_end(bucket)? as i64;
        // the target event is appended with the id that follows all fillers; its metadata length is that of `eid`
        // as long as the number of digits does not change, which the 7-digit fill ids guarantee
        let target_est = (base(eid) + len) as i64;
        let want_wo = self.h.seg as i64 - target_est - delta;
        let need = want_wo - wo;
        if std::env::var("SV_DEBUG").is_ok() { eprintln!("plan_fill: wo={wo} want={want_wo} need={need} target_est={target_est}"); }
        let mk = |eid: u64, plen: usize, rnd: bool| Op::Append { k, xseq: Xv::Any, roll: false, big: false,
            evs: vec![crate::hist::Ev { eid, sid, xv: Xv::Any, len: plen, rnd, ts_ok: true }] };
        self.fill_eid += 1;
        let (tmin, tmax) = (base(eid) as i64, base(eid) as i64 + 18);
        if need <= 0 || need < tmin {
            // window reached (or unreachable): append the target
            return Some((mk(eid, len, true), true));
        }
        if need > 3000 {
            let plen = ((need - 2500).min(40_000) as usize).max(200);
            return Some((mk(eid, plen, true), false));
        }
        // tiny uncompressed records of exactly predictable size: base + payload, payload 0..18
        let kk = (need + tmax - 1) / tmax;
        let size = (need / kk).clamp(tmin, tmax);
        Some((mk(eid, (size - tmin) as usize, false), false))
    }

    async fn step(&mut self, i: usize, op: &Op) -> String {
        let db = self.db.clone().unwrap();
        match op {
            Op::Append { k, xseq, evs, .. } => {
                let pid = self.h.keys[*k];
                let bucket = pid % self.h.buckets;
                let mut news: SmallVec<[NewEvent; 4]> = SmallVec::new();
                for e in evs {
                    news.push(NewEvent {
                        event_id: event_uuid(e.eid, *k),
                        stream_id: StreamId::new(stream_name(e.sid)).unwrap(),
                        stream_version: xv(e.xv),
                        event_name: format!("Ev{}", e.eid % 3),
                        timestamp: if e.ts_ok { GOOD_TS + e.eid } else { (1u64 << 63) + e.eid },
                        metadata: format!("m{}", e.eid).into_bytes(),
                        payload: payload(e.eid, e.len, e.rnd),
                    });
                }
                let tx = match Transaction::new(key_uuid(*k), pid, news) {
                    Ok(t) => t.expected_partition_sequence(xv(*xseq)),
                    Err(e) => return format!("err newtx:{e}"),
                };
                let txid = tx.transaction_id();
                let before = self.seg_count(bucket);
                let t0 = std::time::Instant::now();
                let res = tokio::time::timeout(Duration::from_secs(20), db.append_events(tx)).await;
                self.max_append_ms = self.max_append_ms.max(t0.elapsed().as_millis());
                let after = self.seg_count(bucket);
                // oracle for the model: did the size-based checks reject / roll over?
                // (sizes as the code estimates them: uncompressed lengths, see C19)
                let est: usize = evs.iter().map(|e| sierradb::bucket::segment::EVENT_HEADER_SIZE + stream_name(e.sid).len() + format!("Ev{}", e.eid % 3).len() + format!("m{}", e.eid).len() + e.len).sum::<usize>()
                    + if evs.len() == 1 { 0 } else { sierradb::bucket::segment::COMMIT_SIZE };
                let too_big = est + sierradb::bucket::segment::SEGMENT_HEADER_SIZE > self.h.seg;
                if let Op::Append { roll, big, .. } = &mut self.h.ops[i] { *roll = after > before; *big = too_big; }
                match res {
                    Err(_) => { self.last_append = None; "TIMEOUT".into() }
                    Ok(Ok(ar)) => {
                        for e in evs {
                            self.stored.insert(e.eid, Stored { k: *k, sid: e.sid, len: e.len, rnd: e.rnd, ts: GOOD_TS + e.eid, tx: txid });
                            self.by_uuid.insert(event_uuid(e.eid, *k), e.eid);
                            self.stream_by_name.insert(stream_name(e.sid), e.sid);
                        }
                        self.last_append = Some((bucket, ar.offsets.to_vec(), evs.len() > 1));
                        let durable = self.durable_at_ack(bucket, &ar.offsets, evs.len() + (evs.len() > 1) as usize);
                        let mut sv: Vec<(u64, u64)> = ar.stream_versions.iter().map(|(s, v)| (self.stream_by_name[&s.to_string()], *v)).collect();
                        sv.sort();
                        format!("ok {} {} {}{}", ar.first_partition_sequence, ar.last_partition_sequence,
                            sv.iter().map(|(s, v)| format!("s{s}={v}")).collect::<Vec<_>>().join(","), durable)
                    }
                    Ok(Err(e)) => { self.last_append = None; format!("err {}", self.render_werr(&e)) }
                }
            }
            Op::ReadEvent { eid, pid } => {
                let id = self.uuid_of(*eid);
                match db.read_event(*pid, id).await {
                    Ok(Some(e)) => self.render_event(&e, None),
                    Ok(None) => "none".into(),
                    Err(e) => format!("err {}", short(&e.to_string())),
                }
            }
            Op::ReadTxn { eid, pid } => {
                let id = self.uuid_of(*eid);
                match db.read_transaction(*pid, id).await {
                    Ok(Some(c)) => self.render_group(&c),
                    Ok(None) => "none".into(),
                    Err(e) => format!("err {}", short(&e.to_string())),
                }
            }
            Op::ScanS { sid, pid, from, rev, batch } => {
                let dir = if *rev { IterDirection::Reverse } else { IterDirection::Forward };
                let mut it = match db.read_stream(*pid, StreamId::new(stream_name(*sid)).unwrap(), *from, dir).await {
                    Ok(it) => it, Err(e) => return format!("err {}", short(&e.to_string())) };
                let mut groups = Vec::new();
                for _ in 0..100000 {
                    match it.next_batch(*batch).await {
                        Ok(Some(b)) => for c in &b { groups.push(self.render_group(c)); },
                        Ok(None) => break,
                        Err(e) => { groups.push(format!("err {}", short(&e.to_string()))); break; }
                    }
                }
                groups.join(" ")
            }
            Op::ScanP { pid, from, rev, batch } => {
                let dir = if *rev { IterDirection::Reverse } else { IterDirection::Forward };
                let mut it = match db.read_partition(*pid, *from, dir).await {
                    Ok(it) => it, Err(e) => return format!("err {}", short(&e.to_string())) };
                let mut groups = Vec::new();
                for _ in 0..100000 {
                    match it.next_batch(*batch).await {
                        Ok(Some(b)) => for c in &b { groups.push(self.render_group(c)); },
                        Ok(None) => break,
                        Err(e) => { groups.push(format!("err {}", short(&e.to_string()))); break; }
                    }
                }
                groups.join(" ")
            }
            Op::SVer { sid, pid } => {
                match db.get_stream_version(*pid, &StreamId::new(stream_name(*sid)).unwrap()).await {
                    Ok(Some(v)) => {
                        let k = (0..self.h.keys.len()).find(|k| key_uuid(*k) == v.partition_key).map(|k| k.to_string()).unwrap_or("?".into());
                        format!("k{}:v{}", k, v.version)
                    }
                    Ok(None) => "none".into(),
                    Err(e) => format!("err {}", short(&e.to_string())),
                }
            }
            Op::PSeq { pid } => {
                match db.get_partition_sequence(*pid).await {
                    Ok(Some(v)) => format!("q{}", v.sequence),
                    Ok(None) => "none".into(),
                    Err(e) => format!("err {}", short(&e.to_string())),
                }
            }
            Op::Reopen => {
                drop(db);
                self.close().await;
                self.last_append = None;
                match self.open() { Ok(()) => "ok".into(), Err(e) => format!("err {e}") }
            }
            Op::FillWindow { .. } => "skip".into(),
            Op::SweepAbsent { lo, hi, streams } => {
                let mut found = Vec::new();
                for id in *lo..*hi {
                    if *streams {
                        if self.stream_by_name.contains_key(&stream_name(id)) { continue; }
                        // one scan per bucket (the partition id only selects the bucket)
                        for b in 0..self.h.buckets {
                            let Ok(mut it) = db.read_stream(b, StreamId::new(stream_name(id)).unwrap(), 0, IterDirection::Forward).await else { found.push(format!("s{id}:err")); continue; };
                            match it.next_batch(50).await {
                                Ok(Some(bt)) if !bt.is_empty() => found.push(format!("s{id}:{}", bt.iter().map(|c| self.render_group(c)).collect::<Vec<_>>().join(" "))),
                                Ok(_) => {}
                                Err(e) => found.push(format!("s{id}:err {}", short(&e.to_string()))),
                            }
                        }
                    } else {
                        let pid = id as u16;
                        if self.h.keys.contains(&pid) { continue; }
                        let Ok(mut it) = db.read_partition(pid, 0, IterDirection::Forward).await else { found.push(format!("p{pid}:err")); continue; };
                        match it.next_batch(50).await {
                            Ok(Some(bt)) if !bt.is_empty() => found.push(format!("p{pid}:{}", bt.iter().map(|c| self.render_group(c)).collect::<Vec<_>>().join(" "))),
                            Ok(_) => {}
                            Err(e) => found.push(format!("p{pid}:err {}", short(&e.to_string()))),
                        }
                        if let Ok(Some(q)) = db.get_partition_sequence(pid).await { found.push(format!("p{pid}:seq{}", q.sequence)); }
                    }
                }
                found.join(" ")
            }
            Op::Crash { keep, extra } => {
                drop(db);
                let Some((bucket, offsets, has_commit)) = self.last_append.take() else {
                    // not applicable: behaves as a plain reopen (the case line is rewritten)
                    self.h.ops[i] = Op::Reopen;
                    self.close().await;
                    return match self.open() { Ok(()) => "ok".into(), Err(e) => format!("err {e}") };
                };
                self.close().await;
                let nrec = offsets.len() + has_commit as usize;
                let keep = (*keep).min(nrec);
                if let Op::Crash { keep: kk, .. } = &mut self.h.ops[i] { *kk = keep; }
                if let Err(e) = self.tear(bucket, &offsets, nrec, keep, *extra) { return format!("harness-err {e}"); }
                // events of the torn transaction that did not survive are forgotten by the harness
                match self.open() { Ok(()) => "ok".into(), Err(e) => format!("err {e}") }
            }
        }
    }

    fn live_path(&self, bucket: u16) -> Option<PathBuf> {
        let segs = self.dir().join("buckets").join(format!("{bucket:05}")).join("segments");
        let mut ids: Vec<u32> = std::fs::read_dir(&segs).ok()?
            .filter_map(|e| e.ok()).filter(|e| e.path().join("data.evts").exists())
            .filter_map(|e| e.file_name().to_string_lossy().parse().ok()).collect();
        ids.sort();
        Some(segs.join(format!("{:010}", ids.last()?)).join("data.evts"))
    }

    /// At acknowledgement time: were all bytes of the transaction written and covered by an fdatasync?
    /// (observed through the LD_PRELOAD interposer, independent of the Rust source). "" = yes / not observable.
    fn durable_at_ack(&self, bucket: u16, offsets: &[u64], nrec: usize) -> String {
        let Some(path) = self.live_path(bucket) else { return String::new(); };
        let Ok(bytes) = std::fs::read(&path) else { return String::new(); };
        let mut o = offsets[0] as usize;
        for _ in 0..nrec {
            if o + 4 > bytes.len() { return " !unwritten".into(); }
            let len = u32::from_le_bytes(bytes[o..o + 4].try_into().unwrap()) & 0x7FFF_FFFF;
            if len == 0 { return " !unwritten".into(); }
            o += 8 + len as usize;
        }
        match svio_dirty_in(&path, offsets[0], o as u64) {
            // -1: the interposer does not know the file (table full / not loaded): not observable, no verdict
            Some(0) | Some(-1) | None => String::new(),
            Some(n) => {
                // diagnostic for rare unreproducible observations: is the range still dirty well after the next sync is due?
                if std::env::var("SV_DIAG").is_ok() {
                    std::thread::sleep(std::time::Duration::from_millis(300));
                    let later = svio_dirty_in(&path, offsets[0], o as u64);
                    eprintln!("SV_DIAG unsynced={n} later={later:?} path={path:?} range={}..{}", offsets[0], o);
                }
                format!(" !unsynced={n}")
            }
        }
    }

    fn tear(&mut self, bucket: u16, offsets: &[u64], nrec: usize, keep: usize, extra: usize) -> Result<(), String> {
        let segs = self.dir().join("buckets").join(format!("{bucket:05}")).join("segments");
        let mut ids: Vec<u32> = std::fs::read_dir(&segs).map_err(|e| e.to_string())?
            .filter_map(|e| e.ok()).filter(|e| e.path().join("data.evts").exists())
            .filter_map(|e| e.file_name().to_string_lossy().parse().ok()).collect();
        ids.sort();
        let path = segs.join(format!("{:010}", ids.last().ok_or("no segment")?)).join("data.evts");
        let mut bytes = std::fs::read(&path).map_err(|e| e.to_string())?;
        // record boundaries of the transaction
        let mut b = vec![offsets[0] as usize];
        for _ in 0..nrec {
            let o = *b.last().unwrap();
            let len = u32::from_le_bytes(bytes[o..o + 4].try_into().unwrap()) & 0x7FFF_FFFF;
            b.push(o + 8 + len as usize);
        }
        for (i, o) in offsets.iter().enumerate() { if b[i] != *o as usize { return Err(format!("boundary mismatch {:?} vs {:?}", b, offsets)); } }
        if keep < nrec {
            // the cut must destroy the record: it has to zero at least one non-zero byte of it
            let last_nonzero = (b[keep]..b[keep + 1]).rev().find(|i| bytes[*i] != 0).unwrap_or(b[keep]);
            let cut = (b[keep] + extra.min(b[keep + 1] - b[keep] - 1)).min(last_nonzero);
            for x in &mut bytes[cut..b[nrec]] { *x = 0; }
            std::fs::write(&path, &bytes).map_err(|e| e.to_string())?;
        }
        Ok(())
    }

    fn uuid_of(&self, eid: u64) -> Uuid {
        match self.stored.get(&eid) { Some(s) => event_uuid(eid, s.k), None => event_uuid(eid, 0) }
    }

    fn render_werr(&self, e: &WriteError) -> String {
        match e {
            WriteError::WrongExpectedVersion { stream_id, current, expected, .. } => {
                let sid = stream_id.to_string().trim_start_matches("stream-").to_string();
                format!("ver s{} cur={} exp={}", sid, show_cur(*current), show_xv(*expected))
            }
            WriteError::WrongExpectedSequence { current, expected, .. } => format!("seq cur={} exp={}", show_cur(*current), show_xv(*expected)),
            WriteError::Validation(EventValidationError::PartitionKeyMismatch { existing_partition_key, .. }) => {
                let k = (0..self.h.keys.len()).find(|k| key_uuid(*k) == *existing_partition_key).map(|k| k.to_string()).unwrap_or("?".into());
                format!("key existing=k{k}")
            }
            WriteError::BadSystemTime => "ts".into(),
            WriteError::EventsExceedSegmentSize => "big".into(),
            WriteError::Writer(seglog::write::WriteError::SegmentFull { .. }) => "full".into(),
            other => format!("other {}", short(&other.to_string())),
        }
    }
}

fn show_cur(c: sierradb::database::CurrentVersion) -> String {
    match c { sierradb::database::CurrentVersion::Empty => "none".into(), sierradb::database::CurrentVersion::Current(v) => v.to_string() }
}
fn short(s: &str) -> String { s.chars().map(|c| if c == ';' || c == '\t' || c == '\n' { ',' } else { c }).take(80).collect() }
fn sealed_indexes_complete(dir: &Path) -> bool {
    let Ok(buckets) = std::fs::read_dir(dir.join("buckets")) else { return true; };
    for b in buckets.flatten() {
        let segs = b.path().join("segments");
        let mut ids: Vec<(u32, PathBuf)> = std::fs::read_dir(&segs).map(|r| r.flatten()
            .filter_map(|e| e.file_name().to_string_lossy().parse::<u32>().ok().map(|i| (i, e.path()))).collect()).unwrap_or_default();
        ids.sort();
        ids.pop(); // live segment
        for (_, p) in ids {
            for f in ["index.eidx", "partition.pidx", "stream.sidx"] {
                if std::fs::metadata(p.join(f)).map(|m| m.len()).unwrap_or(0) == 0 { return false; }
            }
        }
    }
    true
}
#[allow(dead_code)]
fn walk(p: &Path, f: &mut dyn FnMut(&Path)) {
    if let Ok(rd) = std::fs::read_dir(p) { for e in rd.flatten() { let p = e.path(); if p.is_dir() { walk(&p, f); } else { f(&p); } } }
}
