//! History language shared by the generator, the executor and the model driver.
//! A case line is `st B=<buckets> seg=<bytes> comp=<0|1> K=<pid>,<pid>,.. ; <op> ; <op> ...`
use std::fmt::Write as _;

#[derive(Clone, Copy, Debug, PartialEq)]
pub enum Xv { Any, Exists, Empty, Exact(u64) }
impl Xv {
    pub fn show(&self) -> String {
        match self { Xv::Any => "a".into(), Xv::Exists => "e".into(), Xv::Empty => "n".into(), Xv::Exact(v) => format!("x{v}") }
    }
    pub fn parse(s: &str) -> Xv {
        match s { "a" => Xv::Any, "e" => Xv::Exists, "n" => Xv::Empty, _ => Xv::Exact(s[1..].parse().unwrap()) }
    }
}

#[derive(Clone, Debug)]
pub struct Ev { pub eid: u64, pub sid: u64, pub xv: Xv, pub len: usize, pub rnd: bool, pub ts_ok: bool }

#[derive(Clone, Debug)]
pub enum Op {
    /// append; `roll` is the observed rollover (oracle for the model), filled in by the executor
    Append { k: usize, xseq: Xv, evs: Vec<Ev>, roll: bool, big: bool },
    ReadEvent { eid: u64, pid: u16 },
    ReadTxn { eid: u64, pid: u16 },
    ScanS { sid: u64, pid: u16, from: u64, rev: bool, batch: usize },
    ScanP { pid: u16, from: u64, rev: bool, batch: usize },
    SVer { sid: u64, pid: u16 },
    PSeq { pid: u16 },
    Reopen,
    /// crash during the preceding (acknowledged) append: only its first `keep` records survive,
    /// plus `extra` bytes of the next record (a torn record)
    Crash { keep: usize, extra: usize },
    /// adaptive (expanded by the executor into plain appends): fill the live segment of key k's bucket so
    /// that the free space is `estimate(next single incompressible event of payload len) + delta`, then append it
    FillWindow { k: usize, delta: i64, len: usize },
    /// scan every partition id (streams=false) or stream id (streams=true) in lo..hi that was never written:
    /// all of them must be empty (absent keys in sealed indexes: MPHF / bloom lookups)
    SweepAbsent { lo: u64, hi: u64, streams: bool },
}

#[derive(Clone, Debug)]
pub struct Hist { pub buckets: u16, pub seg: usize, pub comp: bool, pub keys: Vec<u16>, pub ops: Vec<Op> }

impl Hist {
    pub fn show(&self) -> String {
        let mut s = format!("st B={} seg={} comp={} K={}", self.buckets, self.seg, self.comp as u8,
            self.keys.iter().map(|p| p.to_string()).collect::<Vec<_>>().join(","));
        for op in &self.ops {
            s.push_str(" ; ");
            match op {
                Op::Append { k, xseq, evs, roll, big } => {
                    let _ = write!(s, "A k={} x={} r={} z={} e=", k, xseq.show(), *roll as u8, *big as u8);
                    let v: Vec<String> = evs.iter().map(|e| format!("{}:{}:{}:{}:{}:{}", e.eid, e.sid, e.xv.show(), e.len, if e.rnd { "r" } else { "c" }, if e.ts_ok { "g" } else { "b" })).collect();
                    s.push_str(&v.join(","));
                }
                Op::ReadEvent { eid, pid } => { let _ = write!(s, "RE {eid} {pid}"); }
                Op::ReadTxn { eid, pid } => { let _ = write!(s, "RT {eid} {pid}"); }
                Op::ScanS { sid, pid, from, rev, batch } => { let _ = write!(s, "SS {sid} {pid} {from} {} {batch}", if *rev { "r" } else { "f" }); }
                Op::ScanP { pid, from, rev, batch } => { let _ = write!(s, "SP {pid} {from} {} {batch}", if *rev { "r" } else { "f" }); }
                Op::SVer { sid, pid } => { let _ = write!(s, "SV {sid} {pid}"); }
                Op::PSeq { pid } => { let _ = write!(s, "PS {pid}"); }
                Op::Reopen => s.push_str("RO"),
                Op::Crash { keep, extra } => { let _ = write!(s, "CR {keep} {extra}"); }
                Op::FillWindow { k, delta, len } => { let _ = write!(s, "FW {k} {delta} {len}"); }
                Op::SweepAbsent { lo, hi, streams } => { let _ = write!(s, "SX {lo} {hi} {}", if *streams { "s" } else { "p" }); }
            }
        }
        s
    }

    pub fn parse(line: &str) -> Option<Hist> {
        let mut parts = line.split(" ; ");
        let head: Vec<&str> = parts.next()?.split_whitespace().collect();
        if head.first() != Some(&"st") { return None; }
        let mut h = Hist { buckets: 1, seg: 131072, comp: false, keys: vec![], ops: vec![] };
        for t in &head[1..] {
            let (a, b) = t.split_once('=')?;
            match a {
                "B" => h.buckets = b.parse().ok()?,
                "seg" => h.seg = b.parse().ok()?,
                "comp" => h.comp = b == "1",
                "K" => h.keys = b.split(',').map(|x| x.parse().unwrap()).collect(),
                _ => {}
            }
        }
        for p in parts {
            let t: Vec<&str> = p.split_whitespace().collect();
            let op = match t[0] {
                "A" => {
                    let mut k = 0; let mut xseq = Xv::Any; let mut roll = false; let mut big = false; let mut evs = vec![];
                    for f in &t[1..] {
                        let (a, b) = f.split_once('=')?;
                        match a {
                            "k" => k = b.parse().ok()?,
                            "x" => xseq = Xv::parse(b),
                            "r" => roll = b == "1",
                            "z" => big = b == "1",
                            "e" => for e in b.split(',') {
                                let q: Vec<&str> = e.split(':').collect();
                                evs.push(Ev { eid: q[0].parse().ok()?, sid: q[1].parse().ok()?, xv: Xv::parse(q[2]), len: q[3].parse().ok()?, rnd: q[4] == "r", ts_ok: q[5] == "g" });
                            },
                            _ => {}
                        }
                    }
                    Op::Append { k, xseq, evs, roll, big }
                }
                "RE" => Op::ReadEvent { eid: t[1].parse().ok()?, pid: t[2].parse().ok()? },
                "RT" => Op::ReadTxn { eid: t[1].parse().ok()?, pid: t[2].parse().ok()? },
                "SS" => Op::ScanS { sid: t[1].parse().ok()?, pid: t[2].parse().ok()?, from: t[3].parse().ok()?, rev: t[4] == "r", batch: t[5].parse().ok()? },
                "SP" => Op::ScanP { pid: t[1].parse().ok()?, from: t[2].parse().ok()?, rev: t[3] == "r", batch: t[4].parse().ok()? },
                "SV" => Op::SVer { sid: t[1].parse().ok()?, pid: t[2].parse().ok()? },
                "PS" => Op::PSeq { pid: t[1].parse().ok()? },
                "RO" => Op::Reopen,
                "CR" => Op::Crash { keep: t[1].parse().ok()?, extra: t[2].parse().ok()? },
                "SX" => Op::SweepAbsent { lo: t[1].parse().ok()?, hi: t[2].parse().ok()?, streams: t[3] == "s" },
                "FW" => Op::FillWindow { k: t[1].parse().ok()?, delta: t[2].parse().ok()?, len: t[3].parse().ok()? },
                _ => return None,
            };
            h.ops.push(op);
        }
        Some(h)
    }
}
