//! History generators (every choice from the seed).
use std::collections::HashMap;
use common::Rng;
use crate::hist::{Ev, Hist, Op, Xv};

pub struct Gen<'a> { pub rng: &'a mut Rng, pub prop: &'a str, next_eid: u64,
    ver: HashMap<u64, u64>, // shadow: stream -> latest version (if all appends succeeded)
    seq: HashMap<u16, u64>, skey: HashMap<u64, usize>, all_eids: Vec<(u64, u16)> }

impl<'a> Gen<'a> {
    pub fn new(rng: &'a mut Rng, prop: &'a str) -> Self { Gen { rng, prop, next_eid: 0, ver: HashMap::new(), seq: HashMap::new(), skey: HashMap::new(), all_eids: vec![] } }

    fn xv_for(&mut self, cur: Option<u64>) -> Xv {
        let r = self.rng.below(100);
        match cur {
            None => match r { 0..=39 => Xv::Any, 40..=74 => Xv::Empty, 75..=84 => Xv::Exists, _ => Xv::Exact(self.rng.below(3)) },
            Some(v) => match r { 0..=34 => Xv::Any, 35..=69 => Xv::Exact(v), 70..=79 => Xv::Exists, 80..=87 => Xv::Empty,
                                 88..=93 => Xv::Exact(v + 1), _ => Xv::Exact(v.saturating_sub(1)) },
        }
    }

    fn append(&mut self, h: &Hist, big: bool, allow_bad: bool) -> Op {
        let nk = h.keys.len();
        let nev = match self.rng.below(10) { 0..=4 => 1, 5..=7 => 2, 8 => 3, _ => 4 } as usize;
        let k = self.rng.below(nk as u64) as usize;
        let pid = h.keys[k];
        let mut evs = Vec::new();
        let mut local: HashMap<u64, u64> = HashMap::new();
        for i in 0..nev {
            // streams 0..5; stream s normally belongs to key s % nk
            let sid = if self.rng.chance(9, 10) { let c: Vec<u64> = (0..6).filter(|s| (*s as usize) % nk == k).collect(); if c.is_empty() { 0 } else { *self.rng.pick(&c) } } else { self.rng.below(6) };
            let cur = local.get(&sid).copied().or_else(|| self.ver.get(&sid).copied());
            let xv = self.xv_for(cur);
            let len = if big { self.rng.range(18_000, 45_000) as usize } else { *self.rng.pick(&[0usize, 1, 10, 60, 127, 128, 129, 300, 2000]) };
            let ts_ok = !(allow_bad && self.rng.chance(1, 12) && (i > 0 || nev == 1 || self.rng.chance(1, 2)));
            let eid = self.next_eid; self.next_eid += 1;
            evs.push(Ev { eid, sid, xv, len, rnd: self.rng.chance(1, 2), ts_ok });
            local.insert(sid, cur.map(|v| v + 1).unwrap_or(0));
        }
        let cur_seq = self.seq.get(&pid).copied();
        let xseq = match self.rng.below(10) { 0..=6 => Xv::Any, 7 => match cur_seq { Some(s) => Xv::Exact(s), None => Xv::Empty }, 8 => Xv::Exists, _ => Xv::Exact(self.rng.below(4)) };
        // shadow update (optimistic)
        if evs.iter().all(|e| e.ts_ok) {
            for (s, v) in &local { self.ver.insert(*s, *v); self.skey.entry(*s).or_insert(k); }
            self.seq.insert(pid, cur_seq.map(|s| s + nev as u64).unwrap_or(nev as u64 - 1));
            for e in &evs { self.all_eids.push((e.eid, pid)); }
        }
        Op::Append { k, xseq, evs, roll: false, big: false }
    }

    fn read_ops(&mut self, h: &Hist, ops: &mut Vec<Op>, n: usize) {
        for _ in 0..n {
            let pid = *self.rng.pick(&h.keys);
            let sid = self.rng.below(6);
            let spid = self.skey.get(&sid).map(|k| h.keys[*k]).unwrap_or(pid);
            let maxv = self.ver.get(&sid).copied().unwrap_or(0);
            let maxq = self.seq.get(&pid).copied().unwrap_or(0);
            let batch = *self.rng.pick(&[1usize, 2, 3, 50]);
            let rev = self.rng.chance(2, 5);
            let fromv = match self.rng.below(8) { 0 => 0, 1 => maxv, 2 => maxv + 1, 3 => u64::MAX, 4 => maxv / 2, _ => self.rng.below(maxv + 2) };
            let fromq = match self.rng.below(8) { 0 => 0, 1 => maxq, 2 => maxq + 1, 3 => u64::MAX, 4 => maxq / 2, _ => self.rng.below(maxq + 2) };
            match self.rng.below(10) {
                0..=2 => ops.push(Op::ScanS { sid, pid: spid, from: fromv, rev, batch }),
                3..=5 => ops.push(Op::ScanP { pid, from: fromq, rev, batch }),
                6 => ops.push(Op::SVer { sid, pid: spid }),
                7 => ops.push(Op::PSeq { pid }),
                _ => if !self.all_eids.is_empty() {
                    let (eid, p) = *self.rng.pick(&self.all_eids.clone());
                    if self.rng.chance(1, 2) { ops.push(Op::ReadEvent { eid, pid: p }) } else { ops.push(Op::ReadTxn { eid, pid: p }) }
                },
            }
        }
    }

    /// Targeted scenario: fill the live segment, then a multi-event append whose first event forces the
    /// rollover and whose later event fails (bad timestamp) so the write is truncated in the NEW segment,
    /// then further appends, a reopen (or a crash) and reads of everything.
    fn scenario_rollover_fail(&mut self, thorough: bool) -> Hist {
        let buckets = *self.rng.pick(&[1u16, 2]);
        let base = self.rng.below(50) as u16;
        let keys = vec![base, base, base + 2];
        let mut h = Hist { buckets, seg: 131072, comp: self.rng.chance(1, 2), keys, ops: vec![] };
        let mut ops = Vec::new();
        let k = self.rng.below(2) as usize;
        let pid = h.keys[k];
        // some small appends, then one event larger than half a segment: the next such event must roll over
        let nsmall = self.rng.below(4);
        for _ in 0..nsmall { let a = self.append_on(&h, k, false, false); ops.push(a); }
        let mut fill = self.append_on(&h, k, true, false);
        if let Op::Append { evs, .. } = &mut fill { evs.truncate(1); evs[0].len = self.rng.range(66_000, 75_000) as usize; }
        ops.push(fill);
        // the failing append: big first event, bad timestamp later
        let mut a = self.append_on(&h, k, true, false);
        if let Op::Append { evs, .. } = &mut a {
            while evs.len() < 2 { let mut e = evs[0].clone(); e.eid = self.next_eid; self.next_eid += 1; e.xv = Xv::Any; evs.push(e); }
            let n = evs.len();
            evs[0].len = self.rng.range(66_000, 75_000) as usize;
            evs.truncate(3);
            let n = evs.len();
            for e in evs.iter_mut().skip(1) { e.len = self.rng.range(10, 3000) as usize; e.xv = Xv::Any; }
            let bad = self.rng.range(1, n as u64 - 1) as usize;
            evs[bad].ts_ok = false;
        }
        ops.push(a);
        let nmore = self.rng.range(1, 3);
        for _ in 0..nmore {
            let big = self.rng.chance(1, 3);
            let a = self.append_on(&h, k, big, false);
            ops.push(a);
            if self.rng.chance(1, 2) { ops.push(Op::ScanP { pid, from: 0, rev: self.rng.chance(1, 3), batch: *self.rng.pick(&[1usize, 3, 50]) }); }
        }
        match self.rng.below(3) { 0 => ops.push(Op::Reopen), 1 => ops.push(Op::Crash { keep: self.rng.below(4) as usize, extra: *self.rng.pick(&[0usize, 5, 60]) }), _ => {} }
        ops.push(Op::ScanP { pid, from: 0, rev: false, batch: 50 });
        ops.push(Op::ScanP { pid, from: u64::MAX, rev: true, batch: 2 });
        ops.push(Op::PSeq { pid });
        let n = if thorough { 8 } else { 5 };
        self.read_ops(&h, &mut ops, n);
        let a = self.append_on(&h, k, false, false); ops.push(a);
        ops.push(Op::ScanP { pid, from: 0, rev: false, batch: 3 });
        h.ops = ops;
        h
    }

    fn append_on(&mut self, h: &Hist, k: usize, big: bool, allow_bad: bool) -> Op {
        let mut a = self.append(h, big, allow_bad);
        if let Op::Append { k: kk, evs, .. } = &mut a {
            *kk = k;
            let nk = h.keys.len() as u64;
            // keep the streams on this key so that the appends are mostly accepted
            for e in evs.iter_mut() { e.sid = (e.sid / nk) * nk % 6 + k as u64; if e.sid >= 6 { e.sid = k as u64; } e.xv = Xv::Any; }
        }
        a
    }

    /// Targeted scenario: bring the live segment to within a few bytes of the size estimate of the next
    /// (incompressible) append, so that estimate <= free < stored size or free is just below/above the estimate,
    /// then read everything back (directly, and after a reopen or crash).
    fn scenario_fill_window(&mut self, thorough: bool) -> Hist {
        let buckets = *self.rng.pick(&[1u16, 2]);
        let base = self.rng.below(50) as u16;
        let keys = vec![base, base, base + 2];
        let mut h = Hist { buckets, seg: 131072, comp: self.rng.chance(4, 5), keys, ops: vec![] };
        let mut ops = Vec::new();
        let k = self.rng.below(2) as usize;
        let pid = h.keys[k];
        let nsmall = self.rng.below(3);
        for _ in 0..nsmall { let big = self.rng.chance(1, 3); let a = self.append_on(&h, k, big, false); ops.push(a); }
        let rounds = if thorough { 2 } else { 1 };
        for _ in 0..rounds {
            let delta = self.rng.range(0, 22) as i64 - 4;
            let len = *self.rng.pick(&[150usize, 200, 1000, 5000, 30000]);
            ops.push(Op::FillWindow { k, delta, len });
            ops.push(Op::ScanP { pid, from: 0, rev: false, batch: 50 });
            ops.push(Op::PSeq { pid });
            let a = self.append_on(&h, k, false, false); ops.push(a);
        }
        match self.rng.below(3) { 0 => ops.push(Op::Reopen), 1 => ops.push(Op::Crash { keep: self.rng.below(3) as usize, extra: *self.rng.pick(&[0usize, 5, 60]) }), _ => {} }
        ops.push(Op::ScanP { pid, from: 0, rev: false, batch: 3 });
        ops.push(Op::ScanS { sid: k as u64, pid, from: 0, rev: self.rng.chance(1, 2), batch: 50 });
        ops.push(Op::SVer { sid: k as u64, pid });
        h.ops = ops;
        h
    }

    /// Targeted scenario: a stream (and its partition) spread over several SEALED segments and absent from the
    /// live one, then appends whose expectations depend on the stream's latest version (right, stale, Any),
    /// so that the writer's lookup through the sealed indexes (newest first) decides.
    fn scenario_multi_sealed(&mut self, thorough: bool) -> Hist {
        let buckets = *self.rng.pick(&[1u16, 2]);
        let base = self.rng.below(50) as u16;
        let keys = vec![base, base, base + buckets];     // key 2: another partition in the same bucket
        let mut h = Hist { buckets, seg: 131072, comp: self.rng.chance(1, 2), keys, ops: vec![] };
        let mut ops = Vec::new();
        let k = self.rng.below(2) as usize;
        let pid = h.keys[k];
        let sid = k as u64;                                // the watched stream (belongs to key k)
        let filler_key = 2usize;
        let mut ver: i64 = -1;
        let rounds = self.rng.range(2, if thorough { 4 } else { 3 });
        for _ in 0..rounds {
            // one or two small events of the watched stream ...
            for _ in 0..self.rng.range(1, 2) {
                let eid = self.next_eid; self.next_eid += 1;
                let xv = if ver < 0 { Xv::Empty } else if self.rng.chance(1, 2) { Xv::Exact(ver as u64) } else { Xv::Any };
                ops.push(Op::Append { k, xseq: Xv::Any, roll: false, big: false, evs: vec![Ev { eid, sid, xv, len: self.rng.range(10, 400) as usize, rnd: false, ts_ok: true }] });
                ver += 1;
            }
            // ... then fillers of another key until the segment rolls over (two events above half a segment)
            for _ in 0..2 {
                let eid = self.next_eid; self.next_eid += 1;
                ops.push(Op::Append { k: filler_key, xseq: Xv::Any, roll: false, big: false,
                    evs: vec![Ev { eid, sid: 2, xv: Xv::Any, len: self.rng.range(66_000, 72_000) as usize, rnd: true, ts_ok: true }] });
            }
        }
        // the stream is now in `rounds` sealed segments (or rounds-1 and the previous live one) and not in the live index
        if self.rng.chance(1, 3) { ops.push(Op::Reopen); }
        let mut mk = |g: &mut Self, xv: Xv| { let eid = g.next_eid; g.next_eid += 1;
            Op::Append { k, xseq: Xv::Any, roll: false, big: false, evs: vec![Ev { eid, sid, xv, len: 50, rnd: false, ts_ok: true }] } };
        match self.rng.below(4) {
            0 => { ops.push(mk(self, Xv::Exact(0))); ops.push(mk(self, Xv::Exact(ver as u64))); }          // stale, then right
            1 => { ops.push(mk(self, Xv::Exact(ver as u64))); ops.push(mk(self, Xv::Exact(ver as u64))); } // right, then stale
            2 => { ops.push(mk(self, Xv::Any)); ops.push(mk(self, Xv::Exact(ver as u64 + 1))); }
            _ => { ops.push(mk(self, Xv::Empty)); ops.push(mk(self, Xv::Exists)); }
        }
        ops.push(Op::SVer { sid, pid });
        ops.push(Op::PSeq { pid });
        ops.push(Op::ScanS { sid, pid, from: 0, rev: false, batch: 50 });
        ops.push(Op::ScanS { sid, pid, from: u64::MAX, rev: true, batch: 2 });
        ops.push(Op::ScanP { pid, from: 0, rev: false, batch: 3 });
        h.ops = ops;
        h
    }

    /// Targeted scenario: a crash tears a large multi-event transaction (some whole event records survive, the
    /// commit record does not), the database is reopened (the torn tail is discarded) and SMALL transactions are
    /// appended at once — they land inside the region the torn transaction occupied — then read, reopened, read.
    fn scenario_torn_then_append(&mut self, thorough: bool) -> Hist {
        let buckets = *self.rng.pick(&[1u16, 2]);
        let base = self.rng.below(50) as u16;
        let keys = vec![base, base, base + 2];
        let mut h = Hist { buckets, seg: 131072, comp: self.rng.chance(1, 2), keys, ops: vec![] };
        let mut ops = Vec::new();
        let k = self.rng.below(2) as usize;
        let pid = h.keys[k];
        for _ in 0..self.rng.below(3) { let a = self.append_on(&h, k, false, false); ops.push(a); }
        let rounds = if thorough { 2 } else { 1 };
        for _ in 0..rounds {
            let n = self.rng.range(2, 4) as usize;
            let evs: Vec<Ev> = (0..n).map(|_| { let eid = self.next_eid; self.next_eid += 1;
                Ev { eid, sid: k as u64, xv: Xv::Any, len: self.rng.range(1500, 9000) as usize, rnd: self.rng.chance(1, 2), ts_ok: true } }).collect();
            ops.push(Op::Append { k, xseq: Xv::Any, roll: false, big: false, evs });
            ops.push(Op::Crash { keep: self.rng.range(1, n as u64) as usize, extra: *self.rng.pick(&[0usize, 3, 9, 200]) });
            for _ in 0..self.rng.range(1, 3) {
                let eid = self.next_eid; self.next_eid += 1;
                ops.push(Op::Append { k, xseq: Xv::Any, roll: false, big: false, evs: vec![Ev { eid, sid: k as u64, xv: Xv::Any, len: self.rng.range(0, 300) as usize, rnd: false, ts_ok: true }] });
                ops.push(Op::ReadEvent { eid, pid });
            }
            ops.push(Op::ScanP { pid, from: 0, rev: false, batch: 50 });
            ops.push(Op::Reopen);
            ops.push(Op::ScanP { pid, from: 0, rev: false, batch: 3 });
            ops.push(Op::PSeq { pid });
        }
        h.ops = ops;
        h
    }

    pub fn history(&mut self, thorough: bool) -> Hist {
        if matches!(self.prop, "C05" | "C01" | "C04") && self.rng.chance(1, 6) { return self.scenario_torn_then_append(thorough); }
        if matches!(self.prop, "C02" | "C03" | "C01") && self.rng.chance(1, 6) { return self.scenario_multi_sealed(thorough); }
        if matches!(self.prop, "C01" | "C03" | "C04" | "C05") && self.rng.chance(1, 5) { return self.scenario_rollover_fail(thorough); }
        if matches!(self.prop, "C01" | "C02" | "C05") && self.rng.chance(1, 8) { return self.scenario_fill_window(thorough); }
        let buckets = *self.rng.pick(&[1u16, 2, 2]);
        let nk = self.rng.range(2, 4) as usize;
        // partition ids: first two keys share a partition, others differ (and may share the bucket)
        let base = self.rng.below(50) as u16;
        let keys: Vec<u16> = (0..nk).map(|i| match i { 0 | 1 => base, _ => base + i as u16 }).collect();
        let mut h = Hist { buckets, seg: 131072, comp: self.rng.chance(1, 2), keys, ops: vec![] };
        let mut ops = Vec::new();
        let nappend = if thorough { self.rng.range(8, 30) } else { self.rng.range(5, 16) } as usize;
        let rollover_heavy = matches!(self.prop, "C03" | "C01" | "C15" | "C06") && self.rng.chance(3, 5) || self.rng.chance(1, 4);
        let crashy = matches!(self.prop, "C05" | "C04" | "C06");
        let bad = matches!(self.prop, "C01" | "C04" | "C05" | "C02");
        for _ in 0..nappend {
            let big = rollover_heavy && self.rng.chance(3, 5);
            let a = self.append(&h, big, bad);
            let (evs_n, first_eid, pid) = if let Op::Append { evs, k, .. } = &a { (evs.len(), evs[0].eid, h.keys[*k]) } else { unreachable!() };
            ops.push(a);
            match self.prop {
                "C01" => {
                    // read right after the acknowledgement
                    ops.push(Op::ReadEvent { eid: first_eid + self.rng.below(evs_n as u64), pid });
                    if self.rng.chance(1, 2) { ops.push(Op::ScanP { pid, from: 0, rev: false, batch: 50 }); }
                    if self.rng.chance(1, 3) { self.read_ops(&h, &mut ops, 1); }
                }
                "C02" => { ops.push(Op::PSeq { pid }); let sid = self.rng.below(6); let sp = self.skey.get(&sid).map(|k| h.keys[*k]).unwrap_or(pid); ops.push(Op::SVer { sid, pid: sp }); }
                _ => if self.rng.chance(1, 3) { self.read_ops(&h, &mut ops, 1); },
            }
            if crashy && self.rng.chance(1, 4) {
                ops.push(Op::Crash { keep: self.rng.below(evs_n as u64 + 2) as usize, extra: *self.rng.pick(&[0usize, 1, 3, 7, 8, 9, 40, 100, 100000]) });
                // shadow may now be wrong about the torn transaction; reads below just observe
                self.read_ops(&h, &mut ops, 3);
            } else if self.rng.chance(1, 8) { ops.push(Op::Reopen); }
        }
        let nread = if thorough { 14 } else { 8 };
        self.read_ops(&h, &mut ops, nread);
        if self.rng.chance(1, 2) { ops.push(Op::Reopen); self.read_ops(&h, &mut ops, nread / 2); }
        if matches!(self.prop, "C03" | "C06") && rollover_heavy {
            // absent keys against the sealed segments' MPHF / bloom indexes (file mode after a reopen)
            if self.rng.chance(1, 2) { ops.push(Op::Reopen); }
            let lo = self.rng.below(1500);
            ops.push(Op::SweepAbsent { lo, hi: lo + if thorough { 500 } else { 250 }, streams: false });
            let lo = 10 + self.rng.below(1500);
            ops.push(Op::SweepAbsent { lo, hi: lo + if thorough { 300 } else { 120 }, streams: true });
        }
        h.ops = ops;
        h
    }
}
