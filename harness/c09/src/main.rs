//! C09: subscriptions deliver confirmed events in order, once, without gaps, within the window —
//! on the real ClusterActor (single node, rf = 1, in-process), driven by an explicit schedule.
//!
//! case line (space separated):  c09 <bg> <layout> <sub> <schedule>
//!   bg        0|1: a second (background, all-partitions, latest) subscriber exists from the start
//!   layout    initial on-disk state, 4 partitions separated by '|': '-' or ','-separated transactions
//!             `<bits>:<streams>[*N]`, streams = local stream digits 0..3 (global stream = 4*p + d),
//!             bits = '1'/'0' per event (or one for all): on-disk confirmation count 1 / 0.
//!   sub       all/<F>/w<win> | part/<p>/<n|->/w<win> | parts/<p.p..>/<F>/w<win>
//!             | stream/<s>/<n|->/w<win> | streams/<s.s..>/<V>/w<win>
//!             F = L | A<n> | M<p>=<n>;..[;f=<n>]     V = L | A<n> | M<s>=<n>;..
//!   schedule  ','-separated steps (`*N` suffix repeats):
//!             a<p>:<streams>   append an unconfirmed transaction directly to the database
//!             c<p>[=W]         ConfirmTransaction for the first not fully confirmed transaction of p
//!             x<p>:<streams>[=W/b]  ExecuteTransaction (append + confirm + broadcast)
//!             S                subscribe
//!             k<c> | K         acknowledge cursor c | the last received cursor
//!             h[<key>:<n>] | h-   release the history pause point the subscription waits at (if any)
//!             H                release pause points until the subscription has left the history read
//!             F                release pause points and acknowledge everything received until the
//!                              subscription waits in the live receive with nothing left to do
//!   The harness prints the case with the oracle annotations filled in (observed watermark after
//!   c/x, number of events broadcast by x, key and size of every released history batch) followed
//!   by a TAB and the observation:
//!     <p>.<seq>.<s>.<ver>@<W>/<cursor>/<ack> ... ; end=<live|gate|window|dead|none> ; lag=<n,..> ; W=<w0.w1.w2.w3>
//! The subscription runs freely between steps; after every step the harness waits until it is
//! provably blocked (pause point, closed window, or live receive with every broadcast consumed —
//! decided from the hook log, not from timing).
use common::{Args, Out, Rng};
use kameo::actor::{ActorRef, Spawn};
use libp2p::identity::Keypair;
use sierradb::StreamId;
use sierradb::database::{Database, DatabaseBuilder, NewEvent, Transaction};
use sierradb::id::{uuid_to_partition_hash, uuid_v7_with_partition_hash};
use sierradb_cluster::read::GetPartitionSequence;
use sierradb_cluster::subscription::{FromSequences, FromVersions, Subscribe, SubscriptionEvent, SubscriptionMatcher, verif_hooks};
use sierradb_cluster::write::confirm::ConfirmTransaction;
use sierradb_cluster::write::execute::ExecuteTransaction;
use sierradb_cluster::{ClusterActor, ClusterArgs, ResetCluster};
use sierradb_protocol::ExpectedVersion;
use std::collections::{HashMap, HashSet};
use std::io::Write;
use std::sync::{Arc, Condvar, Mutex, OnceLock};
use std::time::{Duration, Instant};
use tokio::sync::{mpsc, watch};
use uuid::Uuid;

mod gen_cases;

const NP: u16 = 4;
const SPP: u64 = 4; // streams per partition

// ------------------------------------------------------------------ hook log
#[derive(Clone, Debug)]
struct Entry { name: &'static str, sub: Uuid, key: String, val: u64 }
#[derive(Default)]
struct Hooks { log: Vec<Entry>, released: HashMap<Uuid, usize>, free: HashSet<Uuid>, all_free: bool }
static HOOKS: OnceLock<(Mutex<Hooks>, Condvar)> = OnceLock::new();
fn hooks() -> &'static (Mutex<Hooks>, Condvar) { HOOKS.get_or_init(|| (Mutex::new(Hooks::default()), Condvar::new())) }

fn install_hooks() {
    verif_hooks::set_point(Some(Arc::new(|name, sub, key, val| {
        let (m, cv) = hooks();
        let mut g = m.lock().unwrap_or_else(|e| e.into_inner());
        g.log.push(Entry { name, sub, key: key.to_string(), val });
        if name == "sub.history.batch" {
            let my = g.log.iter().filter(|e| e.sub == sub && e.name == "sub.history.batch").count();
            let t0 = Instant::now();
            while !g.all_free && !g.free.contains(&sub) && g.released.get(&sub).copied().unwrap_or(0) < my {
                let (g2, _) = cv.wait_timeout(g, Duration::from_millis(200)).unwrap_or_else(|e| e.into_inner());
                g = g2;
                if t0.elapsed() > Duration::from_secs(600) { break; }
            }
        }
    })));
}

// ------------------------------------------------------------------ case parsing
#[derive(Clone, Debug)]
struct Tx { bits: Vec<bool>, streams: Vec<u8> }

fn split_rep(t: &str) -> (&str, usize) {
    match t.rsplit_once('*') { Some((a, n)) => (a, n.parse().unwrap_or(1)), None => (t, 1) }
}
fn parse_streams(s: &str) -> Option<Vec<u8>> {
    let v: Vec<u8> = s.bytes().map(|b| b.wrapping_sub(b'0')).collect();
    if v.is_empty() || v.iter().any(|&d| d as u64 >= SPP) { None } else { Some(v) }
}
fn parse_layout(s: &str) -> Option<Vec<Vec<Tx>>> {
    let parts: Vec<&str> = s.split('|').collect();
    if parts.len() != NP as usize { return None; }
    parts.iter().map(|p| {
        if *p == "-" { return Some(vec![]); }
        let mut v = Vec::new();
        for t in p.split(',') {
            let (t, n) = split_rep(t);
            let (b, st) = t.split_once(':')?;
            let streams = parse_streams(st)?;
            let mut bits: Vec<bool> = b.bytes().map(|c| c == b'1').collect();
            if b.bytes().any(|c| c != b'0' && c != b'1') || bits.is_empty() { return None; }
            if bits.len() == 1 { bits = vec![bits[0]; streams.len()]; }
            if bits.len() != streams.len() { return None; }
            for _ in 0..n { v.push(Tx { bits: bits.clone(), streams: streams.clone() }); }
        }
        Some(v)
    }).collect()
}

#[derive(Clone, Debug)]
enum Step { Append(u16, Vec<u8>), Confirm(u16), Exec(u16, Vec<u8>), Sub, Ack(Option<u64>), Gate, GateAll, Flush }

fn parse_sched(s: &str) -> Option<Vec<Step>> {
    let mut v = Vec::new();
    if s == "-" { return Some(v); }
    for t in s.split(',') {
        let (t, n) = split_rep(t);
        let t = t.split('=').next()?; // drop oracle annotation
        let st = match t.as_bytes().first()? {
            b'a' | b'x' => {
                let (p, st) = t[1..].split_once(':')?;
                let p: u16 = p.parse().ok()?; if p >= NP { return None; }
                let st = parse_streams(st)?;
                if t.starts_with('a') { Step::Append(p, st) } else { Step::Exec(p, st) }
            }
            b'c' => { let p: u16 = t[1..].parse().ok()?; if p >= NP { return None; } Step::Confirm(p) }
            b'S' if t == "S" => Step::Sub,
            b'K' if t == "K" => Step::Ack(None),
            b'k' => Step::Ack(Some(t[1..].parse().ok()?)),
            b'h' => Step::Gate,
            b'H' if t == "H" => Step::GateAll,
            b'F' if t == "F" => Step::Flush,
            _ => return None,
        };
        for _ in 0..n { v.push(st.clone()); }
    }
    Some(v)
}

fn key_for(p: u16) -> Uuid {
    // partition hash = bits 46..61 of the uuid
    Uuid::from_u128(((p as u128) << 46) | 0x0123_4567_89ab_0000_0000_0000_0000_0000u128 | 0x2a)
}
fn stream_name(p: u16, d: u8) -> StreamId { StreamId::new(format!("p{p}s{d}")).unwrap() }
fn stream_global(name: &str) -> Option<u64> {
    let r = name.strip_prefix('p')?; let (p, d) = r.split_once('s')?;
    Some(p.parse::<u64>().ok()? * SPP + d.parse::<u64>().ok()?)
}
fn gstream(s: u64) -> (u16, u8) { ((s / SPP) as u16, (s % SPP) as u8) }

fn parse_from_seq(f: &str) -> Option<FromSequences> {
    if f == "L" { return Some(FromSequences::Latest); }
    if let Some(n) = f.strip_prefix('A') { return Some(FromSequences::AllPartitions(n.parse().ok()?)); }
    let body = f.strip_prefix('M')?;
    let mut m = HashMap::new(); let mut fb = None;
    for kv in body.split(';').filter(|x| !x.is_empty()) {
        let (k, v) = kv.split_once('=')?;
        if k == "f" { fb = Some(v.parse().ok()?); } else { let p: u16 = k.parse().ok()?; if p >= NP { return None; } m.insert(p, v.parse().ok()?); }
    }
    Some(FromSequences::Partitions { from_sequences: m, fallback: fb })
}
fn parse_from_ver(f: &str) -> Option<FromVersions> {
    if f == "L" { return Some(FromVersions::Latest); }
    if let Some(n) = f.strip_prefix('A') { return Some(FromVersions::AllStreams(n.parse().ok()?)); }
    let body = f.strip_prefix('M')?;
    let mut m = HashMap::new();
    for kv in body.split(';').filter(|x| !x.is_empty()) {
        let (k, v) = kv.split_once('=')?;
        let s: u64 = k.parse().ok()?; if s >= NP as u64 * SPP { return None; }
        let (p, d) = gstream(s);
        m.insert((key_for(p), stream_name(p, d)), v.parse().ok()?);
    }
    Some(FromVersions::Streams(m))
}
fn parse_sub(s: &str) -> Option<(SubscriptionMatcher, u64)> {
    let t: Vec<&str> = s.split('/').collect();
    let w: u64 = t.last()?.strip_prefix('w')?.parse().ok()?;
    let optn = |x: &str| -> Option<Option<u64>> { if x == "-" { Some(None) } else { x.parse().ok().map(Some) } };
    let m = match (t[0], t.len()) {
        ("all", 3) => SubscriptionMatcher::AllPartitions { from_sequences: parse_from_seq(t[1])? },
        ("part", 4) => { let p: u16 = t[1].parse().ok()?; if p >= NP { return None; } SubscriptionMatcher::Partition { partition_id: p, from_sequence: optn(t[2])? } }
        ("parts", 4) => {
            let ps: HashSet<u16> = t[1].split('.').map(|x| x.parse().ok()).collect::<Option<_>>()?;
            if ps.iter().any(|&p| p >= NP) { return None; }
            SubscriptionMatcher::Partitions { partition_ids: ps, from_sequences: parse_from_seq(t[2])? }
        }
        ("stream", 4) => { let s: u64 = t[1].parse().ok()?; if s >= NP as u64 * SPP { return None; } let (p, d) = gstream(s);
            SubscriptionMatcher::Stream { partition_key: key_for(p), stream_id: stream_name(p, d), from_version: optn(t[2])? } }
        ("streams", 4) => {
            let ss: Vec<u64> = t[1].split('.').map(|x| x.parse().ok()).collect::<Option<_>>()?;
            if ss.iter().any(|&s| s >= NP as u64 * SPP) { return None; }
            SubscriptionMatcher::Streams { stream_ids: ss.iter().map(|&s| { let (p, d) = gstream(s); (key_for(p), stream_name(p, d)) }).collect(), from_versions: parse_from_ver(t[2])? }
        }
        _ => return None,
    };
    Some((m, w))
}

// ------------------------------------------------------------------ one scenario
struct TxInfo { txid: Uuid, ids: Vec<Uuid>, first: u64, n: usize }
#[derive(Default)]
struct Part { conf: Vec<bool>, txs: Vec<TxInfo> }
impl Part {
    fn wm(&self) -> u64 { self.conf.iter().take_while(|&&c| c).count() as u64 }
}

fn new_events(p: u16, streams: &[u8]) -> smallvec::SmallVec<[NewEvent; 4]> {
    let hash = uuid_to_partition_hash(key_for(p));
    streams.iter().map(|&d| NewEvent {
        event_id: uuid_v7_with_partition_hash(hash), stream_id: stream_name(p, d), stream_version: ExpectedVersion::Any,
        event_name: "e".into(), timestamp: 1, metadata: vec![], payload: vec![7; 3],
    }).collect()
}

async fn db_append(db: &Database, parts: &mut [Part], p: u16, t: &Tx) -> Result<(), String> {
    let evs = new_events(p, &t.streams);
    let ids: Vec<Uuid> = evs.iter().map(|e| e.event_id).collect();
    let c0 = t.bits[0] as u8;
    let tx = Transaction::new(key_for(p), p, evs).map_err(|e| format!("tx: {e}"))?.with_confirmation_count(c0);
    let txid = tx.transaction_id();
    let r = db.append_events(tx).await.map_err(|e| format!("append: {e}"))?;
    let pt = &mut parts[p as usize];
    if r.first_partition_sequence != pt.conf.len() as u64 { return Err(format!("partition {p}: got sequence {} wanted {}", r.first_partition_sequence, pt.conf.len())); }
    for (i, &b) in t.bits.iter().enumerate() {
        if (b as u8) != c0 {
            let off = *r.offsets.get(i).ok_or("offsets shorter than the transaction")?;
            db.set_confirmations(p, smallvec::smallvec![off], txid, b as u8).await.map_err(|e| format!("set_confirmations: {e}"))?;
        }
    }
    pt.txs.push(TxInfo { txid, ids, first: pt.conf.len() as u64, n: t.bits.len() });
    pt.conf.extend(t.bits.iter().copied());
    Ok(())
}

struct Delivery { pid: u16, seq: u64, sid: u64, ver: u64, w: u64, cursor: u64, ack: Option<u64> }

struct SubCtl {
    id: Uuid, window: u64, sub_idx: usize,
    rx: mpsc::UnboundedReceiver<SubscriptionEvent>, ack_tx: watch::Sender<Option<u64>>,
    last_ack: Option<u64>, got: Vec<Delivery>, dead: bool, note: Option<String>,
}

#[derive(PartialEq, Clone, Copy, Debug)]
enum Status { Running, Gate, Window, Live, Dead }

impl SubCtl {
    fn drain(&mut self, parts: &[Part]) {
        loop {
            match self.rx.try_recv() {
                Ok(SubscriptionEvent::Record { cursor, record, .. }) => {
                    let sid = stream_global(&record.stream_id.to_string()).unwrap_or(u64::MAX);
                    let w = parts.get(record.partition_id as usize).map(|p| p.wm()).unwrap_or(0);
                    self.got.push(Delivery { pid: record.partition_id, seq: record.partition_sequence, sid, ver: record.stream_version, w, cursor, ack: self.last_ack });
                }
                Ok(SubscriptionEvent::Error { error, .. }) => { self.note = Some(format!("error:{}", error.to_string().replace([' ', '\t', '\n'], "_"))); }
                Ok(SubscriptionEvent::Closed { .. }) => { self.note = Some("closed".into()); }
                Err(mpsc::error::TryRecvError::Empty) => break,
                Err(mpsc::error::TryRecvError::Disconnected) => { self.dead = true; break; }
            }
        }
    }
    fn status(&self) -> Status {
        if self.dead { return Status::Dead; }
        let (m, _) = hooks();
        let g = m.lock().unwrap_or_else(|e| e.into_inner());
        let mine = |e: &&Entry| e.sub == self.id;
        let Some(last) = g.log.iter().rev().find(mine) else { return Status::Running };
        match last.name {
            "sub.history.batch" => {
                let n = g.log.iter().filter(mine).filter(|e| e.name == "sub.history.batch").count();
                if g.released.get(&self.id).copied().unwrap_or(0) >= n { Status::Running } else { Status::Gate }
            }
            "sub.send.wait" => {
                let c = last.val;
                if self.got.len() as u64 > c { return Status::Running; }
                let gap = match self.last_ack { Some(a) => c.saturating_sub(a), None => c + 1 };
                if gap > self.window { Status::Window } else { Status::Running }
            }
            "sub.live.recv" => {
                let recvs = g.log.iter().filter(mine).filter(|e| e.name == "sub.live.recv").count() as u64;
                let lags: Vec<u64> = g.log.iter().filter(mine).filter(|e| e.name == "sub.live.lagged").map(|e| e.val).collect();
                let consumed = recvs - 1 - lags.len() as u64 + lags.iter().sum::<u64>();
                let sent: u64 = g.log[self.sub_idx..].iter().filter(|e| e.name == "conf.broadcast.done").map(|e| e.val).sum();
                if consumed >= sent { Status::Live } else { Status::Running }
            }
            _ => Status::Running,
        }
    }
    fn gate_entry(&self) -> Option<(String, u64)> {
        let (m, _) = hooks();
        let g = m.lock().unwrap_or_else(|e| e.into_inner());
        g.log.iter().rev().find(|e| e.sub == self.id).filter(|e| e.name == "sub.history.batch").map(|e| (e.key.clone(), e.val))
    }
    fn lags(&self) -> Vec<u64> {
        let (m, _) = hooks();
        let g = m.lock().unwrap_or_else(|e| e.into_inner());
        g.log.iter().filter(|e| e.sub == self.id && e.name == "sub.live.lagged").map(|e| e.val).collect()
    }
}

struct Scenario<'a> { cluster: &'a ActorRef<ClusterActor>, db: Database, parts: Vec<Part>, sub: Option<SubCtl>, err: Option<String>, nb: Vec<u64> }

impl Scenario<'_> {
    async fn settle(&mut self) -> Status {
        let t0 = Instant::now();
        let Some(sub) = self.sub.as_mut() else { return Status::Live };
        loop {
            sub.drain(&self.parts);
            let st = sub.status();
            if st != Status::Running { sub.drain(&self.parts); return st; }
            if t0.elapsed() > Duration::from_secs(90) { self.err.get_or_insert_with(|| "STUCK:subscription-made-no-progress-for-90s".into()); return Status::Running; }
            tokio::time::sleep(Duration::from_micros(800)).await;
        }
    }
    async fn poll_wm(&mut self, p: u16) -> u64 {
        let want = self.parts[p as usize].wm();
        let t0 = Instant::now();
        loop {
            let got = match self.cluster.ask(GetPartitionSequence { partition_id: p }).await { Ok(Some(s)) => s + 1, Ok(None) => 0, Err(e) => { self.err.get_or_insert(format!("ERR:GetPartitionSequence:{e}").replace([' ', '\t', '\n'], "_")); return 0; } };
            if got == want { return got; }
            if t0.elapsed() > Duration::from_secs(60) { self.err.get_or_insert(format!("WATERMARK:partition-{p}-is-{got}-expected-{want}")); return got; }
            tokio::time::sleep(Duration::from_micros(500)).await;
        }
    }
    fn log_len(&self) -> usize { hooks().0.lock().unwrap_or_else(|e| e.into_inner()).log.len() }
    async fn wait_conf_done(&mut self, from: usize, p: u16) -> u64 {
        let t0 = Instant::now();
        loop {
            {
                let g = hooks().0.lock().unwrap_or_else(|e| e.into_inner());
                if let Some(e) = g.log[from..].iter().find(|e| e.name == "conf.broadcast.done" && e.key == p.to_string()) { return e.val; }
            }
            if t0.elapsed() > Duration::from_secs(60) { self.err.get_or_insert("STUCK:no-conf.broadcast.done".into()); return 0; }
            tokio::time::sleep(Duration::from_micros(300)).await;
        }
    }
    /// executes one step, returns its annotated text
    async fn step(&mut self, st: &Step, matcher: &SubscriptionMatcher, window: u64) -> Vec<String> {
        let sl = |v: &[u8]| v.iter().map(|d| (b'0' + d) as char).collect::<String>();
        match st {
            Step::Append(..) | Step::Exec(..) if self.lazy_history(matcher) => vec![],
            // a broadcast of about the channel's capacity or more is only part of the modelled schedules while
            // the task cannot receive (pause point / closed window): otherwise how much it lags is a race
            Step::Exec(p, s) if self.sub.as_ref().is_some_and(|u| !matches!(u.status(), Status::Gate | Status::Window | Status::Dead))
                && self.parts[*p as usize].conf.len() as u64 + s.len() as u64 - self.nb[*p as usize] > 900 => vec![],
            Step::Append(p, s) => {
                if let Err(e) = db_append(&self.db.clone(), &mut self.parts, *p, &Tx { bits: vec![false; s.len()], streams: s.clone() }).await { self.err.get_or_insert(format!("ERR:{e}").replace([' ', '\t', '\n'], "_")); }
                self.settle().await;
                vec![format!("a{p}:{}", sl(s))]
            }
            Step::Confirm(p) => {
                let pt = &self.parts[*p as usize];
                let Some(ti) = pt.txs.iter().position(|t| pt.conf[t.first as usize..t.first as usize + t.n].iter().any(|c| !c)) else { return vec![format!("c{p}={}", pt.wm())] };
                let t = &pt.txs[ti];
                let msg = ConfirmTransaction { partition_id: *p, transaction_id: t.txid, event_ids: t.ids.iter().copied().collect(),
                    confirmation_versions: (t.first..t.first + t.n as u64).map(|s| s + 1).collect(), confirmation_count: 1 };
                let (f, n) = (t.first as usize, t.n);
                if let Err(e) = self.cluster.ask(msg).await { self.err.get_or_insert(format!("ERR:ConfirmTransaction:{e}").replace([' ', '\t', '\n'], "_")); }
                for c in &mut self.parts[*p as usize].conf[f..f + n] { *c = true; }
                let w = self.poll_wm(*p).await;
                self.settle().await;
                vec![format!("c{p}={w}")]
            }
            Step::Exec(p, s) => {
                let from = self.log_len();
                let tx = match Transaction::new(key_for(*p), *p, new_events(*p, s)) { Ok(t) => t, Err(e) => { self.err.get_or_insert(format!("ERR:tx:{e}")); return vec![]; } };
                match self.cluster.ask(ExecuteTransaction::new(tx)).await {
                    Ok(r) => {
                        let pt = &mut self.parts[*p as usize];
                        if r.first_partition_sequence != pt.conf.len() as u64 { self.err.get_or_insert(format!("ERR:exec-sequence-{}-expected-{}", r.first_partition_sequence, pt.conf.len())); }
                        pt.conf.extend(std::iter::repeat(true).take(s.len()));
                    }
                    Err(e) => { self.err.get_or_insert(format!("ERR:ExecuteTransaction:{e}").replace([' ', '\t', '\n'], "_")); return vec![format!("x{p}:{}", sl(s))]; }
                }
                let b = self.wait_conf_done(from, *p).await;
                let w = self.poll_wm(*p).await;
                if b > 0 { self.nb[*p as usize] = w; }
                self.settle().await;
                vec![format!("x{p}:{}={w}/{b}", sl(s))]
            }
            Step::Sub => {
                if self.sub.is_some() { return vec![]; }
                let id = Uuid::new_v4();
                let (ack_tx, ack_rx) = watch::channel(None);
                let (tx, rx) = mpsc::unbounded_channel();
                let sub_idx = self.log_len();
                if let Err(e) = self.cluster.ask(Subscribe { subscription_id: id, matcher: matcher.clone(), last_ack_rx: ack_rx, update_tx: tx, window_size: window }).await {
                    self.err.get_or_insert(format!("ERR:Subscribe:{e}").replace([' ', '\t', '\n'], "_"));
                }
                self.sub = Some(SubCtl { id, window, sub_idx, rx, ack_tx, last_ack: None, got: vec![], dead: false, note: None });
                self.settle().await;
                vec!["S".into()]
            }
            Step::Ack(c) => {
                let Some(sub) = self.sub.as_mut() else { return vec![] };
                let c = match c { Some(c) => Some(*c), None => sub.got.last().map(|d| d.cursor) };
                let Some(c) = c else { return vec![] };
                // acknowledgements are cumulative: only received cursors, never backwards; the SAME cursor again is a
                // retransmitted acknowledgement (a client may repeat its EACK): it is sent and must change nothing
                if c >= sub.got.len() as u64 || sub.last_ack.is_some_and(|a| c < a) { return vec![] }
                let repeated = sub.last_ack == Some(c);
                sub.last_ack = Some(c);
                let _ = sub.ack_tx.send(Some(c));
                if repeated {
                    // nothing may follow a repeated acknowledgement: give a record that is wrongly let out the time to
                    // arrive, so that it is observed under the acknowledgement that was in force when it was sent
                    tokio::time::sleep(Duration::from_millis(25)).await;
                    if let Some(sub) = self.sub.as_mut() { sub.drain(&self.parts); }
                }
                self.settle().await;
                vec![format!("k{c}")]
            }
            Step::Gate => vec![self.release_gate().await],
            Step::Flush => {
                let mut v = Vec::new();
                for _ in 0..100_000 {
                    if self.err.is_some() { break; }
                    match self.sub.as_ref().map(|s| s.status()) {
                        Some(Status::Gate) => v.push(self.release_gate().await),
                        Some(Status::Window) => {
                            let sub = self.sub.as_mut().unwrap();
                            let Some(c) = sub.got.last().map(|d| d.cursor) else { break };
                            if sub.last_ack.is_some_and(|a| c <= a) { break; }
                            sub.last_ack = Some(c);
                            let _ = sub.ack_tx.send(Some(c));
                            self.settle().await;
                            v.push(format!("k{c}"));
                        }
                        _ => break,
                    }
                }
                v
            }
            Step::GateAll => {
                let mut v = Vec::new();
                for _ in 0..10_000 {
                    if self.sub.as_ref().map(|s| s.status()) != Some(Status::Gate) { break; }
                    v.push(self.release_gate().await);
                }
                v
            }
        }
    }
    /// the several-streams history creates its iterators lazily (one stream after the other): writes
    /// while it is inside a history read are not part of the modelled schedules and are left out
    fn lazy_history(&self, matcher: &SubscriptionMatcher) -> bool {
        if !matches!(matcher, SubscriptionMatcher::Streams { .. }) { return false; }
        let Some(sub) = self.sub.as_ref() else { return false };
        if sub.dead { return false; }
        let g = hooks().0.lock().unwrap_or_else(|e| e.into_inner());
        match g.log.iter().rev().find(|e| e.sub == sub.id && (e.name == "sub.history.batch" || e.name == "sub.live.recv" || e.name == "sub.live.lagged")) {
            Some(e) => e.name != "sub.live.recv",
            None => true,
        }
    }
    async fn release_gate(&mut self) -> String {
        let Some(sub) = self.sub.as_mut() else { return "h-".into() };
        if sub.status() != Status::Gate { return "h-".into(); }
        let (key, n) = sub.gate_entry().unwrap_or_default();
        let key = stream_global(&key).map(|s| s.to_string()).unwrap_or(key);
        {
            let (m, cv) = hooks();
            let mut g = m.lock().unwrap_or_else(|e| e.into_inner());
            *g.released.entry(sub.id).or_insert(0) += 1;
            cv.notify_all();
        }
        self.settle().await;
        format!("h{key}:{n}")
    }
}

/// Err = the environment failed (no disk space, no temp dir, database could not be prepared): not an observation
async fn run_scenario(root: &std::path::Path, cluster: &mut Option<ActorRef<ClusterActor>>, keep: &mut Vec<(tempfile::TempDir, Database)>, line: &str) -> Result<(String, String), String> {
    let t: Vec<&str> = line.split_whitespace().collect();
    if t.len() != 5 || t[0] != "c09" { return Ok((line.to_string(), "BADCASE".into())); }
    let (Some(layout), Some((matcher, window)), Some(sched)) = (parse_layout(t[2]), parse_sub(t[3]), parse_sched(t[4])) else { return Ok((line.to_string(), "BADCASE".into())) };
    let bg = t[1] == "1";
    let fail = |e: String| Err(format!("{}: {e}", &line[..line.len().min(120)]));
    let dir = match tempfile::tempdir_in(root) { Ok(d) => d, Err(e) => return fail(e.to_string()) };
    let db = match DatabaseBuilder::new().segment_size_bytes(1024 * 1024).total_buckets(4).bucket_ids_from_range(0..4).reader_threads(2).writer_threads(2).sync_interval(Duration::from_millis(1)).sync_idle_interval(Duration::from_millis(2)).min_sync_bytes(1).open(dir.path()) { Ok(d) => d, Err(e) => return fail(format!("open: {e}")) };
    let mut parts: Vec<Part> = (0..NP).map(|_| Part::default()).collect();
    for (p, txs) in layout.iter().enumerate() {
        for tx in txs { if let Err(e) = db_append(&db, &mut parts, p as u16, tx).await { return fail(e); } }
    }
    match cluster {
        None => {
            let c = ClusterActor::spawn(ClusterArgs {
                keypair: Keypair::generate_ed25519(), database: db.clone(), listen_addrs: vec![],
                node_count: 1, node_index: 0, bucket_count: 4, partition_count: NP, replication_factor: 1,
                assigned_partitions: HashSet::from_iter(0..NP),
                heartbeat_timeout: Duration::from_millis(1_000), heartbeat_interval: Duration::from_millis(6_000),
                replication_buffer_size: 1_000, replication_buffer_timeout: Duration::from_millis(8_000),
                replication_catchup_timeout: Duration::from_millis(2_000), mdns: false,
            });
            c.wait_for_startup().await;
            *cluster = Some(c);
        }
        Some(c) => { if let Err(e) = c.ask(ResetCluster { database: db.clone() }).await { return fail(format!("reset: {e}")); } }
    }
    let c = cluster.as_ref().unwrap();
    { let mut g = hooks().0.lock().unwrap_or_else(|e| e.into_inner()); g.log.clear(); g.released.clear(); g.free.clear(); g.all_free = false; }
    let mut sc = Scenario { cluster: c, db: db.clone(), parts, sub: None, err: None, nb: vec![0; NP as usize] };
    // the initial watermarks come from the on-disk counts
    for p in 0..NP { sc.poll_wm(p).await; }
    let mut bg_keep = None;
    if bg {
        let id = Uuid::new_v4();
        hooks().0.lock().unwrap_or_else(|e| e.into_inner()).free.insert(id);
        let (ack_tx, ack_rx) = watch::channel(None);
        let (tx, rx) = mpsc::unbounded_channel();
        let _ = c.ask(Subscribe { subscription_id: id, matcher: SubscriptionMatcher::AllPartitions { from_sequences: FromSequences::Latest }, last_ack_rx: ack_rx, update_tx: tx, window_size: u64::MAX / 4 }).await;
        bg_keep = Some((ack_tx, rx));
    }
    let mut ann: Vec<String> = Vec::new();
    for st in &sched {
        if sc.err.is_some() { break; }
        ann.extend(sc.step(st, &matcher, window).await);
    }
    let end = match &sc.sub { None => "none".to_string(), Some(s) => match s.status() { Status::Running => "running", Status::Gate => "gate", Status::Window => "window", Status::Live => "live", Status::Dead => "dead" }.to_string() };
    let mut obs: Vec<String> = Vec::new();
    if let Some(s) = &sc.sub {
        for d in &s.got {
            obs.push(format!("{}.{}.{}.{}@{}/{}/{}", d.pid, d.seq, d.sid, d.ver, d.w, d.cursor, d.ack.map(|a| a.to_string()).unwrap_or("-".into())));
        }
    }
    let lags = sc.sub.as_ref().map(|s| s.lags()).unwrap_or_default();
    let note = sc.sub.as_ref().and_then(|s| s.note.clone());
    let mut o = format!("{} ; end={}{} ; lag={} ; W={}", obs.join(" "), end, note.map(|n| format!(":{n}")).unwrap_or_default(),
        lags.iter().map(|x| x.to_string()).collect::<Vec<_>>().join(","), sc.parts.iter().map(|p| p.wm().to_string()).collect::<Vec<_>>().join("."));
    if let Some(e) = &sc.err { o = format!("{e} ; {o}"); }
    // let everything of this scenario run to its end
    { let (m, cv) = hooks(); let mut g = m.lock().unwrap_or_else(|e| e.into_inner()); g.all_free = true; cv.notify_all(); }
    drop(sc.sub.take());
    drop(bg_keep);
    keep.push((dir, db));
    let ann_case = format!("c09 {} {} {} {}", t[1], t[2], t[3], if ann.is_empty() { "-".to_string() } else { ann.join(",") });
    if o.contains("ENOSPC") || o.contains("No_space_left") || o.contains("Too_many_open_files") { return Err(format!("{}: {}", &line[..line.len().min(120)], &o[..o.len().min(200)])); }
    Ok((ann_case, o))
}

fn child(a: &Args, out: &mut Out) {
    let lines: Vec<String> = std::fs::read_to_string(&a.rest[0]).unwrap().lines().map(|l| l.trim().to_string()).filter(|l| !l.is_empty() && !l.starts_with('#')).collect();
    install_hooks();
    // scratch databases live under the parent's directory (removed by the parent whatever happens to this process)
    let root = std::path::PathBuf::from(a.rest.get(1).cloned().unwrap_or_else(|| std::env::temp_dir().to_string_lossy().into_owned()));
    let rt = tokio::runtime::Builder::new_multi_thread().worker_threads(6).enable_all().build().unwrap();
    rt.block_on(async {
        let mut cluster = None;
        let mut keep = Vec::new();
        for l in &lines {
            let (c, o) = match tokio::time::timeout(Duration::from_secs(900), run_scenario(&root, &mut cluster, &mut keep, l)).await {
                Ok(Ok(r)) => r,
                Ok(Err(e)) => { eprintln!("c09: environment failure: {e}"); out.flush(); drop(keep); std::process::exit(3); }
                Err(_) => (l.clone(), "TIMEOUT".to_string()),
            };
            out.case(&c, &o);
            out.flush();
            // old databases are only needed until the next reset has replaced them
            while keep.len() > 1 { let (d, db) = keep.remove(0); drop(db); drop(d); }
        }
        drop(keep);
    });
    out.flush();
    std::process::exit(0);
}

/// run the lines in `jobs` child processes (one ClusterActor per process), output in input order
fn run_lines(a: &Args, lines: &[String], out: &mut Out) {
    if lines.is_empty() { return; }
    let jobs = std::env::var("C09_JOBS").ok().and_then(|x| x.parse().ok()).unwrap_or(6usize).clamp(1, lines.len());
    let exe = std::env::current_exe().unwrap();
    let tmp = tempfile::tempdir().unwrap();
    let mut kids = Vec::new();
    for j in 0..jobs {
        let idx: Vec<usize> = (0..lines.len()).filter(|i| i % jobs == j).collect();
        let f = tmp.path().join(format!("j{j}.cases"));
        let mut w = std::fs::File::create(&f).unwrap();
        for &i in &idx { writeln!(w, "{}", lines[i]).unwrap(); }
        let k = std::process::Command::new(&exe).args([&a.prop, "child", &a.seed.to_string()]).arg(&f).arg(tmp.path())
            .stdout(std::process::Stdio::piped()).stderr(std::process::Stdio::piped()).spawn().unwrap();
        kids.push((idx, k));
    }
    let mut res: Vec<Option<(String, String)>> = vec![None; lines.len()];
    let mut env_failed = None;
    for (idx, k) in kids {
        let o = k.wait_with_output().unwrap();
        if o.status.code() == Some(3) { env_failed = Some(String::from_utf8_lossy(&o.stderr).lines().last().unwrap_or("").to_string()); }
        let text = String::from_utf8_lossy(&o.stdout);
        for (n, line) in text.lines().enumerate() {
            if let (Some(&i), Some((c, ob))) = (idx.get(n), line.split_once('\t')) { res[i] = Some((c.to_string(), ob.to_string())); }
        }
    }
    if let Some(e) = env_failed { eprintln!("c09: a child process stopped on an environment failure ({e}); no verdict"); out.flush(); drop(tmp); std::process::exit(3); }
    for (i, r) in res.into_iter().enumerate() {
        match r { Some((c, o)) => out.case(&c, &o), None => out.case(&lines[i], "CRASH") }
    }
    drop(tmp);
}

fn main() {
    common::silence_panics();
    let a = common::args();
    let mut out = common::Out::new();
    match a.tier.as_str() {
        "child" => child(&a, &mut out),
        "cases" => {
            let lines: Vec<String> = std::fs::read_to_string(&a.rest[0]).unwrap().lines().map(|l| l.trim().to_string()).filter(|l| !l.is_empty() && !l.starts_with('#')).collect();
            run_lines(&a, &lines, &mut out);
        }
        "gen" => {
            // development aid: print the generated (not yet annotated) scenarios of a tier
            let mut rng = Rng::new(a.seed);
            for l in gen_cases::generate(&mut rng, a.rest.first().is_some_and(|x| x == "thorough")) { println!("{l}"); }
        }
        t => {
            let mut rng = Rng::new(a.seed);
            let lines = gen_cases::generate(&mut rng, t == "thorough");
            run_lines(&a, &lines, &mut out);
        }
    }
    out.flush();
}
