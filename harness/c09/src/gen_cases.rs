//! scenario generator: every choice from the seed
use common::Rng;

const NP: u64 = 4;
const WINDOWS: [u64; 3] = [1, 2, 10];

struct Lay { txs: Vec<Vec<(Vec<bool>, Vec<u8>)>> } // per partition: transactions (bits, streams)
impl Lay {
    fn len(&self, p: usize) -> u64 { self.txs[p].iter().map(|t| t.1.len() as u64).sum() }
    fn wm(&self, p: usize) -> u64 { self.txs[p].iter().flat_map(|t| t.0.iter()).take_while(|b| **b).count() as u64 }
    fn slen(&self, p: usize, d: u8) -> u64 { self.txs[p].iter().flat_map(|t| t.1.iter()).filter(|x| **x == d).count() as u64 }
    fn text(&self) -> String {
        self.txs.iter().map(|p| {
            if p.is_empty() { return "-".to_string(); }
            // run-length encode equal neighbours
            let toks: Vec<String> = p.iter().map(|(b, s)| {
                let bs: String = if b.iter().all(|x| *x == b[0]) { (if b[0] { "1" } else { "0" }).into() } else { b.iter().map(|x| if *x { '1' } else { '0' }).collect() };
                format!("{bs}:{}", s.iter().map(|d| (b'0' + d) as char).collect::<String>())
            }).collect();
            let mut out: Vec<String> = Vec::new();
            let mut i = 0;
            while i < toks.len() {
                let mut j = i; while j < toks.len() && toks[j] == toks[i] { j += 1; }
                out.push(if j - i > 1 { format!("{}*{}", toks[i], j - i) } else { toks[i].clone() });
                i = j;
            }
            out.join(",")
        }).collect::<Vec<_>>().join("|")
    }
}

fn streams(rng: &mut Rng, k: usize, ns: u64) -> Vec<u8> { (0..k).map(|_| rng.below(ns) as u8).collect() }
fn stext(s: &[u8]) -> String { s.iter().map(|d| (b'0' + d) as char).collect() }

/// a partition's log: `n` transactions, the first `good` fully confirmed, then a mix
fn gen_part(rng: &mut Rng, n: u64, single: bool, split: bool) -> Vec<(Vec<bool>, Vec<u8>)> {
    let ns = rng.range(1, 3);
    let good = match rng.below(4) { 0 => 0, 1 => n, _ => rng.range(0, n) };
    let mut v = Vec::new();
    for i in 0..n {
        let k = if single || rng.chance(3, 5) { 1 } else { rng.range(2, 3) as usize };
        let st = streams(rng, k, ns);
        let mut bits = vec![i < good || rng.chance(1, 5); k];
        if split && k > 1 && i >= good && rng.chance(1, 2) {
            // the watermark may fall inside this transaction
            let c = rng.range(1, k as u64 - 1) as usize;
            for (j, b) in bits.iter_mut().enumerate() { *b = j < c; }
        }
        v.push((bits, st));
    }
    v
}

fn pick_from(rng: &mut Rng, len: u64, wm: u64) -> u64 {
    match rng.below(7) { 0 => 0, 1 => wm, 2 => wm.saturating_sub(1), 3 => len, 4 => len + 2, 5 => rng.below(wm + 1), _ => rng.below(len + 1) }
}

fn from_spec(rng: &mut Rng, keys: &[u64], lens: &dyn Fn(u64) -> (u64, u64), fallback_ok: bool) -> String {
    match rng.below(if fallback_ok { 5 } else { 4 }) {
        0 => "L".into(),
        1 => { let k = *rng.pick(keys); let (l, w) = lens(k); format!("A{}", pick_from(rng, l, w)) }
        2 | 3 => {
            // explicit map over a subset of the keys
            let mut ents: Vec<String> = Vec::new();
            for &k in keys { if rng.chance(2, 3) { let (l, w) = lens(k); ents.push(format!("{k}={}", pick_from(rng, l, w))); } }
            format!("M{}", ents.join(";"))
        }
        _ => {
            let mut ents: Vec<String> = Vec::new();
            for &k in keys { if rng.chance(1, 3) { let (l, w) = lens(k); ents.push(format!("{k}={}", pick_from(rng, l, w))); } }
            let k = *rng.pick(keys); let (l, w) = lens(k);
            ents.push(format!("f={}", pick_from(rng, l, w)));
            format!("M{}", ents.join(";"))
        }
    }
}

fn gen_sub(rng: &mut Rng, kind: u64, lay: &Lay, win: u64) -> String {
    let plens = |p: u64| (lay.len(p as usize), lay.wm(p as usize));
    // stream version bounds: number of events of the stream / those below the watermark are not tracked exactly: use the stream length
    let slens = |s: u64| { let l = lay.slen((s / 4) as usize, (s % 4) as u8); (l, l) };
    let optn = |rng: &mut Rng, l: u64, w: u64| if rng.chance(1, 5) { "-".to_string() } else { pick_from(rng, l, w).to_string() };
    match kind {
        0 => { let keys: Vec<u64> = (0..NP).collect(); format!("all/{}/w{win}", from_spec(rng, &keys, &plens, true)) }
        1 => { let p = rng.below(NP); let (l, w) = plens(p); format!("part/{p}/{}/w{win}", optn(rng, l, w)) }
        2 => {
            let mut ps: Vec<u64> = (0..NP).filter(|_| rng.chance(1, 2)).collect();
            if ps.is_empty() { ps.push(rng.below(NP)); }
            let f = from_spec(rng, &ps, &plens, true);
            format!("parts/{}/{f}/w{win}", ps.iter().map(|p| p.to_string()).collect::<Vec<_>>().join("."))
        }
        3 => { let s = rng.below(NP) * 4 + rng.below(3); let (l, _) = slens(s); format!("stream/{s}/{}/w{win}", optn(rng, l, l)) }
        _ => {
            let mut ss: Vec<u64> = (0..NP * 4).filter(|s| s % 4 < 3 && rng.chance(1, 4)).collect();
            if ss.is_empty() { ss.push(rng.below(NP) * 4 + rng.below(3)); }
            let f = from_spec(rng, &ss, &slens, false);
            format!("streams/{}/{f}/w{win}", ss.iter().map(|p| p.to_string()).collect::<Vec<_>>().join("."))
        }
    }
}

/// the closing steps: confirm what is left (sometimes), one write per partition so that everything
/// confirmed is broadcast, and let the subscription finish
fn closing(rng: &mut Rng, sched: &mut Vec<String>) {
    sched.push("F".into());
    for p in 0..NP {
        if rng.chance(2, 3) { sched.push(format!("c{p}*{}", rng.range(1, 12))); }
    }
    for p in 0..NP { sched.push(format!("x{p}:{}", rng.below(3))); }
    sched.push("F".into());
}

fn random_steps(rng: &mut Rng, n: u64, sched: &mut Vec<String>) {
    for _ in 0..n {
        let p = rng.below(NP);
        sched.push(match rng.below(16) {
            0 | 1 => { let k = rng.range(1, 3) as usize; format!("a{p}:{}", stext(&streams(rng, k, 3))) }
            2 | 3 | 4 => format!("c{p}"),
            5 => format!("c{p}*{}", rng.range(2, 6)),
            6 | 7 | 8 => { let k = rng.range(1, 3) as usize; format!("x{p}:{}", stext(&streams(rng, k, 3))) }
            9 | 10 => "K".into(),
            11 | 12 => "h".into(),
            13 => "H".into(),
            14 => "F".into(),
            _ => "K".into(),
        });
    }
}

fn small(rng: &mut Rng, i: u64) -> String {
    let split = rng.chance(1, 4);
    let lay = Lay { txs: (0..NP).map(|_| { let n = if rng.chance(1, 5) { 0 } else { rng.range(1, 8) }; gen_part(rng, n, false, split) }).collect() };
    let win = if rng.chance(1, 12) { 100 } else { WINDOWS[(i % 3) as usize] };
    let sub = gen_sub(rng, i % 5, &lay, win);
    let mut sched = Vec::new();
    let pre = rng.below(4);
    random_steps(rng, pre, &mut sched);
    sched.push("S".into());
    let n = rng.range(3, 18);
    random_steps(rng, n, &mut sched);
    if rng.chance(5, 6) { closing(rng, &mut sched); }
    format!("c09 {} {} {} {}", rng.chance(1, 3) as u8, lay.text(), sub, sched.join(","))
}

/// long logs: the history read takes several batches and the watermark moves between them
fn batches(rng: &mut Rng, i: u64) -> String {
    let target = rng.below(NP) as usize;
    let lay = Lay { txs: (0..NP as usize).map(|p| {
        if p == target || rng.chance(1, 4) {
            let n = rng.range(52, 125);
            let good = rng.range(1, n - 1);
            let ns = if rng.chance(1, 2) { 1 } else { 2 };
            (0..n).map(|j| { let k = if rng.chance(1, 8) { 2 } else { 1 }; (vec![j < good; k], streams(rng, k, ns)) }).collect()
        } else { let n = rng.range(0, 4); gen_part(rng, n, false, false) }
    }).collect() };
    let win = *rng.pick(&[2u64, 10, 100, 100]);
    // the subscription includes the long partition
    let s0 = target as u64 * 4;
    let start = match rng.below(4) { 0 => lay.wm(target).saturating_sub(rng.below(5)), 1 => rng.below(lay.wm(target) + 1), _ => 0 };
    let sub = match i % 5 {
        0 => format!("all/{}/w{win}", if rng.chance(1, 2) { format!("Mf={start}") } else { format!("A{start}") }),
        1 => format!("part/{target}/{start}/w{win}"),
        2 => { let other = (target as u64 + 1) % NP; format!("parts/{target}.{other}/M{target}={start};f=0/w{win}") }
        3 => format!("stream/{s0}/{}/w{win}", start.min(lay.slen(target, 0))),
        _ => format!("streams/{s0}.{}/A{}/w{win}", s0 + 1, start.min(lay.slen(target, 0))),
    };
    let mut sched = vec!["S".to_string()];
    for _ in 0..rng.range(2, 6) {
        match rng.below(5) {
            0 => sched.push("K".into()),
            1 => sched.push(format!("x{target}:0")),
            2 => sched.push(format!("a{target}:0")),
            _ => sched.push(format!("c{target}*{}", rng.range(1, 70))),
        }
        sched.push("h".into());
        if rng.chance(1, 2) { sched.push("K".into()); }
    }
    closing(rng, &mut sched);
    format!("c09 {} {} {} {}", rng.chance(1, 4) as u8, lay.text(), sub, sched.join(","))
}

/// more than the broadcast capacity is sent while the subscription cannot receive (it waits at a history
/// pause point or for an acknowledgement): it lags and falls back to the history read
fn lag(rng: &mut Rng, i: u64) -> String {
    let target = rng.below(NP);
    let n = rng.range(1030, 1120);
    let per = rng.range(1, 3) as usize;
    let ntx = n / per as u64 + 1;
    let st: Vec<u8> = (0..per).map(|j| (j % 2) as u8).collect();
    let mut parts: Vec<String> = (0..NP).map(|_| "-".to_string()).collect();
    parts[target as usize] = format!("1:{}*{ntx}", stext(&st));
    let total = ntx * per as u64;
    let win = *rng.pick(&[1u64, 2, 10]);
    let start = total - rng.range(1, 40);
    let s0 = target * 4;
    // stream 0 of the partition holds every per-th event (or every second one)
    let sstart = if per == 1 { start } else { (start / per as u64) * ((per as u64 + 1) / 2) };
    let sub = match i % 5 {
        0 => format!("all/A{start}/w{win}"),
        1 => format!("part/{target}/{start}/w{win}"),
        2 => format!("parts/{target}/M{target}={start}/w{win}"),
        3 => format!("stream/{s0}/{sstart}/w{win}"),
        _ => format!("stream/{s0}/{}/w{win}", sstart.saturating_sub(3)),
    };
    // the subscription stops at the pause point of its first batch; the write then broadcasts the whole log
    let mut sched = vec!["S".to_string(), format!("x{target}:0")];
    if rng.chance(1, 2) { sched.push("h".into()); sched.push(format!("x{target}:01")); }
    sched.push("F".into());
    sched.push(format!("x{target}:1"));
    sched.push("F".into());
    format!("c09 0 {} {} {}", parts.join("|"), sub, sched.join(","))
}

/// the history read fills the window and waits; an acknowledgement frees one slot, then the same acknowledgement is
/// repeated (a retransmitted EACK frees nothing): never more than `win` records may be outstanding
fn dup_ack(rng: &mut Rng, i: u64) -> String {
    let target = rng.below(NP);
    let win = *rng.pick(&[1u64, 2, 3]);
    let pre = win + rng.range(4, 8);
    let mut parts: Vec<String> = (0..NP).map(|_| "-".to_string()).collect();
    parts[target as usize] = format!("1:0*{pre}");
    let s0 = target * 4;
    let sub = match i % 3 {
        0 => format!("part/{target}/-/w{win}"),
        1 => format!("stream/{s0}/-/w{win}"),
        _ => format!("all/L/w{win}"),
    };
    let mut sched = vec!["S".to_string()];
    if i % 3 == 2 { sched.push(format!("x{target}:0*{}", win + 4)); }    // `all/L` starts at the end: live events fill the window
    let a = rng.below(win);
    sched.push(format!("k{a}"));
    for _ in 0..rng.range(2, 4) { sched.push(format!("k{a}")); }
    sched.push("K".into()); sched.push("K".into());
    sched.push("F".into());
    format!("c09 0 {} {} {}", parts.join("|"), sub, sched.join(","))
}

/// the subscription is live and waits for an acknowledgement (it holds one received record) while more
/// events than the channel holds are appended, confirmed and then broadcast at once: the events it still
/// needs are dropped from the channel, only the history re-read after Lagged can deliver them
fn lag_live(rng: &mut Rng, i: u64) -> String {
    let target = rng.below(NP);
    let other = (target + 1) % NP;
    let pre = rng.range(1, 6);
    let mut parts: Vec<String> = (0..NP).map(|_| "-".to_string()).collect();
    parts[target as usize] = format!("1:0*{pre}");
    let win = *rng.pick(&[1u64, 2]);
    let s0 = target * 4;
    let sub = match i % 5 {
        0 => format!("part/{target}/-/w{win}"),
        1 => format!("stream/{s0}/-/w{win}"),
        2 => format!("all/L/w{win}"),
        3 => format!("parts/{target}.{other}/L/w{win}"),
        _ => format!("streams/{s0}.{}/L/w{win}", s0 + 1),
    };
    let bg = rng.chance(1, 2);
    let mut sched = Vec::new();
    if bg { sched.push(format!("x{target}:0")); }
    sched.push("S".to_string());
    // `win` records go out, the next one is received and waits for the window
    sched.push(format!("x{target}:0*{}", win + 1));
    let k = rng.range(262, 285);
    sched.push(format!("a{target}:0000*{k}"));
    sched.push(format!("c{target}*{k}"));
    sched.push(format!("x{target}:0"));
    sched.push("F".into());
    sched.push(format!("x{target}:0"));
    sched.push("F".into());
    format!("c09 {} {} {} {}", bg as u8, parts.join("|"), sub, sched.join(","))
}

/// history -> live -> lag -> history re-read -> live (-> second lag): the history read delivers some events, the
/// subscription goes live and at least three events arrive through the broadcast (delivered and acknowledged, on
/// every key of the subscription), then it is held behind a closed window (it has received one more record) while
/// more events than the channel holds are appended, confirmed and broadcast at once, so the events it still needs
/// are dropped and the re-read has to start from the positions recorded DURING LIVE delivery; then live again.
/// mode 1: a second lag behind a closed window after the re-read went live again;
/// mode 2: the second lag hits while the re-read itself is held at its history pause point.
/// kind: 0 one partition, 1 one stream, 2 all partitions, 3 several partitions, 4 several streams
fn hist_live_lag(rng: &mut Rng, kind: u64, mode: u64, win: u64) -> String {
    let t = rng.below(NP);
    let o = (t + 1 + rng.below(NP - 1)) % NP;
    let multi_part = kind == 2 || kind == 3;
    let two_streams = kind == 4;
    let (s0, s1) = (t * 4, t * 4 + 1);
    // one event per write on the first stream (and the second one alternately for the two-stream kind)
    let pre = rng.range(4, 9);
    let mut parts: Vec<String> = (0..NP).map(|_| "-".to_string()).collect();
    parts[t as usize] = if two_streams { format!("1:01*{pre}") } else { format!("1:0*{pre}") };
    if multi_part { parts[o as usize] = format!("1:0*{}", rng.range(2, 4)); }
    let start = rng.below(pre - 1);
    let sub = match kind {
        0 => format!("part/{t}/{start}/w{win}"),
        1 => format!("stream/{s0}/{start}/w{win}"),
        2 => if rng.chance(1, 2) { format!("all/M{t}={start};f=0/w{win}") } else { format!("all/A{}/w{win}", start.min(1)) },
        3 => format!("parts/{t}.{o}/M{t}={start};f=0/w{win}"),
        _ => if rng.chance(1, 2) { format!("streams/{s0}.{s1}/M{s0}={start};{s1}={}/w{win}", rng.below(pre - 1)) } else { format!("streams/{s0}.{s1}/A{}/w{win}", start.min(2)) },
    };
    // 16 events per transaction: fewer appends / ConfirmTransaction round trips for the same flood
    let bulk = if two_streams { "0101010101010101" } else { "0000000000000000" };
    let mut sched: Vec<String> = Vec::new();
    let bg = rng.chance(1, 3);
    if bg { sched.push(format!("x{t}:0")); }
    sched.push("S".into());
    sched.push("F".into()); // the history read runs to its end, everything acknowledged: live
    let mut flip = 0u64;
    let mut one = |flip: &mut u64| -> String { *flip += 1; if two_streams && *flip % 2 == 0 { "1".into() } else { "0".into() } };
    // live deliveries, acknowledged one by one, on every key
    let live = |rng: &mut Rng, sched: &mut Vec<String>, flip: &mut u64, one: &mut dyn FnMut(&mut u64) -> String, n: u64| {
        for _ in 0..n {
            let st = one(flip);
            sched.push(format!("x{t}:{st}")); sched.push("K".into());
            if multi_part && rng.chance(2, 3) { sched.push(format!("x{o}:0")); sched.push("K".into()); }
        }
    };
    let n_live = rng.range(3, 5);
    live(rng, &mut sched, &mut flip, &mut one, n_live);
    if multi_part { sched.push(format!("x{o}:0")); sched.push("K".into()); }
    // `win` more records go out unacknowledged, one more is received and waits: closed window
    let block = |sched: &mut Vec<String>, flip: &mut u64, one: &mut dyn FnMut(&mut u64) -> String| {
        for _ in 0..win + 1 { let st = one(flip); sched.push(format!("x{t}:{st}")); }
        if multi_part { sched.push(format!("x{o}:0*2")); } // these wait in the channel and are dropped with the rest
    };
    let flood = |rng: &mut Rng, sched: &mut Vec<String>| {
        let k = rng.range(66, 70);
        sched.push(format!("a{t}:{bulk}*{k}"));
        sched.push(format!("c{t}*{k}"));
        sched.push(format!("x{t}:0"));
    };
    block(&mut sched, &mut flip, &mut one);
    flood(rng, &mut sched);
    let mode = if mode == 2 && two_streams { 1 } else { mode }; // no writes inside the lazily iterated several-streams history
    if mode == 2 {
        // the acknowledgement lets the waiting record out, the receive reports Lagged, the re-read fetches its
        // first batch and stops at the pause point; the second flood arrives there
        sched.push("K".into());
        flood(rng, &mut sched);
        sched.push("F".into());
    } else {
        sched.push("F".into());
    }
    live(rng, &mut sched, &mut flip, &mut one, 2);
    if mode == 1 {
        block(&mut sched, &mut flip, &mut one);
        flood(rng, &mut sched);
        sched.push("F".into());
        live(rng, &mut sched, &mut flip, &mut one, 2);
    }
    sched.push("F".into());
    format!("c09 {} {} {} {}", bg as u8, parts.join("|"), sub, sched.join(","))
}

pub fn generate(rng: &mut Rng, thorough: bool) -> Vec<String> {
    let (ns, nb, nl, nll) = if thorough { (2400, 500, 30, 10) } else { (300, 60, 5, 2) };
    let mut v = Vec::new();
    // history -> live -> lag -> re-read -> live: every matcher kind, single lag and double lag
    let r = rng.below(2);
    for kind in 0..5u64 {
        if thorough {
            for &w in &[2u64, 10] { for mode in 0..3u64 { v.push(hist_live_lag(rng, kind, mode, w)); } }
        } else {
            v.push(hist_live_lag(rng, kind, 0, if (kind + r) % 2 == 0 { 2 } else { 10 }));
            v.push(hist_live_lag(rng, kind, 1 + (kind + r) % 2, if (kind + r) % 2 == 0 { 10 } else { 2 }));
        }
    }
    // the long scenarios first: the child processes take the lines round-robin
    // the single-stream and single-partition kinds every time, the other kinds in turn
    let off = rng.below(3);
    for i in 0..nll { let kind = match i { 0 => 1, 1 => 0, _ => 2 + (i + off) % 3 }; v.push(lag_live(rng, kind)); }
    for i in 0..(if thorough { 24 } else { 6 }) { v.push(dup_ack(rng, i)); }
    for i in 0..nl { let j = i + rng.below(5); v.push(lag(rng, j)); }
    for i in 0..ns { v.push(small(rng, i)); }
    for i in 0..nb { v.push(batches(rng, i)); }
    v
}
