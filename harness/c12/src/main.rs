//! C12 harness: drives the REAL OrderedQueue / TimeoutOrderedQueue (families `q`, `tq`) and the REAL
//! PartitionReplicatorActor (family `rep`) with generated operation sequences.
//! Output: `<case>\t<observed>`; the case line is what ocaml/d_c12.ml accepts.
mod cases;
mod queue;
mod rep;

fn main() {
    if std::env::var_os("C12_VERBOSE").is_none() { common::silence_panics(); }
    let a = common::args();
    let mut out = common::Out::new();
    let cases: Vec<String> = match a.tier.as_str() {
        "cases" => std::fs::read_to_string(&a.rest[0])
            .expect("case file")
            .lines()
            .filter(|l| !l.trim().is_empty() && !l.starts_with('#'))
            .map(|l| l.to_string())
            .collect(),
        t => cases::generate(t == "thorough", a.seed),
    };
    let mut rep_cases = Vec::new();
    let mut order: Vec<(String, Option<String>)> = Vec::new();
    for c in &cases {
        let fam = c.split_whitespace().next().unwrap_or("");
        match fam {
            "q" | "tq" => {
                let o = common::catch(|| queue::run_case(c)).unwrap_or_else(|| "PANIC".to_string());
                order.push((c.clone(), Some(o)));
            }
            "rep" => {
                rep_cases.push(c.clone());
                order.push((c.clone(), None));
            }
            _ => order.push((c.clone(), Some("BADCASE".to_string()))),
        }
    }
    let mut rep_out = rep::run_cases(&rep_cases).into_iter();
    for (c, o) in order {
        let o = match o {
            Some(o) => o,
            None => rep_out.next().unwrap_or_else(|| "HARNESS-ERROR".to_string()),
        };
        out.case(&c, &o);
    }
    out.flush();
}
