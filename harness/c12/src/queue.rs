//! Families `q` (OrderedQueue) and `tq` (TimeoutOrderedQueue, tokio clock paused and advanced by the case).
//!   q  <next0> <limit> <op>*            tq <next0> <limit> <timeout_ms> <op>*
//!   op: i,<key>,<tx>,<rid> | p | g,<n> | a,<dt_ms> | h
//! observed: one token per op `<result>|<next>|<map>` (+ `|<timer deadline>` for tq).
use std::time::Duration;

use sierradb_cluster::write::ordered_queue::{Error, InsertResult, OrderedQueue, OrderedValue};
use sierradb_cluster::write::timeout_ordered_queue::{TimedOrderedValue, TimeoutOrderedQueue};
use tokio::time::Instant;

/// Same shape as replicate.rs's BufferedWrite: key_eq on the transaction id, merge appends the reply
/// senders, received_at is the first reply's.
#[derive(Debug, Clone)]
pub struct Val {
    tx: u64,
    replies: Vec<(u64, u64, Instant)>, // rid, received_at (ms since base), received_at
}
impl OrderedValue for Val {
    fn key_eq(&self, other: &Self) -> bool { self.tx == other.tx }
    fn merge(&mut self, new: Self) { self.replies.extend(new.replies); }
}
impl TimedOrderedValue for Val {
    fn received_at(&self) -> Instant { self.replies.first().unwrap().2 }
}

/// `progress_to` returned `()` before the fix and the drained entries after it; accept both so that a
/// reverted fix is reported as a VIOLATION and not as a build error.
trait Drained { fn drained(self) -> Vec<(u64, Val)>; }
impl Drained for () { fn drained(self) -> Vec<(u64, Val)> { Vec::new() } }
impl Drained for Vec<(u64, Val)> { fn drained(self) -> Vec<(u64, Val)> { self } }

fn ent(v: &Val) -> String {
    let r: Vec<String> = v.replies.iter().map(|(rid, t, _)| format!("{rid}@{t}")).collect();
    format!("{}/{}", v.tx, r.join("."))
}
fn kv(k: u64, v: &Val) -> String { format!("{k}={}", ent(v)) }
fn kvs<'a>(it: impl Iterator<Item = (&'a u64, &'a Val)>) -> String {
    let v: Vec<String> = it.map(|(k, v)| kv(*k, v)).collect();
    if v.is_empty() { "-".to_string() } else { v.join(",") }
}
fn ins(r: Result<InsertResult<u64, Val>, Error<u64, Val>>) -> String {
    match r {
        Ok(InsertResult { next: Some(v), merged_with_existing, evicted }) => format!(
            "R:{}:{}{}",
            if merged_with_existing { "m" } else { "-" },
            ent(&v),
            evicted.map(|(k, v)| format!(":{}", kv(k, &v))).unwrap_or_default()
        ),
        Ok(InsertResult { next: None, merged_with_existing, evicted }) => format!(
            "B:{}:{}",
            if merged_with_existing { "m" } else { "-" },
            evicted.map(|(k, v)| kv(k, &v)).unwrap_or_else(|| "-".to_string())
        ),
        Err(Error::Conflict { value }) => format!("C:{}", ent(&value)),
        Err(Error::Full { key, value }) => format!("F:{}", kv(key, &value)),
        Err(Error::Stale { key, value }) => format!("S:{}", kv(key, &value)),
    }
}

pub fn run_case(line: &str) -> String {
    let rt = tokio::runtime::Builder::new_current_thread().enable_time().start_paused(true).build().unwrap();
    rt.block_on(run(line))
}

async fn run(line: &str) -> String {
    let t: Vec<&str> = line.split_whitespace().collect();
    let timed = t[0] == "tq";
    let num = |s: &str| s.parse::<u64>().unwrap();
    let (next0, limit) = (num(t[1]), num(t[2]) as usize);
    let (timeout, ops) = if timed { (num(t[3]), &t[4..]) } else { (0, &t[3..]) };
    let base = Instant::now();
    let now_ms = || Instant::now().duration_since(base).as_millis() as u64;
    let mut q: Option<OrderedQueue<u64, Val>> = (!timed).then(|| OrderedQueue::new(next0, limit));
    let mut tq: Option<TimeoutOrderedQueue<u64, Val>> =
        timed.then(|| TimeoutOrderedQueue::new(next0, limit, Duration::from_millis(timeout)));
    let mut out = Vec::new();
    for op in ops {
        let f: Vec<&str> = op.split(',').collect();
        let res = match f[0] {
            "i" => {
                let v = Val { tx: num(f[2]), replies: vec![(num(f[3]), now_ms(), Instant::now())] };
                match (&mut q, &mut tq) {
                    (Some(q), _) => ins(q.insert(num(f[1]), v)),
                    (_, Some(tq)) => ins(tq.insert(num(f[1]), v)),
                    _ => unreachable!(),
                }
            }
            "p" => {
                let r = match (&mut q, &mut tq) {
                    (Some(q), _) => q.pop(),
                    (_, Some(tq)) => tq.pop(),
                    _ => unreachable!(),
                };
                format!("P:{}", r.map(|v| ent(&v)).unwrap_or_else(|| "-".to_string()))
            }
            "g" => {
                let d = match (&mut q, &mut tq) {
                    (Some(q), _) => q.progress_to(num(f[1])).drained(),
                    (_, Some(tq)) => tq.progress_to(num(f[1])).drained(),
                    _ => unreachable!(),
                };
                format!("G:{}", kvs(d.iter().map(|(k, v)| (k, v))))
            }
            "a" => {
                tokio::time::advance(Duration::from_millis(num(f[1]))).await;
                "A:-".to_string()
            }
            "h" => match &mut tq {
                Some(tq) => {
                    let d = tq.handle_timeout();
                    format!("H:{}", kvs(d.iter().map(|(k, v)| (k, v))))
                }
                None => "H:-".to_string(),
            },
            _ => "BADOP".to_string(),
        };
        let (next, map, timer) = match (&mut q, &mut tq) {
            (Some(q), _) => (*q.next(), kvs(q.map.iter()), String::new()),
            (_, Some(tq)) => (
                *tq.next(),
                kvs(tq.queue.map.iter()),
                format!(
                    "|{}",
                    tq.timeout_future()
                        .map(|s| s.deadline().duration_since(base).as_millis().to_string())
                        .unwrap_or_else(|| "-".to_string())
                ),
            ),
            _ => unreachable!(),
        };
        out.push(format!("{res}|{next}|{map}{timer}"));
    }
    out.join(" ")
}
