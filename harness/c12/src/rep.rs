//! Family `rep`: the REAL PartitionReplicatorActor on a real Database, driven with ReplicateWrite
//! messages in an arbitrary delivery order (one node, coordinator_ref = this process's ClusterActor).
//!   rep <n0> <limit> <catchup_ms> <op>*
//!   op: d,<key>,<tx>,<cnt>,<ok>   deliver a ReplicateWrite (reply id = index among the d ops, from 0)
//!       w,<ms>                    let real time pass (the catch-up timer may fire: detect_and_handle_gaps)
//! n0 events are appended to the partition before the replicator starts (so its next sequence is n0);
//! key = expected_partition_sequence.into_next_version(); `ok=0` gives the transaction an event whose
//! expected stream version cannot hold, so the database rejects it although the sequence matches.
//! The mailbox is FIFO and the handler sequential, so the outcome is determined by the delivery order.
//! After the last op the actor is stopped gracefully (it first handles everything delivered), which
//! closes the reply channel of every write still buffered: those are reported as `pending`.
//! observed: `alive=<0|1> ans=<rid>:<outcome>,.. log=<pos>:<tx>:<cnt>,.. next=<n>`
use std::collections::{HashMap, HashSet};
use std::time::Duration;

use kameo::actor::{ActorRef, Spawn};
use kameo::error::SendError;
use kameo::prelude::RemoteActorRef;
use libp2p::identity::Keypair;
use sierradb::IterDirection;
use sierradb::StreamId;
use sierradb::database::{Database, DatabaseBuilder, ExpectedVersion, NewEvent, Transaction};
use sierradb::id::{uuid_to_partition_hash, uuid_v7_with_partition_hash};
use sierradb_cluster::confirmation::actor::ConfirmationActor;
use sierradb_cluster::write::error::WriteError;
use sierradb_cluster::write::replicate::{PartitionReplicatorActor, PartitionReplicatorActorArgs, ReplicateWrite};
use sierradb_cluster::{ClusterActor, ClusterArgs};
use smallvec::SmallVec;
use uuid::Uuid;

const MAX_PARTS: u16 = 4096;

struct Env {
    db: Database,
    _dir: tempfile::TempDir,
    coord: RemoteActorRef<ClusterActor>,
    conf: ActorRef<ConfirmationActor>,
    next_pid: u16,
}

fn pkey(pid: u16) -> Uuid {
    Uuid::from_u128(0x219bd637_e279_53e9_9e2b_000000000000u128 ^ ((pid as u128) << 46) ^ (pid as u128))
}
fn event(pk: Uuid, stream: String, e: ExpectedVersion) -> NewEvent {
    NewEvent {
        event_id: uuid_v7_with_partition_hash(uuid_to_partition_hash(pk)),
        stream_id: StreamId::new(stream).unwrap(),
        stream_version: e,
        event_name: "E".into(),
        timestamp: 1,
        metadata: vec![],
        payload: vec![],
    }
}

async fn setup() -> Result<Env, String> {
    let dir = tempfile::Builder::new().prefix("sv-c12-").tempdir().map_err(|e| e.to_string())?;
    let db = DatabaseBuilder::new()
        .total_buckets(1)
        .bucket_ids_from_range(0..1)
        .reader_threads(1)
        .writer_threads(1)
        .min_sync_bytes(0)
        .open(dir.path())
        .map_err(|e| format!("open: {e}"))?;
    let cluster = ClusterActor::spawn(ClusterArgs {
        keypair: Keypair::generate_ed25519(),
        database: db.clone(),
        listen_addrs: vec![],
        node_count: 1,
        node_index: 0,
        bucket_count: 1,
        partition_count: MAX_PARTS,
        replication_factor: 1,
        assigned_partitions: HashSet::new(),
        heartbeat_timeout: Duration::from_secs(600),
        heartbeat_interval: Duration::from_secs(600),
        replication_buffer_size: 4,
        replication_buffer_timeout: Duration::from_secs(3600),
        replication_catchup_timeout: Duration::from_secs(3600),
        mdns: false,
    });
    cluster.wait_for_startup().await;
    let coord = cluster.clone().into_remote_ref().await;
    let conf = ConfirmationActor::new(db.clone(), 1, (0..MAX_PARTS).collect())
        .await
        .map_err(|e| format!("confirmation actor: {e}"))?;
    let conf = Spawn::spawn(conf);
    std::mem::forget(cluster);
    Ok(Env { db, _dir: dir, coord, conf, next_pid: 0 })
}

fn outcome(r: Result<sierradb::writer_thread_pool::AppendResult, SendError<ReplicateWrite, WriteError>>) -> String {
    match r {
        Ok(a) => format!("ok{}", a.first_partition_sequence),
        Err(SendError::HandlerError(e)) => match e {
            WriteError::SequenceConflict => "conflict".into(),
            WriteError::BufferFull => "full".into(),
            WriteError::StaleWrite => "stale".into(),
            WriteError::BufferEvicted => "evicted".into(),
            WriteError::WrongExpectedSequence { .. } => "wrongseq".into(),
            WriteError::DatabaseOperationFailed(_) => "db".into(),
            other => format!("err({})", format!("{other:?}").split_whitespace().next().unwrap_or("?")),
        },
        // the reply sender was dropped (write dropped / still buffered when the actor stopped)
        Err(_) => "pending".into(),
    }
}

async fn run_case(env: &mut Env, line: &str) -> Result<String, String> {
    let t: Vec<&str> = line.split_whitespace().collect();
    let num = |s: &str| s.parse::<u64>().map_err(|e| format!("{s}: {e}"));
    let (n0, limit, catchup) = (num(t[1])?, num(t[2])? as usize, num(t[3])?);
    if env.next_pid >= MAX_PARTS { return Err("too many rep cases for one run".into()); }
    let pid = env.next_pid;
    env.next_pid += 1;
    let pk = pkey(pid);
    for i in 0..n0 {
        let ev: SmallVec<[NewEvent; 4]> = SmallVec::from_vec(vec![event(pk, format!("p{pid}pre{i}"), ExpectedVersion::Any)]);
        env.db.append_events(Transaction::new(pk, pid, ev).map_err(|e| e.to_string())?).await.map_err(|e| format!("prefill: {e}"))?;
    }
    let rep = PartitionReplicatorActor::spawn(PartitionReplicatorActorArgs {
        partition_id: pid,
        database: env.db.clone(),
        confirmation_ref: env.conf.clone(),
        buffer_size: limit,
        buffer_timeout: Duration::from_secs(3600),
        catchup_timeout: Duration::from_millis(catchup),
    });
    rep.wait_for_startup().await;
    let mut txs: HashMap<u64, Transaction> = HashMap::new();
    let mut ids: HashMap<Uuid, u64> = HashMap::new();
    let mut pend = Vec::new();
    for op in &t[4..] {
        let f: Vec<&str> = op.split(',').collect();
        match f[0] {
            "d" => {
                let (key, tx, cnt, ok) = (num(f[1])?, num(f[2])?, num(f[3])?, f[4] == "1");
                let base = match txs.get(&tx) {
                    Some(b) => b.clone(),
                    None => {
                        let ev: Vec<NewEvent> = (0..cnt.max(1))
                            .map(|j| {
                                let e = if !ok && j == 0 { ExpectedVersion::Exact(999) } else { ExpectedVersion::Any };
                                event(pk, format!("p{pid}t{tx}e{j}"), e)
                            })
                            .collect();
                        let b = Transaction::new(pk, pid, SmallVec::from_vec(ev)).map_err(|e| e.to_string())?;
                        ids.insert(b.transaction_id(), tx);
                        txs.insert(tx, b.clone());
                        b
                    }
                };
                let e = if key == 0 { ExpectedVersion::Empty } else { ExpectedVersion::Exact(key - 1) };
                let msg = ReplicateWrite {
                    coordinator_ref: env.coord.clone(),
                    coordinator_alive_since: u64::MAX,
                    transaction: base.expected_partition_sequence(e),
                };
                // (kameo's enqueue panics when the actor is already dead: run it in its own task)
                let r2 = rep.clone();
                match tokio::spawn(async move { r2.ask(msg).enqueue().await }).await {
                    Ok(Ok(p)) => pend.push(Some(tokio::spawn(p))),
                    _ => pend.push(None), // the actor is gone
                }
            }
            "w" => tokio::time::sleep(Duration::from_millis(num(f[1])?)).await,
            _ => return Err(format!("bad op {op}")),
        }
    }
    let alive = rep.is_alive();
    let _ = rep.stop_gracefully().await;
    rep.wait_for_shutdown().await;
    drop(rep);
    let mut ans = Vec::new();
    let deadline = tokio::time::Instant::now() + Duration::from_secs(20);
    for (rid, p) in pend.into_iter().enumerate() {
        let o = match p {
            None => "pending".to_string(),
            // the actor is gone, so every reply sender has been used or dropped by now; one that is
            // still open was leaked: that write is never answered
            Some(h) => match tokio::time::timeout_at(deadline, h).await {
                Ok(Ok(r)) => outcome(r),
                Ok(Err(_)) => "pending".to_string(),
                Err(_) => "unanswered".to_string(),
            },
        };
        ans.push(format!("{rid}:{o}"));
    }
    // the partition's log after the pre-filled events
    let mut log = Vec::new();
    let mut next = 0u64;
    let mut it = env.db.read_partition(pid, 0, IterDirection::Forward).await.map_err(|e| format!("read: {e}"))?;
    while let Some(batch) = it.next_batch(64).await.map_err(|e| format!("read: {e}"))? {
        for c in batch {
            let first = c.first_partition_sequence().ok_or("empty commit")?;
            let last = c.last_partition_sequence().ok_or("empty commit")?;
            next = next.max(last + 1);
            if first >= n0 {
                let tx = ids.get(c.transaction_id()).map(|t| t.to_string()).unwrap_or_else(|| "?".into());
                log.push(format!("{first}:{tx}:{}", c.len()));
            }
        }
    }
    let dash = |v: Vec<String>| if v.is_empty() { "-".to_string() } else { v.join(",") };
    Ok(format!("alive={} ans={} log={} next={next}", alive as u8, dash(ans), dash(log)))
}

pub fn run_cases(cases: &[String]) -> Vec<String> {
    if cases.is_empty() { return Vec::new(); }
    let rt = tokio::runtime::Builder::new_multi_thread().worker_threads(2).enable_all().build().expect("tokio runtime");
    let out = rt.block_on(async {
        let mut env = match setup().await {
            Ok(e) => e,
            Err(e) => return cases.iter().map(|_| format!("HARNESS-ERROR setup: {e}")).collect::<Vec<_>>(),
        };
        let mut out = Vec::new();
        for c in cases {
            out.push(match run_case(&mut env, c).await {
                Ok(o) => o,
                Err(e) => format!("HARNESS-ERROR {e}"),
            });
        }
        env.db.shutdown().await;
        out
    });
    rt.shutdown_timeout(Duration::from_secs(2));
    out
}
