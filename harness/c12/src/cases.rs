//! Case generation for C12. Every choice comes from the seed.
use common::Rng;

/// ops for the bare queues; the generator knows `next` (only `g` moves it) and remembers which keys it
/// has inserted, so that keys cluster around `next`, hit occupied slots (duplicates / conflicts), fall
/// below `next` (stale) and overflow the limit (eviction / full).
fn queue_ops(r: &mut Rng, timed: bool, next0: u64, nops: usize, rid: &mut u64) -> Vec<String> {
    let mut next = next0;
    let mut seen: Vec<u64> = Vec::new();
    let mut ops = Vec::new();
    let insert = |r: &mut Rng, next: u64, seen: &mut Vec<u64>, rid: &mut u64, key: Option<u64>| -> String {
        let key = key.unwrap_or_else(|| match r.below(100) {
            0..=14 => next,
            15..=64 => next + r.range(1, 5),
            65..=74 => next.saturating_sub(r.range(1, 3)),
            75..=92 if !seen.is_empty() => *r.pick(seen),
            _ => next + r.range(1, 9),
        });
        let tx = key * 10 + if r.chance(4, 5) { 0 } else { r.range(1, 2) };
        seen.push(key);
        *rid += 1;
        format!("i,{key},{tx},{}", *rid)
    };
    while ops.len() < nops {
        if timed && r.chance(1, 8) {
            if r.chance(2, 3) {
                ops.push(format!("a,{}", r.pick(&[1u64, 10, 50, 99, 100, 101, 250, 1000])));
            } else {
                ops.push("h".to_string());
            }
            continue;
        }
        match r.below(100) {
            0..=51 => ops.push(insert(r, next, &mut seen, rid, None)),
            52..=63 => ops.push("p".to_string()),
            64..=79 => {
                // forward mostly, onto / past buffered keys; rarely backwards
                let n = if r.chance(1, 30) { next.saturating_sub(1) } else { next + *r.pick(&[0, 1, 1, 1, 2, 2, 3, 5]) };
                next = n;
                ops.push(format!("g,{n}"));
            }
            80..=91 => {
                // the replicator's pattern: a write at `next` of c events, progress past it, pop what is due
                let c = *r.pick(&[1u64, 1, 1, 2, 3, 4]);
                ops.push(insert(r, next, &mut seen, rid, Some(next)));
                next += c;
                ops.push(format!("g,{next}"));
                ops.push("p".to_string());
                if r.chance(1, 2) {
                    next += 1;
                    ops.push(format!("g,{next}"));
                    ops.push("p".to_string());
                }
            }
            _ if timed => {
                if r.chance(2, 3) {
                    ops.push(format!("a,{}", r.pick(&[0u64, 1, 10, 50, 99, 100, 101, 250])));
                } else {
                    ops.push("h".to_string());
                }
            }
            _ => ops.push(insert(r, next, &mut seen, rid, None)),
        }
    }
    ops
}

/// a delivery schedule for the real replicator, derived from a coordinator history (transactions with
/// contiguous sequences from n0) that is reordered, duplicated, and mixed with conflicting, stale,
/// overlapping, rejected and far-ahead writes
fn rep_ops(r: &mut Rng, n0: u64, ntx: usize, waits: bool) -> Vec<String> {
    // (key, tx, cnt, ok)
    let mut hist: Vec<(u64, u64, u64, u8)> = Vec::new();
    let mut key = n0;
    for i in 0..ntx {
        let cnt = *r.pick(&[1u64, 1, 1, 1, 1, 2, 2, 3, 4]);
        hist.push((key, 100 + i as u64, cnt, if r.chance(1, 25) { 0 } else { 1 }));
        key += cnt;
    }
    // reorder: repeatedly take one of the first `w` remaining
    let w = r.range(1, 5) as usize;
    let mut rest = hist.clone();
    let mut sched: Vec<(u64, u64, u64, u8)> = Vec::new();
    while !rest.is_empty() {
        let i = r.below(w.min(rest.len()) as u64) as usize;
        sched.push(rest.remove(i));
        let roll = r.below(100);
        if roll < 12 {
            sched.push(*r.pick(&hist)); // duplicate (possibly stale by now, possibly of something not yet sent)
        } else if roll < 20 {
            let (k, t, _, _) = *r.pick(&hist); // another transaction claims the same sequence
            sched.push((k, t + 500, *r.pick(&[1u64, 1, 2, 3]), 1));
        } else if roll < 27 {
            let (k, t, c, _) = *r.pick(&hist); // a write whose sequence lies inside / right after another one
            sched.push((k + r.range(1, c.max(1)), t + 700, *r.pick(&[1u64, 1, 2]), 1));
        } else if roll < 32 {
            sched.push((key + r.range(0, 6), 900 + r.below(5), 1, 1)); // far ahead: fills the buffer
        } else if roll < 35 && n0 > 0 {
            sched.push((r.below(n0), 950, 1, 1)); // below the start: stale
        }
    }
    let mut ops: Vec<String> = Vec::new();
    // a transaction id has one event count and one verdict: the first use of a number fixes them
    let mut fixed: std::collections::HashMap<u64, (u64, u8)> = std::collections::HashMap::new();
    for (k, t, c, ok) in sched {
        let (c, ok) = *fixed.entry(t).or_insert((c, ok));
        ops.push(format!("d,{k},{t},{c},{ok}"));
        if waits && r.chance(1, 6) {
            ops.push("w,150".to_string());
        }
    }
    if waits {
        ops.push("w,150".to_string());
    }
    ops
}

pub fn generate(thorough: bool, seed: u64) -> Vec<String> {
    let mut r = Rng::new(seed.wrapping_mul(0x2545_F491_4F6C_DD1D) ^ 0xC12);
    let mut out = Vec::new();
    let mut rid = 0u64;
    let (nq, ntq, nrep, nrepw) = if thorough { (6000, 4000, 2400, 60) } else { (700, 500, 220, 8) };
    for i in 0..nq {
        let next0 = *r.pick(&[0u64, 0, 1, 5, 5, 1000]);
        let limit = if i % 7 == 0 { r.range(5, 8) } else { r.range(1, 4) };
        let nops = r.range(3, if thorough { 60 } else { 36 }) as usize;
        rid = 0;
        out.push(format!("q {next0} {limit} {}", queue_ops(&mut r, false, next0, nops, &mut rid).join(" ")));
    }
    for _ in 0..ntq {
        let next0 = *r.pick(&[0u64, 1, 5, 5]);
        let limit = r.range(1, 4);
        let timeout = *r.pick(&[0u64, 1, 100, 100, 100, 1000]);
        let nops = r.range(3, if thorough { 60 } else { 36 }) as usize;
        rid = 0;
        out.push(format!("tq {next0} {limit} {timeout} {}", queue_ops(&mut r, true, next0, nops, &mut rid).join(" ")));
    }
    for i in 0..(nrep + nrepw) {
        let waits = i >= nrep;
        let n0 = *r.pick(&[0u64, 0, 1, 3, 5]);
        let limit = *r.pick(&[1u64, 2, 2, 3, 3, 4]);
        let ntx = r.range(2, if thorough { 12 } else { 8 }) as usize;
        let catchup = if waits { 30 } else { 3_600_000 };
        out.push(format!("rep {n0} {limit} {catchup} {}", rep_ops(&mut r, n0, ntx, waits).join(" ")));
    }
    let _ = rid;
    out
}
