//! C24: distribute_partition(h, n, rf) on the real function.
use common::{Args, Out, Rng, catch, list};
use sierradb_topology::distribute_partition;

pub fn observe(h: u16, n: u16, rf: u8) -> String {
    match catch(|| distribute_partition(h, n, rf)) {
        Some(v) => list(v.iter()),
        None => "PANIC".into(),
    }
}

pub fn run(a: &Args, out: &mut Out) {
    if a.tier == "cases" {
        for line in std::fs::read_to_string(&a.rest[0]).unwrap().lines() {
            let t: Vec<&str> = line.split_whitespace().collect();
            if t.len() == 5 && t[0] == "c24p" {
                let (h, n, r1, r2): (u16, u16, u8, u8) = (t[1].parse().unwrap(), t[2].parse().unwrap(), t[3].parse().unwrap(), t[4].parse().unwrap());
                out.case(&format!("c24p {h} {n} {r1} {r2}"), &format!("{}|{}", observe(h, n, r1), observe(h, n, r2)));
                continue;
            }
            if t.len() != 4 { continue; }
            let (h, n, rf): (u16, u16, u8) = (t[1].parse().unwrap(), t[2].parse().unwrap(), t[3].parse().unwrap());
            out.case(&format!("c24 {h} {n} {rf}"), &observe(h, n, rf));
        }
        return;
    }
    let mut rng = Rng::new(a.seed);
    let rfs: [u8; 8] = [0, 1, 2, 3, 11, 12, 13, 255];
    let mut ns: Vec<u16> = Vec::new();
    if a.tier == "thorough" {
        ns.extend(0..=65535u16);
    } else {
        ns.extend(0..=1200u16);
        for b in [4095u16, 4096, 4097, 21844, 21845, 32767, 32768, 32769, 43688, 43689, 43690, 43691, 65521, 65533, 65534, 65535] { ns.push(b); }
        for _ in 0..1500 { ns.push(rng.range(1201, 65535) as u16); }
    }
    // pairs of replication factors on one (h, n): the result for the smaller one must be a prefix of the other
    let mut pn: Vec<u16> = (0..=(if a.tier == "thorough" { 300 } else { 40 })).collect();
    for b in [255u16, 256, 257, 4096, 21845, 32768, 43690, 65521, 65535] { pn.push(b); }
    for _ in 0..(if a.tier == "thorough" { 2000 } else { 60 }) { pn.push(rng.range(41, 65535) as u16); }
    for &n in &pn {
        let mut hs = vec![0u16, 1, n.wrapping_sub(1), n, 65535, rng.next() as u16];
        if n > 2 { hs.push(n / 2); }
        hs.sort(); hs.dedup();
        for &h in &hs {
            for r1 in 0..=13u8 { for r2 in (r1 + 1)..=14u8 {
                out.case(&format!("c24p {h} {n} {r1} {r2}"), &format!("{}|{}", observe(h, n, r1), observe(h, n, r2)));
            } }
            for r1 in [1u8, 2, 5, 12] { out.case(&format!("c24p {h} {n} {r1} 255"), &format!("{}|{}", observe(h, n, r1), observe(h, n, 255))); }
        }
    }
    for &n in &ns {
        let mut hs = vec![0u16, n.wrapping_sub(1), n, 65535, rng.next() as u16, rng.next() as u16];
        if n > 2 { hs.push(n - 2); }
        hs.sort(); hs.dedup();
        for &h in &hs {
            for &rf in &rfs {
                out.case(&format!("c24 {h} {n} {rf}"), &observe(h, n, rf));
            }
        }
    }
}
