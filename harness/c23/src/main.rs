//! C23: identifiers (crates/sierradb/src/id.rs) and Transaction::new's event-id validation on the real code.
//! UUIDs travel as the decimal u128 of their big-endian bytes. Case lines:
//!   gen <h> <u>            u = an id produced by uuid_v7_with_partition_hash(h) (clock/RNG dependent, recorded here);
//!                          -> <u> hash=<uuid_to_partition_hash> valid=<validate_event_id(u,h)> other=<validate_event_id(u,h^1)>
//!                          (the model re-composes the id from the fields it extracts from u and from h, so `<u>` must agree)
//!   flag <u> <0|1>         -> set=<set_uuid_flag(u,b)> get=<get_uuid_flag(that)> was=<get_uuid_flag(u)> hash=<hash of that>
//!   route <u> <np> <nb>    -> part=<EventRecord{partition_key:u}.primary_partition_id(np)|PANIC> ebucket=<extract_event_id_bucket(u,nb)|PANIC>
//!                             pbucket=<partition_id_to_bucket(part,nb)|PANIC|->
//!   samekey <key> <np> <nb> <ev,ev,...>   events generated for hash(key) (some flagged) -> key=<p>/<b> ev=<p>/<b>,...
//!   txnew <key> <ev,ev,...|->             -> ok flag=<get_uuid_flag(transaction_id)> | empty | invalid
use common::{catch, Args, Out, Rng};
use sierradb::bucket::segment::EventRecord;
use sierradb::database::{NewEvent, Transaction};
use sierradb::error::EventValidationError;
use sierradb::id::*;
use sierradb::StreamId;
use sierradb_protocol::ExpectedVersion;
use smallvec::SmallVec;
use uuid::Uuid;

fn uu(x: u128) -> Uuid { Uuid::from_bytes(x.to_be_bytes()) }
fn un(u: Uuid) -> u128 { u128::from_be_bytes(u.into_bytes()) }
fn opt<T: std::fmt::Display>(o: Option<T>) -> String { o.map(|x| x.to_string()).unwrap_or_else(|| "PANIC".into()) }

fn record(key: Uuid) -> EventRecord {
    EventRecord { offset: 0, event_id: Uuid::nil(), partition_key: key, partition_id: 0, transaction_id: Uuid::nil(), partition_sequence: 0,
        stream_version: 0, timestamp: 0, confirmation_count: 0, stream_id: StreamId::new("s").unwrap(), event_name: "E".into(),
        metadata: vec![], payload: vec![], size: 0 }
}
fn route1(u: Uuid, np: u16, nb: u16) -> (Option<u16>, Option<u16>) {
    let rec = record(u);
    let part = catch(|| rec.primary_partition_id(np));
    let bucket = part.and_then(|p| catch(|| partition_id_to_bucket(p, nb)));
    (part, bucket)
}
fn pb(x: (Option<u16>, Option<u16>)) -> String { format!("{}/{}", opt(x.0), match (x.0, x.1) { (None, _) => "-".to_string(), (_, b) => opt(b) }) }

fn run_case(line: &str) -> Option<String> {
    let t: Vec<&str> = line.split_whitespace().collect();
    Some(match (t.first().copied()?, t.len()) {
        ("gen", 3) => {
            let h: u16 = t[1].parse().ok()?; let u = uu(t[2].parse().ok()?);
            format!("{} hash={} valid={} other={}", un(u), opt(catch(|| uuid_to_partition_hash(u))), opt(catch(|| validate_event_id(u, h))), opt(catch(|| validate_event_id(u, h ^ 1))))
        }
        ("flag", 3) => {
            let u = uu(t[1].parse().ok()?); let b = t[2] == "1";
            match catch(|| set_uuid_flag(u, b)) {
                Some(s) => format!("set={} get={} was={} hash={}", un(s), opt(catch(|| get_uuid_flag(&s))), opt(catch(|| get_uuid_flag(&u))), opt(catch(|| uuid_to_partition_hash(s)))),
                None => "PANIC".into(),
            }
        }
        ("route", 4) => {
            let u = uu(t[1].parse().ok()?); let np: u16 = t[2].parse().ok()?; let nb: u16 = t[3].parse().ok()?;
            let (part, pbucket) = route1(u, np, nb);
            format!("part={} ebucket={} pbucket={}", opt(part), opt(catch(|| extract_event_id_bucket(u, nb))), if part.is_none() { "-".to_string() } else { opt(pbucket) })
        }
        ("samekey", 5) => {
            let key = uu(t[1].parse().ok()?); let np: u16 = t[2].parse().ok()?; let nb: u16 = t[3].parse().ok()?;
            let evs: Vec<u128> = t[4].split(',').map(|x| x.parse().ok()).collect::<Option<_>>()?;
            let e: Vec<String> = evs.iter().map(|&e| pb(route1(uu(e), np, nb))).collect();
            format!("key={} ev={}", pb(route1(key, np, nb)), e.join(","))
        }
        ("txnew", 3) => {
            let key = uu(t[1].parse().ok()?);
            let evs: Vec<u128> = if t[2] == "-" { vec![] } else { t[2].split(',').map(|x| x.parse().ok()).collect::<Option<_>>()? };
            let events: SmallVec<[NewEvent; 4]> = evs.iter().enumerate().map(|(i, &e)| NewEvent { event_id: uu(e), stream_id: StreamId::new(format!("s{i}")).unwrap(),
                stream_version: ExpectedVersion::Any, event_name: "E".into(), timestamp: 0, metadata: vec![], payload: vec![] }).collect();
            match catch(|| Transaction::new(key, 0, events)) {
                None => "PANIC".into(),
                Some(Ok(tx)) => format!("ok flag={}", get_uuid_flag(&tx.transaction_id())),
                Some(Err(EventValidationError::EmptyTransaction)) => "empty".into(),
                Some(Err(EventValidationError::InvalidEventId)) => "invalid".into(),
                Some(Err(e)) => format!("err {e:?}"),
            }
        }
        _ => return None,
    })
}

fn emit(out: &mut Out, line: String) {
    let o = run_case(&line).unwrap_or_else(|| "BADCASE".into());
    out.case(&line, &o);
}
fn rnd128(r: &mut Rng) -> u128 {
    match r.below(6) {
        0 => { let bits = r.range(1, 127); (((r.next() as u128) << 64) | r.next() as u128) & ((1u128 << bits) - 1) }
        1 => !0u128 ^ (1u128 << r.below(128)),
        2 => (1u128 << r.below(128)) | (1u128 << r.below(128)),
        _ => ((r.next() as u128) << 64) | r.next() as u128,
    }
}
/// a seeded value with the version/variant bits of a v4 UUID
fn v4(r: &mut Rng) -> u128 { let x = ((r.next() as u128) << 64) | r.next() as u128; (x & !(0xFu128 << 76) & !(0x3u128 << 62)) | (0x4u128 << 76) | (0x2u128 << 62) }
fn counts(r: &mut Rng) -> u16 {
    match r.below(8) { 0 => 0, 1 => 1, 2 => 2, 3 => 65535, 4 => *r.pick(&[3u16, 4, 8, 16, 32, 64, 100, 256, 1024, 32768, 32769, 65534]), _ => r.range(1, 2000) as u16 }
}
/// an event id for hash h from the real generator, possibly flagged
fn gen_for(r: &mut Rng, h: u16) -> u128 {
    let id = uuid_v7_with_partition_hash(h);
    un(match r.below(3) { 0 => id, 1 => set_uuid_flag(id, true), _ => set_uuid_flag(id, false) })
}

fn main() {
    common::silence_panics();
    let a: Args = common::args();
    let mut out = Out::new();
    if a.tier == "cases" {
        for line in std::fs::read_to_string(&a.rest[0]).unwrap().lines() {
            let line = line.trim(); if line.is_empty() { continue; }
            match run_case(line) { Some(o) => out.case(line, &o), None => out.case(line, "BADCASE") }
        }
        out.flush(); return;
    }
    let thorough = a.tier == "thorough";
    let mut r = Rng::new(a.seed ^ 0xC23);
    // every partition hash, with ids from the real generator
    let per = if thorough { 8 } else { 1 };
    for h in 0..=65535u16 {
        let extra = if matches!(h, 0 | 1 | 255 | 256 | 32767 | 32768 | 65534 | 65535) { 4 } else { 0 };
        for _ in 0..per + extra { let u = un(uuid_v7_with_partition_hash(h)); emit(&mut out, format!("gen {h} {u}")); }
    }
    // flag functions: all single-bit patterns, their complements, boundaries, random
    let mut us: Vec<u128> = vec![0, !0, 1, 1 << 127, (1 << 64) - 1, 1 << 64, (1 << 63) - 1, !(1u128 << 63), 0x7u128 << 64, 0x2u128 << 62, 0xFFFFu128 << 46];
    for i in 0..128 { us.push(1u128 << i); us.push(!(1u128 << i)); us.push((1u128 << i) | (1u128 << 63)); }
    for _ in 0..(if thorough { 200000 } else { 15000 }) { us.push(rnd128(&mut r)); }
    for _ in 0..2000 { us.push(v4(&mut r)); let h = r.next() as u16; us.push(gen_for(&mut r, h)); }
    for &u in &us { emit(&mut out, format!("flag {u} 0")); emit(&mut out, format!("flag {u} 1")); }
    // routing helpers on arbitrary ids and counts
    for _ in 0..(if thorough { 100000 } else { 10000 }) {
        let u = if r.chance(1, 2) { rnd128(&mut r) } else { ((r.next() as u16 as u128) << 46) | (rnd128(&mut r) & !(0xFFFFu128 << 46)) };
        let (np, nb) = (counts(&mut r), counts(&mut r));
        emit(&mut out, format!("route {u} {np} {nb}"));
        if nb > 0 && r.chance(1, 2) { let k = r.range(1, (65535 / nb as u64).max(1)); emit(&mut out, format!("route {u} {} {nb}", (nb as u64 * k) as u16)); }
    }
    // the same partition key -> events generated for its hash (flagged or not) route with the key
    for _ in 0..(if thorough { 60000 } else { 6000 }) {
        let key = if r.chance(1, 2) { un(Uuid::new_v5(&NAMESPACE_PARTITION_KEY, format!("stream-{}", r.next()).as_bytes())) } else { rnd128(&mut r) };
        let h = uuid_to_partition_hash(uu(key));
        let n = r.range(1, 4);
        let evs: Vec<String> = (0..n).map(|_| gen_for(&mut r, h).to_string()).collect();
        emit(&mut out, format!("samekey {key} {} {} {}", counts(&mut r), counts(&mut r), evs.join(",")));
    }
    // Transaction::new
    for _ in 0..(if thorough { 60000 } else { 6000 }) {
        let key = if r.chance(1, 2) { v4(&mut r) } else { rnd128(&mut r) };
        let h = uuid_to_partition_hash(uu(key));
        let n = match r.below(10) { 0 => 0, 1 | 2 | 3 => 1, _ => r.range(2, 5) };
        let bad_tx = r.chance(1, 3);
        let mut evs: Vec<u128> = Vec::new();
        for _ in 0..n {
            let good = gen_for(&mut r, h);
            evs.push(match (bad_tx, r.below(8)) {
                (true, 0) => good ^ (1u128 << (46 + r.below(16))),                 // one hash bit flipped
                (true, 1) => un(uuid_v7_with_partition_hash(h.wrapping_add(1))),
                (true, 2) => rnd128(&mut r),
                (_, 3) => good ^ (1u128 << r.below(46)),                           // non-hash bits flipped: still valid
                (_, 4) => good ^ (1u128 << (62 + r.below(66))),
                (_, 5) => (key & (0xFFFFu128 << 46)) | (rnd128(&mut r) & !(0xFFFFu128 << 46)),   // arbitrary id with the right hash
                _ => good,
            });
        }
        let l = if evs.is_empty() { "-".to_string() } else { evs.iter().map(|x| x.to_string()).collect::<Vec<_>>().join(",") };
        emit(&mut out, format!("txnew {key} {l}"));
    }
    out.flush();
}
