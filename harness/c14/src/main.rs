mod c14;
#[path = "../../c13/src/topo.rs"]
mod topo;
fn main() {
    common::silence_panics();
    let a = common::args();
    let mut out = common::Out::new();
    c14::run(&a, &mut out);
    out.flush();
}
