//! C14 on the real `TopologyManager<ActorId>`.
//!
//! Family "count"  `c14n <N> <B> <P> <rf> <nodes> <parts>`  (`parts` = `*` for every partition)
//!   for every listed node i: a manager of node i (peer i, index i, alive_since 1000+i) that has learnt
//!   all other N-1 nodes.  observed, per node: `i:O=[owned parts];R=[[replica indices of part]..]`
//!   (O from `assigned_partitions`, R from `partition_replicas`, in the manager's order) or `i:PANIC`.
//!
//! Family "order"  `c14o <N> <B> <P> <rf> <members> <script>`
//!   members `idx/alt/alive,...` (peer j = j-th entry; peers are named by ActorId rank), one manager per peer;
//!   script ops `c.m.j` ownership request of j handled by m (on_node_connected; the response m would publish is
//!   recorded), `h.m.j` heartbeat, `x.m.j` heartbeat carrying j's alternative index, `d.m.j` connection closed,
//!   `t.m.j` heartbeat timeout of j at m, `r.m.k` recorded response k (mod #responses) delivered to m.
//!   observed, per manager: `m:A=[peer/alive/idx..];R=[sorted replica sets];V=[coordinator order];RR=..;RV=..`
//!   where RR/RV are the same two observations on a fresh manager of the same node that learnt exactly the
//!   remote members of A by plain connects in ascending order.
use std::collections::HashSet;

use common::{Args, Out, Rng, catch, list};

use crate::topo::{self, Mgr, Peers};

// ---------------------------------------------------------------- count family
fn parse_list(s: &str) -> Vec<u64> {
    s.split(',').filter(|x| !x.is_empty()).filter_map(|x| x.parse().ok()).collect()
}

fn observe_count(peers: &Peers, rng: &mut Rng, n: usize, b: u16, p: u16, rf: u8, nodes: &[u64], parts: &str) -> String {
    let parts: Vec<u16> = if parts == "*" { (0..p).collect() } else { parse_list(parts).iter().map(|&q| q as u16).collect() };
    let mut outs = Vec::new();
    for &i in nodes {
        let i = i as usize;
        if i >= peers.refs.len() { outs.push(format!("{i}:SKIP")); continue; }
        let mut order: Vec<usize> = (0..n).filter(|&j| j != i).collect();
        for k in (1..order.len()).rev() { let r = rng.below(k as u64 + 1) as usize; order.swap(k, r); }
        let r = catch(|| {
            let m = topo::full_manager(peers, i, n, p, b, rf, &order, n > 16);
            let own: Vec<u16> = parts.iter().copied().filter(|q| m.has_partition(*q)).collect();
            let reps: Vec<String> = parts.iter().map(|&q| list(topo::replicas_named(peers, &m, q))).collect();
            format!("{i}:O={};R={}", list(own), list(reps))
        });
        outs.push(r.unwrap_or_else(|| format!("{i}:PANIC")));
    }
    outs.join(" ")
}

// ---------------------------------------------------------------- order family
#[derive(Clone, Copy)]
struct Member { idx: usize, alt: usize, alive: u64 }

fn parse_members(s: &str) -> Vec<Member> {
    s.split(',').filter(|x| !x.is_empty()).map(|e| {
        let t: Vec<u64> = e.split('/').map(|x| x.parse().unwrap_or(0)).collect();
        Member { idx: t[0] as usize, alt: *t.get(1).unwrap_or(&t[0]) as usize, alive: *t.get(2).unwrap_or(&0) }
    }).collect()
}

fn snapshot(peers: &Peers, m: &Mgr, p: u16) -> (String, String) {
    let r: Vec<String> = (0..p).map(|q| list(topo::sorted(topo::replicas_named(peers, m, q)))).collect();
    let v: Vec<String> = (0..p).map(|q| list(topo::available_named(peers, m, q))).collect();
    (list(r), list(v))
}

fn observe_order(peers: &Peers, n: usize, b: u16, p: u16, rf: u8, members: &str, script: &str) -> String {
    let ms = parse_members(members);
    let k = ms.len();
    if k > peers.refs.len() { return "SKIP".into(); }
    let empty: HashSet<u16> = HashSet::new();
    let mut mgrs: Vec<Option<Mgr>> = (0..k).map(|j| catch(|| topo::new_manager(peers, j, ms[j].idx, ms[j].alive, n, p, b, rf))).collect();
    let mut responses: Vec<topo::Resp> = Vec::new();
    for op in script.split(',').filter(|x| !x.is_empty()) {
        let t: Vec<&str> = op.split('.').collect();
        if t.len() != 3 { continue; }
        let (Ok(m), Ok(j)) = (t[1].parse::<usize>(), t[2].parse::<usize>()) else { continue };
        if m >= k { continue; }
        if t[0] == "r" {
            if responses.is_empty() || mgrs[m].is_none() { continue; }
            let (reps, act): &topo::Resp = &responses[j % responses.len()];
            let mut mg = mgrs[m].take().unwrap();
            let ok = catch(move || { mg.handle_ownership_response(reps, act.clone()); mg.ensure_local_partitions(); mg });
            mgrs[m] = ok;
            continue;
        }
        if j >= k || j == m || mgrs[m].is_none() { continue; }
        let mut mg = mgrs[m].take().unwrap();
        let (rj, mj) = (peers.refs[j], ms[j]);
        let pj = peers.peer(j);
        let kind = t[0].to_string();
        let res = catch(|| {
            let mut resp = None;
            match kind.as_str() {
                "c" => { mg.on_node_connected(rj, &empty, mj.alive, mj.idx, n); resp = Some(topo::response_roundtrip(&mg)); }
                "h" => { mg.on_heartbeat(rj, &empty, mj.alive, mj.idx, n); mg.ensure_local_partitions(); }
                "x" => { mg.on_heartbeat(rj, &empty, mj.alive, mj.alt, n); mg.ensure_local_partitions(); }
                "d" => { mg.on_node_disconnected(&pj); }
                "t" => { topo::timeout_peer(peers, &mut mg, j); }
                _ => {}
            }
            (mg, resp)
        });
        match res {
            Some((mg, resp)) => { mgrs[m] = Some(mg); if let Some(r) = resp { responses.push(r); } }
            None => { mgrs[m] = None; }
        }
    }
    let mut outs = Vec::new();
    for m in 0..k {
        let Some(mg) = &mgrs[m] else { outs.push(format!("{m}:PANIC")); continue };
        let mut act: Vec<(usize, u64, usize)> = mg.active_nodes.iter().map(|(pid, (a, i))| (peers.name_of_peer(pid), *a, *i)).collect();
        act.sort();
        let (r, v) = snapshot(peers, mg, p);
        // reference: same node, same members, learnt by plain connects in ascending order
        let refobs = catch(|| {
            let mut f = topo::new_manager(peers, m, mg.local_node_index, mg.alive_since, n, p, b, rf);
            for &(j, a, i) in &act { if j != m { f.on_node_connected(peers.refs[j], &empty, a, i, n); } }
            snapshot(peers, &f, p)
        });
        let (rr, rv) = refobs.unwrap_or_else(|| ("PANIC".into(), "PANIC".into()));
        let a: Vec<String> = act.iter().map(|(j, a, i)| format!("{j}/{a}/{i}")).collect();
        outs.push(format!("{m}:A={};R={r};V={v};RR={rr};RV={rv}", list(a)));
    }
    outs.join(" ")
}

// ---------------------------------------------------------------- generation
fn join(v: impl IntoIterator<Item = impl ToString>) -> String {
    v.into_iter().map(|x| x.to_string()).collect::<Vec<_>>().join(",")
}

fn gen_count(tier: &str, rng: &mut Rng, out: &mut Vec<String>) {
    let thorough = tier == "thorough";
    // every small cluster: N<=8, B<=16, rf in 0..=N+1 and {12,13,255}; P every value <=32 (thorough) or the
    // values around B and 32 (quick); all nodes, all partitions
    for n in 0..=8usize {
        let all_nodes = if n == 0 { "0".to_string() } else { join(0..n) };
        let mut rfs: Vec<u32> = (0..=n as u32 + 1).collect();
        rfs.extend([12, 13, 255]);
        for &rf in &rfs {
            for b in 0..=16u32 {
                let ps: Vec<u32> = if thorough { (0..=32).collect() } else {
                    let mut v = vec![0, 1, 2, b.saturating_sub(1), b, b + 1, 2 * b + 1, 31, 32];
                    v.retain(|&x| x <= 32); v.sort(); v.dedup(); v
                };
                if b == 0 && !(rf <= 1 || rf == n as u32) { continue; }
                for &p in &ps {
                    // on a quick run two nodes of the larger clusters are examined, on a thorough run all
                    let nodes = if thorough || n <= 3 { all_nodes.clone() } else {
                        let a = rng.below(n as u64); let mut c = rng.below(n as u64 - 1); if c >= a { c += 1; }
                        join([a.min(c), a.max(c)])
                    };
                    out.push(format!("c14n {n} {b} {p} {rf} {nodes} *"));
                }
            }
        }
    }
    // the largest bucket/partition counts at the u8 boundary
    out.push("c14n 256 65535 65535 3 0,255 0,1,2,255,256,257,32767,65533,65534".to_string());
    out.push("c14n 257 1000 65535 2 1,256 0,1,2,255,256,257,999,1000,1001,65534".to_string());
    out.push("c14n 300 65535 65535 1 7,299 0,1,2,299,300,301,65534".to_string());
    // boundary cluster sizes (u8 truncation at 256, ArrayVec capacity 12)
    let big_ns: &[usize] = &[9, 11, 12, 13, 14, 16, 17, 31, 64, 128, 254, 255, 256, 257, 258, 299, 300];
    let per_n = if thorough { 30 } else { 9 };
    for &n in big_ns {
        let mut bigp = 0;
        for _ in 0..per_n {
            let r0 = rng.range(1, 12);
            let rf = *rng.pick(&[1u64, 2, 3, 5, 11, 12, 13, 44, 255, n.min(255) as u64, r0]);
            let r1 = rng.range(1, 4 * n as u64);
            let bs = [1u64, 2, n as u64 - 1, n as u64, n as u64 + 1, 2 * n as u64 + 1, 1000, 65535, r1];
            let b = (*rng.pick(&bs)).clamp(1, 65535);
            let r2 = rng.range(1, 3000);
            let mut p = *rng.pick(&[n as u64, b, b + 1, 2 * b + 3, 1024, 65535, r2]);
            p = p.clamp(1, 65535);
            let mut rf = rf;
            let mut b = b;
            // cost control (debug build of the real code walks P x rf, the list-based model P x rf x N):
            // large P only a few times per cluster size and with a small rf; B = 65535 not together with a huge rf
            if p > 2048 {
                bigp += 1;
                if !thorough || bigp > 1 || n <= 16 { p = 1 + p % 2048; } else { rf = 1 + rf % 3; }
            }
            if b > 4096 && rf > 12 { b = 1 + b % 4096; }
            // every connect re-runs calculate_assigned_partitions (B x rf) and the recalculation (P x rf)
            let connects = if n <= 16 { n as u64 } else { 2 };
            let erf = rf.min(n as u64);
            let cost = |b: u64, p: u64| 3 * connects * (b * erf.min(255) + p * (2 + erf.min(12)));
            let cap = if thorough { 6_000_000 } else { 1_500_000 };
            if cost(b, p) > cap { b = 1 + b % 1024; }
            if cost(b, p) > cap { p = 1 + p % 2048; }
            let a = rng.below(n as u64);
            let nodes = [a, (a + 1) % n as u64, (a + rf.min(n as u64)) % n as u64];
            let mut nodes = nodes.to_vec(); nodes.sort(); nodes.dedup();
            if !thorough { nodes.truncate(2); }
            // examined partitions: the first and last few, around multiples of B and N, and random ones
            let mut parts: Vec<u64> = vec![0, 1, 2, p - 1, p.saturating_sub(2), b - 1, b, b + 1, n as u64 - 1, n as u64, n as u64 + 1, 255, 256, 257];
            for _ in 0..40 { parts.push(rng.below(p)); }
            parts.retain(|&q| q < p); parts.sort(); parts.dedup();
            out.push(format!("c14n {n} {b} {p} {rf} {} {}", join(nodes), join(parts)));
        }
    }
}

fn gen_members(rng: &mut Rng, k: usize, n: usize) -> String {
    // distinct indices, distinct alternative indices where the cluster has room for them
    let mut pool: Vec<usize> = (0..n).collect();
    for i in (1..pool.len()).rev() { let r = rng.below(i as u64 + 1) as usize; pool.swap(i, r); }
    let alives = [5u64, 5, 6, 7, 1000];
    (0..k).map(|j| {
        let idx = pool[j];
        let alt = if n >= 2 * k { pool[k + j] } else { idx };
        format!("{idx}/{alt}/{}", rng.pick(&alives))
    }).collect::<Vec<_>>().join(",")
}

fn gen_order(tier: &str, rng: &mut Rng, out: &mut Vec<String>) {
    let thorough = tier == "thorough";
    // (a) every sequence of up to 4 (quick) / 5 (thorough) events from a pool, on a 3-node cluster
    let pool = ["c.0.1", "c.0.2", "h.0.1", "c.1.2", "r.0.0", "t.0.1", "d.0.2", "c.2.1", "r.0.1"];
    let maxlen = if thorough { 5 } else { 4 };
    let worlds = ["3 2 4 2 0/0/5,1/1/5,2/2/6", "3 3 5 3 2/2/7,0/0/5,1/1/5"];
    for (wi, w) in worlds.iter().enumerate() {
        let mut seqs: Vec<Vec<usize>> = vec![vec![]];
        let mut frontier: Vec<Vec<usize>> = vec![vec![]];
        for _ in 0..(if wi == 0 { maxlen } else { maxlen - 1 }) {
            let mut next = Vec::new();
            for s in &frontier { for e in 0..pool.len() { let mut t = s.clone(); t.push(e); next.push(t); } }
            seqs.extend(next.iter().cloned());
            frontier = next;
        }
        for s in seqs { out.push(format!("c14o {w} {}", join(s.iter().map(|&e| pool[e])))); }
    }
    // (b) random longer histories on random small worlds
    let nrand = if thorough { 12000 } else { 1500 };
    for _ in 0..nrand {
        let k = rng.range(2, 5) as usize;
        let n = if rng.chance(1, 3) { k } else { k + rng.below(2 * k as u64 + 2) as usize };
        let b = rng.range(1, 6);
        let p = b + rng.below(7);
        let rf = if rng.chance(1, 12) { *rng.pick(&[0u64, 12, 13, 255]) } else { rng.range(1, 4) };
        let members = gen_members(rng, k, n);
        let len = rng.range(1, 14);
        let mut ops = Vec::new();
        let mut nresp = 0u64;
        for _ in 0..len {
            let m = rng.below(k as u64);
            let mut j = rng.below(k as u64 - 1); if j >= m { j += 1; }
            let kind = match rng.below(20) { 0..=5 => "c", 6..=8 => "h", 9 => "x", 10..=11 => "d", 12..=13 => "t", _ => "r" };
            if kind == "r" {
                if nresp == 0 { ops.push(format!("c.{j}.{m}")); nresp += 1; }
                ops.push(format!("r.{m}.{}", rng.below(nresp)));
            } else {
                if kind == "c" { nresp += 1; }
                ops.push(format!("{kind}.{m}.{j}"));
            }
        }
        out.push(format!("c14o {n} {b} {p} {rf} {members} {}", ops.join(",")));
    }
}

pub fn run(a: &Args, out: &mut Out) {
    let mut rng = Rng::new(a.seed);
    let mut cases: Vec<String> = Vec::new();
    if a.tier == "cases" {
        cases = std::fs::read_to_string(&a.rest[0]).unwrap().lines().map(|l| l.trim().to_string()).filter(|l| !l.is_empty()).collect();
    } else {
        gen_count(&a.tier, &mut rng, &mut cases);
        gen_order(&a.tier, &mut rng, &mut cases);
    }
    let mut need = 8usize;
    for c in &cases {
        let t: Vec<&str> = c.split_whitespace().collect();
        if t.len() >= 2 && t[0] == "c14n" { if let Ok(n) = t[1].parse::<usize>() { if n <= 400 { need = need.max(n); } } }
        if t.len() >= 6 && t[0] == "c14o" { need = need.max(t[5].split(',').count()); }
    }
    let peers = Peers::new(need.max(1));
    for c in cases {
        let t: Vec<&str> = c.split_whitespace().collect();
        let num = |i: usize| t.get(i).and_then(|x| x.parse::<u64>().ok());
        let o = match (t.first().copied(), t.len()) {
            (Some("c14n"), 7) => match (num(1), num(2), num(3), num(4)) {
                (Some(n), Some(b), Some(p), Some(rf)) if n <= 400 && b <= 65535 && p <= 65535 && rf <= 255 =>
                    observe_count(&peers, &mut rng, n as usize, b as u16, p as u16, rf as u8, &parse_list(t[5]), t[6]),
                _ => "SKIP".into(),
            },
            (Some("c14o"), 6) | (Some("c14o"), 7) => match (num(1), num(2), num(3), num(4)) {
                (Some(n), Some(b), Some(p), Some(rf)) if b <= 65535 && p <= 65535 && rf <= 255 =>
                    observe_order(&peers, n as usize, b as u16, p as u16, rf as u8, t[5], t.get(6).copied().unwrap_or("")),
                _ => "SKIP".into(),
            },
            _ => "SKIP".into(),
        };
        out.case(&c, &o);
    }
}
