//! C18 harness: histories of writer operations (append / flush_writer / sync / set_len / compression
//! toggles) interleaved with reads (random, sequential, iteration) and header replacement through
//! long-lived readers (opened at different times, try_clone'd) on ONE real seglog segment.
//! Case line:  `h <H> <size> <start> <op> ; <op> ; ...`     observed: one result per op, `;`-separated.
//!   a <hdr> <data> <stored|->   append (stored = what zstd produced for <data>, oracle for the model)
//!   f | s | l <off> | c <0|1>   flush_writer | sync | set_len | disable/enable compression
//!   n | k <r>                   Reader::open(path, Some(flushed)) | readers[r].try_clone()
//!   r <r> <off> <0|1>           read_record(off, Random|Sequential) through reader r
//!   i <r> <off>                 iterate from off to the end through reader r
//!   p <r> <off> <hdr>           replace_header through reader r
//!   d                           digest of the raw file contents
#[path = "../../c17/src/sl.rs"]
mod sl;
use common::{Args, Out, Rng, catch};
use seglog::read::{ReadHint, Reader};
use seglog::write::{WriteError, Writer};
use sl::*;
use std::os::unix::fs::FileExt;
use std::path::Path;

macro_rules! with_hn {
    ($h:expr, $f:ident ( $($a:expr),* )) => {
        match $h { 1 => $f::<1>($($a),*), 8 => $f::<8>($($a),*), 16 => $f::<16>($($a),*), 32 => $f::<32>($($a),*), _ => panic!("unsupported H") }
    };
}
struct Sys<const H: usize> { w: Writer<H>, readers: Vec<Reader<H>>, path: std::path::PathBuf }

fn iter_str<const H: usize>(rd: &mut Reader<H>, start: u64) -> String {
    let mut it = rd.iter(start);
    let mut parts: Vec<String> = vec![];
    let term;
    loop {
        match it.next_record() {
            Ok(Some(r)) => parts.push(format!("{}@{}", r.offset, rec_str(&r))),
            Ok(None) => { term = "end".to_string(); break; }
            Err(e) => { term = err_str(&e); break; }
        }
    }
    format!("{}^{}", parts.join(","), term)
}

fn exec<const H: usize>(s: &mut Sys<H>, t: &[&str]) -> String {
    match t[0] {
        "a" => { let (hdr, data) = (expand(t[1]), expand(t[2]));
            match s.w.append(&hdr_arr::<H>(&hdr), &data) { Ok((o, l)) => format!("a={o},{l}"), Err(WriteError::SegmentFull { .. }) => "a=full".into(), Err(e) => format!("a=ERR {e}") } }
        "f" => { s.w.flush_writer().expect("flush"); "f".into() }
        "s" => format!("s={}", s.w.sync().expect("sync")),
        "l" => { s.w.set_len(t[1].parse().unwrap()).expect("set_len"); "l".into() }
        "c" => { if t[1] == "1" { s.w.enable_compression() } else { s.w.disable_compression() }; "c".into() }
        "n" => { s.readers.push(Reader::<H>::open(&s.path, Some(s.w.flushed_offset())).expect("open reader")); format!("n={}", s.readers.len() - 1) }
        "k" => { let r: usize = t[1].parse().unwrap(); if r >= s.readers.len() { return "BADREADER".into(); }
            let c = s.readers[r].try_clone().expect("clone"); s.readers.push(c); format!("k={}", s.readers.len() - 1) }
        "r" => { let r: usize = t[1].parse().unwrap(); if r >= s.readers.len() { return "BADREADER".into(); }
            let off: u64 = t[2].parse().unwrap(); let hint = if t[3] == "1" { ReadHint::Sequential } else { ReadHint::Random };
            format!("r={}", res_str(&s.readers[r].read_record(off, hint))) }
        "i" => { let r: usize = t[1].parse().unwrap(); if r >= s.readers.len() { return "BADREADER".into(); }
            format!("i={}", iter_str(&mut s.readers[r], t[2].parse().unwrap())) }
        "p" => { let r: usize = t[1].parse().unwrap(); if r >= s.readers.len() { return "BADREADER".into(); }
            let hdr = expand(t[3]);
            match s.readers[r].replace_header(t[2].parse().unwrap(), hdr_arr::<H>(&hdr)) { Ok(()) => "p=ok".into(), Err(e) => format!("p={}", err_str(&e)) } }
        "d" => { let len = s.w.file().metadata().expect("meta").len() as usize; let mut b = vec![0u8; len];
            s.w.file().read_exact_at(&mut b, 0).expect("read file"); format!("d={}", digest(&b)) }
        _ => "BADOP".into(),
    }
}

fn new_sys<const H: usize>(dir: &Path, size: usize, start: u64) -> Sys<H> {
    let path = dir.join("h.seg");
    let _ = std::fs::remove_file(&path);
    Sys { w: Writer::<H>::create(&path, size, start).expect("create"), readers: vec![], path }
}

/// re-run a recorded history
fn replay<const H: usize>(dir: &Path, size: usize, start: u64, ops: &[Vec<&str>]) -> String {
    let mut s = new_sys::<H>(dir, size, start);
    let mut outs = vec![];
    for op in ops { outs.push(catch(|| exec(&mut s, op)).unwrap_or_else(|| format!("{}=PANIC", op[0]))); }
    outs.join(";")
}

struct Plan { size: usize, start: u64, n_ops: usize, big: bool, allow_low_setlen: bool, allow_foreign_replace: bool, allow_mid_setlen: bool, comp_bias: bool }

/// generate a history adaptively while running it; returns (case line, observed)
fn generate<const H: usize>(dir: &Path, rng: &mut Rng, plan: &Plan) -> (String, String) {
    let mut s = new_sys::<H>(dir, plan.size, plan.start);
    let mut ops: Vec<String> = vec![];
    let mut outs: Vec<String> = vec![];
    // what the generator knows (only used to aim the ops; never part of the verdict)
    let mut bounds: Vec<u64> = vec![plan.start];          // every offset an append ever returned, plus ends
    let mut live: Vec<(u64, usize)> = vec![];              // current records (offset, len)
    let mut woff = plan.start;
    let mut seq_readers: Vec<bool> = vec![];               // reader i did a sequential read / iteration
    let mut cached_end: u64 = 0;                           // highest flushed value seen by any sequential read
    let mut comp = false;
    let hdr_of = |rng: &mut Rng| -> String { let v: Vec<u8> = (0..H).map(|_| rng.below(256) as u8).collect(); format!("x{}", hex(&v)) };
    let step = |s: &mut Sys<H>, op: String, ops: &mut Vec<String>, outs: &mut Vec<String>| -> String {
        let toks: Vec<&str> = op.split_whitespace().collect();
        let o = catch(|| exec(s, &toks)).unwrap_or_else(|| format!("{}=PANIC", toks[0]));
        ops.push(op.clone()); outs.push(o.clone()); o
    };
    // a reader from the start in most histories
    if rng.chance(3, 4) { step(&mut s, "n".into(), &mut ops, &mut outs); seq_readers.push(false); }
    for _ in 0..plan.n_ops {
        let flushed = s.w.flushed_offset().load();
        let nr = seq_readers.len();
        let pick_off = |rng: &mut Rng, bounds: &Vec<u64>, live: &Vec<(u64, usize)>| -> u64 {
            match rng.below(20) {
                0 => rng.below(plan.size as u64 + 16),
                1 => u64::MAX - rng.below(9),
                2 => { let b = *rng.pick(bounds); b.wrapping_add(rng.below(9)).wrapping_sub(4) }
                3..=6 => *rng.pick(bounds),
                _ => if live.is_empty() { *rng.pick(bounds) } else { rng.pick(live).0 },
            }
        };
        let k = rng.below(100);
        if k < 30 {
            // append
            let n = if plan.big && rng.chance(1, 6) { *rng.pick(&[2040usize, 2048, 2049, 4090, 4097, 16380, 16384, 20000, 65530, 65536, 70000]) + rng.below(8) as usize }
                    else if rng.chance(1, 4) { 120 + rng.below(200) as usize } else { rng.below(60) as usize };
            let data = if n <= 24 { let v: Vec<u8> = (0..n).map(|_| if rng.chance(1, 5) { 0 } else { rng.below(256) as u8 }).collect(); format!("x{}", hex(&v)) }
                       else if rng.chance(1, 30) { format!("z{n}") }
                       else if rng.chance(2, 3) { format!("t{}:{n}", rng.below(1 << 30)) } else { format!("r{}:{n}", rng.below(1 << 30)) };
            let stored = if comp && n >= 128 { format!("x{}", hex(&compress_oracle(dir, &expand(&data)))) } else { "-".into() };
            let o = step(&mut s, format!("a {} {data} {stored}", hdr_of(rng)), &mut ops, &mut outs);
            if let Some((a, b)) = o.strip_prefix("a=").and_then(|x| x.split_once(',')) {
                let (off, len): (u64, usize) = (a.parse().unwrap(), b.parse().unwrap());
                live.push((off, len)); bounds.push(off); bounds.push(off + len as u64); woff = off + len as u64;
            }
        } else if k < 42 { step(&mut s, "s".into(), &mut ops, &mut outs); }
        else if k < 46 { step(&mut s, "f".into(), &mut ops, &mut outs); }
        else if k < 53 {
            // set_len: mostly to a record boundary at or above everything a reader may have cached
            let mut cands: Vec<u64> = live.iter().map(|r| r.0).filter(|&o| o < woff && (plan.allow_low_setlen || o >= cached_end)).collect();
            if plan.allow_mid_setlen && rng.chance(1, 3) && woff > plan.start { let o = plan.start + rng.below(woff - plan.start); if plan.allow_low_setlen || o >= cached_end { cands = vec![o]; } }
            if rng.chance(1, 10) { cands.push(woff + rng.below(20)); }          // no-op branch
            if !cands.is_empty() {
                let o = *rng.pick(&cands);
                step(&mut s, format!("l {o}"), &mut ops, &mut outs);
                if o < woff { live.retain(|r| r.0 + r.1 as u64 <= o); woff = o; bounds.push(o); }
            }
        } else if k < 57 { comp = if plan.comp_bias { !rng.chance(1, 4) } else { rng.chance(1, 2) }; step(&mut s, format!("c {}", comp as u8), &mut ops, &mut outs); }
        else if k < 61 { step(&mut s, "n".into(), &mut ops, &mut outs); seq_readers.push(false); }
        else if k < 64 { if nr > 0 { let r = rng.below(nr as u64); step(&mut s, format!("k {r}"), &mut ops, &mut outs); seq_readers.push(false); } }
        else if k < 86 {
            if nr > 0 { let extra = if rng.chance(1, 50) { 2 } else { 0 }; let r = rng.below(nr as u64 + extra) as usize; let off = pick_off(rng, &bounds, &live); let seq = rng.chance(2, 3);
                step(&mut s, format!("r {r} {off} {}", seq as u8), &mut ops, &mut outs);
                if seq && r < nr { seq_readers[r] = true; cached_end = cached_end.max(flushed); } }
        } else if k < 92 {
            if nr > 0 { let r = rng.below(nr as u64) as usize; let off = if rng.chance(1, 2) { plan.start } else { pick_off(rng, &bounds, &live) };
                step(&mut s, format!("i {r} {off}"), &mut ops, &mut outs); seq_readers[r] = true; cached_end = cached_end.max(flushed); }
        } else if k < 97 {
            if nr > 0 { let r = rng.below(nr as u64) as usize;
                let others_cached = seq_readers.iter().enumerate().any(|(i, &c)| c && i != r);
                if plan.allow_foreign_replace || !others_cached {
                    let off = pick_off(rng, &bounds, &live);
                    step(&mut s, format!("p {r} {off} {}", hdr_of(rng)), &mut ops, &mut outs); } }
        } else { step(&mut s, "d".into(), &mut ops, &mut outs); }
    }
    // closing sweep: sync, then every reader reads every live record both ways and iterates from the start
    step(&mut s, "s".into(), &mut ops, &mut outs);
    let nr = seq_readers.len();
    for r in 0..nr.min(4) {
        for &(off, _) in live.iter().rev().take(6) { let seq = rng.chance(1, 2); step(&mut s, format!("r {r} {off} {}", seq as u8), &mut ops, &mut outs); }
        step(&mut s, format!("i {r} {}", plan.start), &mut ops, &mut outs);
    }
    step(&mut s, "d".into(), &mut ops, &mut outs);
    (format!("h {H} {} {} {}", plan.size, plan.start, ops.join(" ; ")), outs.join(";"))
}

/// Deterministic layout (sizes from the seed, shape fixed): a record B that straddles a 64 KiB read-ahead window
/// boundary is read sequentially, so the reader's buffer grows PAST the window end (rounded up to 4 KiB); the
/// header of a record C inside that cached tail is then replaced through the SAME reader and C is read again
/// (Sequential, iteration, Random) before anything forces a refill; finally through a reader opened afterwards.
fn window_tail<const H: usize>(dir: &Path, rng: &mut Rng, k: u64, via_iter: bool, comp_c: bool) -> (String, String) {
    let w = 65536 * k;
    let start = *rng.pick(&[0u64, 16, 64]);
    let size = (w + 40_000) as usize;
    let mut s = new_sys::<H>(dir, size, start);
    let mut ops: Vec<String> = vec![];
    let mut outs: Vec<String> = vec![];
    let mut step = |s: &mut Sys<H>, op: String| -> String {
        let toks: Vec<&str> = op.split_whitespace().collect();
        let o = catch(|| exec(s, &toks)).unwrap_or_else(|| format!("{}=PANIC", toks[0]));
        ops.push(op.clone()); outs.push(o.clone()); o
    };
    let hdr = |rng: &mut Rng| -> String { let v: Vec<u8> = (0..H).map(|_| rng.below(256) as u8).collect(); format!("x{}", hex(&v)) };
    step(&mut s, "n".into());
    // fillers up to d bytes before the window boundary
    let d = 9 + rng.below(1500);
    let mut off = start;
    let target = w - d;
    while off < target {
        let room = target - off;
        let total = if room > 40_000 + 2 * (8 + H as u64) { 20_000 + rng.below(20_000) } else { room };
        if total < 8 + H as u64 { break; }
        let n = total - 8 - H as u64;
        let o = step(&mut s, format!("a {} r{}:{n} -", hdr(rng), rng.below(1 << 30)));
        if !o.starts_with("a=") || o == "a=full" { break; }
        off += total;
    }
    let off_b = off;
    // B straddles the boundary; its end leaves room for C inside the 4 KiB-rounded tail
    let mut nb = d + 10 + rng.below(1500);
    let end_b = |nb: u64| off_b + 8 + H as u64 + nb;
    while (end_b(nb) - (w - 65536)) % 4096 > 4096 - 600 { nb += 97; }
    step(&mut s, format!("a {} t{}:{nb} -", hdr(rng), rng.below(1 << 30)));
    let off_c = end_b(nb);
    if comp_c { step(&mut s, "c 1".into()); }
    let nc = if comp_c { 128 + rng.below(120) } else { rng.below(60) };
    let data_c = format!("t{}:{nc}", rng.below(1 << 30));
    let stored = if comp_c { format!("x{}", hex(&compress_oracle(dir, &expand(&data_c)))) } else { "-".into() };
    step(&mut s, format!("a {} {data_c} {stored}", hdr(rng)));
    if comp_c { step(&mut s, "c 0".into()); }
    step(&mut s, format!("a {} x{} -", hdr(rng), hex(&[1, 2, 3])));
    step(&mut s, "s".into());
    if via_iter { step(&mut s, format!("i 0 {start}")); } else { step(&mut s, format!("r 0 {off_b} 1")); }
    step(&mut s, format!("p 0 {off_c} {}", hdr(rng)));
    step(&mut s, format!("r 0 {off_c} 1"));
    step(&mut s, format!("i 0 {off_b}"));
    step(&mut s, format!("r 0 {off_c} 0"));
    step(&mut s, format!("p 0 {off_c} {}", hdr(rng)));
    step(&mut s, format!("i 0 {off_c}"));
    step(&mut s, "n".into());
    step(&mut s, format!("r 1 {off_c} 1"));
    step(&mut s, "d".into());
    (format!("h {H} {size} {start} {}", ops.join(" ; ")), outs.join(";"))
}

fn run_line(dir: &Path, line: &str) -> String {
    let t: Vec<&str> = line.split_whitespace().collect();
    if t.len() < 4 || t[0] != "h" { return "BADCASE".into(); }
    let h: usize = t[1].parse().unwrap();
    let (size, start): (usize, u64) = (t[2].parse().unwrap(), t[3].parse().unwrap());
    let rest = t[4..].join(" ");
    let ops: Vec<Vec<&str>> = rest.split(';').map(|o| o.split_whitespace().collect::<Vec<&str>>()).filter(|o| !o.is_empty()).collect();
    with_h!(h, replay(dir, size, start, &ops))
}

fn main() {
    common::silence_panics();
    let a: Args = common::args();
    let mut out = Out::new();
    let dir = tempfile::tempdir().expect("tempdir");
    if a.tier == "cases" {
        for line in std::fs::read_to_string(&a.rest[0]).expect("cases file").lines().filter(|l| !l.trim().is_empty()) {
            let o = catch(|| run_line(dir.path(), line)).unwrap_or_else(|| "PANIC".into());
            out.case(line, &o);
        }
    } else {
        let thorough = a.tier == "thorough";
        let mut rng = Rng::new(a.seed);
        // the window-tail layout, a few per run in every tier
        let n_layout = if thorough { 16 } else { 4 };
        for i in 0..n_layout {
            let h = [8usize, 16, 1, 32][i % 4];
            let (k, via_iter, comp_c) = (1 + (i as u64 / 4) % 2, i % 2 == 1, i % 3 == 2);
            let mut r2 = rng.fork();
            match catch(|| with_hn!(h, window_tail(dir.path(), &mut r2, k, via_iter, comp_c))) {
                Some((c, o)) => out.case(&c, &o),
                None => out.case(&format!("h {h} 105536 0 n"), "PANIC"),
            }
        }
        let n_hist = if thorough { 2400 } else { 316 };
        for i in 0..n_hist {
            let h = [0usize, 8, 1, 16, 32][i % 5];
            let big = i % 8 == 3;
            let plan = Plan {
                size: if big { 400_000 } else { *rng.pick(&[300usize, 1000, 5000, 70_000, 140_000]) },
                start: *rng.pick(&[0u64, 0, 16, 64]),
                n_ops: if big { 40 } else { 20 + rng.below(if thorough { 140 } else { 70 }) as usize },
                big,
                allow_low_setlen: i % 5 == 4,
                allow_foreign_replace: i % 7 == 6,
                allow_mid_setlen: i % 6 == 5,
                comp_bias: i % 3 == 0,
            };
            // a panic while generating (the real code is running) is an observation, not a harness crash
            let mut r2 = rng.fork();
            match catch(|| with_h!(h, generate(dir.path(), &mut r2, &plan))) {
                Some((c, o)) => out.case(&c, &o),
                None => out.case(&format!("h {h} {} {} n", plan.size, plan.start), "PANIC"),
            }
        }
    }
    out.flush();
}
