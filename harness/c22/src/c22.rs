//! C22: the RESP API of a single node, on a real `Server` over a real single-node `ClusterActor` (rf 1).
//!
//! A case is one command HISTORY run over one TCP connection against a fresh database:
//!   c22 P=<partitions> B=<buckets> strict=<0|1> K=<h0,h1,..> D=<n:h,n:h,..> :: <cmd> ; <cmd> ; ...
//! K = 16-bit partition hash embedded in partition key k<j>; D = partition hash of the default partition key
//! (uuid v5 of the name) of stream st<n> (computed with the real functions; an input of the model).
//! Commands (symbolic; the harness renders them to RESP3 arrays of bulk strings):
//!   A  st<n> [id=e<i>h<hash>] [pk=k<j>] [xv=any|exists|empty|<n>] [ts=<ms>] [pl=<len>] [md=<len>]        EAPPEND
//!   M  k<j> st<n> [id=..] [xv=..] [ts=..] [pl=..] [md=..] , st<m> ..                                    EMAPPEND
//!   G  e<i>h<hash> | g<n>                                                                              EGET (g<n> = n-th generated id)
//!   S  st<n> <start> <end> [pk=k<j>] [n=<count>]      start/end = number | - | +                       ESCAN
//!   P  <pid>|k<j> <start> <end> [n=<count>]                                                            EPSCAN
//!   V  st<n> [pk=k<j>]                                                                                 ESVER
//!   Q  <pid>|k<j>                                                                                      EPSEQ
//!   U  <pid>                                                                                            EPSUB <pid> FROM 0 on a second connection; the pushed events up to the last confirmed one
//!   X  <raw words>      sent verbatim (%k<j> = uuid of key j, %empty, %long, %nul, %e<i>h<hash>); a request outside the grammar
//!   A~ / M~             the same append, but the NEXT command is sent before the confirmation is awaited
//! After every successful append the harness waits (polling EPSEQ) until the partition's confirmed sequence has
//! reached the appended one; after every error reply it sends PING and records whether the connection still answers.
//! Observed: the canonicalised replies joined by " | " (uuids -> symbols, clock timestamps -> T, event bodies
//! compared with what was sent -> body=ok, transaction ids -> t<n> = the n-th accepted append when all events of
//! that append, and only they, carry the uuid).
use common::{Args, Out, Rng};
use kameo::actor::{ActorRef, Spawn};
use libp2p::identity::Keypair;
use sierradb::database::DatabaseBuilder;
use sierradb::id::{NAMESPACE_PARTITION_KEY, uuid_to_partition_hash};
use sierradb_cluster::{ClusterActor, ClusterArgs, ResetCluster};
use sierradb_server::server::Server;
use std::collections::{BTreeMap, HashMap, HashSet};
use std::io::{Read, Write};
use std::net::TcpStream;
use std::time::{Duration, Instant, SystemTime, UNIX_EPOCH};
use tokio_util::sync::CancellationToken;
use uuid::Uuid;

// ------------------------------------------------------------------ RESP3 client
#[derive(Debug, Clone, PartialEq)]
enum V { Simple(String), Err(String), Int(i64), Blob(Vec<u8>), Arr(Vec<V>), Map(Vec<(V, V)>), Null, Bool(bool), Dbl(String), Push(Vec<V>) }

struct Client { s: TcpStream, buf: Vec<u8>, pos: usize }
#[derive(Debug)]
enum NetErr { Lost, Timeout, Proto(String) }

impl Client {
    fn connect(port: u16) -> Option<Client> {
        for _ in 0..200 {
            if let Ok(s) = TcpStream::connect(("127.0.0.1", port)) {
                s.set_nodelay(true).ok();
                s.set_read_timeout(Some(Duration::from_secs(30))).ok();
                return Some(Client { s, buf: Vec::new(), pos: 0 });
            }
            std::thread::sleep(Duration::from_millis(25));
        }
        None
    }
    fn send(&mut self, words: &[Vec<u8>]) -> Result<(), NetErr> {
        let mut m = format!("*{}\r\n", words.len()).into_bytes();
        for w in words { m.extend_from_slice(format!("${}\r\n", w.len()).as_bytes()); m.extend_from_slice(w); m.extend_from_slice(b"\r\n"); }
        self.s.write_all(&m).map_err(|_| NetErr::Lost)?;
        self.s.flush().map_err(|_| NetErr::Lost)
    }
    fn fill(&mut self) -> Result<(), NetErr> {
        let mut tmp = [0u8; 65536];
        match self.s.read(&mut tmp) {
            Ok(0) => Err(NetErr::Lost),
            Ok(n) => { self.buf.extend_from_slice(&tmp[..n]); Ok(()) }
            Err(e) if e.kind() == std::io::ErrorKind::WouldBlock || e.kind() == std::io::ErrorKind::TimedOut => Err(NetErr::Timeout),
            Err(_) => Err(NetErr::Lost),
        }
    }
    fn line(&mut self) -> Result<String, NetErr> {
        loop {
            if let Some(i) = self.buf[self.pos..].windows(2).position(|w| w == b"\r\n") {
                let l = String::from_utf8_lossy(&self.buf[self.pos..self.pos + i]).to_string();
                self.pos += i + 2;
                return Ok(l);
            }
            self.fill()?;
        }
    }
    fn bytes(&mut self, n: usize) -> Result<Vec<u8>, NetErr> {
        while self.buf.len() < self.pos + n + 2 { self.fill()?; }
        let b = self.buf[self.pos..self.pos + n].to_vec();
        self.pos += n + 2;
        Ok(b)
    }
    fn value(&mut self) -> Result<V, NetErr> {
        let l = self.line()?;
        let (t, r) = l.split_at(1.min(l.len()));
        let num = |r: &str| r.parse::<i64>().map_err(|_| NetErr::Proto(format!("bad length {r}")));
        Ok(match t {
            "+" => V::Simple(r.to_string()),
            "-" => V::Err(r.to_string()),
            ":" => V::Int(num(r)?),
            "(" => V::Simple(r.to_string()),
            "," => V::Dbl(r.to_string()),
            "#" => V::Bool(r == "t"),
            "_" => V::Null,
            "$" | "=" => { let n = num(r)?; if n < 0 { V::Null } else { V::Blob(self.bytes(n as usize)?) } }
            "!" => { let n = num(r)?; V::Err(String::from_utf8_lossy(&self.bytes(n as usize)?).to_string()) }
            "*" | "~" | ">" => {
                let n = num(r)?;
                if n < 0 { V::Null } else {
                    let mut v = Vec::new();
                    for _ in 0..n { v.push(self.value()?); }
                    if t == ">" { V::Push(v) } else { V::Arr(v) }
                }
            }
            "%" | "|" => {
                let n = num(r)?;
                let mut v = Vec::new();
                for _ in 0..n { let k = self.value()?; let x = self.value()?; v.push((k, x)); }
                if t == "|" { return self.value(); }
                V::Map(v)
            }
            _ => return Err(NetErr::Proto(format!("unknown RESP type in {l:?}"))),
        })
    }
    fn reply(&mut self) -> Result<V, NetErr> {
        let v = self.value();
        if self.pos == self.buf.len() { self.buf.clear(); self.pos = 0; }
        v
    }
    fn call(&mut self, words: &[Vec<u8>]) -> Result<V, NetErr> { self.send(words)?; self.reply() }
}

fn w(s: &str) -> Vec<u8> { s.as_bytes().to_vec() }

// ------------------------------------------------------------------ symbols <-> concrete values
const BASE: u128 = 0x0c22_0000_0000_4000_8000_0000_0000_0000;
fn key_uuid(j: u64, hash: u16) -> Uuid { Uuid::from_u128(BASE | ((hash as u128) << 46) | (1u128 << 40) | j as u128) }
fn eid_uuid(i: u64, hash: u16) -> Uuid { Uuid::from_u128(BASE | ((hash as u128) << 46) | (2u128 << 40) | i as u128) }
fn stream_name(n: u64) -> String { format!("st{n}") }
fn default_key(n: u64) -> Uuid { Uuid::new_v5(&NAMESPACE_PARTITION_KEY, stream_name(n).as_bytes()) }

#[derive(Clone, Debug)]
struct Header { p: u16, b: u16, strict: bool, keys: Vec<u16>, dflt: BTreeMap<u64, u16> }

fn parse_header(h: &str) -> Option<Header> {
    let mut hd = Header { p: 0, b: 0, strict: false, keys: vec![], dflt: BTreeMap::new() };
    for t in h.split_whitespace() {
        if t == "c22" { continue; }
        let (k, v) = t.split_once('=')?;
        match k {
            "P" => hd.p = v.parse().ok()?,
            "B" => hd.b = v.parse().ok()?,
            "strict" => hd.strict = v == "1",
            "K" => hd.keys = if v.is_empty() { vec![] } else { v.split(',').map(|x| x.parse().ok()).collect::<Option<_>>()? },
            "D" => for e in v.split(',').filter(|e| !e.is_empty()) { let (n, hh) = e.split_once(':')?; hd.dflt.insert(n.parse().ok()?, hh.parse().ok()?); },
            _ => return None,
        }
    }
    if hd.p == 0 || hd.b == 0 { return None; }
    Some(hd)
}

fn parse_eid(t: &str) -> Option<(u64, u16)> { let r = t.strip_prefix('e')?; let (i, h) = r.split_once('h')?; Some((i.parse().ok()?, h.parse().ok()?)) }

/// what the harness sent for an event, to compare with what reads return
#[derive(Clone, Debug, PartialEq)]
struct Body { name: String, payload: Vec<u8>, meta: Vec<u8>, ts: Option<u64>, stream: String }

struct Session {
    hd: Header,
    keys: HashMap<Uuid, String>,          // uuid -> k<j> / d<n>
    eids: HashMap<Uuid, String>,          // uuid -> e<i>h<h> / g<n>
    gens: Vec<Uuid>,                      // generated ids in order of first appearance
    appends: usize,                       // accepted appends so far = the ordinal of the next transaction
    ev_append: HashMap<Uuid, usize>,      // event id -> ordinal of the append that created it
    tx_by_append: HashMap<usize, Uuid>,   // the transaction id seen on events of that append
    append_by_tx: HashMap<Uuid, usize>,
    bodies: HashMap<Uuid, Body>,
    pending: Vec<Body>,                   // bodies of the append in flight (event order)
    t0: u64,
}

fn now_ms() -> u64 { SystemTime::now().duration_since(UNIX_EPOCH).unwrap().as_millis() as u64 }

impl Session {
    fn new(hd: Header) -> Session {
        let mut keys = HashMap::new();
        for (j, h) in hd.keys.iter().enumerate() { keys.insert(key_uuid(j as u64, *h), format!("k{j}")); }
        for n in hd.dflt.keys() { keys.insert(default_key(*n), format!("d{n}")); }
        Session { hd, keys, eids: HashMap::new(), gens: vec![], appends: 0, ev_append: HashMap::new(), tx_by_append: HashMap::new(), append_by_tx: HashMap::new(), bodies: HashMap::new(), pending: vec![], t0: now_ms() }
    }
    fn key_of(&self, t: &str) -> Option<Uuid> { let j: usize = t.strip_prefix('k')?.parse().ok()?; Some(key_uuid(j as u64, *self.hd.keys.get(j)?)) }
    fn sym_key(&self, s: &str) -> String { s.parse::<Uuid>().ok().and_then(|u| self.keys.get(&u).cloned()).unwrap_or_else(|| format!("?{s}")) }
    fn sym_eid(&mut self, s: &str) -> (String, Option<Uuid>) {
        let Ok(u) = s.parse::<Uuid>() else { return (format!("?{s}"), None) };
        if let Some(x) = self.eids.get(&u) { return (x.clone(), Some(u)); }
        let g = format!("g{}", self.gens.len());
        self.gens.push(u); self.eids.insert(u, g.clone());
        (g, Some(u))
    }
    /// the transaction id of an event: `t<n>` = the n-th accepted append, provided all events of that append (and
    /// only they) carry this uuid
    fn sym_tx(&mut self, s: &str, event: Option<Uuid>) -> String {
        let Ok(u) = s.parse::<Uuid>() else { return format!("?{s}") };
        let Some(n) = event.and_then(|e| self.ev_append.get(&e).copied()) else { return "t?".into() };
        let a = *self.tx_by_append.entry(n).or_insert(u);
        let b = *self.append_by_tx.entry(u).or_insert(n);
        if a == u && b == n { format!("t{n}") } else { format!("tMISMATCH{n}") }
    }
    fn sym_ts(&self, ms: i64, sent: Option<Option<u64>>) -> String {
        match sent {
            Some(Some(x)) => if ms as u64 == x { format!("{ms}") } else { format!("{ms}!sent{x}") },
            _ => { let n = now_ms() as i64; if ms >= self.t0 as i64 - 5_000 && ms <= n + 5_000 { "T".into() } else { format!("{ms}") } }
        }
    }
}

fn field<'a>(m: &'a [(V, V)], k: &str) -> Option<&'a V> { m.iter().find(|(a, _)| matches!(a, V::Simple(s) if s == k) || matches!(a, V::Blob(b) if b == k.as_bytes())).map(|(_, v)| v) }
fn txt(v: Option<&V>) -> String { match v { Some(V::Simple(s)) => s.clone(), Some(V::Blob(b)) => String::from_utf8_lossy(b).to_string(), Some(V::Int(i)) => i.to_string(), Some(V::Null) => "null".into(), Some(V::Bool(b)) => (*b as u8).to_string(), Some(o) => format!("{o:?}"), None => "MISSING".into() } }
fn int(v: Option<&V>) -> i64 { match v { Some(V::Int(i)) => *i, _ => i64::MIN } }
fn raw(v: Option<&V>) -> Vec<u8> { match v { Some(V::Blob(b)) => b.clone(), Some(V::Simple(s)) => s.as_bytes().to_vec(), _ => b"<MISSING>".to_vec() } }

fn err_code(msg: &str) -> String {
    let f = msg.split_whitespace().next().unwrap_or("");
    if !f.is_empty() && f.chars().all(|c| c.is_ascii_uppercase()) { f.to_string() } else { format!("other:{}", msg.split_whitespace().take(3).collect::<Vec<_>>().join("_")) }
}

impl Session {
    fn canon_event(&mut self, v: &V) -> String {
        let V::Map(m) = v else { return format!("BADEVENT({v:?})") };
        let (id, idu) = self.sym_eid(&txt(field(m, "event_id")));
        let pk = self.sym_key(&txt(field(m, "partition_key")));
        let tx = self.sym_tx(&txt(field(m, "transaction_id")), idu);
        let st = txt(field(m, "stream_id"));
        let body = match idu.and_then(|u| self.bodies.get(&u).cloned()) {
            None => "unknown".to_string(),
            Some(b) => {
                let ts_ok = match b.ts { Some(x) => int(field(m, "timestamp")) as u64 == x, None => self.sym_ts(int(field(m, "timestamp")), None) == "T" };
                if b.name.as_bytes() == raw(field(m, "event_name")).as_slice() && b.payload == raw(field(m, "payload")) && b.meta == raw(field(m, "metadata")) && b.stream == st && ts_ok { "ok".into() }
                else { format!("MISMATCH(name={} ts={})", txt(field(m, "event_name")), txt(field(m, "timestamp"))) }
            }
        };
        format!("ev(id={id} pk={pk} pid={} tx={tx} seq={} ver={} st={st} body={body})", int(field(m, "partition_id")), int(field(m, "partition_sequence")), int(field(m, "stream_version")))
    }
    fn canon_scan(&mut self, v: &V) -> String {
        let V::Map(m) = v else { return format!("BADSCAN({v:?})") };
        let more = match field(m, "has_more") { Some(V::Bool(b)) => *b as u8, _ => 9 };
        let evs: Vec<String> = match field(m, "events") { Some(V::Arr(a)) => a.clone().iter().map(|e| self.canon_event(e)).collect(), _ => vec!["BADEVENTS".into()] };
        format!("more={more} [{}]", evs.join(";"))
    }
    /// returns (canonical reply, Some((pid, last sequence)) for a successful append)
    fn canon(&mut self, kind: char, v: &V) -> (String, Option<(u16, u64)>) {
        if let V::Err(e) = v { return (format!("ERR {}", err_code(e)), None); }
        match kind {
            'A' => {
                let V::Map(m) = v else { return (format!("BADREPLY({v:?})"), None) };
                let (id, idu) = self.sym_eid(&txt(field(m, "event_id")));
                let b = self.pending.first().cloned();
                if let (Some(u), Some(b)) = (idu, b.clone()) { self.bodies.insert(u, b); }
                if let Some(u) = idu { self.ev_append.insert(u, self.appends); }
                self.appends += 1;
                let ts = self.sym_ts(int(field(m, "timestamp")), b.map(|b| b.ts));
                let (pid, seq) = (int(field(m, "partition_id")), int(field(m, "partition_sequence")));
                (format!("ok id={id} pk={} pid={pid} seq={seq} ver={} ts={ts}", self.sym_key(&txt(field(m, "partition_key"))), int(field(m, "stream_version"))), Some((pid as u16, seq as u64)))
            }
            'M' => {
                let V::Map(m) = v else { return (format!("BADREPLY({v:?})"), None) };
                let mut evs = Vec::new();
                if let Some(V::Arr(a)) = field(m, "events") {
                    for (i, e) in a.clone().iter().enumerate() {
                        let V::Map(em) = e else { evs.push("BADINFO".into()); continue };
                        let (id, idu) = self.sym_eid(&txt(field(em, "event_id")));
                        let b = self.pending.get(i).cloned();
                        if let (Some(u), Some(b)) = (idu, b.clone()) { self.bodies.insert(u, b); }
                        if let Some(u) = idu { self.ev_append.insert(u, self.appends); }
                        let ts = self.sym_ts(int(field(em, "timestamp")), b.map(|b| b.ts));
                        evs.push(format!("{id}/{}/{}/{ts}", txt(field(em, "stream_id")), int(field(em, "stream_version"))));
                    }
                } else { evs.push("BADEVENTS".into()); }
                self.appends += 1;
                let (pid, first, last) = (int(field(m, "partition_id")), int(field(m, "first_partition_sequence")), int(field(m, "last_partition_sequence")));
                (format!("ok pk={} pid={pid} first={first} last={last} [{}]", self.sym_key(&txt(field(m, "partition_key"))), evs.join(",")), Some((pid as u16, last as u64)))
            }
            'G' => (match v { V::Null => "null".into(), e => self.canon_event(e) }, None),
            'S' | 'P' => (self.canon_scan(v), None),
            'V' | 'Q' => (match v { V::Null => "null".into(), V::Int(i) => i.to_string(), o => format!("BADREPLY({o:?})") }, None),
            _ => (match v { V::Simple(s) => format!("simple:{s}"), o => format!("REPLY({o:?})") }, None),
        }
    }

    /// render a symbolic command to wire words; also fills `pending` for appends
    fn render(&mut self, hidx: usize, cidx: usize, t: &[&str]) -> Option<Vec<Vec<u8>>> {
        self.pending.clear();
        let kind = t[0].trim_end_matches('~');
        let sel = |s: &Session, x: &str| -> Option<Vec<u8>> { if x.starts_with('k') { Some(w(&s.key_of(x)?.to_string())) } else { Some(w(x)) } };
        let mut out: Vec<Vec<u8>> = Vec::new();
        let bytes = |len: usize, salt: u64| -> Vec<u8> { (0..len).map(|i| b'a' + ((i as u64 * 7 + salt + hidx as u64 + cidx as u64 * 3) % 26) as u8).collect() };
        match kind {
            "A" | "M" => {
                let mut i = 1;
                if kind == "A" { out.push(w("EAPPEND")); } else { out.push(w("EMAPPEND")); out.push(w(&self.key_of(t.get(1)?)?.to_string())); i = 2; }
                let mut evn = 0;
                while i < t.len() {
                    let n: u64 = t[i].strip_prefix("st")?.parse().ok()?;
                    let name = format!("E{cidx}x{evn}");
                    let mut b = Body { name: name.clone(), payload: vec![], meta: vec![], ts: None, stream: stream_name(n) };
                    out.push(w(&stream_name(n))); out.push(w(&name));
                    i += 1;
                    while i < t.len() && t[i] != "," {
                        let (k, v) = t[i].split_once('=')?;
                        match k {
                            "id" => { let (ii, h) = parse_eid(v)?; let u = eid_uuid(ii, h); self.eids.entry(u).or_insert_with(|| v.to_string()); out.push(w("EVENT_ID")); out.push(w(&u.to_string())); }
                            "pk" => { out.push(w("PARTITION_KEY")); out.push(w(&self.key_of(v)?.to_string())); }
                            "xv" => { out.push(w("EXPECTED_VERSION")); out.push(w(v)); }
                            "ts" => { out.push(w("TIMESTAMP")); out.push(w(v)); b.ts = v.parse().ok(); }
                            "pl" => { let p = bytes(v.parse().ok()?, 1); out.push(w("PAYLOAD")); out.push(p.clone()); b.payload = p; }
                            "md" => { let p = bytes(v.parse().ok()?, 11); out.push(w("METADATA")); out.push(p.clone()); b.meta = p; }
                            _ => return None,
                        }
                        i += 1;
                    }
                    if i < t.len() { i += 1; }
                    self.pending.push(b);
                    evn += 1;
                }
            }
            "G" => {
                out.push(w("EGET"));
                let x = t.get(1)?;
                let u = if let Some(n) = x.strip_prefix('g') { let n: usize = n.parse().ok()?; self.gens.get(n).copied().unwrap_or_else(|| eid_uuid(1_000_000 + n as u64, 0)) }
                        else { let (i, h) = parse_eid(x)?; let u = eid_uuid(i, h); self.eids.entry(u).or_insert_with(|| x.to_string()); u };
                out.push(w(&u.to_string()));
            }
            "S" => {
                out.push(w("ESCAN"));
                let n: u64 = t.get(1)?.strip_prefix("st")?.parse().ok()?;
                out.push(w(&stream_name(n))); out.push(w(t.get(2)?)); out.push(w(t.get(3)?));
                for o in &t[4..] { let (k, v) = o.split_once('=')?; match k { "pk" => { out.push(w("PARTITION_KEY")); out.push(w(&self.key_of(v)?.to_string())); } "n" => { out.push(w("COUNT")); out.push(w(v)); } _ => return None } }
            }
            "P" => {
                out.push(w("EPSCAN")); out.push(sel(self, t.get(1)?)?); out.push(w(t.get(2)?)); out.push(w(t.get(3)?));
                for o in &t[4..] { let (k, v) = o.split_once('=')?; if k == "n" { out.push(w("COUNT")); out.push(w(v)); } else { return None } }
            }
            "V" => {
                out.push(w("ESVER"));
                let n: u64 = t.get(1)?.strip_prefix("st")?.parse().ok()?;
                out.push(w(&stream_name(n)));
                for o in &t[2..] { let (k, v) = o.split_once('=')?; if k == "pk" { out.push(w("PARTITION_KEY")); out.push(w(&self.key_of(v)?.to_string())); } else { return None } }
            }
            "Q" => { out.push(w("EPSEQ")); out.push(sel(self, t.get(1)?)?); }
            "X" => {
                for x in &t[1..] {
                    out.push(match *x {
                        "%empty" => vec![], "%long" => vec![b'a'; 65], "%nul" => b"a\0b".to_vec(),
                        x if x.starts_with("%k") => w(&self.key_of(&x[1..])?.to_string()),
                        x if x.starts_with("%e") => { let (i, h) = parse_eid(&x[1..])?; w(&eid_uuid(i, h).to_string()) }
                        x => w(x),
                    });
                }
            }
            _ => return None,
        }
        Some(out)
    }
}

/// EPSUB <pid> FROM 0 on a connection of its own: the events pushed up to the partition's last confirmed sequence
fn subscribe(ss: &mut Session, cl: &mut Option<Client>, port: u16, t: &[&str]) -> String {
    let Some(pid) = t.get(1).and_then(|x| x.parse::<u16>().ok()) else { return "BADCASE".into() };
    if cl.is_none() { *cl = Client::connect(port); }
    let last = match cl.as_mut().map(|c| c.call(&[w("EPSEQ"), w(&pid.to_string())])) {
        Some(Ok(V::Int(i))) => Some(i),
        Some(Ok(V::Null)) => None,
        Some(Ok(V::Err(e))) => return format!("ERR {}", err_code(&e)),
        _ => return "LOST".into(),
    };
    let Some(mut sc) = Client::connect(port) else { return "NOCONNECTION".into() };
    sc.s.set_read_timeout(Some(Duration::from_secs(20))).ok();
    if sc.send(&[w("EPSUB"), w(&pid.to_string()), w("FROM"), w("0")]).is_err() { return "LOST".into(); }
    let mut evs: Vec<String> = Vec::new();
    let mut subscribed = false;
    let mut note = String::new();
    loop {
        if subscribed && last.map(|l| evs.len() as i64 > l).unwrap_or(true) { break; }
        match sc.reply() {
            Ok(V::Simple(_)) => {}                                   // the subscription id
            Ok(V::Err(e)) => return format!("ERR {}", err_code(&e)),
            Ok(V::Push(p)) => {
                match p.first() {
                    Some(V::Simple(k)) if k == "subscribe" => subscribed = true,
                    Some(V::Simple(k)) if k == "message" => {
                        let cursor = match p.get(2) { Some(V::Int(i)) => *i, _ => -1 };
                        let e = p.get(3).map(|e| ss.canon_event(e)).unwrap_or_else(|| "BADEVENT".into());
                        if !e.contains(&format!(" seq={cursor} ")) { note = format!(" +CURSOR{cursor}"); }
                        evs.push(e);
                    }
                    _ => { note = format!(" +PUSH({p:?})"); break; }
                }
            }
            Ok(o) => { note = format!(" +UNEXPECTED({o:?})"); break; }
            Err(NetErr::Timeout) => { note = " +TIMEOUT".into(); break; }
            Err(_) => { note = " +LOST".into(); break; }
        }
    }
    format!("sub [{}]{note}", evs.join(";"))
}

/// run one history over one connection; returns the observed line
fn run_history(hidx: usize, port: u16, hd: &Header, cmds: &[Vec<&str>]) -> String {
    let mut ss = Session::new(hd.clone());
    let mut cl = Client::connect(port);
    let mut obs: Vec<String> = Vec::new();
    let mut wait: Option<(u16, u64)> = None;     // an unquiesced append to await after the next command
    let quiesce = |cl: &mut Option<Client>, pid: u16, seq: u64| -> bool {
        let t = Instant::now();
        while t.elapsed() < Duration::from_secs(20) {
            let Some(c) = cl.as_mut() else { return false };
            match c.call(&[w("EPSEQ"), w(&pid.to_string())]) {
                Ok(V::Int(i)) if i as u64 >= seq => return true,
                Ok(_) => std::thread::sleep(Duration::from_micros(300)),
                Err(_) => { *cl = Client::connect(port); }
            }
        }
        false
    };
    for (cidx, t) in cmds.iter().enumerate() {
        if t.is_empty() { continue; }
        let kind = t[0].chars().next().unwrap_or('?');
        if kind == 'U' {
            obs.push(subscribe(&mut ss, &mut cl, port, t));
            if let Some((pid, seq)) = wait.take() { if !quiesce(&mut cl, pid, seq) { if let Some(l) = obs.last_mut() { l.push_str(" +NOTCONFIRMED"); } } }
            continue;
        }
        let Some(words) = ss.render(hidx, cidx, t) else { obs.push("BADCASE".into()); continue };
        if cl.is_none() { cl = Client::connect(port); }
        let Some(c) = cl.as_mut() else { obs.push("NOCONNECTION".into()); continue };
        let mut o = match c.call(&words) {
            Ok(v) => {
                let (s, app) = ss.canon(kind, &v);
                let mut s = s;
                if matches!(v, V::Err(_)) {
                    // the connection must stay usable after an error reply
                    match c.call(&[w("PING")]) { Ok(V::Simple(p)) if p == "PONG" => s.push_str(" +alive"), Ok(o) => s.push_str(&format!(" +PING={o:?}")), Err(_) => { s.push_str(" +DEAD"); cl = None; } }
                }
                let prev = wait.take();
                if let Some((pid, seq)) = app {
                    if t[0].ends_with('~') { wait = Some((pid, seq)); }
                    else if !quiesce(&mut cl, pid, seq) { s.push_str(" +NOTCONFIRMED"); }
                }
                if let Some((pid, seq)) = prev { if !quiesce(&mut cl, pid, seq) { s.push_str(" +NOTCONFIRMED"); } }
                s
            }
            Err(NetErr::Lost) => { cl = None; "LOST".to_string() }
            Err(NetErr::Timeout) => { cl = None; "NOREPLY".to_string() }
            Err(NetErr::Proto(p)) => { cl = None; format!("PROTO({p})") }
        };
        if o.contains('\t') || o.contains('\n') { o = o.replace(['\t', '\n'], " "); }
        obs.push(o);
    }
    obs.join(" | ")
}

fn split_case(line: &str) -> Option<(Header, Vec<Vec<&str>>)> {
    let (h, c) = line.split_once("::")?;
    let hd = parse_header(h)?;
    let cmds: Vec<Vec<&str>> = c.split(" ; ").map(|x| x.split_whitespace().collect::<Vec<_>>()).filter(|v| !v.is_empty()).collect();
    Some((hd, cmds))
}

// ------------------------------------------------------------------ child: one (P,B) configuration per process
fn child(a: &Args, out: &mut Out) {
    let lines: Vec<String> = std::fs::read_to_string(&a.rest[0]).unwrap().lines().map(|l| l.trim().to_string()).filter(|l| !l.is_empty()).collect();
    let Some((hd0, _)) = lines.first().and_then(|l| split_case(l)) else { return };
    // C22_TRACE=<filter> prints the node's tracing output to stderr (debugging aid; see C22_LOUD)
    if let Ok(f) = std::env::var("C22_TRACE") {
        let _ = tracing_subscriber::fmt().with_env_filter(tracing_subscriber::EnvFilter::new(f)).with_writer(std::io::stderr).try_init();
    }
    let (p, b) = (hd0.p, hd0.b);
    let rt = tokio::runtime::Builder::new_multi_thread().worker_threads(4).enable_all().build().unwrap();
    let mk_db = |dir: &std::path::Path| DatabaseBuilder::new().segment_size_bytes(1024 * 1024).total_buckets(b).bucket_ids_from_range(0..b)
        .reader_threads(2).writer_threads(b.min(2)).open(dir);
    let mut keep = Vec::new();
    let dir = tempfile::tempdir().unwrap();
    let db = { let _g = rt.enter(); mk_db(dir.path()).unwrap() };
    let cluster: ActorRef<ClusterActor> = rt.block_on(async {
        let c = ClusterActor::spawn(ClusterArgs {
            keypair: Keypair::generate_ed25519(), database: db.clone(), listen_addrs: vec![],
            node_count: 1, node_index: 0, bucket_count: b, partition_count: p, replication_factor: 1,
            assigned_partitions: HashSet::from_iter(0..p),
            heartbeat_timeout: Duration::from_millis(1_000), heartbeat_interval: Duration::from_millis(6_000),
            replication_buffer_size: 1_000, replication_buffer_timeout: Duration::from_millis(8_000),
            replication_catchup_timeout: Duration::from_millis(2_000), mdns: false,
        });
        c.wait_for_startup().await;
        c
    });
    let caches = db.reader_pool().caches().clone();
    keep.push((dir, db));
    let shutdown = CancellationToken::new();
    let mut ports = [0u16; 2];
    // Ports below the ephemeral range (nobody's bind(0) lands there), derived from our pid; `listen` returns at once
    // when the port is taken, in which case the next candidate is tried. A port counts as ours only when it accepts
    // connections while our listen task is still running.
    let mut cand = 10_000u32 + (std::process::id() % 11_000) * 2;
    for (i, strict) in [false, true].into_iter().enumerate() {
        let mut ok = false;
        for _ in 0..200 {
            let port = (10_000 + (cand - 10_000) % 22_000) as u16;
            cand += 1;
            let srv = Server::new(cluster.clone(), caches.clone(), p, 1 << 20, strict, shutdown.clone());
            let h = rt.spawn(async move { srv.listen(("127.0.0.1", port)).await.map(|_| ()) });
            let t = Instant::now();
            let mut up = false;
            while t.elapsed() < Duration::from_secs(20) && !h.is_finished() {
                if TcpStream::connect(("127.0.0.1", port)).is_ok() { up = true; break; }
                std::thread::sleep(Duration::from_millis(10));
            }
            std::thread::sleep(Duration::from_millis(30));
            if up && !h.is_finished() { ports[i] = port; ok = true; break; }
            h.abort();
        }
        if !ok { eprintln!("c22: no free port for the server"); out.flush(); std::process::exit(3); }
    }
    let mut first = true;
    for (hidx, l) in lines.iter().enumerate() {
        let Some((hd, cmds)) = split_case(l) else { out.case(l, "BADCASE"); continue };
        if hd.p != p || hd.b != b { out.case(l, "BADCASE"); continue; }
        // D is an input of the model: it must be what the real hash of the default key gives
        if hd.dflt.iter().any(|(n, h)| uuid_to_partition_hash(default_key(*n)) != *h) { out.case(l, "BADCASE"); continue; }
        if !first {
            let dir = tempfile::tempdir().unwrap();
            let db = { let _g = rt.enter(); mk_db(dir.path()).unwrap() };
            if let Err(e) = rt.block_on(async { cluster.ask(ResetCluster { database: db.clone() }).await }) { eprintln!("c22: reset failed: {e}"); out.flush(); std::process::exit(3); }
            // the previous database is dropped once its successor is installed
            if let Some((d, old)) = keep.pop() { rt.block_on(old.shutdown()); drop(d); }
            keep.push((dir, db));
        }
        first = false;
        let o = run_history(hidx, ports[hd.strict as usize], &hd, &cmds);
        out.case(l, &o);
    }
    out.flush();
    std::process::exit(0);
}

fn run_lines(a: &Args, lines: &[String], out: &mut Out) {
    let mut by_cfg: BTreeMap<(u16, u16, usize), Vec<&String>> = BTreeMap::new();
    let mut bad = Vec::new();
    // several children per configuration so that a long run uses the cores
    let mut rr: HashMap<(u16, u16), usize> = HashMap::new();
    let shards = if lines.len() > 60 { 4 } else { 2 };
    for l in lines {
        match split_case(l) {
            Some((hd, _)) => { let k = rr.entry((hd.p, hd.b)).or_insert(0); by_cfg.entry((hd.p, hd.b, *k % shards)).or_default().push(l); *k += 1; }
            None => bad.push(l),
        }
    }
    for l in bad { out.case(l, "BADCASE"); }
    let exe = std::env::current_exe().unwrap();
    let tmp = tempfile::tempdir().unwrap();
    let mut kids = Vec::new();
    for ((p, b, s), ls) in &by_cfg {
        let f = tmp.path().join(format!("p{p}b{b}s{s}.cases"));
        let mut wf = std::fs::File::create(&f).unwrap();
        for l in ls { writeln!(wf, "{l}").unwrap(); }
        let k = std::process::Command::new(&exe).args([&a.prop, "child", &a.seed.to_string()]).arg(&f)
            .stdout(std::process::Stdio::piped()).stderr(std::process::Stdio::piped()).spawn().unwrap();
        kids.push(((*p, *b, *s), k));
    }
    let mut failed = false;
    for (cfg, k) in kids {
        let o = k.wait_with_output().unwrap();
        if std::env::var_os("C22_LOUD").is_some() { eprintln!("{}", String::from_utf8_lossy(&o.stderr)); }
        if !o.status.success() {
            let e = String::from_utf8_lossy(&o.stderr);
            eprintln!("c22: child {cfg:?} failed ({:?}): {}", o.status, &e[e.len().saturating_sub(1500)..]);
            failed = true;
        }
        for line in String::from_utf8_lossy(&o.stdout).lines() {
            if let Some((c, ob)) = line.split_once('\t') { out.case(c, ob); }
        }
    }
    if failed { out.flush(); std::process::exit(3); }
}

// ------------------------------------------------------------------ generator
struct Gen { rng: Rng, hd: Header, streams: Vec<u64>, ver: HashMap<(u64, String), u64>, nexp: u64, ngen: u64, used: Vec<String>, seqs: HashMap<u16, u64> }

const TS_BOUNDARY: &[u64] = &[0, 1, 999, 1_700_000_000_000, 9_223_372_036_853, 9_223_372_036_854, 9_223_372_036_855, 18_446_744_073_709, 18_446_744_073_710, 4_611_686_018_427_387_904, 9_223_372_036_854_775_807, 9_223_372_036_854_775_808, u64::MAX];

impl Gen {
    fn new(seed: u64, p: u16, b: u16, strict: bool) -> Gen {
        let mut rng = Rng::new(seed);
        // stream numbers: a few per history; their default partition is whatever the real hash gives
        let ns = rng.range(2, 5);
        let mut streams: Vec<u64> = Vec::new();
        while (streams.len() as u64) < ns { let n = rng.below(400); if !streams.contains(&n) { streams.push(n); } }
        let dflt: BTreeMap<u64, u16> = streams.iter().map(|n| (*n, uuid_to_partition_hash(default_key(*n)))).collect();
        // keys: k0,k1 share a partition; k2 shares k0's bucket but (if possible) not its partition; k3.. random; one equals a default key's partition
        let h0 = rng.below(65536) as u16;
        let mut keys = vec![h0, ((h0 as u32 + p as u32 * rng.range(1, 3) as u32) % 65536) as u16];
        let lcm = { let (mut x, mut y) = (p as u32, b as u32); while y != 0 { let t = x % y; x = y; y = t; } (p as u32 * b as u32) / x };
        keys.push(((h0 as u32 + b as u32 * rng.range(1, 3) as u32) % 65536) as u16);
        keys.push(rng.below(65536) as u16);
        keys.push(*dflt.values().next().unwrap());
        let _ = lcm;
        Gen { rng, hd: Header { p, b, strict, keys, dflt }, streams, ver: HashMap::new(), nexp: 0, ngen: 0, used: vec![], seqs: HashMap::new() }
    }
    fn header(&self) -> String {
        format!("c22 P={} B={} strict={} K={} D={}", self.hd.p, self.hd.b, self.hd.strict as u8,
            self.hd.keys.iter().map(|h| h.to_string()).collect::<Vec<_>>().join(","),
            self.hd.dflt.iter().map(|(n, h)| format!("{n}:{h}")).collect::<Vec<_>>().join(","))
    }
    fn stream(&mut self) -> u64 { *self.rng.pick(&self.streams.clone()) }
    fn key(&mut self) -> usize { self.rng.below(self.hd.keys.len() as u64) as usize }
    fn hash_of(&self, pk: &str, st: u64) -> u16 { if let Some(j) = pk.strip_prefix('k') { self.hd.keys[j.parse::<usize>().unwrap()] } else { self.hd.dflt[&st] } }
    /// an expected-version token, mostly one that will be accepted
    fn xv(&mut self, st: u64, pk: &str, inflight: &BTreeMap<u64, u64>) -> Option<String> {
        let cur = inflight.get(&st).copied().or_else(|| self.ver.get(&(st, pk.to_string())).copied());
        let strict = self.hd.strict;
        let r = self.rng.below(20);
        Some(match (r, cur) {
            (0, _) if !strict => return None,
            (1, _) => "any".into(),
            (2, _) => "exists".into(),
            (3, _) => "empty".into(),
            (4, Some(c)) => (c + 1).to_string(),
            (4, None) => "0".into(),
            (5, _) => self.rng.pick(&[0u64, 1, 7, u64::MAX, 1 << 63]).to_string(),
            (6, _) if !strict => "ANY".into(),
            (_, Some(c)) => if !strict && self.rng.chance(1, 3) { self.rng.pick(&["any", "exists"]).to_string() } else { c.to_string() },
            (_, None) => if !strict && self.rng.chance(1, 3) { "any".into() } else { "empty".into() },
        })
    }
    fn opts(&mut self, st: u64, pk: &str, h: u16, inflight: &BTreeMap<u64, u64>, with_pk: Option<&str>) -> String {
        let mut o = Vec::new();
        if self.rng.chance(1, 3) {
            // an explicit event id: usually with the key's hash, sometimes a wrong one, sometimes one used by a rejected append
            let hh = if self.rng.chance(1, 8) { h.wrapping_add(self.rng.range(1, 9) as u16) } else { h };
            let i = self.nexp; self.nexp += 1;
            o.push(format!("id=e{i}h{hh}"));
            self.used.push(format!("e{i}h{hh}"));
        }
        if let Some(k) = with_pk { o.push(format!("pk={k}")); }
        if let Some(x) = self.xv(st, pk, inflight) { o.push(format!("xv={x}")); }
        if self.rng.chance(1, 4) {
            let ts = if self.rng.chance(2, 3) { *self.rng.pick(TS_BOUNDARY) } else { self.rng.below(2_000_000_000_000) };
            o.push(format!("ts={ts}"));
        }
        if self.rng.chance(2, 3) { o.push(format!("pl={}", self.rng.pick(&[0u64, 1, 5, 40, 300]))); }
        if self.rng.chance(1, 4) { o.push(format!("md={}", self.rng.pick(&[0u64, 3, 17]))); }
        // the server accepts the options in any order
        if self.rng.chance(1, 3) { let n = o.len(); if n > 1 { let i = self.rng.below(n as u64) as usize; o.swap(0, i); } }
        o.join(" ")
    }
    fn bump(&mut self, st: u64, pk: &str) { let e = self.ver.entry((st, pk.to_string())).or_insert(u64::MAX); *e = e.wrapping_add(1); }
    fn append(&mut self) -> String {
        let st = self.stream();
        // most appends of a stream use its usual key (default or a fixed explicit one), some a different key
        let usual = if st % 2 == 0 { None } else { Some(format!("k{}", st as usize % self.hd.keys.len())) };
        let pk = if self.rng.chance(1, 10) { Some(format!("k{}", self.key())) } else { usual };
        let pkname = pk.clone().unwrap_or_else(|| format!("d{st}"));
        let h = self.hash_of(&pkname, st);
        let o = self.opts(st, &pkname, h, &BTreeMap::new(), pk.as_deref());
        self.bump(st, &pkname);
        *self.seqs.entry(h % self.hd.p).or_insert(0) += 1;
        let tilde = if self.rng.chance(1, 6) { "~" } else { "" };
        format!("A{tilde} st{st} {o}").trim_end().to_string()
    }
    fn mappend(&mut self) -> String {
        let j = self.key();
        let pk = format!("k{j}");
        let h = self.hd.keys[j];
        let n = match self.rng.below(10) { 0..=3 => 1, 4..=6 => 2, 7 | 8 => 3, _ => self.rng.range(4, 7) };
        let mut inflight: BTreeMap<u64, u64> = BTreeMap::new();
        let mut evs = Vec::new();
        for _ in 0..n {
            // repeated streams inside one transaction are the interesting case
            let st = if !evs.is_empty() && self.rng.chance(1, 2) { *self.rng.pick(&inflight.keys().copied().collect::<Vec<_>>()) } else { self.stream() };
            let o = self.opts(st, &pk, h, &inflight, None);
            let cur = inflight.get(&st).copied().or_else(|| self.ver.get(&(st, pk.clone())).copied());
            inflight.insert(st, cur.map(|c| c + 1).unwrap_or(0));
            evs.push(format!("st{st} {o}").trim_end().to_string());
        }
        for (st, v) in inflight { self.ver.insert((st, pk.clone()), v); }
        *self.seqs.entry(h % self.hd.p).or_insert(0) += n;
        let tilde = if self.rng.chance(1, 6) { "~" } else { "" };
        format!("M{tilde} {pk} {}", evs.join(" , "))
    }
    fn pos(&mut self, hi: u64) -> String {
        match self.rng.below(14) { 0 => "-".into(), 1 => "+".into(), 2 => u64::MAX.to_string(), 3 => (hi + 1).to_string(), 4 => hi.to_string(), 5 => "0".into(), _ => self.rng.below(hi + 2).to_string() }
    }
    fn count(&mut self) -> String {
        match self.rng.below(8) { 0 => String::new(), 1 => " n=0".into(), 2 => " n=1".into(), 3 => format!(" n={}", u64::MAX), 4 => " n=100".into(), _ => format!(" n={}", self.rng.range(1, 6)) }
    }
    fn read(&mut self) -> String {
        let st = self.stream();
        let usual = if st % 2 == 0 { None } else { Some(format!("k{}", st as usize % self.hd.keys.len())) };
        let pk = if self.rng.chance(1, 8) { Some(format!("k{}", self.key())) } else { usual };
        let pkname = pk.clone().unwrap_or_else(|| format!("d{st}"));
        let pko = pk.map(|k| format!(" pk={k}")).unwrap_or_default();
        let sv = self.ver.get(&(st, pkname.clone())).copied().map(|v| v.wrapping_add(1)).unwrap_or(0);
        let psel = |g: &mut Gen| -> (String, u64) {
            if g.rng.chance(1, 2) { let j = g.key(); (format!("k{j}"), g.seqs.get(&(g.hd.keys[j] % g.hd.p)).copied().unwrap_or(0)) }
            else { let pid = match g.rng.below(12) { 0 => g.hd.p as u64, 1 => 65535, _ => g.rng.below(g.hd.p as u64) }; (pid.to_string(), g.seqs.get(&(pid as u16)).copied().unwrap_or(0)) }
        };
        match self.rng.below(10) {
            0 | 1 | 2 => { let (s, e, c) = (self.pos(sv), self.pos(sv), self.count()); let (s, e) = if self.rng.chance(2, 3) && s == "+" { ("-".to_string(), e) } else { (s, e) }; format!("S st{st} {s} {e}{pko}{c}") }
            3 | 4 | 5 => { let (p, hi) = psel(self); let (s, e, c) = (self.pos(hi), self.pos(hi), self.count()); format!("P {p} {s} {e}{c}") }
            6 => format!("V st{st}{pko}"),
            7 => { let (p, _) = psel(self); if self.rng.chance(1, 4) && !p.starts_with('k') && p.parse::<u16>().map(|x| x < self.hd.p).unwrap_or(false) { format!("U {p}") } else { format!("Q {p}") } }
            _ => {
                if !self.used.is_empty() && self.rng.chance(1, 2) { format!("G {}", self.rng.pick(&self.used.clone())) }
                else if self.rng.chance(1, 6) { format!("G e{}h{}", 900 + self.rng.below(50), self.rng.below(65536)) }
                else { let g = self.rng.below(self.ngen + 2); format!("G g{g}") }
            }
        }
    }
    fn malformed(&mut self) -> String {
        let st = self.stream();
        let k = self.key();
        let e = format!("%e{}h{}", 800 + self.rng.below(20), self.hd.keys[k]);
        let t: Vec<String> = vec![
            "EAPPEND".into(), format!("EAPPEND st{st}"), format!("EAPPEND st{st} E EVENT_ID not-a-uuid"), format!("EAPPEND st{st} E EXPECTED_VERSION maybe"),
            format!("EAPPEND st{st} E TIMESTAMP -5"), format!("EAPPEND st{st} E TIMESTAMP 18446744073709551616"), format!("EAPPEND st{st} E TIMESTAMP 12 TIMESTAMP 13"),
            format!("EAPPEND st{st} E PAYLOAD a PAYLOAD b"), format!("EAPPEND st{st} E PAYLOAD"), "EAPPEND %empty E".into(), "EAPPEND %long E".into(), "EAPPEND %nul E".into(),
            format!("EAPPEND st{st} E BOGUS 1"), format!("EAPPEND st{st} E EXPECTED_VERSION 1 EXPECTED_VERSION 1"), format!("EAPPEND st{st} E PARTITION_KEY zzz"),
            "EMAPPEND".into(), format!("EMAPPEND notuuid st{st} E"), format!("EMAPPEND %k{k}"), format!("EMAPPEND %k{k} st{st}"), format!("EMAPPEND %k{k} st{st} E EVENT_ID 12"),
            format!("EMAPPEND %k{k} st{st} E TIMESTAMP x"), format!("EMAPPEND %k{k} %empty E"), format!("EMAPPEND %k{k} st{st} E PAYLOAD"), format!("EMAPPEND %k{k} st{st} E METADATA a METADATA b"),
            "EGET".into(), "EGET nope".into(), format!("EGET {e} extra"),
            format!("ESCAN st{st}"), format!("ESCAN st{st} 0"), format!("ESCAN st{st} a b"), format!("ESCAN st{st} 0 5 COUNT x"), format!("ESCAN st{st} 0 5 COUNT 1 COUNT 2"), format!("ESCAN st{st} 0 -1"),
            format!("ESCAN st{st} 0 5 PARTITION_KEY %k{k} PARTITION_KEY %k{k}"), "ESCAN %empty 0 5".into(),
            "EPSCAN".into(), "EPSCAN 70000 0 5".into(), "EPSCAN 1 0".into(), "EPSCAN 1 0 5 COUNT".into(), "EPSCAN x 0 5".into(), "EPSCAN 1 0 5 COUNT 3 COUNT 3".into(),
            "ESVER".into(), format!("ESVER st{st} PARTITION_KEY zzz"), format!("ESVER st{st} extra"), "EPSEQ".into(), "EPSEQ x".into(), "EPSEQ 1 2".into(), "EPSEQ -1".into(),
            "FOO".into(), "GET x".into(), "EAPPENDX a b".into(),
        ];
        format!("X {}", self.rng.pick(&t))
    }
    fn history(&mut self, len: usize) -> String {
        let mut cmds = Vec::new();
        for _ in 0..len {
            let c = match self.rng.below(20) { 0..=5 => self.append(), 6..=9 => self.mappend(), 10 | 11 => self.malformed(), _ => self.read() };
            if c.starts_with('A') || c.starts_with('M') { self.ngen += 1; }
            cmds.push(c);
        }
        // a final sweep of reads over every stream and partition
        for st in self.streams.clone() { cmds.push(format!("S st{st} - +")); cmds.push(format!("V st{st}")); for j in 0..self.hd.keys.len() { if self.rng.chance(1, 2) { cmds.push(format!("S st{st} - + pk=k{j}")); } } }
        for pid in 0..self.hd.p.min(16) { cmds.push(format!("P {pid} - + n={}", u64::MAX)); cmds.push(format!("Q {pid}")); if self.seqs.get(&pid).copied().unwrap_or(0) > 0 && self.rng.chance(1, 3) { cmds.push(format!("U {pid}")); } }
        format!("{} :: {}", self.header(), cmds.join(" ; "))
    }
}

pub fn run(a: &Args, out: &mut Out) {
    if a.tier == "child" { return child(a, out); }
    if a.tier == "cases" {
        let lines: Vec<String> = std::fs::read_to_string(&a.rest[0]).unwrap().lines().map(|l| l.trim().to_string()).filter(|l| !l.is_empty() && !l.starts_with('#')).collect();
        return run_lines(a, &lines, out);
    }
    let thorough = a.tier == "thorough";
    let mut rng = Rng::new(a.seed);
    let cfgs: &[(u16, u16)] = if thorough { &[(8, 4), (5, 2), (3, 1), (64, 8), (1, 1)] } else { &[(8, 4), (3, 1)] };
    let per = if thorough { 60 } else { 14 };
    let mut lines = Vec::new();
    for &(p, b) in cfgs {
        for i in 0..per {
            let strict = i % 3 == 2;
            let len = if i % 7 == 6 { rng.range(120, 200) } else { rng.range(15, 60) } as usize;
            let mut g = Gen::new(rng.next(), p, b, strict);
            lines.push(g.history(len));
        }
    }
    run_lines(a, &lines, out);
}
