mod c22;
fn main() {
    // C22_LOUD=1 shows the panic messages of the server tasks (debugging aid)
    if std::env::var_os("C22_LOUD").is_none() { common::silence_panics(); }
    let a = common::args();
    let mut out = common::Out::new();
    c22::run(&a, &mut out);
    out.flush();
}
