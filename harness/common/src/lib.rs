//! Shared helpers for the verification harness: PRNG, case output, panic capture.
use std::io::Write;
use std::panic::{self, AssertUnwindSafe};

/// SplitMix64: every random choice of a run derives from one state.
#[derive(Clone)]
pub struct Rng(pub u64);
impl Rng {
    pub fn new(seed: u64) -> Self { Rng(seed ^ 0x9E37_79B9_7F4A_7C15) }
    pub fn next(&mut self) -> u64 {
        self.0 = self.0.wrapping_add(0x9E37_79B9_7F4A_7C15);
        let mut z = self.0;
        z = (z ^ (z >> 30)).wrapping_mul(0xBF58_476D_1CE4_E5B9);
        z = (z ^ (z >> 27)).wrapping_mul(0x94D0_49BB_1331_11EB);
        z ^ (z >> 31)
    }
    pub fn below(&mut self, n: u64) -> u64 { if n == 0 { 0 } else { self.next() % n } }
    pub fn range(&mut self, lo: u64, hi: u64) -> u64 { lo + self.below(hi - lo + 1) }
    pub fn chance(&mut self, num: u64, den: u64) -> bool { self.below(den) < num }
    pub fn pick<'a, T>(&mut self, xs: &'a [T]) -> &'a T { &xs[self.below(xs.len() as u64) as usize] }
    pub fn fork(&mut self) -> Rng { Rng(self.next()) }
}

/// Run `f`, mapping a panic to None. The default panic message is silenced.
pub fn catch<T>(f: impl FnOnce() -> T) -> Option<T> {
    panic::catch_unwind(AssertUnwindSafe(f)).ok()
}

pub fn silence_panics() {
    panic::set_hook(Box::new(|_| {}));
}

pub struct Out { w: std::io::BufWriter<std::io::Stdout>, pub n: u64 }
impl Out {
    pub fn new() -> Self { Out { w: std::io::BufWriter::with_capacity(1 << 20, std::io::stdout()), n: 0 } }
    /// one line: `<case>\t<observed>`
    pub fn case(&mut self, case: &str, observed: &str) {
        debug_assert!(!case.contains('\t') && !case.contains('\n'));
        let _ = writeln!(self.w, "{}\t{}", case, observed);
        self.n += 1;
    }
    pub fn flush(&mut self) { let _ = self.w.flush(); }
}
impl Drop for Out { fn drop(&mut self) { self.flush(); } }

pub fn list<T: std::fmt::Display>(xs: impl IntoIterator<Item = T>) -> String {
    let v: Vec<String> = xs.into_iter().map(|x| x.to_string()).collect();
    format!("[{}]", v.join(","))
}

pub struct Args { pub prop: String, pub tier: String, pub seed: u64, pub rest: Vec<String> }
pub fn args() -> Args {
    let a: Vec<String> = std::env::args().collect();
    if a.len() < 4 { eprintln!("usage: {} <prop> <quick|thorough|replay> <seed> [args..]", a[0]); std::process::exit(2); }
    Args { prop: a[1].clone(), tier: a[2].clone(), seed: a[3].parse().unwrap_or(0), rest: a[4..].to_vec() }
}
