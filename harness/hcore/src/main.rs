fn main() {}
