//! Case generation: scenarios (config, sequential prefix, per-thread programs, clock pattern) whose
//! interleavings are enumerated exhaustively (stateless DFS, re-executing the real breaker from
//! scratch for every schedule) or sampled at random. Every random choice derives from the seed.
use crate::sched::{item_str, Arr, Cfg, Exec, Item, M};
use common::{Out, Rng};
use sierradb_cluster::circuit_breaker::verif_hooks;

pub struct Scn {
    pub cfg: Cfg,
    pub prefix: Vec<M>,        // run to completion, one after the other, on thread 0
    pub progs: Vec<Vec<M>>,    // then thread i runs progs[i], interleaved
    pub dts: Vec<u64>,         // clock advance before step k is dts[k % len]
}

/// one execution; `choose(n)` picks among the n enabled threads. Returns (case line, observed).
fn execute(ex: &mut Exec, scn: &Scn, choose: &mut dyn FnMut(usize) -> usize) -> (String, String) {
    let cb = Exec::new_breaker(&scn.cfg);
    let mut clock = scn.cfg.t0;
    let mut items: Vec<Item> = vec![];
    let mut toks: Vec<String> = vec![];
    let mut k = 0usize;
    let mut one = |ex: &mut Exec, tid: usize, m: Option<M>, items: &mut Vec<Item>, toks: &mut Vec<String>| -> Arr {
        let dt = scn.dts[k % scn.dts.len()];
        k += 1;
        clock = clock.saturating_add(dt);
        verif_hooks::set_mock_now(Some(clock));
        let arr = ex.step(&cb, tid, m);
        items.push(Item { tid, m, dt });
        toks.push(Exec::obs_token(&arr, &cb));
        arr
    };
    for &m in &scn.prefix {
        let mut first = Some(m);
        loop {
            let arr = one(ex, 0, first.take(), &mut items, &mut toks);
            if matches!(arr, Arr::Ret(_)) { break; }
        }
    }
    let n = scn.progs.len();
    let mut pos = vec![0usize; n];
    loop {
        let enabled: Vec<usize> = (0..n).filter(|&t| !ex.is_idle(t) || pos[t] < scn.progs[t].len()).collect();
        if enabled.is_empty() { break; }
        let c = if enabled.len() == 1 { 0 } else { choose(enabled.len()) };
        let tid = enabled[c];
        let m = if ex.is_idle(tid) { let m = scn.progs[tid][pos[tid]]; pos[tid] += 1; Some(m) } else { None };
        one(ex, tid, m, &mut items, &mut toks);
    }
    ex.drain();
    let sched: Vec<String> = items.iter().map(item_str).collect();
    (format!("{} {}", scn.cfg.head(), sched.join(",")), toks.join(" "))
}

/// all interleavings (up to `cap` executions); returns true when the enumeration was complete
fn dfs(ex: &mut Exec, scn: &Scn, cap: usize, out: &mut Out) -> bool {
    let mut stack: Vec<(usize, usize)> = vec![];
    let mut runs = 0usize;
    loop {
        let mut depth = 0usize;
        let mut seen: Vec<(usize, usize)> = vec![];
        let (case, obs) = {
            let st = &stack;
            let mut ch = |n: usize| {
                let c = if depth < st.len() { st[depth].0 } else { 0 };
                seen.push((c, n));
                depth += 1;
                c
            };
            execute(ex, scn, &mut ch)
        };
        out.case(&case, &obs);
        runs += 1;
        stack = seen;
        loop {
            match stack.last_mut() {
                None => return true,
                Some((c, n)) => { if *c + 1 < *n { *c += 1; break; } else { stack.pop(); } }
            }
        }
        if runs >= cap { return false; }
    }
}

fn sample(ex: &mut Exec, scn: &Scn, runs: usize, rng: &mut Rng, out: &mut Out) {
    for _ in 0..runs {
        // random walk with sticky runs: keep the same thread with probability 1/2 (longer bursts
        // reach deeper into methods), otherwise a uniform choice
        let mut last = 0usize;
        let mut ch = |n: usize| {
            let c = if last < n && rng.chance(1, 2) { last } else { rng.below(n as u64) as usize };
            last = c;
            c
        };
        let (case, obs) = execute(ex, scn, &mut ch);
        out.case(&case, &obs);
    }
}

fn dts(rng: &mut Rng, tmo: u64) -> Vec<u64> {
    let choices = [0, 0, 0, 1, 1, 2, tmo, tmo, tmo + 1, tmo / 2];
    (0..61).map(|_| *rng.pick(&choices)).collect()
}

fn t0(rng: &mut Rng) -> u64 {
    match rng.below(8) { 0 => 0, 1 => 1, 2 => (1u64 << 53) + rng.below(1000), _ => 1_000 + rng.below(1u64 << 41) }
}

pub fn run(ex: &mut Exec, thorough: bool, seed: u64, out: &mut Out) {
    let mut rng = Rng::new(seed ^ 0xC26);
    // ---- A. directed, exhaustive: every pair of methods racing from every breaker state
    // (config, prefix that reaches the state)
    let states: Vec<(Cfg, Vec<M>, &str)> = vec![
        (Cfg { thr: 1, tmo: 0, max: 1, sthr: 1, t0: 0 }, vec![], "closed"),
        (Cfg { thr: 1, tmo: 0, max: 1, sthr: 1, t0: 0 }, vec![M::Failure], "open, timeout elapsed"),
        (Cfg { thr: 1, tmo: 0, max: 1, sthr: 1, t0: 0 }, vec![M::Failure, M::Allow], "half-open"),
        (Cfg { thr: 1, tmo: 0, max: 2, sthr: 2, t0: 0 }, vec![M::Failure, M::Allow], "half-open, max 2"),
        (Cfg { thr: 2, tmo: 3, max: 1, sthr: 1, t0: 0 }, vec![M::Failure], "closed, one failure"),
        (Cfg { thr: 2, tmo: 3, max: 2, sthr: 1, t0: 0 }, vec![M::Failure, M::Failure], "open, timeout 3"),
    ];
    let cap_pair = if thorough { 6000 } else { 700 };
    for (cfg, prefix, _what) in &states {
        for (i, &m0) in M::ALL.iter().enumerate() {
            for &m1 in &M::ALL[i..] {
                let mut cfg = cfg.clone();
                cfg.t0 = t0(&mut rng);
                let scn = Scn { dts: dts(&mut rng, cfg.tmo), cfg, prefix: prefix.clone(), progs: vec![vec![m0], vec![m1]] };
                if !dfs(ex, &scn, cap_pair, out) {
                    sample(ex, &scn, cap_pair / 4, &mut rng, out);
                }
            }
        }
    }
    // ---- B. random scenarios: 2 threads (quick) / 2-3 threads (thorough), 1-3 methods each
    let nscn = if thorough { 900 } else { 160 };
    let cap = if thorough { 400 } else { 120 };
    for _ in 0..nscn {
        let cfg = Cfg {
            thr: *rng.pick(&[0u32, 1, 1, 1, 2, 2, 3]),
            tmo: *rng.pick(&[0u64, 0, 0, 1, 2, 5, 30_000]),
            max: *rng.pick(&[0u32, 1, 1, 1, 2, 2, 3]),
            sthr: *rng.pick(&[0u32, 1, 1, 2, 2, 3]),
            t0: t0(&mut rng),
        };
        let nthreads = if thorough && rng.chance(1, 2) { 3 } else { 2 };
        let plen = rng.below(4) as usize;
        // prefixes biased to failures so that the breaker opens
        let prefix: Vec<M> = (0..plen).map(|_| *rng.pick(&[M::Failure, M::Failure, M::Failure, M::Allow, M::Allow, M::Success])).collect();
        let progs: Vec<Vec<M>> = (0..nthreads).map(|_| {
            let l = 1 + rng.below(if thorough { 3 } else { 2 }) as usize;
            (0..l).map(|_| *rng.pick(&[M::Allow, M::Allow, M::Allow, M::Failure, M::Failure, M::Success, M::Success, M::Estimate])).collect()
        }).collect();
        let scn = Scn { dts: dts(&mut rng, cfg.tmo), cfg, prefix, progs };
        if !dfs(ex, &scn, cap, out) {
            sample(ex, &scn, cap, &mut rng, out);
        }
    }
    // ---- C. sequential differential: one thread, random method sequences (every step)
    let nseq = if thorough { 3000 } else { 500 };
    for _ in 0..nseq {
        let cfg = Cfg {
            thr: rng.below(4) as u32, tmo: *rng.pick(&[0u64, 1, 3, 10]), max: rng.below(4) as u32,
            sthr: rng.below(4) as u32, t0: t0(&mut rng),
        };
        let l = 1 + rng.below(12) as usize;
        let prefix: Vec<M> = (0..l).map(|_| *rng.pick(&M::ALL)).collect();
        let scn = Scn { dts: dts(&mut rng, cfg.tmo), cfg, prefix, progs: vec![] };
        let mut ch = |_n: usize| 0usize;
        let (case, obs) = execute(ex, &scn, &mut ch);
        out.case(&case, &obs);
    }
}
