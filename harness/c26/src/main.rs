//! C26 harness: drives the REAL `WriteCircuitBreaker` under explicit schedules.
//!
//! Worker threads call the breaker's public methods; the `#[cfg(sierradb_verif)]` hook
//! `verif_hooks::point` (called before every atomic operation / clock read) blocks the calling
//! worker until the scheduler releases it. A schedule is a list of items `<tid><m><dt>`:
//! advance the mock clock by `dt` ms, then let thread `tid` perform exactly one atomic step
//! (if the thread is idle it first starts method `m`: a=should_allow_request, s=record_success,
//! f=record_failure, e=estimated_recovery_time, -=nothing). After each step the scheduler
//! records where the thread arrived (next yield point, or the method's return value, or PANIC)
//! and a snapshot of the public getters.
//!
//! case line:  `c26 <threshold> <timeout_ms> <max_calls> <success_threshold> <t0> <item>,<item>,...`
//! observed:   one token per step `<arrival>/<state>,<failure_count>,<last_failure_ms>` joined by ' '
mod sched;
mod gen_cases;

fn main() {
    common::silence_panics();
    let a = common::args();
    let mut out = common::Out::new();
    let mut ex = sched::Exec::new(4);
    match a.tier.as_str() {
        "cases" => {
            let text = std::fs::read_to_string(&a.rest[0]).expect("case file");
            for line in text.lines() {
                let line = line.trim_end();
                if line.is_empty() { continue; }
                let obs = match sched::parse_case(line) {
                    Some((cfg, items)) => ex.run_items(&cfg, &items),
                    None => "BADCASE".to_string(),
                };
                out.case(line, &obs);
            }
        }
        tier => gen_cases::run(&mut ex, tier == "thorough", a.seed, &mut out),
    }
    out.flush();
    ex.shutdown();
}
