//! Deterministic scheduler for real threads blocked at the breaker's yield points.
use sierradb_cluster::circuit_breaker::{verif_hooks, WriteCircuitBreaker};
use std::cell::Cell;
use std::sync::{Arc, Condvar, Mutex};
use std::time::Duration;

#[derive(Clone, Copy, PartialEq, Eq, Debug)]
pub enum M { Allow, Success, Failure, Estimate }
impl M {
    pub fn letter(self) -> char { match self { M::Allow => 'a', M::Success => 's', M::Failure => 'f', M::Estimate => 'e' } }
    pub fn of(c: char) -> Option<M> { match c { 'a' => Some(M::Allow), 's' => Some(M::Success), 'f' => Some(M::Failure), 'e' => Some(M::Estimate), _ => None } }
    pub const ALL: [M; 4] = [M::Allow, M::Success, M::Failure, M::Estimate];
}

#[derive(Clone, Debug)]
pub struct Cfg { pub thr: u32, pub tmo: u64, pub max: u32, pub sthr: u32, pub t0: u64 }
impl Cfg {
    pub fn head(&self) -> String { format!("c26 {} {} {} {} {}", self.thr, self.tmo, self.max, self.sthr, self.t0) }
}

/// one schedule item: thread, method to start if the thread is idle, clock advance before the step
#[derive(Clone, Copy, Debug)]
pub struct Item { pub tid: usize, pub m: Option<M>, pub dt: u64 }
pub fn item_str(it: &Item) -> String { format!("{}{}{}", it.tid, it.m.map(|m| m.letter()).unwrap_or('-'), it.dt) }

pub fn parse_case(line: &str) -> Option<(Cfg, Vec<Item>)> {
    let t: Vec<&str> = line.split(' ').filter(|x| !x.is_empty()).collect();
    if t.len() < 6 || t.len() > 7 || t[0] != "c26" { return None; }
    let cfg = Cfg { thr: t[1].parse().ok()?, tmo: t[2].parse().ok()?, max: t[3].parse().ok()?, sthr: t[4].parse().ok()?, t0: t[5].parse().ok()? };
    let mut items = vec![];
    if t.len() == 7 {
        for s in t[6].split(',') {
            let cs: Vec<char> = s.chars().collect();
            let p = cs.iter().position(|c| !c.is_ascii_digit())?;
            if p == 0 { return None; }
            let tid: usize = cs[..p].iter().collect::<String>().parse().ok()?;
            let m = if cs[p] == '-' { None } else { Some(M::of(cs[p])?) };
            let dt: u64 = cs[p + 1..].iter().collect::<String>().parse().ok()?;
            items.push(Item { tid, m, dt });
        }
    }
    Some((cfg, items))
}

enum Slot {
    Idle,
    Cmd(M, Arc<WriteCircuitBreaker>),
    Running,
    At(&'static str),
    Go,
    Done(String),
    Exit,
}

struct Ctl { m: Mutex<Vec<Slot>>, cv: Condvar }

thread_local! { static ME: Cell<Option<usize>> = const { Cell::new(None) }; }

/// what the scheduler sees after letting a thread run: it is blocked before the named atomic
/// operation, or its method returned (value / PANIC)
#[derive(Clone, Debug, PartialEq)]
pub enum Arr { At(&'static str), Ret(String) }

pub struct Exec {
    ctl: Arc<Ctl>,
    handles: Vec<std::thread::JoinHandle<()>>,
    /// scheduler-side view: Some(point) if the worker is blocked inside a method
    at: Vec<Option<&'static str>>,
}

fn call(m: M, cb: &WriteCircuitBreaker) -> String {
    match m {
        M::Allow => format!("={}", cb.should_allow_request()),
        M::Success => { cb.record_success(); "=unit".into() }
        M::Failure => { cb.record_failure(); "=unit".into() }
        M::Estimate => match cb.estimated_recovery_time() {
            None => "=none".into(),
            Some(d) => format!("=some:{}", d.as_millis()),
        },
    }
}

impl Exec {
    pub fn new(n: usize) -> Exec {
        let ctl = Arc::new(Ctl { m: Mutex::new((0..n).map(|_| Slot::Idle).collect()), cv: Condvar::new() });
        let c2 = ctl.clone();
        verif_hooks::set_point(Some(Arc::new(move |name: &'static str| {
            let Some(i) = ME.with(|m| m.get()) else { return };
            let mut g = c2.m.lock().unwrap();
            g[i] = Slot::At(name);
            c2.cv.notify_all();
            while !matches!(g[i], Slot::Go) { g = c2.cv.wait(g).unwrap(); }
            g[i] = Slot::Running;
        })));
        let mut handles = vec![];
        for i in 0..n {
            let c = ctl.clone();
            handles.push(std::thread::spawn(move || {
                ME.with(|m| m.set(Some(i)));
                loop {
                    let (m, cb) = {
                        let mut g = c.m.lock().unwrap();
                        loop {
                            match &g[i] {
                                Slot::Cmd(..) => break,
                                Slot::Exit => return,
                                _ => g = c.cv.wait(g).unwrap(),
                            }
                        }
                        let Slot::Cmd(m, cb) = std::mem::replace(&mut g[i], Slot::Running) else { unreachable!() };
                        (m, cb)
                    };
                    let r = common::catch(|| call(m, &cb)).unwrap_or_else(|| "PANIC".to_string());
                    drop(cb);
                    let mut g = c.m.lock().unwrap();
                    g[i] = Slot::Done(r);
                    c.cv.notify_all();
                }
            }));
        }
        Exec { ctl, handles, at: vec![None; n] }
    }

    pub fn is_idle(&self, tid: usize) -> bool { self.at[tid].is_none() }

    fn wait_arrival(&mut self, tid: usize) -> Arr {
        let mut g = self.ctl.m.lock().unwrap();
        loop {
            match &g[tid] {
                Slot::At(name) => { let n = *name; self.at[tid] = Some(n); return Arr::At(n); }
                Slot::Done(_) => {
                    let Slot::Done(r) = std::mem::replace(&mut g[tid], Slot::Idle) else { unreachable!() };
                    self.at[tid] = None;
                    return Arr::Ret(r);
                }
                _ => g = self.ctl.cv.wait(g).unwrap(),
            }
        }
    }
    fn post(&mut self, tid: usize, s: Slot) {
        let mut g = self.ctl.m.lock().unwrap();
        g[tid] = s;
        self.ctl.cv.notify_all();
    }

    /// one schedule step of thread `tid` (starting method `m` first when the thread is idle)
    pub fn step(&mut self, cb: &Arc<WriteCircuitBreaker>, tid: usize, m: Option<M>) -> Arr {
        if self.at[tid].is_none() {
            let Some(m) = m else { return Arr::Ret("idle".into()) };
            self.post(tid, Slot::Cmd(m, cb.clone()));
            match self.wait_arrival(tid) {
                Arr::At(_) => {}                 // blocked before the method's first atomic operation
                r => return r,                   // (no method is free of yield points; defensive)
            }
        }
        self.post(tid, Slot::Go);
        self.wait_arrival(tid)
    }

    /// let every thread that is still inside a method run to completion (results discarded)
    pub fn drain(&mut self) {
        for tid in 0..self.at.len() {
            while self.at[tid].is_some() {
                self.post(tid, Slot::Go);
                self.wait_arrival(tid);
            }
        }
    }

    pub fn new_breaker(cfg: &Cfg) -> Arc<WriteCircuitBreaker> {
        verif_hooks::set_mock_now(Some(cfg.t0));
        Arc::new(WriteCircuitBreaker::new(cfg.thr, Duration::from_millis(cfg.tmo), cfg.max, cfg.sthr))
    }

    pub fn snapshot(cb: &WriteCircuitBreaker) -> String {
        // called from the scheduler thread, which is not a registered worker: the hook passes through
        format!("{},{},{}", cb.current_state() as u8, cb.failure_count(),
                cb.last_failure_time().map(|d| d.as_millis()).unwrap_or(0))
    }

    pub fn obs_token(arr: &Arr, cb: &WriteCircuitBreaker) -> String {
        let a = match arr { Arr::At(n) => (*n).to_string(), Arr::Ret(r) => r.clone() };
        format!("{}/{}", a, Self::snapshot(cb))
    }

    /// run a literal schedule (used for corpus / replay / shrink)
    pub fn run_items(&mut self, cfg: &Cfg, items: &[Item]) -> String {
        if items.iter().any(|it| it.tid >= self.at.len()) { return "BADCASE".into(); }
        let cb = Self::new_breaker(cfg);
        let mut clock = cfg.t0;
        let mut toks = vec![];
        for it in items {
            clock = clock.saturating_add(it.dt);
            verif_hooks::set_mock_now(Some(clock));
            let arr = self.step(&cb, it.tid, it.m);
            toks.push(Self::obs_token(&arr, &cb));
        }
        self.drain();
        toks.join(" ")
    }

    pub fn shutdown(mut self) {
        self.drain();
        for i in 0..self.at.len() { self.post(i, Slot::Exit); }
        for h in self.handles.drain(..) { let _ = h.join(); }
        verif_hooks::set_point(None);
        verif_hooks::set_mock_now(None);
    }
}
