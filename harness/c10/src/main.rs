//! C10 / C11 harness: the REAL replication code of one node, driven in-process.
//!
//! Two real components share a process:
//!   X  a real single-node `ClusterActor` (node_count 1, replication_factor rf) on its own database:
//!      it plays a REPLICA (the harness sends it ReplicateWrite / ConfirmTransaction as a coordinator
//!      would, coordinator_ref = X's own remote ref), the SOURCE of catch-up syncs, and - for rf = 1 -
//!      the COORDINATOR end to end (ExecuteTransaction).
//!   Y  a real `PartitionReplicatorActor` on a SECOND database whose coordinator is X: a replica whose
//!      catch-up timer really sends PartitionSyncRequest to X's ClusterActor and applies the real
//!      PartitionSyncResponse (the two message types are private to the crate).
//!
//! case line:  n <rf> <limit> <n0x> <n0y> <op>*        (one partition per case; rf selects the child process)
//!   n0x / n0y (>= 1): single-event transactions 900.. already on X's / Y's disk with a quorum count
//!   xr,<tx>,<seq>,<k>,<flags>   ReplicateWrite to X's ClusterActor, expected sequence <seq>, k events
//!        flags: - none | z coordinator_alive_since = 0 | e expected sequence Any | b an event the database rejects
//!               | f a foreign coordinator ref
//!   yr,<tx>,<seq>,<k>,<flags>   ReplicateWrite straight to Y's replicator (flags - | b)
//!   xl,<tx>,<k>,<flags> / yl,..  the coordinator's own phase-2 append: Database::append_events, count 0 (flags - | b)
//!   xe,<tx>,<k>,<flags>         ExecuteTransaction through X
//!   xc,<tx>,<seq>,<k>,<cnt>,<v> ConfirmTransaction to X; v: g good | i a wrong second event id | n unknown first id | s one id too few
//!   xR                          ResetCluster on X (volatile state rebuilt from disk)   [restart family: runs alone]
//!   yR                          stop Y's replicator and start a new one
//!   xpad,<kib>                  <kib> KiB of filler appended to X's disk in the same bucket (other partition)
//!   b                           barrier + snapshot of both logs
//! case line of the coordinator family:  co <rf> <n0x> <n0a1> <n0a2> <op>*
//!   two COORDINATORS A1, A2, each a plain Database of its own running the real `transaction::spawn` / `run` with the
//!   real node X as their one replica (they use X's member identity, as the ReplicateWrite cases do); the history 900..
//!   is on X's / A1's / A2's disk up to n0x / n0a1 / n0a2 (a coordinator may be behind or ahead of the replica)
//!   a1,<tx>,<k>,<flags> / a2,..  a client write coordinated by A1 / A2 (flags - | b): answered ok<first> | fail | db
//!   xr,.. and b as above (b snapshots X, A1, A2)
//! After every op, if Y has unanswered writes (a gap), the harness waits until Y's catch-up has gone quiet.
//! observed:  res=<tok>;..  X=<log> Y=<log> W=<events visible through X's ReadPartition after a restart>
//!   log: <first>:<tx>:<k>:<count[.count..]>,..   (oldest first)
use std::collections::{HashMap, HashSet};
use std::io::Write as _;
use std::sync::Arc;
use std::time::{Duration, Instant};

use common::{Args, Out, Rng};
use kameo::actor::{ActorRef, Spawn};
use kameo::error::SendError;
use kameo::prelude::RemoteActorRef;
use libp2p::identity::Keypair;
use sierradb::IterDirection;
use sierradb::StreamId;
use sierradb::database::{Database, DatabaseBuilder, ExpectedVersion, NewEvent, Transaction};
use sierradb::id::{uuid_to_partition_hash, uuid_v7_with_partition_hash};
use sierradb_cluster::confirmation::actor::ConfirmationActor;
use sierradb_cluster::read::ReadPartition;
use sierradb_cluster::write::confirm::ConfirmTransaction;
use sierradb_cluster::write::error::{ConfirmTransactionError, WriteError};
use sierradb_cluster::write::execute::ExecuteTransaction;
use sierradb_cluster::write::replicate::{PartitionReplicatorActor, PartitionReplicatorActorArgs, ReplicateWrite};
use sierradb_cluster::circuit_breaker::WriteCircuitBreaker;
use sierradb_cluster::write::transaction::{self, WriteConfig};
use sierradb_cluster::{ClusterActor, ClusterArgs, ReplicaRefs, ResetCluster};
use kameo::prelude::{Actor, Context, DelegatedReply, Message};
use smallvec::SmallVec;
use uuid::Uuid;

mod gen_cases;

/// The replicator announces every catch-up it starts with a WARN event ("sequence gap detected, triggering
/// catch-up", field partition_id). Counting them tells the harness, without any timing assumption, that a complete
/// catch-up round (request, answer, apply) has happened: the next one starts only after the previous answer was handled.
mod trace {
    use std::fmt::Debug;
    use std::sync::atomic::{AtomicU64, Ordering};
    use tracing::field::{Field, Visit};
    use tracing::{Event, Level, Metadata, Subscriber, span};
    pub static GAPS: [AtomicU64; 2048] = [const { AtomicU64::new(0) }; 2048];
    pub fn gaps(pid: u16) -> u64 { GAPS[pid as usize % 2048].load(Ordering::SeqCst) }
    #[derive(Default)]
    struct V { pid: Option<u64>, gap: bool }
    impl Visit for V {
        fn record_u64(&mut self, f: &Field, v: u64) { if f.name() == "partition_id" { self.pid = Some(v); } }
        fn record_i64(&mut self, f: &Field, v: i64) { if f.name() == "partition_id" { self.pid = Some(v as u64); } }
        fn record_str(&mut self, f: &Field, v: &str) { if f.name() == "message" && v.contains("sequence gap detected") { self.gap = true; } }
        fn record_debug(&mut self, f: &Field, v: &dyn Debug) {
            if f.name() == "message" && format!("{v:?}").contains("sequence gap detected") { self.gap = true; }
        }
    }
    pub struct Sub;
    impl Subscriber for Sub {
        fn enabled(&self, m: &Metadata<'_>) -> bool { m.is_event() && *m.level() == Level::WARN && m.target().starts_with("sierradb_cluster::write::replicate") }
        fn new_span(&self, _: &span::Attributes<'_>) -> span::Id { span::Id::from_u64(1) }
        fn record(&self, _: &span::Id, _: &span::Record<'_>) {}
        fn record_follows_from(&self, _: &span::Id, _: &span::Id) {}
        fn event(&self, e: &Event<'_>) {
            let mut v = V::default();
            e.record(&mut v);
            if v.gap { if let Some(p) = v.pid { GAPS[p as usize % 2048].fetch_add(1, Ordering::SeqCst); } }
        }
        fn enter(&self, _: &span::Id) {}
        fn exit(&self, _: &span::Id) {}
    }
}

const PARTS: u16 = 2048; // at most this many cases per child process
const BUCKETS: u16 = 4;
const X_LIMIT: usize = 4;

fn key_for(p: u16) -> Uuid {
    Uuid::from_u128(((p as u128) << 46) | 0x0123_4567_89ab_0000_0000_0000_0000_0000u128 | 0x2a)
}

fn mk_tx(pid: u16, case: usize, tx: u64, k: u64, bad: bool) -> Result<Transaction, String> {
    let pk = key_for(pid);
    let hash = uuid_to_partition_hash(pk);
    let ev: Vec<NewEvent> = (0..k.max(1))
        .map(|j| NewEvent {
            event_id: uuid_v7_with_partition_hash(hash),
            stream_id: StreamId::new(format!("c{case}t{tx}e{j}")).unwrap(),
            stream_version: if bad && j == 0 { ExpectedVersion::Exact(999) } else { ExpectedVersion::Any },
            event_name: "E".into(),
            timestamp: 1,
            metadata: vec![],
            payload: vec![],
        })
        .collect();
    Transaction::new(pk, pid, SmallVec::from_vec(ev)).map_err(|e| e.to_string())
}

fn wcode(e: &WriteError) -> String {
    match e {
        WriteError::SequenceConflict => "conflict".into(),
        WriteError::BufferFull => "full".into(),
        WriteError::StaleWrite => "stale".into(),
        WriteError::BufferEvicted => "evicted".into(),
        WriteError::WrongExpectedSequence { .. } => "wrongseq".into(),
        WriteError::WrongExpectedVersion { .. } | WriteError::DatabaseOperationFailed(_) => "db".into(),
        WriteError::MissingExpectedPartitionSequence => "missing".into(),
        WriteError::InvalidSender => "invalid".into(),
        WriteError::PartitionNotOwned { .. } => "notowned".into(),
        WriteError::InsufficientHealthyReplicas { .. } => "insufficient".into(),
        other => format!("err({})", other.code()),
    }
}

/// A coordinator node: its own database and the REAL coordinator code (transaction::spawn -> run,
/// set_confirmations_with_retry, ConfirmTransaction, client reply) with X as its replica.
struct Coordinator {
    db: Database,
    conf: ActorRef<ConfirmationActor>,
    x: ActorRef<ClusterActor>,
    xr: RemoteActorRef<ClusterActor>,
    rf: u8,
    breaker: Arc<WriteCircuitBreaker>,
}
impl Actor for Coordinator {
    type Args = Self;
    type Error = std::convert::Infallible;
    async fn on_start(args: Self::Args, _r: ActorRef<Self>) -> Result<Self, Self::Error> { Ok(args) }
}
struct CoWrite(Transaction);
impl Message<CoWrite> for Coordinator {
    type Reply = DelegatedReply<Result<sierradb::writer_thread_pool::AppendResult, WriteError>>;
    async fn handle(&mut self, CoWrite(t): CoWrite, ctx: &mut Context<Self, Self::Reply>) -> Self::Reply {
        let (delegated, reply_sender) = ctx.reply_sender();
        transaction::spawn(
            WriteConfig {
                database: self.db.clone(),
                local_cluster_ref: self.x.clone(),
                local_remote_cluster_ref: self.xr.clone(), // X accepts only members it knows: the coordinators use X's identity
                local_alive_since: u64::MAX,
                confirmation_ref: self.conf.clone(),
                replicas: ReplicaRefs::from_iter([(self.xr.clone(), u64::MAX)]),
                replication_factor: self.rf,
                circuit_breaker: self.breaker.clone(),
            },
            t,
            reply_sender,
        );
        delegated
    }
}

struct Shared {
    dba: [Database; 2],
    coords: [ActorRef<Coordinator>; 2],
    rf: u8,
    parts: u16,
    dbx: Database,
    dby: Database,
    cluster: ActorRef<ClusterActor>,
    coord: RemoteActorRef<ClusterActor>,
    foreign: Option<RemoteActorRef<ClusterActor>>,
    confy: ActorRef<ConfirmationActor>,
}

struct Case {
    co: bool,
    n0a: [u64; 2],
    idx: usize,
    pid: u16,
    limit: usize,
    n0x: u64,
    n0y: u64,
    ops: Vec<Vec<String>>,
    restart: bool,
    txs: HashMap<u64, Transaction>,
    ids: HashMap<Uuid, u64>,
}

fn parse_case(idx: usize, pid: u16, line: &str) -> Option<Case> {
    let t: Vec<&str> = line.split_whitespace().collect();
    if t.len() >= 5 && t[0] == "co" {
        let n0x: u64 = t[2].parse().ok()?;
        let n0a = [t[3].parse().ok()?, t[4].parse().ok()?];
        if n0x == 0 || n0x > 40 || n0a[0] > 40 || n0a[1] > 40 { return None; }
        let ops: Vec<Vec<String>> = t[5..].iter().map(|o| o.split(',').map(|s| s.to_string()).collect()).collect();
        if ops.iter().any(|o| !matches!(o[0].as_str(), "a1" | "a2" | "xr" | "b")) { return None; }
        return Some(Case { co: true, n0a, idx, pid, limit: 1, n0x, n0y: 0, ops, restart: false, txs: HashMap::new(), ids: HashMap::new() });
    }
    if t.len() < 5 || t[0] != "n" { return None; }
    let limit: usize = t[2].parse().ok()?;
    let n0x: u64 = t[3].parse().ok()?;
    let n0y: u64 = t[4].parse().ok()?;
    if limit == 0 || n0x == 0 || n0y == 0 || n0y > n0x || n0x > 40 { return None; }
    let ops: Vec<Vec<String>> = t[5..].iter().map(|o| o.split(',').map(|s| s.to_string()).collect()).collect();
    let restart = ops.iter().any(|o| o[0] == "xR");
    Some(Case { co: false, n0a: [0, 0], idx, pid, limit, n0x, n0y, ops, restart, txs: HashMap::new(), ids: HashMap::new() })
}

/// One partition's log as the disk holds it: structure (first sequence, transaction, events) from a scan; the
/// confirmation counts from `read_transaction` (a direct read of the records). A scan goes through the segment block
/// cache, which `set_confirmations` does not invalidate, so it can show an OLDER count: when it does, the entry is
/// marked `~<scan count>` (known finding; the count on disk is the one before the mark).
async fn read_log(db: &Database, pid: u16, ids: &HashMap<Uuid, u64>) -> Result<(String, u64), String> { read_log2(db, pid, ids, false).await }

/// `events_only`: a coordinator's set_confirmations covers the event records only (append.offsets), so the commit record
/// of its multi-event transactions keeps the count it was appended with: show the events' counts
async fn read_log2(db: &Database, pid: u16, ids: &HashMap<Uuid, u64>, events_only: bool) -> Result<(String, u64), String> {
    fn fmt(counts: &[u8]) -> String {
        if counts.iter().all(|&x| x == counts[0]) { counts[0].to_string() } else { counts.iter().map(|x| x.to_string()).collect::<Vec<_>>().join(".") }
    }
    let counts_of = |c: sierradb::bucket::segment::CommittedEvents| -> Vec<u8> {
        let ccount = c.confirmation_count();
        let mut counts: Vec<u8> = c.into_iter().map(|e| e.confirmation_count).collect();
        if !events_only && (counts.iter().any(|&x| x != ccount) || counts.is_empty()) { counts.push(ccount); } // the commit record differs: show it too
        counts
    };
    let mut log = Vec::new();
    let mut next = 0u64;
    let mut it = db.read_partition(pid, 0, IterDirection::Forward).await.map_err(|e| format!("read: {e}"))?;
    while let Some(batch) = it.next_batch(64).await.map_err(|e| format!("read: {e}"))? {
        for c in batch {
            let first = c.first_partition_sequence().ok_or("empty commit")?;
            let last = c.last_partition_sequence().ok_or("empty commit")?;
            next = next.max(last + 1);
            let tx = ids.get(c.transaction_id()).map(|t| t.to_string()).unwrap_or_else(|| "?".into());
            let n = c.len();
            let first_id = c.first().ok_or("empty commit")?.event_id;
            let scan = counts_of(c);
            let direct = match db.read_transaction(pid, first_id).await.map_err(|e| format!("read_transaction: {e}"))? {
                Some(d) if d.first_partition_sequence() == Some(first) && d.len() == n => counts_of(d),
                _ => scan.clone(), // the id index points at a newer copy of the same event: keep what the scan shows
            };
            let mark = if direct != scan { format!("~{}", fmt(&scan)) } else { String::new() };
            log.push(format!("{first}:{tx}:{n}:{}{mark}", fmt(&direct)));
        }
    }
    Ok((if log.is_empty() { "-".into() } else { log.join(",") }, next))
}

type Pending = std::pin::Pin<Box<dyn std::future::Future<Output = String> + Send>>;

struct Run<'a> {
    sh: &'a Shared,
    c: &'a mut Case,
    yrep: Option<ActorRef<PartitionReplicatorActor>>,
    toks: Vec<Option<String>>,
    pend: Vec<(usize, bool, Pending)>, // (token index, is_y, reply)
    nbar: u64,
    has_y: bool,
}

impl<'a> Run<'a> {
    fn tx(&mut self, tx: u64, k: u64, bad: bool) -> Result<Transaction, String> {
        if let Some(t) = self.c.txs.get(&tx) { return Ok(t.clone()); }
        let t = mk_tx(self.c.pid, self.c.idx, tx, k, bad)?;
        self.c.ids.insert(t.transaction_id(), tx);
        self.c.txs.insert(tx, t.clone());
        Ok(t)
    }

    async fn spawn_y(&mut self) {
        let rep = PartitionReplicatorActor::spawn(PartitionReplicatorActorArgs {
            partition_id: self.c.pid,
            database: self.sh.dby.clone(),
            confirmation_ref: self.sh.confy.clone(),
            buffer_size: self.c.limit,
            buffer_timeout: Duration::from_secs(3600),
            catchup_timeout: Duration::from_millis(120),
        });
        rep.wait_for_startup().await;
        self.yrep = Some(rep);
    }

    async fn stop_y(&mut self) {
        if let Some(rep) = self.yrep.take() {
            let _ = rep.stop_gracefully().await;
            rep.wait_for_shutdown().await;
        }
    }

    fn rw(&self, t: Transaction, seq: u64, flags: &str, to_y: bool) -> ReplicateWrite {
        let cnt0 = if self.sh.rf / 2 + 1 <= 1 { 1 } else { 0 };
        let e = if flags.contains('e') { ExpectedVersion::Any } else if seq == 0 { ExpectedVersion::Empty } else { ExpectedVersion::Exact(seq - 1) };
        let coord = if flags.contains('f') && !to_y { self.sh.foreign.clone().unwrap_or_else(|| self.sh.coord.clone()) } else { self.sh.coord.clone() };
        ReplicateWrite {
            coordinator_ref: coord,
            coordinator_alive_since: if flags.contains('z') { 0 } else { u64::MAX },
            transaction: t.with_confirmation_count(cnt0).expected_partition_sequence(e),
        }
    }

    /// send a ReplicateWrite and return the (still running) reply
    async fn send_rw(&mut self, msg: ReplicateWrite, to_y: bool) -> Option<Pending> {
        fn fin<M>(r: Result<sierradb::writer_thread_pool::AppendResult, SendError<M, WriteError>>) -> String {
            match r {
                Ok(a) => format!("ok{}", a.first_partition_sequence),
                Err(SendError::HandlerError(e)) => wcode(&e),
                Err(_) => "pend".into(), // reply sender dropped: still buffered when the actor stopped
            }
        }
        if to_y {
            let rep = self.yrep.clone()?;
            match tokio::spawn(async move { rep.ask(msg).enqueue().await }).await {
                Ok(Ok(p)) => Some(Box::pin(async move { fin(p.await) })),
                _ => None,
            }
        } else {
            let cl = self.sh.cluster.clone();
            match tokio::spawn(async move { cl.ask(msg).enqueue().await }).await {
                Ok(Ok(p)) => Some(Box::pin(async move {
                    match p.await {
                        Ok(a) => format!("ok{}", a.first_partition_sequence),
                        Err(SendError::HandlerError(inner)) => fin::<ReplicateWrite>(Err(inner)),
                        Err(_) => "pend".into(),
                    }
                })),
                _ => None,
            }
        }
    }

    /// everything sent so far has been handled by the partition's replicator (FIFO mailboxes): a write
    /// expecting an EMPTY partition is below `next` (n0 >= 1), hence answered Stale at once, changing nothing
    async fn barrier(&mut self, to_y: bool) -> Result<(), String> {
        self.nbar += 1;
        let t = mk_tx(self.c.pid, self.c.idx, 800_000 + self.nbar, 1, false)?;
        let msg = self.rw(t, 0, "-", to_y);
        if to_y && self.yrep.is_none() { return Ok(()); }
        let p = self.send_rw(msg, to_y).await.ok_or("barrier not delivered")?;
        match tokio::time::timeout(Duration::from_secs(120), p).await {
            Ok(s) if s == "stale" => Ok(()),
            Ok(s) => Err(format!("barrier answered {s}")),
            _ => Err("barrier lost".into()),
        }
    }

    /// replies that have been sent are taken (the barrier before this call makes that deterministic: the actor
    /// answers in order, so everything it will answer without further input is already in its reply channel)
    async fn collect(&mut self, _last: bool) {
        let mut rest = Vec::new();
        for (i, y, mut h) in std::mem::take(&mut self.pend) {
            match tokio::time::timeout(Duration::from_millis(1), h.as_mut()).await {
                Ok(s) => self.toks[i] = Some(s),
                Err(_) => rest.push((i, y, h)),
            }
        }
        self.pend = rest;
    }

    async fn y_next(&mut self) -> Result<u64, String> {
        Ok(self.sh.dby.get_partition_sequence(self.c.pid).await.map_err(|e| e.to_string())?.map(|s| s.sequence + 1).unwrap_or(0))
    }

    /// Y's catch-up runs on its own timer. It is quiet when nothing is buffered any more (every write answered), or when
    /// a whole catch-up round that began after the last change brought no progress: the replicator announces each round,
    /// and starts the next one only after it handled the previous answer, so two further announcements bracket one round.
    /// X's watermark follows its disk through the confirmation actor, asynchronously. Before Y's catch-up is judged,
    /// wait until X shows (ReadPartition) exactly the confirmed prefix of its disk - what Y can be served.
    async fn x_watermark_settled(&mut self) -> Result<(), String> {
        let q = self.sh.rf / 2 + 1;
        let t0 = Instant::now();
        loop {
            // the confirmed prefix of the disk (counts as read_log gives them: read directly, not through a scan's cache)
            let mut pref = 0u64;
            let (log, _) = read_log(&self.sh.dbx, self.c.pid, &self.c.ids).await?;
            if log != "-" {
                for ent in log.split(',') {
                    let f: Vec<&str> = ent.split(':').collect();
                    let (first, k) = (f[0].parse::<u64>().unwrap_or(0), f[2].parse::<u64>().unwrap_or(1));
                    let counts = f[3].split('~').next().unwrap_or("0");
                    if counts.split('.').all(|c| c.parse::<u8>().map(|c| c >= q).unwrap_or(false)) { pref = first + k; } else { break; }
                }
            }
            let shown = match self.sh.cluster.ask(ReadPartition { partition_id: self.c.pid, start_sequence: 0, end_sequence: None, count: 100_000 }).await {
                Ok(r) => r.events.len() as u64,
                Err(e) => return Err(format!("ReadPartition: {e}")),
            };
            if shown == pref || t0.elapsed() > Duration::from_secs(60) { return Ok(()); }
            tokio::time::sleep(Duration::from_millis(10)).await;
        }
    }

    async fn settle(&mut self) -> Result<(), String> {
        self.barrier(false).await?;
        if self.has_y { self.x_watermark_settled().await?; }
        self.barrier(true).await?;
        self.collect(false).await;
        if !self.pend.iter().any(|(_, y, _)| *y) { return Ok(()); }
        let t0 = Instant::now();
        let mut base = (trace::gaps(self.c.pid), self.y_next().await?);
        loop {
            tokio::time::sleep(Duration::from_millis(15)).await;
            self.barrier(true).await?;
            self.collect(false).await;
            if !self.pend.iter().any(|(_, y, _)| *y) { break; }
            let g = trace::gaps(self.c.pid);
            if g >= base.0 + 2 {
                let n = self.y_next().await?;
                if n == base.1 { break; }
                base = (g, n);
            }
            if t0.elapsed() > Duration::from_secs(120) { return Err("Y's catch-up neither finished nor went quiet in 120 s".into()); }
        }
        self.barrier(true).await?;
        self.collect(false).await;
        Ok(())
    }

    async fn snapshot(&mut self) -> Result<String, String> {
        let (x, _) = read_log(&self.sh.dbx, self.c.pid, &self.c.ids).await?;
        if self.c.co {
            let (a1, _) = read_log2(&self.sh.dba[0], self.c.pid, &self.c.ids, true).await?;
            let (a2, _) = read_log2(&self.sh.dba[1], self.c.pid, &self.c.ids, true).await?;
            return Ok(format!("X[{x}]A[{a1}]B[{a2}]"));
        }
        let (y, _) = read_log(&self.sh.dby, self.c.pid, &self.c.ids).await?;
        Ok(format!("X[{x}]Y[{y}]"))
    }

    async fn op(&mut self, i: usize) -> Result<(), String> {
        let f = self.c.ops[i].clone();
        let num = |s: &str| s.parse::<u64>().map_err(|e| format!("{s}: {e}"));
        let arg = |j: usize| f.get(j).map(|s| s.as_str()).ok_or_else(|| format!("op {} too short", f.join(",")));
        match f[0].as_str() {
            "xr" | "yr" => {
                let (tx, seq, k, fl) = (num(arg(1)?)?, num(arg(2)?)?, num(arg(3)?)?, arg(4)?.to_string());
                let y = f[0] == "yr";
                let t = self.tx(tx, k, fl.contains('b'))?;
                let msg = self.rw(t, seq, &fl, y);
                match self.send_rw(msg, y).await {
                    Some(p) => self.pend.push((i, y, p)),
                    None => self.toks[i] = Some("pend".into()),
                }
            }
            "xl" | "yl" => {
                let (tx, k, fl) = (num(arg(1)?)?, num(arg(2)?)?, arg(3)?.to_string());
                let t = self.tx(tx, k, fl.contains('b'))?;
                let db = if f[0] == "xl" { &self.sh.dbx } else { &self.sh.dby };
                self.toks[i] = Some(match db.append_events(t).await {
                    Ok(a) => format!("ok{}", a.first_partition_sequence),
                    Err(_) => "db".into(),
                });
            }
            "xe" => {
                let (tx, k, fl) = (num(arg(1)?)?, num(arg(2)?)?, arg(3)?.to_string());
                let t = self.tx(tx, k, fl.contains('b'))?;
                let r = tokio::time::timeout(Duration::from_secs(60), self.sh.cluster.ask(ExecuteTransaction::new(t))).await;
                self.toks[i] = Some(match r {
                    Ok(Ok(a)) => format!("ok{}", a.first_partition_sequence),
                    Ok(Err(SendError::HandlerError(e))) => wcode(&e),
                    Ok(Err(e)) => format!("err({})", format!("{e:?}").split_whitespace().next().unwrap_or("?")),
                    Err(_) => "timeout".into(),
                });
            }
            "xc" => {
                let (tx, seq, k, cnt, v) = (num(arg(1)?)?, num(arg(2)?)?, num(arg(3)?)?, num(arg(4)?)?, arg(5)?.to_string());
                let t = self.tx(tx, k, false)?;
                let mut event_ids: SmallVec<[Uuid; 4]> = t.events().iter().map(|e| e.event_id).collect();
                let hash = uuid_to_partition_hash(key_for(self.c.pid));
                match v.as_str() {
                    "i" => { if event_ids.len() > 1 { event_ids[1] = uuid_v7_with_partition_hash(hash); } }
                    "n" => { event_ids[0] = uuid_v7_with_partition_hash(hash); }
                    "s" => { if event_ids.len() > 1 { event_ids.pop(); } }
                    _ => {}
                }
                let n = event_ids.len() as u64;
                let msg = ConfirmTransaction {
                    partition_id: self.c.pid,
                    transaction_id: t.transaction_id(),
                    event_ids,
                    confirmation_versions: (seq..seq + n).map(|s| s + 1).collect(),
                    confirmation_count: cnt as u8,
                };
                let r = tokio::time::timeout(Duration::from_secs(60), self.sh.cluster.ask(msg)).await;
                self.toks[i] = Some(match r {
                    Ok(Ok(())) => "ok".into(),
                    Ok(Err(SendError::HandlerError(e))) => match e {
                        ConfirmTransactionError::EventsLengthMismatch => "lenmis".into(),
                        ConfirmTransactionError::EventIdMismatch => "idmis".into(),
                        ConfirmTransactionError::PartitionSequenceMismatch { .. } => "seqmis".into(),
                        ConfirmTransactionError::TransactionNotFound => "notfound".into(),
                        ConfirmTransactionError::Read(_) => "read".into(),
                        ConfirmTransactionError::Write(_) => "write".into(),
                    },
                    Ok(Err(_)) => "senderr".into(),
                    Err(_) => "timeout".into(),
                });
            }
            "a1" | "a2" => {
                let a = if f[0] == "a1" { 0 } else { 1 };
                let (tx, k, fl) = (num(arg(1)?)?, num(arg(2)?)?, arg(3)?.to_string());
                let t = self.tx(tx, k, fl.contains('b'))?;
                let first_id = t.events()[0].event_id;
                let r = tokio::time::timeout(Duration::from_secs(90), self.sh.coords[a].ask(CoWrite(t))).await;
                let q = self.sh.rf / 2 + 1;
                let tok = match r {
                    Ok(Ok(ap)) => {
                        // the coordinator told X (ConfirmTransaction, a `tell`) before it answered the client; X stores the
                        // count asynchronously: wait for it where X holds the transaction at all
                        let t0 = Instant::now();
                        loop {
                            match self.sh.dbx.read_transaction(self.c.pid, first_id).await.map_err(|e| format!("read_transaction: {e}"))? {
                                Some(c) if c.first_partition_sequence() == Some(ap.first_partition_sequence)
                                    && c.clone().into_iter().any(|e| e.confirmation_count < q) && t0.elapsed() < Duration::from_secs(30) => {
                                    tokio::time::sleep(Duration::from_millis(5)).await;
                                }
                                _ => break,
                            }
                        }
                        format!("ok{}", ap.first_partition_sequence)
                    }
                    Ok(Err(SendError::HandlerError(e))) => match e {
                        WriteError::ReplicationQuorumFailed { .. } | WriteError::RequestTimeout => "fail".into(),
                        other => wcode(&other),
                    },
                    Ok(Err(e)) => format!("err({})", format!("{e:?}").split_whitespace().next().unwrap_or("?")),
                    Err(_) => "timeout".into(),
                };
                self.toks[i] = Some(tok);
            }
            "xpad" => {
                // filler in the same bucket (another partition id, beyond the cluster's): completes the 64 KiB blocks that
                // hold this case's records, so that scans read them through the segment block cache
                let kib = num(arg(1)?)?;
                let fp = self.sh.parts + ((self.c.pid % BUCKETS) + BUCKETS - (self.sh.parts % BUCKETS)) % BUCKETS;
                let pk = key_for(fp);
                let hash = uuid_to_partition_hash(pk);
                for j in 0..kib {
                    let ev = NewEvent {
                        event_id: uuid_v7_with_partition_hash(hash),
                        stream_id: StreamId::new(format!("pad{}c{}n{}j{j}", fp, self.c.idx, self.nbar)).unwrap(),
                        stream_version: ExpectedVersion::Any,
                        event_name: "P".into(),
                        timestamp: 1,
                        metadata: vec![],
                        payload: vec![7u8; 1024],
                    };
                    let t = Transaction::new(pk, fp, SmallVec::from_vec(vec![ev])).map_err(|e| e.to_string())?;
                    self.sh.dbx.append_events(t).await.map_err(|e| format!("pad: {e}"))?;
                }
                self.toks[i] = Some("-".into());
            }
            "xR" => {
                self.barrier(false).await?;
                self.sh.cluster.ask(ResetCluster { database: self.sh.dbx.clone() }).await.map_err(|e| format!("reset: {e}"))?;
                self.toks[i] = Some("-".into());
            }
            "yR" => {
                self.stop_y().await;
                self.collect(false).await;
                // replies of writes that were still buffered are gone with the actor
                for (j, y, h) in std::mem::take(&mut self.pend) {
                    if y { self.toks[j] = Some("pend".into()); } else { self.pend.push((j, y, h)); }
                }
                self.spawn_y().await;
                self.toks[i] = Some("-".into());
            }
            "b" => {
                self.settle().await?;
                self.toks[i] = Some(self.snapshot().await?);
                return Ok(());
            }
            other => return Err(format!("bad op {other}")),
        }
        self.settle().await
    }
}

async fn run_case(sh: &Shared, c: &mut Case) -> Result<String, String> {
    let n = c.ops.len();
    let has_y = c.ops.iter().any(|o| o[0].starts_with('y'));
    let mut r = Run { sh, c, yrep: None, toks: vec![None; n], pend: Vec::new(), nbar: 0, has_y };
    if !r.c.co { r.spawn_y().await; }
    let mut err = None;
    for i in 0..n {
        if let Err(e) = r.op(i).await { err = Some(e); break; }
    }
    if err.is_none() { if let Err(e) = r.settle().await { err = Some(e); } }
    r.stop_y().await;
    r.collect(true).await;
    for (i, _, _) in std::mem::take(&mut r.pend) { r.toks[i] = Some("pend".into()); }
    if let Some(e) = err { return Err(e); }
    Ok(r.toks.iter().map(|t| t.clone().unwrap_or_else(|| "?".into())).collect::<Vec<_>>().join(";"))
}

async fn final_obs(sh: &Shared, c: &Case, res: &str) -> Result<String, String> {
    let (x, _) = read_log(&sh.dbx, c.pid, &c.ids).await?;
    if c.co {
        let (a1, _) = read_log2(&sh.dba[0], c.pid, &c.ids, true).await?;
        let (a2, _) = read_log2(&sh.dba[1], c.pid, &c.ids, true).await?;
        return Ok(format!("res={res} X={x} A1={a1} A2={a2}"));
    }
    let (y, _) = read_log(&sh.dby, c.pid, &c.ids).await?;
    let w = match sh.cluster.ask(ReadPartition { partition_id: c.pid, start_sequence: 0, end_sequence: None, count: 100_000 }).await {
        Ok(r) => r.events.len().to_string(),
        Err(e) => format!("ERR({})", e.to_string().replace([' ', '\t', '\n'], "_")),
    };
    if std::env::var_os("C10_TIMING").is_some() {
        eprintln!("cache hits {} misses {}", sierradb::cache::SegmentBlockCache::cache_hits(), sierradb::cache::SegmentBlockCache::cache_misses());
    }
    Ok(format!("res={res} X={x} Y={y} W={w}"))
}

fn open_db(dir: &std::path::Path) -> Result<Database, String> {
    DatabaseBuilder::new()
        .segment_size_bytes(8 * 1024 * 1024)
        .total_buckets(BUCKETS)
        .bucket_ids_from_range(0..BUCKETS)
        .reader_threads(1) // one reader: a count written through one reader is not seen through another reader's read-ahead (known finding of C18)
        .writer_threads(2)
        .min_sync_bytes(0)
        .open(dir)
        .map_err(|e| format!("open: {e}"))
}

async fn child_run(rf: u8, lines: Vec<String>) -> Result<Vec<(String, String)>, String> {
    let dirx = tempfile::Builder::new().prefix("sv-c10x-").tempdir().map_err(|e| e.to_string())?;
    let diry = tempfile::Builder::new().prefix("sv-c10y-").tempdir().map_err(|e| e.to_string())?;
    let dbx = open_db(dirx.path())?;
    let dby = open_db(diry.path())?;
    let dira = [tempfile::Builder::new().prefix("sv-c10a1-").tempdir().map_err(|e| e.to_string())?,
                tempfile::Builder::new().prefix("sv-c10a2-").tempdir().map_err(|e| e.to_string())?];
    let dba = [open_db(dira[0].path())?, open_db(dira[1].path())?];
    let q = rf / 2 + 1;
    // one partition per case and one that is not owned; a node starts one replicator per partition, so no more than needed
    let parts: u16 = ((lines.len() + 1).max(8)).min(PARTS as usize) as u16;
    let mut cases: Vec<Case> = Vec::new();
    let mut out: Vec<(String, Option<String>)> = Vec::new();
    for (i, l) in lines.iter().enumerate() {
        if cases.len() + 1 >= parts as usize { out.push((l.clone(), Some("HARNESS-ERROR too many cases".into()))); continue; }
        match parse_case(i, cases.len() as u16, l) {
            Some(c) => { out.push((l.clone(), None)); cases.push(c); }
            None => out.push((l.clone(), Some("BADCASE".into()))),
        }
    }
    // history: the same confirmed single-event transactions on both disks (Y may be behind)
    for c in cases.iter_mut() {
        if uuid_to_partition_hash(key_for(c.pid)) % parts != c.pid { return Err(format!("key for partition {} is wrong", c.pid)); }
        let h = c.n0x.max(c.n0a[0]).max(c.n0a[1]);
        for j in 0..h {
            // what a coordinator holds beyond X's log are its own unconfirmed appends
            let t = mk_tx(c.pid, c.idx, 900 + j, 1, false)?.with_confirmation_count(if j < c.n0x { q } else { 0 });
            c.ids.insert(t.transaction_id(), 900 + j);
            c.txs.insert(900 + j, t.clone());
            if j < c.n0x { dbx.append_events(t.clone()).await.map_err(|e| format!("prefill: {e}"))?; }
            if j < c.n0y { dby.append_events(t.clone()).await.map_err(|e| format!("prefill: {e}"))?; }
            for a in 0..2 { if j < c.n0a[a] { dba[a].append_events(t.clone()).await.map_err(|e| format!("prefill: {e}"))?; } }
        }
    }
    let cluster = ClusterActor::spawn(ClusterArgs {
        keypair: Keypair::generate_ed25519(),
        database: dbx.clone(),
        listen_addrs: vec![],
        node_count: 1,
        node_index: 0,
        bucket_count: BUCKETS,
        partition_count: parts,
        replication_factor: rf,
        assigned_partitions: HashSet::from_iter(0..parts - 1), // the last partition is NOT owned
        heartbeat_timeout: Duration::from_secs(600),
        heartbeat_interval: Duration::from_secs(600),
        replication_buffer_size: X_LIMIT,
        replication_buffer_timeout: Duration::from_secs(3600),
        replication_catchup_timeout: Duration::from_secs(3600),
        mdns: false,
    });
    cluster.wait_for_startup().await;
    let coord = cluster.clone().into_remote_ref().await;
    let confy = ConfirmationActor::new(dby.clone(), rf, (0..parts).collect()).await.map_err(|e| format!("confirmation actor: {e}"))?;
    let confy = Spawn::spawn(confy);
    // a coordinator ref this node does not know (another peer id): only (de)serialisation can build one
    let fid = kameo::actor::ActorId::new_with_peer_id(7, Keypair::generate_ed25519().public().to_peer_id());
    let foreign = rmp_serde::to_vec(&(fid,)).ok().and_then(|b| rmp_serde::from_slice::<RemoteActorRef<ClusterActor>>(&b).ok());
    if foreign.is_none() { return Err("cannot build a foreign coordinator ref".into()); }
    let mut coords = Vec::new();
    for a in 0..2 {
        let conf = ConfirmationActor::new(dba[a].clone(), rf, (0..parts).collect()).await.map_err(|e| format!("confirmation actor: {e}"))?;
        coords.push(Coordinator::spawn(Coordinator {
            db: dba[a].clone(), conf: Spawn::spawn(conf), x: cluster.clone(), xr: coord.clone(), rf,
            breaker: Arc::new(WriteCircuitBreaker::with_defaults()),
        }));
    }
    let coords: [ActorRef<Coordinator>; 2] = [coords[0].clone(), coords[1].clone()];
    let sh = Arc::new(Shared { dba: dba.clone(), coords, rf, parts, dbx: dbx.clone(), dby: dby.clone(), cluster: cluster.clone(), coord, foreign, confy });

    // phase 1: all cases without a restart run concurrently, each on its own partition
    let mut results: HashMap<usize, Result<String, String>> = HashMap::new();
    let mut handles = Vec::new();
    let mut restart_cases = Vec::new();
    let sem = Arc::new(tokio::sync::Semaphore::new(16)); // cases in flight (each has a replicator polling X)
    for c in cases.drain(..) {
        if c.restart { restart_cases.push(c); continue; }
        let sh2 = sh.clone();
        let sem2 = sem.clone();
        handles.push(tokio::spawn(async move {
            let _permit = sem2.acquire_owned().await;
            let mut c = c;
            let t0 = Instant::now();
            let r = match tokio::time::timeout(Duration::from_secs(240), run_case(&sh2, &mut c)).await { Ok(r) => r, Err(_) => Err("case timed out".into()) };
            if std::env::var_os("C10_TIMING").is_some() { eprintln!("case {} took {:?} ({} ops)", c.idx, t0.elapsed(), c.ops.len()); }
            (c, r)
        }));
    }
    let mut done = Vec::new();
    for h in handles {
        let (c, r) = h.await.map_err(|e| format!("case task: {e}"))?;
        results.insert(c.idx, r);
        done.push(c);
    }
    // phase 2: restart (memory lost, disk kept), then what each partition shows
    cluster.ask(ResetCluster { database: dbx.clone() }).await.map_err(|e| format!("reset: {e}"))?;
    let mut obs: HashMap<usize, String> = HashMap::new();
    for c in &done {
        let o = match &results[&c.idx] { Ok(res) => final_obs(&sh, c, res).await.unwrap_or_else(|e| format!("HARNESS-ERROR {e}")), Err(e) => format!("HARNESS-ERROR {e}") };
        obs.insert(c.idx, o);
    }
    // phase 3: the restart family, one case at a time
    for mut c in restart_cases {
        let r = match tokio::time::timeout(Duration::from_secs(240), run_case(&sh, &mut c)).await { Ok(r) => r, Err(_) => Err("case timed out".into()) };
        let o = match r {
            Ok(res) => {
                cluster.ask(ResetCluster { database: dbx.clone() }).await.map_err(|e| format!("reset: {e}"))?;
                final_obs(&sh, &c, &res).await.unwrap_or_else(|e| format!("HARNESS-ERROR {e}"))
            }
            Err(e) => format!("HARNESS-ERROR {e}"),
        };
        obs.insert(c.idx, o);
    }
    let mut res = Vec::new();
    for (i, (l, o)) in out.into_iter().enumerate() {
        let o = o.or_else(|| obs.remove(&i)).unwrap_or_else(|| "HARNESS-ERROR lost".into());
        res.push((l, o));
    }
    let _ = (dirx, diry, dira);
    Ok(res)
}

fn child(a: &Args, out: &mut Out) {
    let lines: Vec<String> = std::fs::read_to_string(&a.rest[0]).unwrap().lines().map(|l| l.trim().to_string()).filter(|l| !l.is_empty()).collect();
    let Some(rf) = lines.first().and_then(|l| l.split_whitespace().nth(1)).and_then(|x| x.parse::<u8>().ok()) else { return };
    tracing::subscriber::set_global_default(trace::Sub).expect("tracing subscriber");
    let rt = tokio::runtime::Builder::new_multi_thread().worker_threads(6).enable_all().build().unwrap();
    match rt.block_on(child_run(rf, lines)) {
        Ok(v) => { for (c, o) in v { out.case(&c, &o); } }
        Err(e) => { eprintln!("c10 child rf={rf}: {e}"); out.flush(); std::process::exit(3); }
    }
    out.flush();
    std::process::exit(0); // a swarm-less node has no orderly shutdown
}

/// one child process per replication factor (a process can host only one ClusterActor), in parallel
fn run_lines(a: &Args, lines: &[String], out: &mut Out) {
    let mut by_rf: std::collections::BTreeMap<u8, Vec<&String>> = Default::default();
    let mut bad = Vec::new();
    for l in lines {
        let t: Vec<&str> = l.split_whitespace().collect();
        match t.get(1).and_then(|x| x.parse::<u8>().ok()) {
            Some(rf) if (t[0] == "n" || t[0] == "co") && rf >= 1 && rf <= 12 => by_rf.entry(rf).or_default().push(l),
            _ => bad.push(l.clone()),
        }
    }
    let exe = std::env::current_exe().unwrap();
    let tmp = tempfile::tempdir().unwrap();
    let mut kids = Vec::new();
    for (rf, ls) in &by_rf {
        for (ci, chunk) in ls.chunks(PARTS as usize - 1).enumerate() {
            let f = tmp.path().join(format!("rf{rf}_{ci}.cases"));
            let mut w = std::fs::File::create(&f).unwrap();
            for l in chunk { writeln!(w, "{l}").unwrap(); }
            let k = std::process::Command::new(&exe).args([&a.prop, "child", &a.seed.to_string()]).arg(&f)
                .stdout(std::process::Stdio::piped()).stderr(std::process::Stdio::piped()).spawn().unwrap();
            kids.push((*rf, k));
        }
    }
    let mut got: HashMap<String, Vec<String>> = HashMap::new();
    let mut failed = false;
    for (rf, k) in kids {
        let o = k.wait_with_output().unwrap();
        if !o.status.success() {
            let e = String::from_utf8_lossy(&o.stderr);
            eprintln!("c10: child for rf={rf} failed: {}", &e[e.len().saturating_sub(1500)..]);
            failed = true;
            continue;
        }
        for line in String::from_utf8_lossy(&o.stdout).lines() {
            if let Some((c, ob)) = line.split_once('\t') { got.entry(c.to_string()).or_default().push(ob.to_string()); }
        }
    }
    if failed { out.flush(); std::process::exit(3); }
    for l in lines {
        if bad.contains(l) { out.case(l, "BADCASE"); continue; }
        let o = got.get_mut(l).and_then(|v| if v.is_empty() { None } else { Some(v.remove(0)) }).unwrap_or_else(|| "HARNESS-ERROR no output".into());
        out.case(l, &o);
    }
}

fn main() {
    if std::env::var_os("C10_VERBOSE").is_none() { common::silence_panics(); }
    let a = common::args();
    let mut out = Out::new();
    match a.tier.as_str() {
        "child" => child(&a, &mut out),
        "cases" => {
            let lines: Vec<String> = std::fs::read_to_string(&a.rest[0]).expect("case file").lines().map(|l| l.trim().to_string()).filter(|l| !l.is_empty() && !l.starts_with('#')).collect();
            run_lines(&a, &lines, &mut out);
        }
        t => {
            let mut rng = Rng::new(a.seed ^ if a.prop == "C11" { 0x11 } else { 0 });
            let lines = gen_cases::generate(&a.prop, t == "thorough", &mut rng);
            out.case("pins", "-"); // K5: checks/c10.py compares the pinned source functions for this pseudo-case
            run_lines(&a, &lines, &mut out);
        }
    }
    out.flush();
}
