//! Case generators for C10 / C11. Every choice comes from the one Rng.
use common::Rng;

fn q_of(rf: u8) -> u64 { rf as u64 / 2 + 1 }
/// a coordinator sends ONE confirmation count per transaction: q for the replicas of the quorum, more for late ones
fn cnt_of(rf: u8, t: u64) -> u64 { let q = q_of(rf); q + t % ((rf as u64).max(q) - q + 1) }

/// a coordinator's history: transactions 1.. with contiguous assigned sequences from n0
struct Hist { txs: Vec<(u64, u64, u64)> } // (tx, seq, k)
fn hist(rng: &mut Rng, n0: u64, m: u64) -> Hist {
    let mut s = n0;
    let mut txs = Vec::new();
    for t in 1..=m {
        let k = if rng.chance(1, 3) { rng.range(2, 3) } else { 1 };
        txs.push((t, s, k));
        s += k;
    }
    Hist { txs }
}

/// family rep: X as a replica under an arbitrary delivery order, duplicates, conflicts, stale / foreign / malformed
/// writes, confirmations (good and bad) and the node's own failed-coordinator appends
fn gen_rep(rng: &mut Rng, rf: u8, big: bool) -> String {
    let _q = q_of(rf);
    let n0 = rng.range(1, 3);
    let m = if big { rng.range(5, 9) } else { rng.range(2, 5) };
    let h = hist(rng, n0, m);
    let mut ops: Vec<String> = Vec::new();
    // delivery order: a window shuffle of the history
    let mut order: Vec<usize> = (0..h.txs.len()).collect();
    let win = rng.range(1, 4) as usize;
    for i in 0..order.len() { let j = (i + rng.below(win as u64) as usize).min(order.len() - 1); order.swap(i, j); }
    let mut next_tx = 100;
    let mut sent: Vec<usize> = Vec::new();
    for &i in &order {
        let (t, s, k) = h.txs[i];
        match rng.below(14) {
            0 => ops.push(format!("xr,{t},{s},{k},z")),
            1 => ops.push(format!("xr,{t},{s},{k},e")),
            2 => ops.push(format!("xr,{t},{s},{k},f")),
            3 => { next_tx += 1; ops.push(format!("xr,{next_tx},{s},{},-", rng.range(1, 2))); } // another transaction for the same sequence, first
            4 => { next_tx += 1; ops.push(format!("xl,{next_tx},{},-", rng.range(1, 2))); }   // the node's own coordinator append
            _ => {}
        }
        let fl = if rng.chance(1, 12) { "b" } else { "-" };
        ops.push(format!("xr,{t},{s},{k},{fl}"));
        sent.push(i);
        if rng.chance(1, 4) { ops.push(format!("xr,{t},{s},{k},-")); }                         // duplicate
        if rng.chance(1, 5) { next_tx += 1; ops.push(format!("xr,{next_tx},{s},{k},-")); }    // conflict / stale
        if rng.chance(1, 10) { next_tx += 1; ops.push(format!("xr,{next_tx},{},1,-", s + rng.range(4, 9))); } // far ahead
        // confirmations of something already sent
        if rng.chance(1, 2) {
            let (t2, s2, k2) = h.txs[*rng.pick(&sent)];
            let cnt = cnt_of(rf, t2);
            let v = match rng.below(9) { 0 => "i", 1 => "s", 2 => "n", _ => "g" };
            let s3 = if rng.chance(1, 8) && k2 > 1 { s2 + 1 } else { s2 };                   // wrong sequence: multi-event only
            ops.push(format!("xc,{t2},{s3},{k2},{cnt},{v}"));
            if rng.chance(1, 5) { ops.push(format!("xc,{t2},{s2},{k2},{cnt},g")); }          // duplicate confirmation
        }
        if rng.chance(1, 3) { ops.push("b".into()); }
    }
    // confirm the rest (mostly), so the watermark moves
    for &(t, s, k) in &h.txs { if rng.chance(2, 3) { ops.push(format!("xc,{t},{s},{k},{},g", cnt_of(rf, t))); } }
    ops.push("b".into());
    format!("n {rf} {} {n0} {n0} {}", rng.range(1, 4), ops.join(" "))
}

/// family sync: Y catches up from X (real PartitionSyncRequest / Response), possibly after diverging
fn gen_sync(rng: &mut Rng, rf: u8) -> String {
    let _q = q_of(rf);
    let n0x = rng.range(1, 4);
    let n0y = rng.range(1, n0x);
    let m = rng.range(2, 5);
    let h = hist(rng, n0x, m);
    let mut ops: Vec<String> = Vec::new();
    // X holds the history; a prefix of it is confirmed
    let conf = match rng.below(4) { 0 => h.txs.len(), 1 => 0, _ => rng.below(h.txs.len() as u64 + 1) as usize };
    for (i, &(t, s, k)) in h.txs.iter().enumerate() {
        ops.push(format!("xr,{t},{s},{k},-"));
        if i < conf || rng.chance(1, 6) { ops.push(format!("xc,{t},{s},{k},{},g", cnt_of(rf, t))); }
    }
    // Y: maybe its own unconfirmed coordinator append (divergence), maybe a restart, maybe some writes in order
    let mut ynext = n0y;
    let mut div = false;
    if rng.chance(1, 2) {
        let k = rng.range(1, 2);
        ops.push(format!("yl,{},{k},-", 200));
        ynext += k; div = true;
        if rng.chance(1, 2) { ops.push("yR".into()); }
    } else if n0y == n0x && rng.chance(1, 2) {
        let (t, s, k) = h.txs[0];
        ops.push(format!("yr,{t},{s},{k},-")); ynext += k;
    }
    let _ = (ynext, div);
    if rng.chance(1, 3) { ops.push("b".into()); }
    // the write that opens the gap, then at most three more steps
    let gi = rng.range(if h.txs.len() > 1 { 1 } else { 0 }, h.txs.len() as u64 - 1) as usize;
    let (t, s, k) = h.txs[gi];
    ops.push(format!("yr,{t},{s},{k},-"));
    for _ in 0..rng.below(3) {
        match rng.below(4) {
            0 => { let (t2, s2, k2) = h.txs[rng.below(h.txs.len() as u64) as usize]; ops.push(format!("xc,{t2},{s2},{k2},{},g", cnt_of(rf, t2))); }
            1 => { let (t2, s2, k2) = h.txs[rng.below(h.txs.len() as u64) as usize]; ops.push(format!("yr,{t2},{s2},{k2},-")); }
            2 => { for &(t2, s2, k2) in &h.txs { ops.push(format!("xc,{t2},{s2},{k2},{},g", cnt_of(rf, t2))); } }
            _ => ops.push("b".into()),
        }
    }
    ops.push("b".into());
    format!("n {rf} {} {n0x} {n0y} {}", rng.range(1, 3), ops.join(" "))
}

/// family exec: the coordinator path end to end (rf = 1 succeeds; rf > 1 has no quorum of replicas on one node)
fn gen_exec(rng: &mut Rng, rf: u8) -> String {
    let n0 = rng.range(1, 2);
    let mut ops: Vec<String> = Vec::new();
    let mut tx = 0;
    let mut next = n0;
    for _ in 0..rng.range(2, 7) {
        tx += 1;
        match rng.below(10) {
            0 => { ops.push(format!("xe,{tx},{},b", rng.range(1, 3))); }
            1 => { let k = rng.range(1, 2); ops.push(format!("xl,{tx},{k},-")); next += k; }
            2 => { let k = rng.range(1, 2); ops.push(format!("xr,{tx},{next},{k},-")); next += k; }
            _ => { let k = if rng.chance(1, 3) { rng.range(2, 4) } else { 1 }; ops.push(format!("xe,{tx},{k},-")); if rf == 1 { next += k; } }
        }
        if rng.chance(1, 3) { ops.push("b".into()); }
    }
    ops.push("b".into());
    format!("n {rf} 4 {n0} {n0} {}", ops.join(" "))
}

/// family restart: X loses its memory (ResetCluster) in the middle of a history
fn gen_restart(rng: &mut Rng, rf: u8) -> String {
    let _q = q_of(rf);
    let n0 = rng.range(1, 2);
    let m = rng.range(2, 5);
    let h = hist(rng, n0, m);
    let mut ops: Vec<String> = Vec::new();
    let at = rng.below(h.txs.len() as u64) as usize;
    for (i, &(t, s, k)) in h.txs.iter().enumerate() {
        if i == at {
            if rng.chance(1, 2) { ops.push(format!("xl,{},1,-", 300)); }
            if i + 1 < h.txs.len() && rng.chance(1, 2) { let (t2, s2, k2) = h.txs[i + 1]; ops.push(format!("xr,{t2},{s2},{k2},-")); } // buffered, lost by the restart
            ops.push("xR".into());
        }
        ops.push(format!("xr,{t},{s},{k},-"));
        if rng.chance(1, 2) { ops.push(format!("xc,{t},{s},{k},{},g", cnt_of(rf, t))); }
        if rf == 1 && rng.chance(1, 3) { ops.push(format!("xe,{},1,-", 400 + i)); break; }
    }
    ops.push("b".into());
    format!("n {rf} 4 {n0} {n0} {}", ops.join(" "))
}


/// family co: two real coordinators (transaction::spawn on their own databases) against the real node X as their replica.
/// The logs diverge: a coordinator behind X is answered StaleWrite, one level with X is answered Ok (a quorum for rf 2, 3;
/// not for rf >= 4), one whose sequence is taken by another write waiting in X's buffer gets SequenceConflict, one ahead
/// of X gets no answer (its write waits in X's buffer: the coordinator's 10 s time-out) - at most `slow` such writes.
fn gen_co(rng: &mut Rng, rf: u8, mut slow: u32) -> String {
    let n0x = rng.range(1, 3);
    let rel = |rng: &mut Rng| -> u64 {
        match rng.below(7) {
            0..=2 => n0x,
            3 => n0x - 1,
            4 => rng.below(n0x + 1),
            _ => if slow > 0 { n0x + rng.range(1, 2) } else { n0x },
        }
    };
    let mut a0 = [rel(rng), rel(rng)];
    // the common history is confirmed: a quorum of {X, A1, A2} must hold it (q - 1 coordinators at least level with X)
    let q = q_of(rf);
    if q >= 3 { a0 = [a0[0].max(n0x), a0[1].max(n0x)]; }
    else if a0[0] < n0x && a0[1] < n0x { a0[rng.below(2) as usize] = n0x; }
    let mut la = a0;
    // the generator's idea of X (only to steer; the truth comes from the run)
    let mut xnext = n0x;
    let mut buf: std::collections::BTreeMap<u64, u64> = Default::default();
    let apply = |xnext: &mut u64, buf: &mut std::collections::BTreeMap<u64, u64>, k: u64| {
        *xnext += k;
        loop {
            buf.retain(|&s, _| s >= *xnext);
            match buf.remove(&*xnext) { Some(k2) => *xnext += k2, None => break }
        }
    };
    let mut ops: Vec<String> = Vec::new();
    let mut tx = 0u64;
    for _ in 0..rng.range(2, 6) {
        tx += 1;
        let k = if rng.chance(1, 4) { rng.range(2, 3) } else { 1 };
        match rng.below(12) {
            0 if buf.len() < 3 => {                                   // another coordinator's write waits ahead in X's buffer
                let s = xnext + rng.range(1, 2);
                if !buf.contains_key(&s) { ops.push(format!("xr,{},{s},1,-", 50 + tx)); buf.insert(s, 1); }
            }
            1 => { ops.push(format!("xr,{},{xnext},1,-", 50 + tx)); apply(&mut xnext, &mut buf, 1); }   // X moves on without the coordinators
            2 => { ops.push(format!("a{},{tx},{k},b", rng.range(1, 2))); }                              // the coordinator's own database refuses
            _ => {
                let mut a = rng.below(2) as usize;
                // a write ahead of X that finds its slot free is never answered: 10 s
                let waits = |a: usize| la[a] > xnext && !buf.contains_key(&la[a]);
                if waits(a) && slow == 0 { a = 1 - a; }
                if waits(a) { if slow == 0 { continue; } slow -= 1; buf.insert(la[a], k); }
                else if la[a] == xnext { apply(&mut xnext, &mut buf, k); }
                ops.push(format!("a{},{tx},{k},-", a + 1));
                la[a] += k;
            }
        }
        if rng.chance(1, 3) { ops.push("b".into()); }
    }
    ops.push("b".into());
    format!("co {rf} {n0x} {} {} {}", a0[0], a0[1], ops.join(" "))
}

pub fn generate(prop: &str, thorough: bool, rng: &mut Rng) -> Vec<String> {
    let c11 = prop == "C11";
    let rfs: &[u8] = if thorough { &[1, 2, 3, 4, 5, 7] } else { &[1, 2, 3, 4, 5] };
    let mut v = Vec::new();
    for &rf in rfs {
        let (nrep, nsync, nexec, nres) = match (thorough, c11) {
            (false, false) => (30, 10, if rf == 1 { 10 } else { 2 }, 3),
            (false, true) => (20, 8, if rf == 1 { 36 } else { 4 }, 3),
            (true, false) => (400, 90, if rf == 1 { 80 } else { 10 }, 12),
            (true, true) => (200, 60, if rf == 1 { 300 } else { 20 }, 12),
        };
        let (nrep, nsync, nexec, nres) = if !thorough && rf == 4 { (0, 0, 0, 0) } else { (nrep, nsync, nexec, nres) }; // quick: rf 4 only for the coordinator family
        for i in 0..nrep { v.push(gen_rep(rng, rf, i % 5 == 4)); }
        for _ in 0..nsync { v.push(gen_sync(rng, rf)); }
        for _ in 0..nexec { v.push(gen_exec(rng, rf)); }
        for _ in 0..nres { v.push(gen_restart(rng, rf)); }
        // the coordinator path with real replies: rf 2, 3 reach a quorum with the one replica, 4 (5 in thorough) never do
        let nco = match (rf, thorough) { (1, _) => 0, (2 | 3, false) => 24, (_, false) => 6, (2 | 3, true) => 200, (_, true) => 40 };
        for i in 0..nco { v.push(gen_co(rng, rf, if i % 8 == 7 { 1 } else { 0 })); }
    }
    v
}
