//! case generators (filled in below)
use common::Rng;
pub fn generate(_prop: &str, _thorough: bool, _rng: &mut Rng) -> Vec<String> {
    vec!["n 3 4 2 2 xr,1,2,1,- xc,1,2,1,2,g xr,2,3,1,- xc,2,3,1,2,g yl,5,1,- yr,2,3,1,- b".to_string()]
}
